(* Extract.v — extraction of the executable models to OCaml (compiled from ocaml/_gen, see bin/setup).
   Only ExtrOcamlBasic is used: bool, option, unit, prod, list, sumbool map to their OCaml counterparts;
   Z / positive / N / nat stay the extracted inductive types. No Extract Constant. *)
Require Import ExtrOcamlBasic.
From SP Require Import Sim AddressModel AcceptSync.
Extraction "spmodel.ml" run_case uri_dissect hostserv_dissect regex_subjects_uri regex_subjects_hostserv to_string_model view_eq view_lt c_str exn_code accept_sync.
