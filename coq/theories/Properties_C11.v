(* Properties_C11.v — Address construction is total; what reaches the recursive regex matcher is bounded.
   Totality is immediate for a Gallina function (uri_dissect / hostserv_dissect are total and their outcome is a value to resolve or
   an exception derived from std::exception); the content is (a) the correspondence of these functions with the real constructor on
   hostile inputs, run in isolated processes with a measured stack, and (b) the bound below: std::regex_match recurses with every
   character, so stack use is bounded iff the text handed to it is — independently of the length of the caller's string. *)
From SP Require Import Base ListAux AddressModel.
Local Open Scope Z_scope.

(* every constructor outcome of the model is a value to resolve or one of the exception types of Base.exn, all of which
   stand for classes derived from std::exception *)
Theorem ctor_outcome_total : forall uri host serv,
  ((exists h s n, uri_dissect uri = DOk h s n) \/ (exists e, uri_dissect uri = DExn e)) /\
  ((exists h s n, hostserv_dissect host serv = DOk h s n) \/ (exists e, hostserv_dissect host serv = DExn e)).
Proof.
  intros. split.
  - destruct (uri_dissect uri); eauto.
  - destruct (hostserv_dissect host serv); eauto.
Qed.

Lemma take_while_length p l : (length (take_while p l) <= length l)%nat.
Proof. induction l as [|c t IH]; cbn; [lia|]. destruct (p c); cbn; lia. Qed.

Lemma c_str_length s : (length (c_str s) <= length s)%nat.
Proof. apply take_while_length. Qed.

Lemma sub_length l p n : (length (sub l p n) <= length l)%nat.
Proof. unfold sub. rewrite firstn_length, skipn_length. lia. Qed.

Lemma re_serv_lengths t scheme au : re_serv t = Some (scheme, au) ->
  (length scheme <= length t)%nat /\ (length au <= length t)%nat.
Proof.
  unfold re_serv. set (k := length (take_while is_word t)).
  assert (Hk : (k <= length t)%nat) by apply take_while_length.
  destruct (starts_with [COLON; SLASH; SLASH] (skipn k t)).
  - destruct (re_tail t (k + 3)) as [[p n]|].
    + intros H. inversion H; subst. split; [rewrite firstn_length; lia|apply sub_length].
    + destruct (re_tail t 0) as [[p n]|]; intros H; inversion H; subst. split; [cbn; lia|apply sub_length].
  - destruct (re_tail t 0) as [[p n]|]; intros H; inversion H; subst. split; [cbn; lia|apply sub_length].
Qed.

(* every text handed to a regular expression while constructing an Address from a URI is at most AUTHORITY_MAX long,
   however long the URI is *)
Theorem regex_input_bounded_uri : forall uri s, In s (regex_subjects_uri uri) -> (length s <= AUTHORITY_MAX)%nat.
Proof.
  intros uri s. unfold regex_subjects_uri. set (t := trim_path uri).
  destruct (Nat.ltb AUTHORITY_MAX (length t)) eqn:E; [intros []|]. apply Nat.ltb_ge in E.
  destruct (re_serv t) as [[scheme au]|] eqn:Er.
  - destruct (re_serv_lengths _ _ _ Er) as [Hs Ha].
    destruct (re_port au); cbn [In]; intros H.
    + destruct H as [<-|[<-|[<-|[]]]]; lia.
    + destruct H as [<-|[<-|[<-|[<-|[]]]]]; try lia. pose proof (c_str_length scheme). lia.
  - intros [<-|[]]. lia.
Qed.

(* ... and the service argument of the pair constructor at most NI_MAXSERV *)
Theorem regex_input_bounded_pair : forall host serv s, In s (regex_subjects_hostserv host serv) -> (length s <= SERV_MAX)%nat.
Proof.
  intros host serv s. unfold regex_subjects_hostserv. destruct host; [intros []|]. destruct serv as [|c t]; [intros []|].
  destruct (Nat.ltb SERV_MAX (length (c :: t))) eqn:E; [intros []|]. apply Nat.ltb_ge in E.
  intros [<-|[]]. pose proof (c_str_length (c :: t)). lia.
Qed.

(* the path is cut off, never anything else: what is dissected is a prefix of the input *)
Theorem trim_path_is_prefix : forall uri, exists rest, uri = trim_path uri ++ rest.
Proof.
  intros uri. unfold trim_path. destruct (find_from is_slash uri 0 0) as [pos|]; [|exists []; now rewrite app_nil_r].
  match goal with |- context [if ?c then _ else _] => destruct c end.
  - destruct (find_from is_slash uri (pos + 2) 0) as [p2|]; [|exists []; now rewrite app_nil_r].
    exists (skipn p2 uri). now rewrite firstn_skipn.
  - exists (skipn pos uri). now rewrite firstn_skipn.
Qed.

Example c11_nonvacuous :
  uri_dissect ([49;50;55;46;48;46;48;46;49;58;56;48;47] ++ repeat 97 5000) = DOk [49;50;55;46;48;46;48;46;49] [56;48] true /\
  regex_subjects_uri ([49;50;55;46;48;46;48;46;49;58;56;48;47] ++ repeat 97 5000) <> [] /\
  uri_dissect (repeat 104 2000) = DExn (InvalidArg 5).
Proof. vm_compute. repeat split; try reflexivity. discriminate. Qed.

Print Assumptions ctor_outcome_total.
Print Assumptions regex_input_bounded_uri.
Print Assumptions regex_input_bounded_pair.
Print Assumptions trim_path_is_prefix.
