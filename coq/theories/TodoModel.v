(* TodoModel.v — src/todo_impl.cpp: the list of pending ToDos, sorted by due time (pure functions). *)
From SP Require Export Base.
Local Open Scope Z_scope.

(* an entry of the driver's list: (ToDo identity, due time in ns of the steady clock) *)
Definition tentry := (Z * Z)%type.

(* ToDos::Insert: before the first element that is strictly later (find_if WhenBefore) *)
Fixpoint todo_insert (id when : Z) (l : list tentry) : list tentry :=
  match l with
  | [] => [(id, when)]
  | (i, w) :: t => if when <? w then (id, when) :: (i, w) :: t else (i, w) :: todo_insert id when t
  end.

(* ToDos::Remove: erase the first element with that identity, if any *)
Fixpoint todo_remove (id : Z) (l : list tentry) : list tentry :=
  match l with
  | [] => []
  | (i, w) :: t => if i =? id then t else (i, w) :: todo_remove id t
  end.

(* ToDos::Move: Remove, set when, Insert *)
Definition todo_move (id when : Z) (l : list tentry) : list tentry :=
  todo_insert id when (todo_remove id l).

Definition todo_ids (l : list tentry) : list Z := map fst l.
Definition todo_whens (l : list tentry) : list Z := map snd l.
