(* Sim.v — interpreter of API-operation histories over the library model (single-threaded part).
   A case = list of raw operations + oracle script + fault overlay; the result is the trace
   (system calls, API results, handler invocations) that the C++ harness must reproduce on the same case. *)
From SP Require Export BufferedModel.
Local Open Scope Z_scope.

(* ---- object tables --------------------------------------------------------------------------- *)
Record sock := {
  s_fd : Z;
  s_kind : Z;            (* 1 TCP, 2 UDP, 3 acceptor *)
  s_open : bool;
  s_buffered : bool;
  s_rxsize : Z;
  s_pool : pool
}.

Record ext := {
  x_pools : list (Z * pool);          (* user pools by key *)
  x_socks : list (Z * sock);          (* sockets by key *)
  x_names : list (Z * Z)              (* buffers (owner, id) in order of first appearance: name = index *)
}.

Definition ext_init : ext := {| x_pools := []; x_socks := []; x_names := [] |}.

Section Assoc.
Context {V : Type}.
Fixpoint aget (k : Z) (l : list (Z * V)) : option V :=
  match l with [] => None | (k', v) :: t => if k' =? k then Some v else aget k t end.
Fixpoint aset (k : Z) (v : V) (l : list (Z * V)) : list (Z * V) :=
  match l with
  | [] => [(k, v)]
  | (k', v') :: t => if k' =? k then (k, v) :: t else (k', v') :: aset k v t
  end.
End Assoc.

Definition dummy_pool : pool := {| p_max := 0; p_idle := []; p_busy := []; p_next := 0 |}.

(* owner keys: user pool p -> p; pool of socket s -> 1000 + s *)
Definition owner_pool (x : ext) (owner : Z) : pool :=
  if owner <? 1000 then match aget owner (x_pools x) with Some p => p | None => dummy_pool end
  else match aget (owner - 1000) (x_socks x) with Some s => s_pool s | None => dummy_pool end.

Definition set_owner_pool (owner : Z) (x : ext) (p : pool) : ext :=
  if owner <? 1000 then {| x_pools := aset owner p (x_pools x); x_socks := x_socks x; x_names := x_names x |}
  else match aget (owner - 1000) (x_socks x) with
       | Some s => {| x_pools := x_pools x;
                      x_socks := aset (owner - 1000)
                                   {| s_fd := s_fd s; s_kind := s_kind s; s_open := s_open s;
                                      s_buffered := s_buffered s; s_rxsize := s_rxsize s; s_pool := p |} (x_socks x);
                      x_names := x_names x |}
       | None => x
       end.

Fixpoint find_name (o i : Z) (l : list (Z * Z)) (idx : Z) : option Z :=
  match l with
  | [] => None
  | (o', i') :: t => if (o' =? o) && (i' =? i) then Some idx else find_name o i t (idx + 1)
  end.

Local Notation M := (M ext).

(* name of buffer (owner, id): index of first appearance (registered on demand) *)
Definition name_of (owner id : Z) : M Z :=
  x <- get_ext ;;
  match find_name owner id (x_names x) 0 with
  | Some n => ret n
  | None => put_ext {| x_pools := x_pools x; x_socks := x_socks x; x_names := x_names x ++ [(owner, id)] |} ;;;
            ret (Z.of_nat (length (x_names x)))
  end.

Definition buffer_of_name (name : Z) : M (Z * Z) :=
  x <- get_ext ;;
  match nth_error (x_names x) (Z.to_nat name) with
  | Some oi => ret oi
  | None => bad 101
  end.

Definition get_sock (k : Z) : M sock :=
  x <- get_ext ;; match aget k (x_socks x) with Some s => ret s | None => bad 102 end.

Definition put_sock (k : Z) (s : sock) : M unit :=
  x <- get_ext ;; put_ext {| x_pools := x_pools x; x_socks := aset k s (x_socks x); x_names := x_names x |}.

Definition open_sock (k kind : Z) : M sock :=
  s <- get_sock k ;;
  if s_open s && (s_kind s =? kind) then ret s else bad 103.

(* ---- trace of API-level results -------------------------------------------------------------- *)
Definition K_RET := 20.        (* [opcode; 1; results...] or [opcode; 0; exception code...] *)

Definition report_ok (opc : Z) (vals : list Z) : M unit := emit K_RET (opc :: 1 :: vals).

(* run an API call; a C++ exception is what the caller observes: record it *)
Definition api (opc : Z) (m : M (list Z)) : M unit :=
  catch (vals <- m ;; report_ok opc vals)
        (fun e => emit K_RET (opc :: 0 :: exn_code e)).

Definition new_sock (fd kind : Z) : sock :=
  {| s_fd := fd; s_kind := kind; s_open := true; s_buffered := false; s_rxsize := 0; s_pool := dummy_pool |}.

Definition is_busy (id : Z) (l : list buf) : bool := existsb (fun b => b_id b =? id) l.

Definition capok (reserve cap : Z) : Z := if reserve <=? cap then 1 else 0.

(* ---- operations ------------------------------------------------------------------------------- *)
Definition run_op (r : raw) : M unit :=
  let '(opc, a) := r in
  let a0 := nthZ a 0 in let a1 := nthZ a 1 in let a2 := nthZ a 2 in let a3 := nthZ a 3 in
  match opc with
  (* 10 POOL_NEW p n reserve *)
  | 10 => x <- get_ext ;;
          put_ext {| x_pools := aset a0 (pool_new 0 a1 a2) (x_pools x); x_socks := x_socks x; x_names := x_names x |} ;;;
          report_ok opc []
  (* 11 POOL_GET p reserve  -> name size capok *)
  | 11 => api opc (b <- pool_get_m (fun x => owner_pool x a0) (set_owner_pool a0) ;;
                   n <- name_of a0 (b_id b) ;; ret [n; b_size b; capok a1 (b_cap b)])
  (* 12 BUF_RELEASE name : drop the BufferPtr if the user still holds it (no-op otherwise, also for unknown names) *)
  | 12 => api opc (x <- get_ext ;;
                   match nth_error (x_names x) (Z.to_nat a0) with
                   | Some oi =>
                       if (0 <=? a0) && is_busy (snd oi) (p_busy (owner_pool x (fst oi)))
                       then pool_recycle_m (fun x => owner_pool x (fst oi)) (set_owner_pool (fst oi)) (snd oi) ;;; ret []
                       else ret []
                   | None => ret []
                   end)
  (* 13 BUF_RESIZE name n : the user resizes a buffer it holds *)
  | 13 => api opc (oi <- buffer_of_name a0 ;;
                   pool_resize_m (fun x => owner_pool x (fst oi)) (set_owner_pool (fst oi)) (snd oi) a1 ;;; ret [])
  (* 20 TCP_NEW s / 21 UDP_NEW s / 22 ACC_NEW s *)
  | 20 => api opc (fd <- tcp_client_new ;; put_sock a0 (new_sock fd 1) ;;; ret [])
  | 21 => api opc (fd <- udp_new ;; put_sock a0 (new_sock fd 2) ;;; ret [])
  | 22 => api opc (fd <- acceptor_new ;; put_sock a0 (new_sock fd 3) ;;; ret [])
  (* 23 TCP_SEND s size timeout -> n *)
  | 23 => s <- open_sock a0 1 ;; api opc (n <- sock_send (s_fd s) a1 a2 ;; ret [n])
  (* 24 TCP_RECV s size timeout -> n | -1 *)
  | 24 => s <- open_sock a0 1 ;;
          api opc (r <- receive (s_fd s) a1 a2 ;; ret [match r with Some n => n | None => -1 end])
  (* 25 UDP_SENDTO s size dst timeout -> n *)
  | 25 => s <- open_sock a0 2 ;; api opc (n <- sock_sendto (s_fd s) a1 a2 a3 ;; ret [n])
  (* 26 UDP_RECVFROM s size timeout -> n src | -1 *)
  | 26 => s <- open_sock a0 2 ;;
          api opc (r <- sock_recvfrom (s_fd s) a1 a2 ;;
                   ret (match r with Some (n, src) => [n; src] | None => [-1] end))
  (* 27 ACC_LISTEN s timeout news -> 1 peer | 0 *)
  | 27 => s <- open_sock a0 3 ;;
          api opc (r <- acceptor_listen (s_fd s) a1 ;;
                   match r with
                   | Some (cfd, peer) => put_sock a2 (new_sock cfd 1) ;;; ret [1; peer]
                   | None => ret [0]
                   end)
  (* 28 DESTROY s : close the descriptor (buffers must have been released by the case) *)
  | 28 => s <- get_sock a0 ;;
          (if s_open s then sys_close (s_fd s) else ret tt) ;;;
          put_sock a0 {| s_fd := s_fd s; s_kind := s_kind s; s_open := false; s_buffered := s_buffered s;
                         s_rxsize := s_rxsize s; s_pool := s_pool s |} ;;;
          report_ok opc []
  (* 30 BUFFERED_NEW s count size : wrap socket s (TCP or UDP) into its buffered variant *)
  | 30 => s <- get_sock a0 ;;
          if negb (s_open s) then bad 104 else
          api opc (
            (* moved-in socket is closed if determining the buffer size fails *)
            rx <- (if a2 =? 0
                   then catch (check_setup S_GETSOCKOPT (s_fd s) ;;; ret RCVBUF_DEFAULT)
                              (fun e => sys_close (s_fd s) ;;;
                                        put_sock a0 {| s_fd := s_fd s; s_kind := s_kind s; s_open := false;
                                                       s_buffered := false; s_rxsize := 0; s_pool := s_pool s |} ;;;
                                        throw e)
                   else ret a2) ;;
            put_sock a0 {| s_fd := s_fd s; s_kind := s_kind s; s_open := true; s_buffered := true;
                           s_rxsize := rx; s_pool := pool_new 0 a1 rx |} ;;;
            ret [rx])
  (* 32 BUF_RECV s timeout -> name size | -1 *)
  | 32 => s <- open_sock a0 1 ;;
          api opc (r <- buffered_receive (fun x => owner_pool x (1000 + a0)) (set_owner_pool (1000 + a0))
                                         (s_fd s) (s_rxsize s) a1 ;;
                   match r with
                   | Some (id, n) => nm <- name_of (1000 + a0) id ;; ret [nm; n]
                   | None => ret [-1]
                   end)
  (* 33 BUF_RECVFROM s timeout -> name size src | -1 *)
  | 33 => s <- open_sock a0 2 ;;
          api opc (r <- buffered_recvfrom (fun x => owner_pool x (1000 + a0)) (set_owner_pool (1000 + a0))
                                          (s_fd s) (s_rxsize s) a1 ;;
                   match r with
                   | Some (id, n, src) => nm <- name_of (1000 + a0) id ;; ret [nm; n; src]
                   | None => ret [-1]
                   end)
  | _ => bad 100
  end.

Fixpoint run_ops (ops : list raw) : M unit :=
  match ops with
  | [] => ret tt
  | o :: t => run_op o ;;; run_ops t
  end.

Fixpoint decode_script (l : list raw) : option (list ev) :=
  match l with
  | [] => Some []
  | r :: t => match ev_decode r, decode_script t with
              | Some e, Some es => Some (e :: es)
              | _, _ => None
              end
  end.

(* final marker: [0] completed; [1; why] script does not fit; [2; ub] undefined behaviour reached;
   [3; ..] exception escaped (cannot happen: every op catches) ; last entry [unused script events] *)
Definition K_END := 99.

Definition run_case (ops : list raw) (script : list raw) (faults : list (Z * Z)) : list raw :=
  match decode_script script with
  | None => [(K_END, [1; 0; 0])]
  | Some sc =>
      let '(r, s) := run_ops ops (os_init ext_init sc faults) in
      let left := Z.of_nat (length (o_script s)) in
      let fin := match r with
                 | Ok _ => [0; 0; left]
                 | Bad w => [1; w; left]
                 | Stuck u => [2; u; left]
                 | Exn e => 3 :: exn_code e
                 end in
      rev ((K_END, fin) :: o_trace s)
  end.
