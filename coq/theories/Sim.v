(* Sim.v — interpreter of API-operation histories over the library model (single-threaded part).
   A case = list of raw operations + oracle script + fault overlay; the result is the trace
   (system calls, API results, handler invocations, futures, pool and driver state) that the C++ harness
   (harness/sim.cpp) must reproduce on the same case. *)
From SP Require Export TlsModel.
Local Open Scope Z_scope.

Definition new_sock (fd kind : Z) : sock :=
  {| s_fd := fd; s_kind := kind; s_open := true; s_buffered := false; s_rxsize := 0; s_pool := dummy_pool;
     s_async := false; s_peer := 0; s_sendq := []; s_h1 := 0; s_h2 := 0 |}.

Definition open_sock (k kind : Z) : MX sock :=
  s <- get_sock k ;;
  if s_open s && (s_kind s =? kind) then ret s else bad 103.

Definition capok (reserve cap : Z) : Z := if reserve <=? cap then 1 else 0.

(* wrap into the buffered variant: SocketBufferedImpl(sock, count, size); the moved-in socket is closed if
   determining the receive buffer size fails *)
Definition make_buffered (k count size : Z) : MX Z :=
  s <- get_sock k ;;
  rx <- (if size =? 0
         then catch (check_setup S_GETSOCKOPT (s_fd s) ;;; ret RCVBUF_DEFAULT)
                    (fun e => sys_close (s_fd s) ;;; put_sock k (s <| s_open := false |>) ;;; throw e)
         else ret size) ;;
  pl <- fresh_pool count rx ;;
  put_sock k (s <| s_buffered := true |> <| s_rxsize := rx |> <| s_pool := pl |>) ;;;
  ret rx.

(* break the promises of queued sends and hand their buffers back (destruction of the send queue) *)
Fixpoint drop_sendq (q : list (Z * Z * Z * Z)) : MX unit :=
  match q with
  | [] => ret tt
  | (f, owner, id, _) :: t => resolve f 3 [] ;;; precycle owner id ;;; drop_sendq t
  end.

(* destructor of any socket object *)
Definition destroy_sock (k : Z) : MX unit :=
  s <- get_sock k ;;
  if negb (s_open s) then ret tt else
  (if s_async s then async_unregister k (s_fd s) ;;; drop_sendq (s_sendq s) else ret tt) ;;;
  tl <- is_tls k ;; (if tl && (s_kind s =? 1) then tls_dtor k else ret tt) ;;;
  sys_close (s_fd s) ;;;
  upd_sock k (fun s => s <| s_open := false |> <| s_sendq := [] |>).

(* SocketTcpAsync / SocketUdpAsync / AcceptorAsync constructors over socket k *)
Definition make_async (k h1 h2 : Z) : MX unit :=
  s <- get_sock k ;;
  if s_kind s =? 1 then
    (* TCP: cache the peer address (getpeername) before registering; the moved-in socket dies if that fails *)
    e <- sys_setup S_GETPEERNAME (s_fd s) ;;
    if negb (e =? 0) then sys_close (s_fd s) ;;; put_sock k (s <| s_open := false |>) ;;; throw (SysErr e)
    else put_sock k (s <| s_async := true |> <| s_h1 := h1 |> <| s_h2 := h2 |>) ;;;
         async_register k (s_fd s)
  else if s_kind s =? 2 then
    put_sock k (s <| s_async := true |> <| s_h1 := h1 |> <| s_h2 := h2 |>) ;;; async_register k (s_fd s)
  else
    (* acceptor: buffered impl without receive buffers, register, then listen; unregister + close if listen fails *)
    pl <- fresh_pool 0 1 ;;
    put_sock k (s <| s_async := true |> <| s_h1 := h1 |> <| s_buffered := true |> <| s_rxsize := 1 |> <| s_pool := pl |>) ;;;
    async_register k (s_fd s) ;;;
    catch (check_setup S_LISTEN (s_fd s)) (fun e => destroy_sock k ;;; throw e).

(* SocketTcpAsync::Send(buffer) / SocketUdpAsync::SendTo(buffer, dst): buffer obtained from user pool p *)
Definition async_send (k p size dst : Z) : MX (list Z) :=
  s <- get_sock k ;;
  b <- pget p ;;
  presize p (b_id b) size ;;;
  _ <- name_of p (b_id b) ;;
  f <- new_future ;;
  let was_empty := match s_sendq s with [] => true | _ => false end in
  upd_sock k (fun s => s <| s_sendq := s_sendq s ++ [(f, p, b_id b, dst)] |>) ;;;
  (if was_empty then async_want_send (s_fd s) else ret tt) ;;;
  ret [f; k; size; dst].

Definition upd_todo_handle (id : Z) : MX unit :=
  t <- get_todo id ;; put_todo id (t <| to_handle := false |>).

Fixpoint release_all (names : list (Z * Z)) : MX unit :=
  match names with
  | [] => ret tt
  | (o, i) :: t => release_if_held o i ;;; release_all t
  end.

(* a scenario key is reused: the object it named before is destroyed first *)
Definition fresh_key (k : Z) : MX unit :=
  x <- get_ext ;; match aget k (x_socks x) with Some _ => destroy_sock k | None => ret tt end.

Definition drv_alive : MX driver := d <- get_driver ;; if d_alive d then ret d else bad 130.

(* ---- operations that may appear at top level and inside blocks (tasks / handlers) ----------------------- *)
Definition run_simple_op0 (r : raw) : MX unit :=
  let '(opc, a) := r in
  let a0 := nthZ a 0 in let a1 := nthZ a 1 in let a2 := nthZ a 2 in let a3 := nthZ a 3 in let a4 := nthZ a 4 in
  match opc with
  (* 10 POOL_NEW p n reserve *)
  | 10 => pl <- fresh_pool a1 a2 ;; x <- get_ext ;; put_ext (x <| x_pools := aset a0 pl (x_pools x) |>) ;;; report_ok opc []
  (* 11 POOL_GET p reserve  -> name size capok *)
  | 11 => api opc (b <- pget a0 ;; hold a0 (b_id b) ;;; n <- name_of a0 (b_id b) ;; ret [n; b_size b; capok a1 (b_cap b)])
  (* 12 BUF_RELEASE name : drop the BufferPtr if the user still holds it (no-op otherwise, also for unknown names) *)
  | 12 => api opc (x <- get_ext ;;
                   match nth_error (x_names x) (Z.to_nat a0) with
                   | Some oi => (if 0 <=? a0 then release_if_held (fst oi) (snd oi) else ret tt) ;;; ret []
                   | None => ret []
                   end)
  (* 13 BUF_RESIZE name n : the user resizes a buffer it holds *)
  | 13 => api opc (x <- get_ext ;;
                   match nth_error (x_names x) (Z.to_nat a0) with
                   | Some oi => (if (0 <=? a0) && is_held (fst oi) (snd oi) (x_held x) then presize (fst oi) (snd oi) a1 else ret tt) ;;; ret []
                   | None => ret []
                   end)
  (* 14 RELEASE_ALL : the user drops every BufferPtr it holds (in order of buffer names) *)
  | 14 => x <- get_ext ;; api opc (release_all (x_names x) ;;; ret [])
  (* 20 TCP_NEW s / 21 UDP_NEW s / 22 ACC_NEW s *)
  | 20 => fresh_key a0 ;;; api opc (fd <- tcp_client_new ;; put_sock a0 (new_sock fd 1 <| s_peer := 100 + a0 |>) ;;; ret [fd; a0])
  | 21 => fresh_key a0 ;;; api opc (fd <- udp_new ;; put_sock a0 (new_sock fd 2) ;;; ret [fd; a0])
  | 22 => fresh_key a0 ;;; api opc (fd <- acceptor_new ;; put_sock a0 (new_sock fd 3) ;;; ret [fd; a0])
  (* 23 TCP_SEND s size timeout -> n *)
  | 23 => s <- open_sock a0 1 ;; tl <- is_tls a0 ;;
          if tl then
            (* usage rule of TLS sockets (socket_tls_impl.h): a send that did not go through is retried with the same data —
               the scenario resends exactly what is pending, whatever size the operation names *)
            t <- get_tls a0 ;;
            let size := if t_pend t =? -1 then a1 else t_pend t in
            api opc (n <- tls_send a0 size a2 ;; ret [n])
          else api opc (n <- sock_send (s_fd s) a1 a2 ;; ret [n])
  (* 24 TCP_RECV s size timeout -> n | -1 *)
  | 24 => s <- open_sock a0 1 ;;
          tl <- is_tls a0 ;;
          api opc (r <- (if tl then tls_receive a0 a1 a2 else receive (s_fd s) a1 a2) ;; ret [match r with Some n => n | None => -1 end])
  (* 25 UDP_SENDTO s size dst timeout -> n *)
  | 25 => s <- open_sock a0 2 ;; api opc (n <- sock_sendto (s_fd s) a1 a2 a3 ;; ret [n])
  (* 26 UDP_RECVFROM s size timeout -> n src | -1 *)
  | 26 => s <- open_sock a0 2 ;;
          api opc (r <- sock_recvfrom (s_fd s) a1 a2 ;;
                   ret (match r with Some (n, src) => [n; src] | None => [-1] end))
  (* 27 ACC_LISTEN s timeout news -> 1 peer | 0 *)
  | 27 => s <- open_sock a0 3 ;; fresh_key a2 ;;;
          api opc (r <- acceptor_listen (s_fd s) a1 ;;
                   match r with
                   | Some (cfd, peer) => put_sock a2 (new_sock cfd 1 <| s_peer := peer |>) ;;;
                                         tl <- is_tls a0 ;; (if tl then put_tls a2 (tls0 <| t_server := true |>) else ret tt) ;;;      (* AcceptorTlsImpl::Accept *)
                                         ret [1; peer; cfd; a2]
                   | None => ret [0]
                   end)
  (* 28 DESTROY s *)
  | 28 => api opc (destroy_sock a0 ;;; ret [a0])
  (* 30 BUFFERED_NEW s count size : wrap socket s (TCP or UDP) into its buffered variant *)
  | 30 => s <- get_sock a0 ;;
          if negb (s_open s) then bad 104 else api opc (rx <- make_buffered a0 a1 a2 ;; ret [rx])
  (* 32 BUF_RECV s timeout -> name size | -1 *)
  | 32 => s <- open_sock a0 1 ;;
          tl <- is_tls a0 ;;
          api opc (r <- (if tl then tls_buffered_receive a0 (s_rxsize s) a1
                         else buffered_receive (fun x => owner_pool x (1000 + a0)) (set_owner_pool (1000 + a0))
                                               (s_fd s) (s_rxsize s) a1) ;;
                   match r with
                   | Some (id, n) => hold (1000 + a0) id ;;; nm <- name_of (1000 + a0) id ;; ret [nm; n]
                   | None => ret [-1]
                   end)
  (* 33 BUF_RECVFROM s timeout -> name size src | -1 *)
  | 33 => s <- open_sock a0 2 ;;
          api opc (r <- buffered_recvfrom (fun x => owner_pool x (1000 + a0)) (set_owner_pool (1000 + a0))
                                          (s_fd s) (s_rxsize s) a1 ;;
                   match r with
                   | Some (id, n, src) => hold (1000 + a0) id ;;; nm <- name_of (1000 + a0) id ;; ret [nm; n; src]
                   | None => ret [-1]
                   end)
  (* 43 STOP *)
  | 43 => _ <- drv_alive ;; api opc (stop ;;; ret [])
  (* 50 TODO_NEW id kind value block *)
  | 50 => _ <- drv_alive ;;
          if a0 <? 0 then
            (* anonymous ToDo: fresh identity, the handle is dropped at once (the task stays scheduled) *)
            x <- get_ext ;;
            let id := 1000 + x_ntodo x in
            put_ext (x <| x_ntodo := x_ntodo x + 1 |>) ;;;
            api opc (todo_new id a1 a2 a3 ;;; upd_todo_handle id ;;; ret [id; a1; a2])
          else
            x <- get_ext ;;
            match aget a0 (x_todos x) with
            | Some _ => bad 122                      (* identities are not reused *)
            | None => api opc (todo_new a0 a1 a2 a3 ;;; ret [a0; a1; a2])
            end
  (* 51 TODO_SHIFT id kind value / 52 TODO_CANCEL id *)
  | 51 => t <- get_todo a0 ;; if to_handle t then api opc (todo_shift a0 a1 a2 ;;; ret [a0; a1; a2]) else bad 121
  | 52 => t <- get_todo a0 ;; if to_handle t then api opc (todo_cancel a0 ;;; ret [a0]) else bad 121
  (* 53 TODO_DROP id : the handle goes away; the task stays scheduled *)
  | 53 => t <- get_todo a0 ;; put_todo a0 (t <| to_handle := false |>) ;;; report_ok opc [a0]
  (* 60 ASYNC_NEW s h1 h2 : SocketTcpAsync / SocketUdpAsync over buffered socket s, AcceptorAsync over acceptor s *)
  | 60 => s <- get_sock a0 ;; _ <- drv_alive ;;
          if negb (s_open s) || s_async s then bad 105 else api opc (make_async a0 a1 a2 ;;; ret [a0])
  (* 61 ASYNC_SEND s p size -> future / 62 ASYNC_SENDTO s p size dst -> future *)
  | 61 => s <- open_sock a0 1 ;; if negb (s_async s) then bad 106 else api opc (async_send a0 a1 a2 0)
  | 62 => s <- open_sock a0 2 ;; if negb (s_async s) then bad 106 else api opc (async_send a0 a1 a2 a3)
  (* 63 ADOPT news count size h1 h2 : inside a connect handler — wrap the accepted socket into an async TCP socket *)
  | 63 => x <- get_ext ;;
          match x_acc x with
          | None => report_ok opc [0]
          | Some (cfd, peer) =>
              put_ext (x <| x_acc := None |>) ;;;
              fresh_key a0 ;;;
              put_sock a0 (new_sock cfd 1 <| s_peer := peer |>) ;;;
              api opc (_ <- make_buffered a0 a1 a2 ;; make_async a0 a3 a4 ;;; ret [1; a0; cfd])
          end
  (* 64 HOLD : inside a receive handler — keep the buffer *)
  | 64 => x <- get_ext ;;
          match x_arg x with
          | Some (o, i) => put_ext (x <| x_arg := None |>) ;;; hold o i
          | None => ret tt
          end ;;; report_ok opc []
  (* 80 TLS_NEW s : SocketTcp(address, cert, key) — same system calls as the plain constructor; 81 ACC_TLS_NEW s *)
  | 80 => fresh_key a0 ;;; api opc (fd <- tcp_client_new ;; put_sock a0 (new_sock fd 1 <| s_peer := 100 + a0 |>) ;;; put_tls a0 tls0 ;;; ret [fd; a0])
  | 81 => fresh_key a0 ;;; api opc (fd <- acceptor_new ;; put_sock a0 (new_sock fd 3) ;;; put_tls a0 tls0 ;;; ret [fd; a0])
  (* 95 THROW kind : the running task / handler throws (1 std::runtime_error, 2 std::logic_error) *)
  | 95 => if a0 =? 1 then throw (SysErr 0) else throw (LogicErr 99)
  | _ => bad 100
  end.

(* lenient operations (code + 1000): a precondition that does not hold (socket missing / closed / of the wrong class,
   ToDo missing or without handle, no driver) skips the operation — state untouched — instead of ending the case: fault-injection scenarios go on after a
   constructor threw *)
Definition skippable (w : Z) : bool := ((102 <=? w) && (w <=? 106)) || (w =? 120) || (w =? 121) || (w =? 130).

Definition lenient (opc : Z) (m : MX unit) : MX unit :=
  fun s => match m s with
           | (Bad w, s') => if skippable w then emit K_RET [opc; 2; w] s else (Bad w, s')
           | other => other
           end.

Definition run_simple_op (r : raw) : MX unit :=
  let '(opc, a) := r in
  if 1000 <=? opc then lenient (opc - 1000) (run_simple_op0 (opc - 1000, a)) else run_simple_op0 r.

Fixpoint run_block_ops (ops : list raw) : MX unit :=
  match ops with
  | [] => ret tt
  | o :: t => run_simple_op o ;;; run_block_ops t
  end.

Definition run_block (b : Z) : MX unit :=
  x <- get_ext ;;
  match aget b (x_blocks x) with
  | Some ops => run_block_ops ops
  | None => ret tt
  end.

(* state reports after every top-level operation *)
Fixpoint report_futures (l : list (Z * fut)) : MX unit :=
  match l with
  | [] => ret tt
  | (f, ft) :: t =>
      (if negb (f_state ft =? f_reported ft)
       then emit K_FUTURE (f :: f_state ft :: f_code ft) ;;;
            x <- get_ext ;; put_ext (x <| x_futs := aset f (ft <| f_reported := f_state ft |>) (x_futs x) |>)
       else ret tt) ;;;
      report_futures t
  end.

Fixpoint report_pools (l : list (Z * pool)) : MX unit :=
  match l with
  | [] => ret tt
  | (p, pl) :: t => emit K_POOL [p; Z.of_nat (length (p_busy pl))] ;;; report_pools t
  end.

Fixpoint report_sock_pools (l : list (Z * sock)) : MX unit :=
  match l with
  | [] => ret tt
  | (k, s) :: t => (if s_open s && s_buffered s && negb (s_kind s =? 3)
                    then emit K_POOL [1000 + k; Z.of_nat (length (p_busy (s_pool s)))] else ret tt) ;;;
                   report_sock_pools t
  end.

Fixpoint flatten_pairs (l : list (Z * Z)) : list Z :=
  match l with [] => [] | (a, b) :: t => a :: b :: flatten_pairs t end.

Definition report_state : MX unit :=
  x <- get_ext ;;
  report_futures (x_futs x) ;;;
  report_pools (x_pools x) ;;;
  report_sock_pools (x_socks x) ;;;
  (if d_alive (x_driver x)
   then emit K_PFDS (flatten_pairs (d_pfds (x_driver x))) ;;; emit K_TODOS (flatten_pairs (d_todos (x_driver x)))
   else ret tt).

(* destruction of the driver: pending ToDos are released, the signalling pipe is closed *)
Definition driver_destroy : MX unit :=
  d <- get_driver ;;
  if d_alive d then
    put_driver (d <| d_alive := false |> <| d_todos := [] |> <| d_socks := [] |> <| d_pfds := [] |>) ;;;
    sys_close (d_to d) ;;; sys_close (d_from d)
  else ret tt.

Definition run_op (r : raw) : MX unit :=
  let '(opc0, a) := r in
  let a0 := nthZ a 0 in
  let opc := if 1000 <=? opc0 then opc0 - 1000 else opc0 in
  (if 1000 <=? opc0 then lenient opc else (fun m => m))
  (match opc with
   (* 40 DRIVER_NEW / 41 STEP timeout / 42 RUN / 44 DRIVER_DESTROY *)
   | 40 => api opc (driver_new ;;; ret [])
   | 41 => _ <- drv_alive ;; x <- get_ext ;;
           api opc ((match x_tls x with [] => step run_block a0 | _ => tstep run_block a0 end) ;;; ret [])
   | 42 => _ <- drv_alive ;; x <- get_ext ;;
           api opc ((match x_tls x with [] => run run_block | _ => trun run_block end) ;;; ret [])
   | 44 => api opc (driver_destroy ;;; ret [])
   | _ => run_simple_op0 (opc, a)
   end) ;;;
  report_state.

Fixpoint run_ops (ops : list raw) : MX unit :=
  match ops with
  | [] => ret tt
  | o :: t => run_op o ;;; run_ops t
  end.

(* blocks are defined by the operations  1 BEGIN b ... 2 END  at top level *)
Fixpoint split_blocks (ops : list raw) (cur : option (Z * list raw)) (blocks : list (Z * list raw)) (top : list raw)
  : list (Z * list raw) * list raw :=
  match ops with
  | [] => (blocks, rev top)
  | (c, a) :: t =>
      match cur with
      | None => if c =? 1 then split_blocks t (Some (nthZ a 0, [])) blocks top
                else split_blocks t None blocks ((c, a) :: top)
      | Some (b, acc) => if c =? 2 then split_blocks t None (aset b (rev acc) blocks) top
                         else split_blocks t (Some (b, (c, a) :: acc)) blocks top
      end
  end.

Fixpoint decode_script (l : list raw) : option (list ev) :=
  match l with
  | [] => Some []
  | r :: t => match ev_decode r, decode_script t with
              | Some e, Some es => Some (e :: es)
              | _, _ => None
              end
  end.

(* final marker: [0;0;left] completed; [1;why;left] script does not fit / malformed case; [2;ub;left] undefined
   behaviour reached; [3;..] exception escaped (cannot happen: every op catches); left = unused script events *)
Definition K_END := 99.

Definition run_case (ops : list raw) (script : list raw) (faults : list (Z * Z)) : list raw :=
  let eng := filter (fun r => fst r =? 8) script in
  match decode_script (filter (fun r => negb (fst r =? 8)) script) with
  | None => [(K_END, [1; 0; 0])]
  | Some sc =>
      let '(blocks, top) := split_blocks ops None [] [] in
      let x0 := ext_init <| x_blocks := blocks |> <| x_eng := eng |> in
      let '(r, s) := run_ops top (os_init x0 sc faults) in
      let left := Z.of_nat (length (o_script s)) in
      let fin := match r with
                 | Ok _ => [0; 0; left]
                 | Bad w => [1; w; left]
                 | Stuck u => [2; u; left]
                 | Exn e => 3 :: exn_code e
                 end in
      rev ((K_END, fin) :: o_trace s)
  end.
