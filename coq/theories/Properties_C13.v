(* Properties_C13.v — Address ==, <, hash are lawful and depend only on the socket-address bytes; the Linux
   sockaddr_in / sockaddr_in6 encodings are injective in (family, host, port, flow, scope).
   "Provenance independence" additionally needs the kernel and glibc to produce the canonical encoding (zero padding,
   zero flowinfo): that part is validated on every run by the harness (real sockets, all pairs), not proved. *)
From SP Require Import Base ListAux AddressModel AddressLemmas.
Local Open Scope Z_scope.

(* == is an equivalence: it is equality of (length, bytes) *)
Theorem eq_equivalence : forall a b c,
  view_eq a a = true /\ (view_eq a b = view_eq b a) /\ (view_eq a b = true -> view_eq b c = true -> view_eq a c = true).
Proof.
  intros a b c. split; [now apply view_eq_iff|]. split.
  - destruct (view_eq a b) eqn:E1, (view_eq b a) eqn:E2; try reflexivity.
    + apply view_eq_iff in E1. subst. rewrite (proj2 (view_eq_iff b b) eq_refl) in E2. discriminate.
    + apply view_eq_iff in E2. subst. rewrite (proj2 (view_eq_iff a a) eq_refl) in E1. discriminate.
  - intros H1 H2. apply view_eq_iff in H1, H2. subst. now apply view_eq_iff.
Qed.

Theorem lt_irrefl : forall a, view_lt a a = false.
Proof. exact view_lt_irrefl. Qed.

Theorem lt_trans : forall a b c, view_lt a b = true -> view_lt b c = true -> view_lt a c = true.
Proof. exact view_lt_trans. Qed.

(* < is a strict total order consistent with ==: exactly one of a < b, a == b, b < a *)
Theorem lt_trichotomy : forall a b,
  (view_lt a b = true /\ view_eq a b = false /\ view_lt b a = false) \/
  (view_lt a b = false /\ view_eq a b = true /\ view_lt b a = false) \/
  (view_lt a b = false /\ view_eq a b = false /\ view_lt b a = true).
Proof. exact view_trichotomy. Qed.

(* std::hash hashes exactly the compared byte range: equal addresses hash equally, for every hash function *)
Theorem hash_respects_eq : forall (H : list Z -> Z) a b, view_eq a b = true -> H a = H b.
Proof. intros H a b E. apply view_eq_iff in E. now subst. Qed.

Theorem encode4_injective : forall ip1 p1 ip2 p2,
  length ip1 = 4%nat -> length ip2 = 4%nat -> 0 <= p1 < 65536 -> 0 <= p2 < 65536 ->
  (view_eq (encode4 ip1 p1) (encode4 ip2 p2) = true <-> ip1 = ip2 /\ p1 = p2).
Proof.
  intros ip1 p1 ip2 p2 L1 L2 H1 H2. split.
  - intros E. apply view_eq_iff in E. now apply encode4_inj.
  - intros [-> ->]. now apply view_eq_iff.
Qed.

Theorem encode6_injective : forall ip1 p1 f1 s1 ip2 p2 f2 s2,
  length ip1 = 16%nat -> length ip2 = 16%nat -> length f1 = 4%nat -> length f2 = 4%nat ->
  0 <= p1 < 65536 -> 0 <= p2 < 65536 -> 0 <= s1 < 4294967296 -> 0 <= s2 < 4294967296 ->
  (view_eq (encode6 ip1 p1 f1 s1) (encode6 ip2 p2 f2 s2) = true <-> ip1 = ip2 /\ p1 = p2 /\ f1 = f2 /\ s1 = s2).
Proof.
  intros ip1 p1 f1 s1 ip2 p2 f2 s2 L1 L2 F1 F2 P1 P2 S1 S2. split.
  - intros E. apply view_eq_iff in E. now apply encode6_inj.
  - intros [-> [-> [-> ->]]]. now apply view_eq_iff.
Qed.

Theorem families_never_equal : forall ip4 p4 ip6 p6 f s,
  length ip4 = 4%nat -> length ip6 = 16%nat -> length f = 4%nat ->
  view_eq (encode4 ip4 p4) (encode6 ip6 p6 f s) = false.
Proof. exact families_differ. Qed.

Example c13_nonvacuous :
  view_lt (encode4 [127;0;0;1] 80) (encode4 [127;0;0;1] 81) = true /\
  view_lt (encode4 [255;255;255;255] 65535) (encode6 [0;0;0;0;0;0;0;0;0;0;0;0;0;0;0;1] 0 [0;0;0;0] 0) = true /\
  view_eq (encode4 [10;0;0;1] 80) (encode4 [138;0;0;1] 80) = false.
Proof. vm_compute. repeat split; reflexivity. Qed.

Print Assumptions eq_equivalence.
Print Assumptions lt_irrefl.
Print Assumptions lt_trans.
Print Assumptions lt_trichotomy.
Print Assumptions hash_respects_eq.
Print Assumptions encode4_injective.
Print Assumptions encode6_injective.
Print Assumptions families_never_equal.
