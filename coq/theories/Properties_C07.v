(* Properties_C07.v — time-outs mean what the documentation says (blocking socket operations).
   Virtual time: the script says how long every poll lasted (dt) and how much time passed before each
   clock reading. Hypotheses on the kernel are stated on the trace of the call itself:
     honest_up  — a poll with time-out t >= 0 lasts at most t ms
     honest_lo  — a poll that reports "timed out" lasted at least its time-out
     honest_inf — an unlimited poll never reports "timed out"
     calm       — time does not run backwards;  instant — computation between system calls takes no time.
   Every statement holds for every script, i.e. every arrival time of the awaited event, every number of
   internal waits, partial sends and interruptions. Domain: |T| < 2^31 ms. *)
From SP Require Import Base ListAux Os OsLemmas WaitModel WaitLemmas SocketModel SocketLemmas Properties_C01.
Local Open Scope Z_scope.

Section C07.
Context {X : Type}.
Local Notation os := (os X).

(* the four clauses for any operation of the shape "wait, then one non-blocking call" *)
Record timeout_semantics {A} (T : Z) (s s' : os) (r : res (option A)) (new : list raw) : Prop := {
  ts_steps : steps s s' new;
  (* T < 0: returns only with a result, never 'nothing' (waits are unlimited polls) *)
  ts_unlimited : T < 0 -> poll_timeouts new (fun t => t = -1) /\ (honest_inf new -> r <> Ok None);
  (* T = 0: never blocks *)
  ts_zero : T = 0 -> poll_timeouts new (fun t => t = 0) /\
                     (calm (o_script s) -> instant (o_script s) -> honest_up new -> o_now s' = o_now s);
  (* T > 0: 'nothing' no earlier than T (to the millisecond) ... *)
  ts_not_early : 0 < T <= INT_MAX -> calm (o_script s) -> honest_lo new -> r = Ok None ->
                 o_now s + T * NS_PER_MS - NS_PER_MS < o_now s';
  (* ... and never blocks longer than T in total *)
  ts_total : 0 <= T -> calm (o_script s) -> instant (o_script s) -> honest_up new ->
             o_now s' <= o_now s + T * NS_PER_MS
}.

Lemma wait_then_some_timeouts {A} fd events T (nowop : M X A) (s : os) r s' :
  timeless nowop ->
  wait_then fd events T (a <- nowop ;; ret (Some a)) None s = (r, s') ->
  exists new, timeout_semantics T s s' r new.
Proof.
  intros Htl H.
  destruct (wait_then_ok _ _ _ _ _ _ _ _ (timeless_map _ _ Htl) H) as [new [Wst Wcases Wneg Wzero Wpos Wmono Wup]].
  exists new. constructor.
  - assumption.
  - intros HT. split; [auto|]. intros Hh Hr. subst r.
    destruct Wcases as [[_ [[_ [_ [e [rest [t [dt [-> Hp]]]]]]]|[[errno [Hr _]]|[w [Hr _]]]]]|[nw [no [s1 [_ [_ [_ [_ [_ Hnow]]]]]]]]]; try discriminate.
    + assert (t = -1) by (apply (Wneg HT e t 0 dt); [now left|assumption]). subst t.
      apply (Hh e (-1) 0 dt); [now left|assumption|lia|reflexivity].
    + apply bind_inv in Hnow. destruct Hnow as [[k [s2 [_ H2]]]|[r0 [_ [_ Hr]]]]; [inversion H2|].
      destruct r0; discriminate.
  - intros HT. split; [auto|]. intros Hc Hi Hh. specialize (Wup ltac:(lia) Hc Hi Hh). specialize (Wmono Hc). subst T. lia.
  - intros HT Hc Hh Hr. subst r.
    destruct Wcases as [[_ [[_ [Hlo _]]|[[errno [Hr _]]|[w [Hr _]]]]]|[nw [no [s1 [_ [_ [_ [_ [_ Hnow]]]]]]]]]; try discriminate.
    + now apply Hlo.
    + apply bind_inv in Hnow. destruct Hnow as [[k [s2 [_ H2]]]|[r0 [_ [_ Hr]]]]; [inversion H2|].
      destruct r0; discriminate.
  - assumption.
Qed.

(* TCP Receive (basic sockets; the buffered variant calls the same function) *)
Theorem receive_timeouts : forall fd size T (s : os) r s',
  receive fd size T s = (r, s') -> exists new, timeout_semantics T s s' r new.
Proof.
  intros fd size T s r s' H. eapply wait_then_some_timeouts; [apply (receive_now_timeless fd size)|exact H].
Qed.

(* UDP ReceiveFrom *)
Theorem recvfrom_timeouts : forall fd size T (s : os) r s',
  sock_recvfrom fd size T s = (r, s') -> exists new, timeout_semantics T s s' r new.
Proof.
  intros fd size T s r s' H. eapply wait_then_some_timeouts; [apply (recvfrom_now_timeless fd size)|exact H].
Qed.

(* UDP SendTo: 0 is returned only when a limited wait timed out *)
Theorem sendto_timeouts : forall fd size dst T (s : os) r s',
  sock_sendto fd size dst T s = (r, s') ->
  exists new, steps s s' new /\
    (T < 0 -> poll_timeouts new (fun t => t = -1)) /\
    (T = 0 -> poll_timeouts new (fun t => t = 0) /\
              (calm (o_script s) -> instant (o_script s) -> honest_up new -> o_now s' = o_now s)) /\
    (0 <= T -> calm (o_script s) -> instant (o_script s) -> honest_up new -> o_now s' <= o_now s + T * NS_PER_MS).
Proof.
  intros fd size dst T s r s' H.
  change (sock_sendto fd size dst T) with (wait_then fd POLLOUT T (sendto_now (X:=X) fd size dst) 0) in H.
  destruct (wait_then_ok _ _ _ _ _ _ _ _ (sendto_now_timeless fd size dst) H) as [new [Wst Wcases Wneg Wzero Wpos Wmono Wup]].
  exists new. split; [assumption|]. split; [assumption|]. split; [|assumption].
  intros HT. split; [auto|]. intros Hc Hi Hh. specialize (Wup ltac:(lia) Hc Hi Hh). specialize (Wmono Hc). subst T. lia.
Qed.

(* TCP Send: all three modes *)
Theorem send_timeouts : forall fd size T (s : os) r s',
  0 <= size -> sock_send fd size T s = (r, s') ->
  exists new, steps s s' new /\
    (T < 0 -> poll_timeouts new (fun t => t = -1) /\ forall n, r = Ok n -> n = size) /\
    (T = 0 -> poll_timeouts new (fun t => t = 0) /\
              (calm (o_script s) -> instant (o_script s) -> honest_up new -> o_now s' = o_now s)) /\
    (0 < T -> poll_timeouts new (fun t => 0 <= t <= INT_MAX) /\
              (calm (o_script s) -> instant (o_script s) -> honest_up new -> o_now s' <= o_now s + T * NS_PER_MS)).
Proof.
  intros fd size T s r s' Hs H. destruct (sock_send_spec _ _ _ _ _ _ H Hs) as [new [Hres Hneg Hzero Hpos]].
  exists new. split; [apply Hres|]. split; [intros HT; destruct (Hneg HT); auto|]. split; assumption.
Qed.

(* the single wait primitive: what every further blocking call (Listen/Accept, TLS) is built from *)
Theorem wait_timeouts : forall fd events T (s : os) r s',
  wait_fd fd events T s = (r, s') ->
  exists new, steps s s' new /\
    (T < 0 -> poll_timeouts new (fun t => t = -1)) /\
    (T = 0 -> poll_timeouts new (fun t => t = 0)) /\
    (0 < T -> poll_timeouts new (fun t => 0 <= t <= INT_MAX)) /\
    (0 <= T -> calm (o_script s) -> instant (o_script s) -> honest_up new -> o_now s' <= o_now s + T * NS_PER_MS) /\
    (0 < T <= INT_MAX -> calm (o_script s) -> honest_lo new -> r = Ok false ->
       o_now s + T * NS_PER_MS - NS_PER_MS < o_now s').
Proof.
  intros fd events T s r s' H. destruct (wait_fd_spec _ _ _ _ _ _ H) as [new Hspec].
  exists new. split; [apply Hspec|]. split; [apply Hspec|]. split; [apply Hspec|].
  split; [intros HT; apply (wf_pos _ _ _ _ _ _ Hspec HT)|]. split; [apply Hspec|].
  intros HT Hc Hh Hr. exact (wf_lower _ _ _ _ _ _ Hspec HT Hc Hh false Hr eq_refl).
Qed.

(* ToMsec never turns a non-negative budget into "unlimited", whatever its size (the 2^31 wrap) *)
Theorem to_msec_never_wraps : forall t, 0 <= t -> 0 <= to_msec t <= INT_MAX /\ to_msec t <= t.
Proof. exact to_msec_range. Qed.

End C07.

(* non-vacuity: limited receive whose data arrives after 30 of 100 ms, and one that times out *)
Example c07_nonvacuous :
  let s1 := os_init tt [EvNow 0; EvPoll 1 0 30000000 [1]; EvRecv 5 0] [] in
  let s2 := os_init tt [EvNow 0; EvPoll 0 0 100000000 [0]] [] in
  fst (receive 1000 8 100 s1) = Ok (Some 5) /\ o_now (snd (receive 1000 8 100 s1)) = 30000000 /\
  fst (receive 1000 8 100 s2) = Ok None /\ o_now (snd (receive 1000 8 100 s2)) = 100000000 /\
  calm (o_script s2) /\ instant (o_script s2).
Proof. vm_compute. repeat split; try reflexivity; repeat constructor; cbn; try lia; discriminate. Qed.

Print Assumptions receive_timeouts.
Print Assumptions recvfrom_timeouts.
Print Assumptions sendto_timeouts.
Print Assumptions send_timeouts.
Print Assumptions wait_timeouts.
Print Assumptions to_msec_never_wraps.
