(* SendLink.v — DriverSend (DriverModel.driver_send) refines the pure send-queue machine sq_step of DriverLemmas:
   for a queue whose front buffer comes from a user pool, one send() result r has on the real state (futures, queue, buffer
   sizes) exactly the effect sq_step computes. Closes the gap "by construction" between C02's theorems and the model. *)
From SP Require Import Base ListAux Os OsLemmas WaitLemmas SocketModel SocketLemmas PoolModel BufferedModel Objects DriverModel DriverLemmas.
Local Open Scope Z_scope.
Local Notation os := (os ext).

(* ---- association lists ----------------------------------------------------------------------------------------------- *)
Section Assoc.
Context {V : Type}.
Lemma aget_aset_same k (v : V) l : aget k (aset k v l) = Some v.
Proof.
  induction l as [|[k' v'] t IH]; cbn; [now rewrite Z.eqb_refl|].
  destruct (k' =? k) eqn:E; cbn; [now rewrite Z.eqb_refl|now rewrite E].
Qed.
Lemma aget_aset_other k k2 (v : V) l : k2 <> k -> aget k2 (aset k v l) = aget k2 l.
Proof.
  intros Hne. induction l as [|[k' v'] t IH]; cbn.
  - assert (E : (k =? k2) = false) by (apply Z.eqb_neq; congruence). now rewrite E.
  - destruct (k' =? k) eqn:E; cbn.
    + apply Z.eqb_eq in E. subst k'. assert (E2 : (k =? k2) = false) by (apply Z.eqb_neq; congruence). now rewrite E2.
    + destruct (k' =? k2); [reflexivity|exact IH].
Qed.
End Assoc.

(* ---- single steps as equations ----------------------------------------------------------------------------------- *)
Definition with_ext (s : os) (x : ext) : os := snd (put_ext x s).

Lemma send_now_ok fd len r e sc (s : os) :
  o_script s = EvSend r e :: sc -> 0 <= r <= len -> (r = 0 -> len = 0) ->
  send_now fd len s = (Ok r, upd s sc (o_now s) (K_SEND, [fd; len; MSG_NOSIGNAL; r])).
Proof.
  intros Hs Hr H0. unfold send_now, bind, sys_send. rewrite Hs. cbn.
  assert (H1 : (r <? 0) = false) by (apply Z.ltb_ge; lia). rewrite H1.
  assert (H2 : ((r =? 0) && (0 <? len)) = false).
  { destruct (r =? 0) eqn:E; [|reflexivity]. apply Z.eqb_eq in E. rewrite (H0 E). reflexivity. }
  rewrite H2. assert (H3 : (len <? r) = false) by (apply Z.ltb_ge; lia). rewrite H3. reflexivity.
Qed.

Lemma send_now_fail fd len r e sc (s : os) :
  o_script s = EvSend r e :: sc -> r < 0 ->
  send_now fd len s = (Exn (SysErr e), upd s sc (o_now s) (K_SEND, [fd; len; MSG_NOSIGNAL; r])).
Proof.
  intros Hs Hr. unfold send_now, bind, sys_send. rewrite Hs. cbn.
  assert (H1 : (r <? 0) = true) by (apply Z.ltb_lt; lia). now rewrite H1.
Qed.

Lemma resolve_ok f state code (s : os) ft :
  aget f (x_futs (o_ext s)) = Some ft -> f_state ft = 0 ->
  resolve f state code s =
  (Ok tt, with_ext s (o_ext s <| x_futs := aset f (ft <| f_state := state |> <| f_code := code |>) (x_futs (o_ext s)) |>)).
Proof. intros Hf Hp. unfold resolve, bind, get_ext. rewrite Hf, Hp. reflexivity. Qed.

Lemma upd_sock_ok k g (s : os) sk :
  aget k (x_socks (o_ext s)) = Some sk ->
  upd_sock k g s = (Ok tt, with_ext s (o_ext s <| x_socks := aset k (g sk) (x_socks (o_ext s)) |>)).
Proof. intros Hk. unfold upd_sock, bind, get_sock, bind, get_ext. rewrite Hk. reflexivity. Qed.

Lemma precycle_user o i (s : os) pl b busy' :
  o <? 1000 = true -> aget o (x_pools (o_ext s)) = Some pl -> remove_id i (p_busy pl) = Some (b, busy') ->
  precycle o i s =
  (Ok tt, with_ext s (o_ext s <| x_pools := aset o {| p_max := p_max pl; p_idle := b :: p_idle pl; p_busy := busy'; p_next := p_next pl |}
                                                  (x_pools (o_ext s)) |>)).
Proof.
  intros Ho Hp Hb. unfold precycle, pool_recycle_m, bind, get_ext. unfold owner_pool at 1. rewrite Ho, Hp.
  unfold pool_recycle. rewrite Hb. unfold set_owner_pool. rewrite Ho. reflexivity.
Qed.

Lemma presize_user o i n (s : os) pl :
  o <? 1000 = true -> aget o (x_pools (o_ext s)) = Some pl ->
  presize o i n s = (Ok tt, with_ext s (o_ext s <| x_pools := aset o (pool_resize pl i n) (x_pools (o_ext s)) |>)).
Proof.
  intros Ho Hp. unfold presize, pool_resize_m, bind, get_ext. unfold owner_pool. rewrite Ho, Hp.
  unfold set_owner_pool. rewrite Ho. reflexivity.
Qed.

Lemma buf_size_set id n l : In id (map b_id l) -> buf_size id (set_size id n l) = n.
Proof.
  unfold buf_size. induction l as [|b t IH]; cbn; [tauto|]. intros [H|H].
  - subst id. rewrite Z.eqb_refl. cbn. now rewrite Z.eqb_refl.
  - destruct (b_id b =? id) eqn:E; cbn.
    + now rewrite Z.eqb_refl.
    + rewrite E. now apply IH.
Qed.

Lemma remove_id_in_ids id l b l' : remove_id id l = Some (b, l') -> In id (map b_id l).
Proof.
  revert b l'. induction l as [|x t IH]; cbn; intros b l' H; [discriminate|].
  destruct (b_id x =? id) eqn:E; [apply Z.eqb_eq in E; auto|].
  destruct (remove_id id t) as [[y t']|] eqn:R; [|discriminate]. right. eapply IH. reflexivity.
Qed.

(* ---- the refinement ---------------------------------------------------------------------------------------------------- *)
Definition fut_state (x : ext) (f : Z) : Z := match aget f (x_futs x) with Some ft => f_state ft | None => -1 end.

Section Link.
Variables (k f o i dst : Z) (rest : list (Z * Z * Z * Z)) (sk : sock) (ft : fut) (pl : pool) (b : buf) (busy' : list buf).
Variable st : os.
Let x := o_ext st.
Hypothesis Hsock : aget k (x_socks x) = Some sk.
Hypothesis Hq : s_sendq sk = (f, o, i, dst) :: rest.
Hypothesis Ho : o <? 1000 = true.
Hypothesis Hpool : aget o (x_pools x) = Some pl.
Hypothesis Hbusy : remove_id i (p_busy pl) = Some (b, busy').
Hypothesis Hfut : aget f (x_futs x) = Some ft.
Hypothesis Hpend : f_state ft = 0.

Let size := buf_size i (p_busy pl).
Let emptied := match rest with [] => true | _ => false end.

Lemma owner_pool_user : owner_pool x o = pl.
Proof. unfold owner_pool. now rewrite Ho, Hpool. Qed.

(* what the real state looks like after DriverSend, in the three cases of sq_step *)
Record after (st' : os) (ev : sq_event) (front : option Z) : Prop := {
  af_future : match ev with
              | SqValue g => g = f /\ fut_state (o_ext st') f = 1
              | SqFailed g => g = f /\ fut_state (o_ext st') f = 2
              | SqNone => fut_state (o_ext st') f = 0
              end;
  af_others : forall g, g <> f -> fut_state (o_ext st') g = fut_state x g;
  af_queue : exists sk', aget k (x_socks (o_ext st')) = Some sk' /\
             s_sendq sk' = match front with Some _ => (f, o, i, dst) :: rest | None => rest end;
  af_front : match front with
             | Some n => buf_size i (p_busy (owner_pool (o_ext st') o)) = n
             | None => True
             end
}.

Theorem driver_send_refines : forall r err sc qrest,
  o_script st = EvSend r err :: sc -> r <= size -> (r = 0 -> size = 0) ->
  exists st' res,
    driver_send k st = (Ok res, st') /\ o_script st' = sc /\
    let '(q', ev) := sq_step ((f, size) :: qrest) r in
    after st' ev (match ev with SqNone => Some (size - r) | _ => None end) /\
    q' = (match ev with SqNone => (f, size - r) :: qrest | _ => qrest end) /\
    res = (match ev with SqNone => false | _ => emptied end).
Proof.
  intros r err sc qrest Hs Hle H0.
  unfold driver_send, bind at 1, get_sock, bind at 1, get_ext. fold x. rewrite Hsock. cbn [ret].
  rewrite Hq. unfold bind at 1, get_ext. fold x. rewrite owner_pool_user. fold size.
  cbn [sq_step].
  destruct (r <? 0) eqn:Eneg.
  - (* the send fails: the future fails, the element leaves the queue *)
    apply Z.ltb_lt in Eneg. unfold bind at 1, catch, bind at 1.
    rewrite (send_now_fail _ _ _ _ _ _ Hs Eneg). cbn [is_runtime_error ret].
    set (s1 := upd st sc (o_now st) _).
    unfold bind at 1. rewrite (resolve_ok f 2 sliced_runtime_error s1 ft Hfut Hpend).
    set (s2 := with_ext s1 _). unfold bind at 1.
    rewrite (upd_sock_ok k _ s2 sk Hsock). set (s3 := with_ext s2 _). unfold bind at 1.
    rewrite (precycle_user o i s3 pl b busy' Ho Hpool Hbusy). set (s4 := with_ext s3 _).
    exists s4, emptied. split; [reflexivity|]. split; [reflexivity|]. split; [|split; reflexivity].
    constructor.
    + split; [reflexivity|]. unfold fut_state. cbn. rewrite aget_aset_same. reflexivity.
    + intros g Hg. unfold fut_state. cbn. now rewrite aget_aset_other.
    + eexists. cbn. rewrite aget_aset_same. split; reflexivity.
    + exact I.
  - apply Z.ltb_ge in Eneg. destruct (r =? size) eqn:Eall.
    + (* everything accepted: the future gets its value, the element leaves the queue *)
      apply Z.eqb_eq in Eall. subst r. unfold bind at 1, catch, bind at 1.
      assert (Hr : 0 <= size <= size) by lia.
      rewrite (send_now_ok _ _ _ _ _ _ Hs Hr H0). cbn [ret]. rewrite Z.eqb_refl.
      set (s1 := upd st sc (o_now st) _).
      unfold bind at 1. rewrite (resolve_ok f 1 [] s1 ft Hfut Hpend).
      set (s2 := with_ext s1 _). unfold bind at 1.
      rewrite (upd_sock_ok k _ s2 sk Hsock). set (s3 := with_ext s2 _). unfold bind at 1.
      rewrite (precycle_user o i s3 pl b busy' Ho Hpool Hbusy). set (s4 := with_ext s3 _).
      exists s4, emptied. split; [reflexivity|]. split; [reflexivity|]. split; [|split; reflexivity].
      constructor.
      * split; [reflexivity|]. unfold fut_state. cbn. rewrite aget_aset_same. reflexivity.
      * intros g Hg. unfold fut_state. cbn. now rewrite aget_aset_other.
      * eexists. cbn. rewrite aget_aset_same. split; reflexivity.
      * exact I.
    + (* partial write: the element stays at the front, shortened by what was accepted; no future is touched *)
      apply Z.eqb_neq in Eall. unfold bind at 1, catch, bind at 1.
      assert (Hr : 0 <= r <= size) by lia.
      rewrite (send_now_ok _ _ _ _ _ _ Hs Hr H0). cbn [ret].
      assert (E : (r =? size) = false) by (now apply Z.eqb_neq). rewrite E.
      set (s1 := upd st sc (o_now st) _).
      unfold bind at 1. rewrite (presize_user o i (size - r) s1 pl Ho Hpool). set (s2 := with_ext s1 _).
      exists s2, false. split; [reflexivity|]. split; [reflexivity|]. split; [|split; reflexivity].
      constructor.
      * unfold fut_state. cbn. fold x. now rewrite Hfut.
      * intros g Hg. reflexivity.
      * exists sk. cbn. fold x. split; [exact Hsock|exact Hq].
      * cbn. unfold owner_pool. cbn. rewrite Ho, aget_aset_same. cbn.
        apply buf_size_set. eapply remove_id_in_ids. exact Hbusy.
Qed.
End Link.
