(* Properties_C17.v — logic-level memory safety of the driver's bookkeeping: every lookup that the C++ performs
   on its lists is either guarded or provably succeeds, for every history of registrations and removals.
   (Memory safety of the compiled code itself is evidenced by the sanitizer runs of the harness, not proved.) *)
From SP Require Import Base ListAux Os OsLemmas Objects DriverModel DriverLemmas TodoModel TodoLemmas SendLink TlsModel Sim BrokenPromises.
Local Open Scope Z_scope.

(* Send on a socket whose peer already disconnected: the descriptor is no longer listed; arming POLLOUT must not
   touch anything (the unchanged code dereferenced the failed lookup — finding F5) *)
Theorem want_send_on_unlisted_is_noop : forall fd l, ~ In fd (map fst l) -> arm_fd fd POLLOUT l = l.
Proof. intros fd l. exact (arm_absent fd POLLOUT l). Qed.

(* AsyncUnregister and ToDos::Remove tolerate entries that are already gone (second unregistration from the
   destructor after a disconnect; Cancel of an executed ToDo) *)
Theorem unregister_tolerates_absent : forall k fd socks pfds,
  ~ In k socks -> ~ In fd (map fst pfds) ->
  remove_first_key k socks = socks /\ remove_first_fd fd pfds = pfds.
Proof. exact unregister_absent. Qed.

Theorem remove_tolerates_absent : forall id l, ~ In id (todo_ids l) -> todo_remove id l = l.
Proof. exact remove_absent. Qed.

(* sockets and pfds stay aligned (pfds = pipe entry + one entry per socket, same order) under every history of
   registrations and unregistrations: the indexing pfds[i + 1] <-> sockets[i] of DoOneSocketTask is always valid *)
Inductive reg_op := RAdd (k fd : Z) | RDel (k fd : Z).

Definition reg_step (st : list (Z * Z) * list (Z * Z)) (o : reg_op) : list (Z * Z) * list (Z * Z) :=
  let '(regs, pfds) := st in
  match o with
  | RAdd k fd => (regs ++ [(k, fd)], pfds ++ [(fd, POLLIN)])
  | RDel k fd => (reg_del k fd regs, remove_first_fd fd pfds)
  end.

Record RInv (pipefd : Z) (st : list (Z * Z) * list (Z * Z)) : Prop := {
  ri_aligned : exists pe rest, snd st = (pipefd, pe) :: rest /\ map snd (fst st) = map fst rest;
  ri_keys : NoDup (map fst (fst st));
  ri_fds : NoDup (map snd (fst st));
  ri_pipe : ~ In pipefd (map snd (fst st))
}.

(* fresh keys / descriptors on registration (descriptors are never reused while listed); removal of a listed pair *)
Definition reg_ok (pipefd : Z) (st : list (Z * Z) * list (Z * Z)) (o : reg_op) : Prop :=
  match o with
  | RAdd k fd => ~ In k (map fst (fst st)) /\ ~ In fd (map snd (fst st)) /\ fd <> pipefd
  | RDel k fd => In (k, fd) (fst st) \/ (~ In k (map fst (fst st)) /\ ~ In fd (map snd (fst st)) /\ fd <> pipefd)
  end.

Lemma reg_del_sub k fd regs : forall x, In x (reg_del k fd regs) -> In x regs.
Proof.
  induction regs as [|[k' f'] t IH]; intros x; cbn; [tauto|].
  destruct (k' =? k); cbn; [tauto|]. intros [<-|H]; [tauto|]. right. now apply IH.
Qed.

Lemma reg_del_absent k fd regs : ~ In k (map fst regs) -> reg_del k fd regs = regs.
Proof.
  induction regs as [|[k' f'] t IH]; cbn; intros H; [reflexivity|].
  destruct (k' =? k) eqn:E; [apply Z.eqb_eq in E; subst; tauto|]. f_equal. apply IH. tauto.
Qed.

Lemma nodup_map_sub {A B} (f : A -> B) (l l' : list A) :
  (forall x, In x l' -> In x l) -> NoDup (map f l) -> NoDup l' -> (forall x y, In x l -> In y l -> f x = f y -> x = y) ->
  NoDup (map f l').
Proof.
  intros Hsub Hn Hn' Hinj. induction l' as [|a t IH]; cbn; [constructor|].
  inversion Hn'; subst. constructor.
  - intro Hc. apply in_map_iff in Hc. destruct Hc as [y [Hy Hiny]].
    assert (y = a) by (apply Hinj; [apply Hsub; now right|apply Hsub; now left|assumption]). subst. contradiction.
  - apply IH; [intros x Hx; apply Hsub; now right|assumption].
Qed.

Theorem pfds_aligned_invariant : forall pipefd o st, RInv pipefd st -> reg_ok pipefd st o -> RInv pipefd (reg_step st o).
Proof.
  intros pipefd o [regs pfds] [[pe [rest [Hp Ha]]] Hk Hf Hpipe] Hok. cbn [fst snd] in *. subst pfds.
  destruct o as [k fd|k fd]; cbn [reg_step fst snd] in *.
  - destruct Hok as [Hk' [Hf' Hne]]. constructor; cbn [fst snd].
    + exists pe, (rest ++ [(fd, POLLIN)]). split; [reflexivity|]. rewrite !map_app, Ha. reflexivity.
    + rewrite map_app. apply NoDup_app_iff. split; [assumption|]. split; [repeat constructor; intros []|].
      intros x Hx [<-|[]]. contradiction.
    + rewrite map_app. apply NoDup_app_iff. split; [assumption|]. split; [repeat constructor; intros []|].
      intros x Hx [<-|[]]. contradiction.
    + rewrite map_app. intro Hc. apply in_app_or in Hc. destruct Hc as [Hc|[Hc|[]]]; [contradiction|]. cbn in Hc. congruence.
  - destruct Hok as [Hin|[Hk' [Hf' Hne]]].
    + assert (Hpf : fst (pipefd, pe) <> fd).
      { cbn. intro; subst. apply Hpipe. change fd with (snd (k, fd)). now apply in_map. }
      destruct (unregister_aligned regs (pipefd, pe) rest k fd Ha Hk Hf Hin Hpf) as [H1 H2].
      (* sub-list facts *)
      assert (Hsub := reg_del_sub k fd regs).
      assert (Hnd : NoDup (reg_del k fd regs)).
      { assert (Hr : NoDup regs).
        { clear - Hk. induction regs as [|a t IH]; [constructor|]. cbn in Hk. inversion Hk; subst. constructor; [|now apply IH].
          intro Hc. apply H1. now apply in_map. }
        clear - Hr. induction regs as [|[k' f'] t IH]; cbn; [constructor|]. inversion Hr; subst.
        destruct (k' =? k); [assumption|]. constructor; [|now apply IH]. intro Hc. apply H1. now apply (reg_del_sub k fd). }
      constructor; cbn [fst snd].
      * exists pe, (remove_first_fd fd rest). split; [exact H2|exact H1].
      * apply (nodup_map_sub fst regs); try assumption.
        intros x y Hx Hy Hxy. destruct x as [a b], y as [c d]. cbn in Hxy. subst c.
        clear - Hk Hx Hy. induction regs as [|[p q] t IH]; [contradiction|]. cbn in Hk. inversion Hk; subst.
        destruct Hx as [Hx|Hx], Hy as [Hy|Hy].
        -- congruence.
        -- inversion Hx; subst. exfalso. apply H1. change a with (fst (a, d)). now apply in_map.
        -- inversion Hy; subst. exfalso. apply H1. change a with (fst (a, b)). now apply in_map.
        -- now apply IH.
      * apply (nodup_map_sub snd regs); try assumption.
        intros x y Hx Hy Hxy. destruct x as [a b], y as [c d]. cbn in Hxy. subst d.
        clear - Hf Hx Hy. induction regs as [|[p q] t IH]; [contradiction|]. cbn in Hf. inversion Hf; subst.
        destruct Hx as [Hx|Hx], Hy as [Hy|Hy].
        -- congruence.
        -- inversion Hx; subst. exfalso. apply H1. change b with (snd (c, b)). now apply in_map.
        -- inversion Hy; subst. exfalso. apply H1. change b with (snd (a, b)). now apply in_map.
        -- now apply IH.
      * intro Hc. apply Hpipe. apply in_map_iff in Hc. destruct Hc as [x [Hx Hinx]]. apply in_map_iff. exists x.
        split; [assumption|now apply Hsub].
    + (* already gone: nothing changes *)
      rewrite (reg_del_absent k fd regs Hk').
      assert (Hr : remove_first_fd fd ((pipefd, pe) :: rest) = (pipefd, pe) :: rest).
      { apply remove_first_fd_absent. cbn. rewrite <- Ha. intros [Hc|Hc]; [congruence|contradiction]. }
      rewrite Hr. constructor; cbn [fst snd]; try assumption. exists pe, rest. auto.
Qed.

(* a future is resolved at most once: the model turns a second resolution into Stuck 20, and no operation of the
   interpreter resolves a future that left the queue (popped on value/exception, emptied on destruction) *)
Theorem promises_resolved_at_most_once_guard : forall f state code (s : os ext) ft,
  aget f (x_futs (o_ext s)) = Some ft -> f_state ft <> 0 -> fst (resolve f state code s) = Stuck 20.
Proof.
  intros f state code s ft Hg Hne. unfold resolve, bind, get_ext. cbn. rewrite Hg.
  destruct (f_state ft =? 0) eqn:E; [apply Z.eqb_eq in E; contradiction|reflexivity].
Qed.

(* "Futures of sends that can no longer happen are released as broken promises when the socket is destroyed, never left
   dangling": the destructor of an asynchronous (non-TLS) socket resolves the future of EVERY queued send with state 3
   (std::future_error: broken promise) — each was still pending, none is resolved twice (the queue holds distinct futures),
   every other future keeps its state, and the socket ends closed with an empty queue. *)
Theorem destroy_breaks_every_pending_send : forall k (s s' : os ext) sk,
  aget k (x_socks (o_ext s)) = Some sk -> s_open sk = true -> s_async sk = true -> aget k (x_tls (o_ext s)) = None ->
  destroy_sock k s = (Ok tt, s') ->
  (forall f, In f (map qfut (s_sendq sk)) -> fstate s f = 0 /\ fstate s' f = 3) /\
  (forall g, ~ In g (map qfut (s_sendq sk)) -> fstate s' g = fstate s g) /\
  (exists sk', aget k (x_socks (o_ext s')) = Some sk' /\ s_sendq sk' = [] /\ s_open sk' = false).
Proof. exact BrokenPromises.destroy_breaks_every_pending_send. Qed.

(* non-vacuity: two sends queued on an asynchronous TCP socket that is destroyed before the driver ever steps *)
Example destroy_with_two_pending :
  let tr := run_case [(1, [1]); (2, []); (40, []); (10, [1; 0; 64]); (20, [1]); (30, [1; 1; 100]); (60, [1; 1; 2]);
                      (61, [1; 1; 5]); (61, [1; 1; 7]); (28, [1])] [] [] in
  In (K_FUTURE, [0; 3]) tr /\ In (K_FUTURE, [1; 3]) tr /\ In (K_RET, [28; 1; 1]) tr.
Proof. vm_compute. repeat split; tauto. Qed.

Example c17_nonvacuous :
  RInv 1001 ([(1, 1002); (2, 1003)], [(1001, 1); (1002, 1); (1003, 5)]) /\
  reg_step ([(1, 1002); (2, 1003)], [(1001, 1); (1002, 1); (1003, 5)]) (RDel 1 1002) = ([(2, 1003)], [(1001, 1); (1003, 5)]) /\
  arm_fd 1002 POLLOUT [(1001, 1); (1003, 5)] = [(1001, 1); (1003, 5)].
Proof.
  split; [|vm_compute; split; reflexivity]. constructor; cbn.
  - exists 1, [(1002, 1); (1003, 5)]. split; reflexivity.
  - repeat constructor; cbn; intuition lia.
  - repeat constructor; cbn; intuition lia.
  - intuition lia.
Qed.

Print Assumptions want_send_on_unlisted_is_noop.
Print Assumptions unregister_tolerates_absent.
Print Assumptions remove_tolerates_absent.
Print Assumptions pfds_aligned_invariant.
Print Assumptions promises_resolved_at_most_once_guard.
Print Assumptions destroy_breaks_every_pending_send.
