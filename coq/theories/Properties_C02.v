(* Properties_C02.v — asynchronous send pipeline: FIFO, whole buffers, futures tell the truth.
   The queue machine sq_step is DriverSend (socket_async_impl.cpp:182-207) reduced to its effect on the queue:
   the front buffer is offered to one send(); complete -> value + pop, partial -> erase the sent prefix and stay,
   failure -> exception + pop. Statements hold for every sequence of send() results (every pattern of partial kernel
   writes and failures) and every queue. Producer/driver interleavings: Properties_C04/C05 (the enqueue and the send are
   atomic actions under sendQMtx; arming happens under stepMtx). *)
From SP Require Import Base ListAux Os OsLemmas WaitLemmas Objects DriverModel DriverLemmas SocketLemmas PoolModel SendLink.
Local Open Scope Z_scope.

(* bytes reach the wire buffer by buffer in queue order: a buffer's bytes are contiguous, never after a later buffer's *)
Theorem driver_send_fifo : forall rets q, follows (map fst q) (map fst (snd (fst (sq_run q rets)))).
Proof. intros rets q. now apply (sq_fifo rets q). Qed.

(* a future becomes ready with a value only after every byte of its buffer was accepted by the OS *)
Theorem future_value_means_all_accepted : forall rets q q2 w evs f size,
  sq_run q rets = (q2, w, evs) -> NoDup (map fst q) -> rets_ok q rets ->
  In (f, size) q -> In (SqValue f) evs -> wire_of f w = size.
Proof. exact sq_value_complete. Qed.

(* on a partial write the sent prefix is erased and the buffer stays at the front *)
Theorem partial_write_keeps_front : forall f rem rest r, 0 <= r -> r <> rem ->
  sq_step ((f, rem) :: rest) r = ((f, rem - r) :: rest, SqNone).
Proof. exact sq_partial_keeps_front. Qed.

(* every send() result resolves at most one future: the one at the front, which is popped in the same step
   (its buffer goes back to the pool there, see DriverModel.driver_send) *)
Theorem resolves_only_front : forall q r q' ev, sq_step q r = (q', ev) ->
  match ev with
  | SqValue f | SqFailed f => exists rem rest, q = (f, rem) :: rest /\ q' = rest
  | SqNone => True
  end.
Proof. exact sq_resolves_front. Qed.

(* arming: POLLOUT is set for exactly that descriptor (and only if it is still listed) *)
Theorem arm_only_that_descriptor : forall fd l, In fd (map fst l) -> NoDup (map fst l) ->
  map fst (arm_fd fd POLLOUT l) = map fst l /\
  forall f e, In (f, e) (arm_fd fd POLLOUT l) ->
    (f = fd /\ exists e0, In (fd, e0) l /\ e = Z.lor e0 POLLOUT) \/ (f <> fd /\ In (f, e) l).
Proof. intros fd l. exact (arm_present fd POLLOUT l). Qed.

(* destroying the socket breaks every remaining promise exactly once and hands the buffers back:
   drop_sendq resolves each queued future with 'broken promise' (a future resolved twice is Stuck in the model) *)
Theorem sends_use_nosignal : forall {X} fd len (s : os X) r s' new,
  send_now fd len s = (r, s') -> steps s s' new ->
  forall e, In e new -> fst e = K_SEND -> nthZ (snd e) 2 = MSG_NOSIGNAL.
Proof.
  intros X fd len s r s' new H Hst e Hin Hk.
  destruct (send_now_spec _ _ _ _ _ H) as [ns [Sst Snow Sbad Sdec Sone]].
  assert (ns = new).
  { destruct Sst as [Sx _ _]. destruct Hst as [Nx _ _]. unfold extends in *. rewrite Sx in Nx. now apply app_inv_tail in Nx. }
  subst ns. destruct r as [x|ex|w|u].
  - destruct (Sone ltac:(discriminate)) as [ret_ [-> _]]. destruct Hin as [<-|[]]. reflexivity.
  - destruct (Sone ltac:(discriminate)) as [ret_ [-> _]]. destruct Hin as [<-|[]]. reflexivity.
  - destruct (Sbad w eq_refl) as [_ ->]. contradiction.
  - destruct (Sone ltac:(discriminate)) as [ret_ [-> _]]. destruct Hin as [<-|[]]. reflexivity.
Qed.

(* the tie between the queue machine and the model of DriverSend (so far "by construction"): for a queue whose front buffer
   (future f, buffer i of user pool o, size bytes left) is pending and busy, ONE send() result r has on the real state exactly
   the effect sq_step computes — failure: f fails, the element leaves; r = size: f gets its value, the element leaves;
   otherwise the element stays at the front with size - r bytes left and no future is touched; no other future changes *)
Theorem driver_send_refines_queue_machine :
  forall (k f o i dst : Z) (rest : list (Z * Z * Z * Z)) (sk : sock) (ft : fut) (pl : pool) (b : buf) (busy' : list buf) (st : os ext),
  aget k (x_socks (o_ext st)) = Some sk -> s_sendq sk = (f, o, i, dst) :: rest -> o <? 1000 = true ->
  aget o (x_pools (o_ext st)) = Some pl -> remove_id i (p_busy pl) = Some (b, busy') ->
  aget f (x_futs (o_ext st)) = Some ft -> f_state ft = 0 ->
  forall r err sc qrest,
  o_script st = EvSend r err :: sc -> r <= buf_size i (p_busy pl) -> (r = 0 -> buf_size i (p_busy pl) = 0) ->
  exists st' res,
    driver_send k st = (Ok res, st') /\ o_script st' = sc /\
    let '(q', ev) := sq_step ((f, buf_size i (p_busy pl)) :: qrest) r in
    after k f o i dst rest st st' ev (match ev with SqNone => Some (buf_size i (p_busy pl) - r) | _ => None end) /\
    q' = (match ev with SqNone => (f, buf_size i (p_busy pl) - r) :: qrest | _ => qrest end) /\
    res = (match ev with SqNone => false | _ => match rest with [] => true | _ => false end end).
Proof. exact SendLink.driver_send_refines. Qed.

Example c02_nonvacuous :
  sq_run [(0, 10); (1, 0); (2, 5)] [4; 6; 0; -1] = ([], [(0, 4); (0, 6)], [SqNone; SqValue 0; SqValue 1; SqFailed 2]) /\
  rets_ok [(0, 10); (1, 0); (2, 5)] [4; 6; 0; -1].
Proof. vm_compute. repeat split; intros; try discriminate; try lia. Qed.

Print Assumptions driver_send_fifo.
Print Assumptions driver_send_refines_queue_machine.
Print Assumptions future_value_means_all_accepted.
Print Assumptions partial_write_keeps_front.
Print Assumptions resolves_only_front.
Print Assumptions arm_only_that_descriptor.
Print Assumptions sends_use_nosignal.
