(* Properties_C18.v — the TLS glue (src/socket_tls_impl.cpp) over an arbitrary scripted engine: whatever OpenSSL does
   (any sequence of BIO calls, results and errors), for every oracle script of the operating system.
   What is NOT proved here: that OpenSSL encrypts and completes handshakes — the engine is an oracle (see DESIGN.md);
   the handshake's progress in driver mode is decided by the correspondence check's liveness monitor (gen/c18.py). *)
From SP Require Import Base ListAux Os OsLemmas WaitModel WaitLemmas SocketModel Objects DriverModel TlsModel TlsLemmas TlsEmits TlsBracket TlsInterest TlsDrain TlsBudget TlsComplete TlsDeadline Sim.
Local Open Scope Z_scope.

Local Notation os := (os ext).

(* No cleartext on the wire, structurally: between two engine calls the glue performs no send() and no recv() — its own
   system calls are polls and clock readings only (HandleError / HandleLastError / HandleResult). Every byte written to
   or read from the connection therefore passes through the engine's BIO callbacks. *)
Theorem outside_the_engine_the_glue_only_waits : forall k err (s : os) r s',
  handle_result k err s = (r, s') -> exists new, extends s s' new /\ only_wait_entries new.
Proof. intros k err. exact (handle_result_waits k err). Qed.

(* ... and as a statement about WHOLE operations: scanning the trace segment of a TLS Send / Receive (both variants) /
   SendSome / DriverPending / Shutdown in chronological order and counting K_ENGCALL (+1) and K_ENG (-1), every send() and
   recv() entry is met at depth >= 1, i.e. inside an engine call ([scan 0 ... <> None]); on a normal return the depth is back
   where it started ([bracketed]). The glue never touches the connection itself: whatever is on the wire is what the
   engine's BIO callbacks wrote. *)
Theorem send_io_inside_engine : forall k size T (s : os) r s',
  tls_send k size T s = (r, s') -> exists new, extends s s' new /\ scan 0 (rev new) <> None.
Proof. intros k size T. apply no_io_outside_the_engine, TlsBracket.send_io_inside_engine. Qed.

Theorem receive_io_inside_engine : forall k size T (s : os) r s',
  tls_receive k size T s = (r, s') -> exists new, extends s s' new /\ scan 0 (rev new) <> None.
Proof. intros k size T. apply no_io_outside_the_engine, TlsBracket.receive_io_inside_engine. Qed.

Theorem driver_paths_io_inside_engine : forall k size,
  bracketed (tls_send_some k size) /\ bracketed (tls_receive_now k size) /\ bracketed (tls_pending k) /\ bracketed (tls_shutdown k).
Proof.
  intros k size. repeat split.
  - apply TlsBracket.send_some_io_inside_engine.
  - apply TlsBracket.receive_now_io_inside_engine.
  - apply TlsBracket.pending_io_inside_engine.
  - apply TlsBracket.shutdown_io_inside_engine.
Qed.

(* Application data reaches the caller only from the engine: a Receive that reports n > 0 bytes returns exactly what the
   engine's last SSL_read returned (so: nothing before the engine has completed the handshake, nothing from a peer that
   does not speak TLS, never more than the engine decrypted) *)
Theorem delivery_needs_engine_data : forall k size T (s : os) n s',
  tls_receive k size T s = (Ok (Some n), s') ->
  0 < n /\ exists err init tl, o_trace s' = (K_ENG, [1; size; n; err; init]) :: tl.
Proof.
  intros k size T s n s' H. unfold tls_receive in H.
  apply bind_inv in H. destruct H as [[[] [s1 [_ H]]]|[r0 [_ [_ Hx]]]]; [|exfalso; exact (recast_not_ok _ _ Hx)].
  apply bind_inv in H. destruct H as [[m [s2 [H1 H2]]]|[r0 [_ [_ Hx]]]]; [|exfalso; exact (recast_not_ok _ _ Hx)].
  destruct (0 <? m) eqn:E.
  - inversion H2; subst. apply Z.ltb_lt in E. split; [assumption|].
    unfold tls_read in H1.
    apply bind_inv in H1. destruct H1 as [[ok [s3 [_ H3]]]|[r0 [_ [_ Hx]]]]; [|exfalso; exact (recast_not_ok _ _ Hx)].
    destruct ok; [|inversion H3; subst; lia].
    eapply read_loop_delivers; eassumption.
  - destruct (T <? 0); inversion H2.
Qed.

(* Fatal engine errors (SSL_ERROR_SSL: e.g. the peer does not speak TLS; SSL_ERROR_SYSCALL; SSL_ERROR_ZERO_RETURN) are
   exceptions derived from std::runtime_error — never a normal return *)
Theorem fatal_engine_errors_throw : forall k err (s : os) sk,
  get_sock k s = (Ok sk, s) -> err = E_SSL \/ err = E_SYSCALL \/ err = E_ZERO_RETURN ->
  exists e, handle_error k err s = (Exn e, s) /\ is_runtime_error e = true.
Proof.
  intros k err s sk Hs He. unfold handle_error, bind. rewrite Hs.
  destruct He as [-> | [-> | ->]]; cbn; eexists; split; reflexivity.
Qed.

(* Send never reports more than it was given *)
Theorem write_accounting : forall k size T (s : os) n s',
  tls_send k size T s = (Ok n, s') -> 0 <= size -> 0 <= n <= size.
Proof.
  intros k size T s n s' H Hs. unfold tls_send in H.
  apply bind_inv in H. destruct H as [[[] [s1 [_ H]]]|[r0 [_ [_ Hx]]]]; [|exfalso; exact (recast_not_ok _ _ Hx)].
  eapply tls_write_bounds; eassumption.
Qed.

(* DriverQuery: the write poll is requested beyond what the send queue asks for only while the handshake wants to write,
   for a client whose handshake has not started yet (its first flight), or to restore a suppressed request; it is taken
   away only while the handshake wants to read, and then remembered *)
Theorem query_requests_write_only_for_handshake : forall t ev,
  let '(t', ev') := tls_query t ev in
  (has_bit ev POLLOUT = false -> has_bit ev' POLLOUT = true ->
     (t_init t = false /\ (t_last t = E_WANT_WRITE \/ (t_last t = E_NONE /\ t_started t = false /\ t_server t = false)))
     \/ (t_init t = true /\ t_supp t = true)) /\
  (has_bit ev POLLOUT = true -> has_bit ev' POLLOUT = false ->
     t_init t = false /\ t_last t = E_WANT_READ /\ t_supp t' = true).
Proof.
  intros t ev. unfold tls_query.
  destruct (t_init t) eqn:Ei; cbn [negb].
  - destruct (t_supp t) eqn:Es.
    + split; [intros _ _; right; auto|]. intros _ H. rewrite has_bit_lor_self in H by (unfold POLLOUT; lia). discriminate.
    + split; intros H1 H2; rewrite H1 in H2; discriminate.
  - destruct ((t_last t =? E_WANT_WRITE) || ((t_last t =? E_NONE) && negb (t_started t) && negb (t_server t))) eqn:Ew.
    + split.
      * intros _ _. left. split; [reflexivity|]. apply orb_true_iff in Ew. destruct Ew as [Ew|Ew].
        -- left. now apply Z.eqb_eq.
        -- right. apply andb_true_iff in Ew. destruct Ew as [Ew Hs]. apply andb_true_iff in Ew. destruct Ew as [Hn Hst].
           apply Z.eqb_eq in Hn. apply negb_true_iff in Hs. apply negb_true_iff in Hst. auto.
      * intros _ H. rewrite has_bit_lor_self in H by (unfold POLLOUT; lia). discriminate.
    + destruct (t_last t =? E_WANT_READ) eqn:Er.
      * apply Z.eqb_eq in Er. split.
        -- intros _ H. rewrite has_bit_clear in H. discriminate.
        -- intros H _. split; [reflexivity|]. split; [assumption|]. cbn. rewrite H. apply orb_true_r.
      * split; intros H1 H2; rewrite H1 in H2; discriminate.
Qed.

(* a client's first flight: before the engine was ever entered, the write event is requested — the handshake starts by
   itself, whatever the order of the two sides' calls (finding F9 was the absence of exactly this) *)
Theorem idle_client_requests_write : forall t ev,
  t_init t = false -> t_last t = E_NONE -> t_started t = false -> t_server t = false ->
  has_bit (snd (tls_query t ev)) POLLOUT = true.
Proof.
  intros t ev Hi Hl Hs Hv. unfold tls_query. rewrite Hi, Hl, Hs, Hv. cbn. apply has_bit_lor_self. unfold POLLOUT. lia.
Qed.

(* ... and a suppressed write request comes back as soon as the handshake is complete: queued sends are not forgotten *)
Theorem suppressed_write_poll_is_restored : forall t ev,
  t_init t = true -> t_supp t = true ->
  let '(t', ev') := tls_query t ev in has_bit ev' POLLOUT = true /\ t_supp t' = false.
Proof.
  intros t ev Hi Hs. unfold tls_query. rewrite Hi, Hs. cbn. split; [|reflexivity].
  apply has_bit_lor_self. unfold POLLOUT. lia.
Qed.

(* Which engine calls each entry point makes, for every script: DriverPending() (the driver found the socket writable during
   the handshake) only advances the handshake — every K_ENGCALL entry it produces is SSL_do_handshake (4), so it cannot take
   application data out of the engine (finding F8 was exactly that); Send makes SSL_write_ex calls only, Receive SSL_read
   calls only. [engine_kind c e]: e is a system-call / BIO / engine-result entry, or an engine entry of kind c. *)
Theorem pending_only_advances_the_handshake : forall k (s : os) r s',
  tls_pending k s = (r, s') -> exists new, extends s s' new /\ Forall (engine_kind 4) new.
Proof. intros k. exact (TlsEmits.pending_only_advances_the_handshake k). Qed.

Theorem send_only_writes : forall k size T (s : os) r s',
  tls_send k size T s = (r, s') -> exists new, extends s s' new /\ Forall (engine_kind 2) new.
Proof. intros k size T. exact (TlsEmits.send_only_writes k size T). Qed.

Theorem receive_only_reads : forall k size T (s : os) r s',
  tls_receive k size T s = (r, s') -> exists new, extends s s' new /\ Forall (engine_kind 1) new.
Proof. intros k size T. exact (TlsEmits.receive_only_reads k size T). Qed.

(* an unlimited Receive never reports "nothing" (C07 on TLS): the code asserts it, the model marks the violation Stuck *)
Theorem unlimited_receive_never_nothing : forall k size T (s : os) s',
  tls_receive k size T s = (Ok None, s') -> 0 <= T.
Proof.
  intros k size T s s' H. unfold tls_receive in H.
  apply bind_inv in H. destruct H as [[[] [s1 [_ H]]]|[r0 [_ [_ Hx]]]]; [|exfalso; exact (recast_not_ok _ _ Hx)].
  apply bind_inv in H. destruct H as [[m [s2 [_ H2]]]|[r0 [_ [_ Hx]]]]; [|exfalso; exact (recast_not_ok _ _ Hx)].
  destruct (0 <? m); [inversion H2|]. destruct (T <? 0) eqn:E; [inversion H2|]. apply Z.ltb_ge in E. exact E.
Qed.

(* The handshake's interest is never lost (what the driver-mode stalls F8/F9 and the seeded change C18/a got wrong): when a
   driver-side operation returns without progress during the handshake, lastError still names what the engine waits for, and
   DriverQuery turns that into the poll request. Whether the wait then ends is the peer's and the kernel's business (the
   liveness monitor of the correspondence check covers that part). *)
Theorem receive_now_keeps_the_interest : forall k size (s : os) s',
  tls_receive_now k size s = (Ok 0, s') ->
  (exists t, aget k (x_tls (o_ext s')) = Some t /\ t_init t = false) ->
  exists e, last_of s' k = Some e /\ wants e.
Proof. exact TlsInterest.receive_now_keeps_the_interest. Qed.

Theorem send_some_keeps_the_interest : forall k size (s : os) n s',
  tls_send_some k size s = (Ok n, s') -> n <> size -> exists e, last_of s' k = Some e /\ wants e.
Proof. exact TlsInterest.send_some_keeps_the_interest. Qed.

Theorem pending_keeps_the_interest : forall k (s : os) s' t,
  aget k (x_tls (o_ext s)) = Some t -> t_init t = false ->
  tls_pending k s = (Ok tt, s') ->
  (exists e, last_of s' k = Some e /\ wants e) \/ (exists s0 res err, engine k 4 0 s0 = (Ok (res, err), s') /\ 0 < res).
Proof. exact TlsInterest.pending_keeps_the_interest. Qed.

Theorem known_interest_is_polled : forall t events e,
  t_init t = false -> t_last t = e -> wants e ->
  (e = E_WANT_WRITE -> has_bit (snd (tls_query t events)) POLLOUT = true) /\
  (e = E_WANT_READ -> has_bit (snd (tls_query t events)) POLLOUT = false).
Proof. exact TlsInterest.known_interest_is_polled. Qed.

(* C01's clause for TLS (finding F10): Write() stops short only when a wait said "not yet", and a wait says so only when a
   poll returned 0 — which a poll without time limit never does. On a script in which no poll returns 0 (for an unlimited Send:
   an honest kernel) every Send returns its full size, however many records it takes. *)
Theorem tls_send_complete : forall k size T (s : os) n s',
  never_idle (o_script s) -> tls_send k size T s = (Ok n, s') -> n = size.
Proof. exact TlsComplete.tls_send_complete. Qed.

(* non-vacuity: 40000 bytes = three records in one Send, the handshake on the way *)
Example tls_three_records :
  let tr := run_case [(80, [1]); (23, [1; 40000; -1])]
                     [(8, [2; 4; 2; 120; 1; 900; 2; 60; 2; 16406; 16384; 0; 1]); (2, [1; 0; 2000000; 4]); (3, [120; 0]); (2, [1; 0; 0; 1]);
                      (4, [900; 0]); (2, [1; 0; 0; 4]); (3, [60; 0]); (2, [1; 0; 2000000; 4]); (3, [16406; 0]);
                      (8, [2; 1; 2; 16406; 16384; 0; 1]); (2, [1; 0; 2000000; 4]); (3, [16406; 0]);
                      (8, [2; 1; 2; 7254; 7232; 0; 1]); (2, [1; 0; 0; 4]); (3, [7254; 0])] [] in
  In (K_RET, [23; 1; 40000]) tr /\ In (K_ENG, [2; 7232; 7232; 0; 1]) tr.
Proof. vm_compute. split; tauto. Qed.

(* C03 over TLS (finding F14): the rest of a decrypted record that did not fit into the receive buffer causes no further poll
   event. DriverReceive goes on handing over buffers while the engine reports pending plaintext; when it returns normally,
   either the engine holds nothing more for this socket, or the last read produced no application data at all. *)
Theorem driver_receive_drains_the_engine : forall run_block fuel k sk (s : os) s',
  tdriver_receive_loop run_block fuel k sk s = (Ok tt, s') ->
  drained k s' \/
  (exists s0 id s1, tls_buffered_receive_now k (s_rxsize sk) s0 = (Ok (id, 0), s1) /\ precycle (1000 + k) id s1 = (Ok tt, s')).
Proof. exact TlsDrain.receive_loop_drains. Qed.

(* C07 over TLS (finding F15): after every step of an operation with a limited time-out the remaining budget is what is left until
   the deadline fixed when the operation began, at the clock reading taken after the step — whatever it was before the step. *)
Theorem step_budget_is_measured_against_the_operation_deadline :
  forall A k (fn : Z -> MX A) (s : os) t r s',
  aget k (x_tls (o_ext s)) = Some t -> 0 < t_rem t ->
  under_deadline k fn s = (Ok r, s') ->
  exists t' now', aget k (x_tls (o_ext s')) = Some t' /\
                  t_rem t' = dl_remaining {| d_now := now'; d_deadline := t_end t |}.
Proof. exact TlsBudget.step_budget_is_measured_against_the_operation_deadline. Qed.

(* ... and the lower half of C07 for the waits of the TLS glue: SetTimeout establishes the budget invariant (the remaining time is
   what was left until the operation's deadline at some earlier clock reading), every budgeted step that leaves the TLS table alone
   re-establishes it, and under it a wait that says "not yet" ends at most two milliseconds before the operation's deadline (one
   for the truncation of the remaining time, one for poll's granularity) — whatever number of steps came before. *)
Theorem set_timeout_fixes_the_deadline : forall k T (s : os) s',
  0 < T -> tls_set_timeout k T s = (Ok tt, s') ->
  exists t', aget k (x_tls (o_ext s')) = Some t' /\ t_rem t' = T /\ budget_ok s' t'.
Proof. exact TlsDeadline.set_timeout_fixes_the_deadline. Qed.

Theorem budgeted_step_keeps_the_invariant : forall A k (fn : Z -> MX A) (s : os) t r s',
  (forall tm (s0 : os) r0 s0', fn tm s0 = (r0, s0') -> o_ext s0' = o_ext s0) ->
  aget k (x_tls (o_ext s)) = Some t -> 0 < t_rem t ->
  under_deadline k fn s = (Ok r, s') ->
  exists t', aget k (x_tls (o_ext s')) = Some t' /\ t_end t' = t_end t /\ budget_ok s' t'.
Proof. exact TlsDeadline.budgeted_step_keeps_the_invariant. Qed.

Theorem budgeted_wait_gives_up_near_the_deadline : forall k fd ev (s : os) t s',
  aget k (x_tls (o_ext s)) = Some t -> budget_ok s t -> t_rem t <= INT_MAX ->
  calm (o_script s) ->
  under_deadline k (fun tm => wait_fd fd ev tm) s = (Ok false, s') ->
  exists new, extends s s' new /\ (honest_lo new -> t_end t - 2 * NS_PER_MS < o_now s').
Proof. exact TlsDeadline.budgeted_wait_gives_up_near_the_deadline. Qed.

(* Finding F13 (known, not repaired): the retry loops assert that ten rounds always suffice. In driver mode (and for calls with
   a zero time-out) input that trickles in — ten times in a row the zero-time-out look of BioRead finds nothing and the
   zero-time-out wait of HandleError right after it finds the socket ready — exhausts them: the faithful model reaches
   assert(i < handshakeStepsMax) of Read() (Stuck 41) under legal use. Witness found by the C18 check (an asynchronous server,
   ClientHello arriving one byte at a time), replayed on the implementation: abort. *)
Definition f13_ops : list raw :=
  [(81, [9]); (27, [9; -1; 1]); (1, [1]); (2, []); (1, [2]); (2, []); (40, []); (10, [8; 0; 0]); (30, [1; 2; 64]);
  (60, [1; 1; 2]); (1041, [-1])].
Definition f13_script : list raw :=
  [(2, [1; 0; 0; 1]); (7, [0; 5]); (2, [1; 0; 2000000; 0; 1]);
  (8, [1; 5; 1; 120; 2; 900; 1; 60; 2; 260; 1; 5; -1; 2; 1]); (4, [1; 0]); (2, [0; 0; 0; 0]); (2, [1; 0; 0; 1]);
  (8, [1; 5; 1; 119; 2; 900; 1; 60; 2; 260; 1; 5; -1; 2; 1]); (2, [1; 0; 0; 1]); (4, [1; 0]); (2, [0; 0; 0; 0]);
  (2, [1; 0; 0; 1]); (8, [1; 5; 1; 118; 2; 900; 1; 60; 2; 260; 1; 5; -1; 2; 1]); (2, [1; 0; 0; 1]); (4, [1; 0]);
  (2, [0; 0; 0; 0]); (2, [1; 0; 0; 1]); (8, [1; 5; 1; 117; 2; 900; 1; 60; 2; 260; 1; 5; -1; 2; 1]); (2, [1; 0; 0; 1]);
  (4, [1; 0]); (2, [1; 0; 0; 1]); (4, [1; 0]); (2, [1; 0; 0; 1]); (4, [1; 0]); (2, [0; 0; 0; 0]); (2, [1; 0; 0; 1]);
  (8, [1; 5; 1; 114; 2; 900; 1; 60; 2; 260; 1; 5; -1; 2; 1]); (2, [1; 0; 0; 1]); (4, [1; 0]); (2, [1; 0; 0; 1]);
  (4, [1; 0]); (2, [0; 0; 0; 0]); (2, [1; 0; 0; 1]); (8, [1; 5; 1; 112; 2; 900; 1; 60; 2; 260; 1; 5; -1; 2; 1]);
  (2, [1; 0; 0; 1]); (4, [1; 0]); (2, [0; 0; 0; 0]); (2, [1; 0; 0; 1]);
  (8, [1; 5; 1; 111; 2; 900; 1; 60; 2; 260; 1; 5; -1; 2; 1]); (2, [1; 0; 0; 1]); (4, [1; 0]); (2, [0; 0; 0; 0]);
  (2, [1; 0; 0; 1]); (8, [1; 5; 1; 110; 2; 900; 1; 60; 2; 260; 1; 5; -1; 2; 1]); (2, [1; 0; 0; 1]); (4, [1; 0]);
  (2, [0; 0; 0; 0]); (2, [1; 0; 0; 1]); (8, [1; 5; 1; 109; 2; 900; 1; 60; 2; 260; 1; 5; -1; 2; 1]); (2, [1; 0; 0; 1]);
  (4, [1; 0]); (2, [1; 0; 0; 1]); (4, [1; 0]); (2, [0; 0; 0; 0]); (2, [1; 0; 0; 1]);
  (8, [1; 5; 1; 107; 2; 900; 1; 60; 2; 260; 1; 5; -1; 2; 1]); (2, [1; 0; 0; 1]); (4, [1; 0]); (2, [0; 0; 0; 0]);
  (2, [1; 0; 0; 1])].
Theorem read_steps_suffice_refuted : In (K_END, [2; 41; 0]) (run_case f13_ops f13_script []).
Proof. vm_compute. tauto. Qed.

(* non-vacuity: a client that sends 5 bytes with unlimited time-out: handshake flights, then the record *)
Example tls_client_send :
  let tr := run_case [(80, [1]); (23, [1; 5; -1])]
                     [(8, [2; 4; 2; 120; 1; 900; 2; 60; 2; 27; 5; 0; 1]);
                      (2, [1; 0; 0; 4]); (3, [120; 0]); (2, [1; 0; 0; 1]); (4, [900; 0]); (2, [1; 0; 0; 4]); (3, [60; 0]);
                      (2, [1; 0; 0; 4]); (3, [27; 0])] [] in
  In (K_RET, [23; 1; 5]) tr /\ In (K_ENG, [2; 5; 5; 0; 1]) tr.
Proof. vm_compute. split; tauto. Qed.

Print Assumptions outside_the_engine_the_glue_only_waits.
Print Assumptions delivery_needs_engine_data.
Print Assumptions fatal_engine_errors_throw.
Print Assumptions write_accounting.
Print Assumptions query_requests_write_only_for_handshake.
Print Assumptions suppressed_write_poll_is_restored.
Print Assumptions idle_client_requests_write.
Print Assumptions pending_only_advances_the_handshake.
Print Assumptions send_only_writes.
Print Assumptions receive_only_reads.
Print Assumptions unlimited_receive_never_nothing.
Print Assumptions send_io_inside_engine.
Print Assumptions receive_io_inside_engine.
Print Assumptions driver_paths_io_inside_engine.
Print Assumptions receive_now_keeps_the_interest.
Print Assumptions send_some_keeps_the_interest.
Print Assumptions pending_keeps_the_interest.
Print Assumptions known_interest_is_polled.
Print Assumptions tls_send_complete.
Print Assumptions read_steps_suffice_refuted.
Print Assumptions driver_receive_drains_the_engine.
Print Assumptions step_budget_is_measured_against_the_operation_deadline.
Print Assumptions set_timeout_fixes_the_deadline.
Print Assumptions budgeted_step_keeps_the_invariant.
Print Assumptions budgeted_wait_gives_up_near_the_deadline.
