(* Properties_C14.v — OS failures become exceptions and leak nothing.
   Proved for EVERY fault overlay (whichever set-up call fails, with whatever errno) and every oracle script, about the
   constructors of SocketTcp / SocketUdp / Acceptor and about accept (Acceptor::Listen, AcceptorAsync):
     - success is reported only if no call failed; then exactly the returned descriptor was opened and is still open;
     - on failure the errno of the FIRST failing call is thrown as std::system_error, nothing is attempted after it,
       and everything that had been opened was closed again exactly once.
   The property's last clause for the driver ("through the disconnect handler, the send future, or an exception out of
   Step/Run") is FALSE of the code for AcceptorAsync and SocketUdpAsync: silent_drop_refuted exhibits the witness that
   is recorded as known finding (known_findings.txt); the check replays it on the implementation.
   The whole-scenario ledger (every object destroyed => every descriptor closed exactly once) is checked on the traces
   of the fault-enumeration harness, which the model must reproduce entry by entry (gen/c14.py). *)
From SP Require Import Base ListAux Os OsLemmas WaitLemmas SocketModel FdLemmas FdProgram FdDriver Objects DriverModel Sim.
From Coq Require Import Permutation.
Local Open Scope Z_scope.

Theorem tcp_constructor_ledger : forall (s : os ext) r s',
  0 <= o_nextfd s -> tcp_client_new s = (r, s') -> exists new, ctor_spec s s' r new.
Proof. exact tcp_client_new_ledger. Qed.

Theorem udp_constructor_ledger : forall (s : os ext) r s',
  0 <= o_nextfd s -> udp_new s = (r, s') -> exists new, ctor_spec s s' r new.
Proof. exact udp_new_ledger. Qed.

Theorem acceptor_constructor_ledger : forall (s : os ext) r s',
  0 <= o_nextfd s -> acceptor_new s = (r, s') -> exists new, ctor_spec s s' r new.
Proof. exact acceptor_new_ledger. Qed.

Theorem accept_ledger : forall lfd (s : os ext) r s',
  0 <= o_nextfd s -> accept_now lfd s = (r, s') -> exists new, accept_spec lfd s s' r new.
Proof. exact accept_now_ledger. Qed.

(* Driver::Driver(): the two sockets of the signalling pipe — both open and nothing failed, or the first failing call's errno
   thrown and both (or the one that existed) closed again exactly once *)
Theorem driver_constructor_ledger : forall (s : os ext) r s',
  0 <= o_nextfd s -> driver_new s = (r, s') -> exists new, drv_spec s s' r new.
Proof. exact driver_new_ledger. Qed.

Example driver_ctor_fault :
  let '(r, s) := driver_new (os_init ext_init [] [(3, 98)]) in
  r = Exn (SysErr 98) /\ opened (o_trace s) = [1000; 1001] /\ closed (o_trace s) = [1001; 1000].
Proof. vm_compute. repeat split. Qed.

(* a run of set-up calls on one descriptor stops at the first failure and throws exactly its errno *)
Theorem first_failure_is_thrown : forall ws fd, Forall plain ws -> forall (s : os ext) r s',
  setup_seq ws fd s = (r, s') -> exists new, seq_spec s s' r new.
Proof. exact setup_seq_spec. Qed.

(* EVERY program over the synchronous constructors, accept and destruction (the program catches whatever is thrown and goes
   on), every fault overlay, every script: what the library opened and did not hand to the program has been closed exactly
   once; what the program holds is open, distinct, and nobody else closed it (Permutation = equality as multisets) *)
Theorem ledger_balanced_all_programs : forall ops (live : list Z) (s : os ext) live' s',
  0 <= o_nextfd s -> NoDup live -> (forall fd, In fd live -> fd < o_nextfd s) ->
  run_fops ops live s = (Ok live', s') ->
  exists new, ledger s s' live live' new.
Proof. exact FdProgram.ledger_balanced_all_programs. Qed.

Theorem everything_destroyed_nothing_leaked : forall ops (s : os ext) s',
  0 <= o_nextfd s -> run_fops ops [] s = (Ok [], s') ->
  exists new, extends s s' new /\ Permutation (opened new) (closed new).
Proof. exact FdProgram.everything_destroyed_nothing_leaked. Qed.

(* non-vacuity: a program whose second constructor fails at bind() and which then destroys what it has *)
Example program_with_fault :
  let '(r, s) := run_fops [FNewTcp; FNewUdp; FClose 1000] [] (os_init ext_init [] [(5, 98)]) in
  r = Ok [] /\ opened (o_trace s) = [1000; 1001] /\ closed (o_trace s) = [1001; 1000].
Proof. vm_compute. repeat split. Qed.

(* non-vacuity: the initial state of every case satisfies the hypothesis, and both outcomes occur *)
Example ctor_hypothesis_holds : 0 <= o_nextfd (os_init ext_init [] []).
Proof. cbn. lia. Qed.
Example ctor_success : fst (tcp_client_new (os_init ext_init [] [])) = Ok 1000.
Proof. reflexivity. Qed.
Example ctor_failure_closes :
  let '(r, s) := udp_new (os_init ext_init [] [(2, 22)]) in
  r = Exn (SysErr 22) /\ opened (o_trace s) = [1000] /\ closed (o_trace s) = [1000] /\ failures (o_trace s) = [22].
Proof. vm_compute. repeat split. Qed.

(* ---- the driver-side clause is false for AcceptorAsync (and SocketUdpAsync): witness ------------------------------ *)
Definition reported (e : raw) : bool :=
  ((fst e =? K_RET) && (nthZ (snd e) 1 =? 0))            (* an API call ended in an exception *)
  || ((fst e =? K_HANDLER) && (nthZ (snd e) 0 =? 2))     (* a disconnect handler ran *)
  || ((fst e =? K_FUTURE) && (nthZ (snd e) 1 =? 2)).     (* a send future failed *)
Definition accept_failed (e : raw) : bool := (fst e =? K_ACCEPT) && (nthZ (snd e) 1 <? 0).
Definition completed (tr : list raw) : bool :=
  match rev tr with (c, a) :: _ => (c =? K_END) && (nthZ a 0 =? 0) | [] => false end.

(* Driver; Acceptor; AcceptorAsync with an empty connect handler; Step: the listening socket is readable, accept() fails
   with EMFILE; Step again: a connection is accepted and handed to the handler; destroy everything *)
Definition silent_ops : list raw :=
  [(1, [3]); (2, []); (40, []); (22, [1]); (60, [1; 3; 0]); (41, [-1]); (41, [5]); (28, [1]); (44, [])].
Definition silent_script : list raw :=
  [(2, [1; 0; 0; 0; 1]); (7, [24; 0]); (1, [0]); (2, [1; 0; 0; 0; 1]); (7, [0; 5])].

Theorem silent_drop_refuted :
  let tr := run_case silent_ops silent_script [] in
  existsb accept_failed tr = true /\ existsb reported tr = false /\ completed tr = true.
Proof. vm_compute. repeat split. Qed.

(* the same failure on the synchronous path IS reported *)
Definition loud_ops : list raw := [(22, [1]); (27, [1; -1; 2]); (28, [1])].
Definition loud_script : list raw := [(2, [1; 0; 0; 1]); (7, [24; 0])].
Example sync_accept_failure_reported :
  let tr := run_case loud_ops loud_script [] in existsb accept_failed tr = true /\ existsb reported tr = true.
Proof. vm_compute. repeat split. Qed.

Print Assumptions tcp_constructor_ledger.
Print Assumptions udp_constructor_ledger.
Print Assumptions acceptor_constructor_ledger.
Print Assumptions accept_ledger.
Print Assumptions driver_constructor_ledger.
Print Assumptions first_failure_is_thrown.
Print Assumptions silent_drop_refuted.
Print Assumptions ledger_balanced_all_programs.
Print Assumptions everything_destroyed_nothing_leaked.
