(* AddressLemmas.v — laws of the address comparison, injectivity of the sockaddr encodings, and the facts about
   the URI dissector that C11/C12 need. *)
From SP Require Import Base ListAux AddressModel.
Local Open Scope Z_scope.

(* ---- bytes_eq / bytes_lt ---------------------------------------------------------------------------------------- *)
Lemma bytes_eq_iff a : forall b, bytes_eq a b = true <-> a = b.
Proof.
  induction a as [|x a IH]; intros [|y b]; cbn; split; intros H; try reflexivity; try discriminate.
  - apply andb_prop in H. destruct H as [H1 H2]. apply Z.eqb_eq in H1. apply IH in H2. congruence.
  - inversion H; subst. rewrite Z.eqb_refl. cbn. now apply IH.
Qed.

Lemma bytes_lt_irrefl a : bytes_lt a a = false.
Proof. induction a as [|x a IH]; cbn; [reflexivity|]. rewrite Z.ltb_irrefl. exact IH. Qed.

Lemma bytes_lt_trans a : forall b c, length a = length b -> length b = length c ->
  bytes_lt a b = true -> bytes_lt b c = true -> bytes_lt a c = true.
Proof.
  induction a as [|x a IH]; intros [|y b] [|z c] Hab Hbc H1 H2; cbn in *; try discriminate.
  destruct (x <? y) eqn:E1.
  - apply Z.ltb_lt in E1. destruct (y <? z) eqn:E2.
    + apply Z.ltb_lt in E2. assert (E : x <? z = true) by (apply Z.ltb_lt; lia). now rewrite E.
    + destruct (z <? y) eqn:E3; [discriminate|]. apply Z.ltb_ge in E2, E3. assert (y = z) by lia. subst.
      assert (E : x <? z = true) by (apply Z.ltb_lt; lia). now rewrite E.
  - destruct (y <? x) eqn:E1'; [discriminate|]. apply Z.ltb_ge in E1, E1'. assert (x = y) by lia. subst.
    destruct (y <? z) eqn:E2; [reflexivity|]. destruct (z <? y) eqn:E3; [discriminate|].
    eapply IH; [| |exact H1|exact H2]; lia.
Qed.

Lemma bytes_trichotomy a : forall b, length a = length b ->
  (bytes_lt a b = true /\ a <> b /\ bytes_lt b a = false) \/
  (bytes_lt a b = false /\ a = b /\ bytes_lt b a = false) \/
  (bytes_lt a b = false /\ a <> b /\ bytes_lt b a = true).
Proof.
  induction a as [|x a IH]; intros [|y b] Hl; cbn in *; try discriminate.
  - right. left. auto.
  - destruct (x <? y) eqn:E1.
    + apply Z.ltb_lt in E1. left. assert (E : y <? x = false) by (apply Z.ltb_ge; lia). rewrite E.
      split; [reflexivity|]. split; [intro Hc; inversion Hc; lia|reflexivity].
    + destruct (y <? x) eqn:E2.
      * apply Z.ltb_lt in E2. right. right. split; [reflexivity|]. split; [intro Hc; inversion Hc; lia|reflexivity].
      * apply Z.ltb_ge in E1, E2. assert (x = y) by lia. subst.
        destruct (IH b ltac:(lia)) as [[H1 [H2 H3]]|[[H1 [H2 H3]]|[H1 [H2 H3]]]].
        -- left. split; [assumption|]. split; [congruence|assumption].
        -- right. left. split; [assumption|]. split; [congruence|assumption].
        -- right. right. split; [assumption|]. split; [congruence|assumption].
Qed.

(* ---- view_eq / view_lt -------------------------------------------------------------------------------------------- *)
Lemma view_eq_iff a b : view_eq a b = true <-> a = b.
Proof.
  unfold view_eq. split.
  - intros H. apply andb_prop in H. destruct H as [_ H]. now apply bytes_eq_iff.
  - intros ->. rewrite Nat.eqb_refl. cbn. now apply bytes_eq_iff.
Qed.

Lemma view_lt_irrefl a : view_lt a a = false.
Proof. unfold view_lt. rewrite Nat.ltb_irrefl. apply bytes_lt_irrefl. Qed.

Lemma view_lt_trans a b c : view_lt a b = true -> view_lt b c = true -> view_lt a c = true.
Proof.
  unfold view_lt. intros H1 H2.
  destruct (Nat.ltb (length a) (length b)) eqn:E1.
  - apply Nat.ltb_lt in E1. destruct (Nat.ltb (length b) (length c)) eqn:E2.
    + apply Nat.ltb_lt in E2. assert (E : Nat.ltb (length a) (length c) = true) by (apply Nat.ltb_lt; lia). now rewrite E.
    + destruct (Nat.ltb (length c) (length b)) eqn:E3; [discriminate|]. apply Nat.ltb_ge in E2, E3.
      assert (E : Nat.ltb (length a) (length c) = true) by (apply Nat.ltb_lt; lia). now rewrite E.
  - destruct (Nat.ltb (length b) (length a)) eqn:E1'; [discriminate|]. apply Nat.ltb_ge in E1, E1'.
    destruct (Nat.ltb (length b) (length c)) eqn:E2.
    + apply Nat.ltb_lt in E2. assert (E : Nat.ltb (length a) (length c) = true) by (apply Nat.ltb_lt; lia). now rewrite E.
    + destruct (Nat.ltb (length c) (length b)) eqn:E3; [discriminate|]. apply Nat.ltb_ge in E2, E3.
      assert (E : Nat.ltb (length a) (length c) = false) by (apply Nat.ltb_ge; lia). rewrite E.
      assert (E' : Nat.ltb (length c) (length a) = false) by (apply Nat.ltb_ge; lia). rewrite E'.
      eapply bytes_lt_trans; [| |exact H1|exact H2]; lia.
Qed.

Lemma view_trichotomy a b :
  (view_lt a b = true /\ view_eq a b = false /\ view_lt b a = false) \/
  (view_lt a b = false /\ view_eq a b = true /\ view_lt b a = false) \/
  (view_lt a b = false /\ view_eq a b = false /\ view_lt b a = true).
Proof.
  unfold view_lt, view_eq.
  destruct (Nat.ltb (length a) (length b)) eqn:E1.
  - apply Nat.ltb_lt in E1. left.
    assert (E : Nat.ltb (length b) (length a) = false) by (apply Nat.ltb_ge; lia). rewrite E.
    assert (E' : Nat.eqb (length a) (length b) = false) by (apply Nat.eqb_neq; lia). rewrite E'.
    auto.
  - destruct (Nat.ltb (length b) (length a)) eqn:E2.
    + apply Nat.ltb_lt in E2. right. right.
      assert (E' : Nat.eqb (length a) (length b) = false) by (apply Nat.eqb_neq; lia). rewrite E'. auto.
    + apply Nat.ltb_ge in E1, E2. assert (Hl : length a = length b) by lia.
      assert (E' : Nat.eqb (length a) (length b) = true) by (apply Nat.eqb_eq; lia). rewrite E'. cbn [andb].
      destruct (bytes_trichotomy a b Hl) as [[H1 [H2 H3]]|[[H1 [H2 H3]]|[H1 [H2 H3]]]].
      * left. repeat split; try assumption. destruct (bytes_eq a b) eqn:Eb; [apply bytes_eq_iff in Eb; contradiction|reflexivity].
      * right. left. repeat split; try assumption. now apply bytes_eq_iff.
      * right. right. repeat split; try assumption. destruct (bytes_eq a b) eqn:Eb; [apply bytes_eq_iff in Eb; contradiction|reflexivity].
Qed.

(* ---- encodings ------------------------------------------------------------------------------------------------------ *)
Definition is_byte (c : Z) : Prop := 0 <= c < 256.

Lemma be16_inj p q : 0 <= p < 65536 -> 0 <= q < 65536 -> be16 p = be16 q -> p = q.
Proof.
  unfold be16. intros Hp Hq H. inversion H.
  rewrite (Z.div_mod p 256) by lia. rewrite (Z.div_mod q 256) by lia. congruence.
Qed.

Lemma le32_inj x y : 0 <= x < 4294967296 -> 0 <= y < 4294967296 -> le32 x = le32 y -> x = y.
Proof.
  unfold le32. intros Hx Hy H. inversion H as [[H0 H1 H2 H3]].
  assert (Ex : x = x mod 256 + 256 * ((x / 256) mod 256) + 65536 * ((x / 65536) mod 256) + 16777216 * ((x / 16777216) mod 256)).
  { pose proof (Z.div_mod x 256 ltac:(lia)). pose proof (Z.div_mod (x / 256) 256 ltac:(lia)).
    pose proof (Z.div_mod (x / 65536) 256 ltac:(lia)).
    replace (x / 65536) with (x / 256 / 256) in * by (rewrite Z.div_div by lia; reflexivity).
    replace (x / 16777216) with (x / 256 / 256 / 256) by (rewrite !Z.div_div by lia; reflexivity).
    assert (x / 256 / 256 / 256 < 256) by (apply Z.div_lt_upper_bound; [lia|]; apply Z.div_lt_upper_bound; [lia|]; apply Z.div_lt_upper_bound; lia).
    assert (0 <= x / 256 / 256 / 256) by (repeat apply Z.div_pos; lia).
    rewrite (Z.mod_small (x / 256 / 256 / 256) 256) by lia.
    pose proof (Z.div_mod (x / 256 / 256) 256 ltac:(lia)). lia. }
  assert (Ey : y = y mod 256 + 256 * ((y / 256) mod 256) + 65536 * ((y / 65536) mod 256) + 16777216 * ((y / 16777216) mod 256)).
  { pose proof (Z.div_mod y 256 ltac:(lia)). pose proof (Z.div_mod (y / 256) 256 ltac:(lia)).
    pose proof (Z.div_mod (y / 65536) 256 ltac:(lia)).
    replace (y / 65536) with (y / 256 / 256) in * by (rewrite Z.div_div by lia; reflexivity).
    replace (y / 16777216) with (y / 256 / 256 / 256) by (rewrite !Z.div_div by lia; reflexivity).
    assert (y / 256 / 256 / 256 < 256) by (apply Z.div_lt_upper_bound; [lia|]; apply Z.div_lt_upper_bound; [lia|]; apply Z.div_lt_upper_bound; lia).
    assert (0 <= y / 256 / 256 / 256) by (repeat apply Z.div_pos; lia).
    rewrite (Z.mod_small (y / 256 / 256 / 256) 256) by lia.
    pose proof (Z.div_mod (y / 256 / 256) 256 ltac:(lia)). lia. }
  rewrite Ex, Ey. congruence.
Qed.

Lemma encode4_inj ip1 p1 ip2 p2 :
  length ip1 = 4%nat -> length ip2 = 4%nat -> 0 <= p1 < 65536 -> 0 <= p2 < 65536 ->
  encode4 ip1 p1 = encode4 ip2 p2 -> ip1 = ip2 /\ p1 = p2.
Proof.
  unfold encode4. intros L1 L2 H1 H2 H. cbn [app] in H. inversion H as [[Ha Hb Hc]].
  split.
  - apply app_inv_tail in Hc. exact Hc.
  - apply be16_inj; [assumption|assumption|]. unfold be16. congruence.
Qed.

Lemma app_inj_length {A} (a b c d : list A) : length a = length c -> a ++ b = c ++ d -> a = c /\ b = d.
Proof.
  revert c. induction a as [|x a IH]; intros [|y c] Hl H; cbn in *; try discriminate; [auto|].
  inversion H; subst. destruct (IH c ltac:(lia) H2). subst. auto.
Qed.

Lemma encode6_inj ip1 p1 f1 s1 ip2 p2 f2 s2 :
  length ip1 = 16%nat -> length ip2 = 16%nat -> length f1 = 4%nat -> length f2 = 4%nat ->
  0 <= p1 < 65536 -> 0 <= p2 < 65536 -> 0 <= s1 < 4294967296 -> 0 <= s2 < 4294967296 ->
  encode6 ip1 p1 f1 s1 = encode6 ip2 p2 f2 s2 -> ip1 = ip2 /\ p1 = p2 /\ f1 = f2 /\ s1 = s2.
Proof.
  unfold encode6. intros L1 L2 F1 F2 P1 P2 S1 S2 H. cbn [app] in H. inversion H as [[Ha Hb Hc]].
  destruct (app_inj_length f1 _ f2 _ ltac:(lia) Hc) as [Hf Hr].
  destruct (app_inj_length ip1 _ ip2 _ ltac:(lia) Hr) as [Hi Hs].
  repeat split; try assumption.
  - apply be16_inj; [assumption|assumption|]. unfold be16. congruence.
  - now apply le32_inj.
Qed.

(* the two families never produce the same bytes: different lengths *)
Lemma families_differ ip4 p4 ip6 p6 f s : length ip4 = 4%nat -> length ip6 = 16%nat -> length f = 4%nat ->
  view_eq (encode4 ip4 p4) (encode6 ip6 p6 f s) = false.
Proof.
  intros L4 L6 Lf. unfold view_eq, encode4, encode6, be16, le32. rewrite !app_length, repeat_length. cbn [length]. rewrite L4, L6, Lf. reflexivity.
Qed.

Lemma port_of_encode4 ip p : 0 <= p < 65536 -> port_of (encode4 ip p) = p.
Proof. intros H. unfold port_of, encode4, be16. cbn. pose proof (Z.div_mod p 256 ltac:(lia)). lia. Qed.

Lemma port_of_encode6 ip p f s : 0 <= p < 65536 -> port_of (encode6 ip p f s) = p.
Proof. intros H. unfold port_of, encode6, be16. cbn. pose proof (Z.div_mod p 256 ltac:(lia)). lia. Qed.
