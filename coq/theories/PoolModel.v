(* PoolModel.v — BufferPool (src/socket_buffered.cpp:25-91, include/sockpuppet/socket_buffered.h).
   A buffer is a std::string: identity, size(), and a lower bound of capacity()
   (libstdc++: clear/resize/erase never lower the capacity — trusted library fact). *)
From SP Require Export Base.
Local Open Scope Z_scope.

Record buf := { b_id : Z; b_size : Z; b_cap : Z }.

Record pool := {
  p_max  : Z;          (* m_maxCount = maxCount - 1U in size_t arithmetic *)
  p_idle : list buf;   (* std::stack: head = top *)
  p_busy : list buf;   (* std::deque, emplace_back: append at the end *)
  p_next : Z           (* next fresh buffer identity *)
}.

(* buffers with ids first, first+1, ..., pushed one after the other: the last one ends up on top *)
Fixpoint prealloc (count : nat) (first reserve : Z) (stack : list buf) : list buf :=
  match count with
  | O => stack
  | S k => prealloc k (first + 1) reserve ({| b_id := first; b_size := 0; b_cap := reserve |} :: stack)
  end.

(* BufferPool::BufferPool(maxCount, reserveSize) *)
Definition pool_new (first_id maxCount reserve : Z) : pool :=
  {| p_max  := (maxCount - 1) mod two64;
     p_idle := prealloc (Z.to_nat maxCount) first_id reserve [];
     p_busy := [];
     p_next := first_id + maxCount |}.

(* BufferPool::Get *)
Definition pool_get (p : pool) : res buf * pool :=
  match p_idle p with
  | [] =>
      if Z.of_nat (length (p_busy p)) <=? p_max p then
        let b := {| b_id := p_next p; b_size := 0; b_cap := 0 |} in
        (Ok b, {| p_max := p_max p; p_idle := []; p_busy := p_busy p ++ [b]; p_next := p_next p + 1 |})
      else (Exn OutOfBuffers, p)
  | b :: rest =>
      let b' := {| b_id := b_id b; b_size := 0; b_cap := b_cap b |} in   (* buf->clear() *)
      (Ok b', {| p_max := p_max p; p_idle := rest; p_busy := p_busy p ++ [b']; p_next := p_next p |})
  end.

Fixpoint remove_id (id : Z) (l : list buf) : option (buf * list buf) :=
  match l with
  | [] => None
  | b :: t => if b_id b =? id then Some (b, t)
              else match remove_id id t with
                   | Some (x, t') => Some (x, b :: t')
                   | None => None
                   end
  end.

(* BufferPool::Recycle (the deleter of BufferPtr) *)
Definition pool_recycle (p : pool) (id : Z) : res unit * pool :=
  match remove_id id (p_busy p) with
  | None => (Exn (LogicErr 20), p)           (* "returned invalid buffer" *)
  | Some (b, busy') =>
      (Ok tt, {| p_max := p_max p; p_idle := b :: p_idle p; p_busy := busy'; p_next := p_next p |})
  end.

(* the user (or the library's receive path) resizes / writes a buffer it holds:
   size changes, capacity can only grow *)
Fixpoint set_size (id n : Z) (l : list buf) : list buf :=
  match l with
  | [] => []
  | b :: t => if b_id b =? id
              then {| b_id := id; b_size := n; b_cap := Z.max (b_cap b) n |} :: t
              else b :: set_size id n t
  end.

Definition pool_resize (p : pool) (id n : Z) : pool :=
  {| p_max := p_max p; p_idle := p_idle p; p_busy := set_size id n (p_busy p); p_next := p_next p |}.

(* ---- operation histories (direct API) ------------------------------------------------------- *)
Inductive pool_op := PGet | PRelease (id : Z) | PResize (id n : Z).

Inductive pool_out :=
| OGot (id size cap : Z) | ORefused | OReleased | OInvalid | OResized.

Definition pool_step (p : pool) (o : pool_op) : pool * pool_out :=
  match o with
  | PGet => match pool_get p with
            | (Ok b, p') => (p', OGot (b_id b) (b_size b) (b_cap b))
            | (_, p') => (p', ORefused)
            end
  | PRelease id => match pool_recycle p id with
                   | (Ok _, p') => (p', OReleased)
                   | (_, p') => (p', OInvalid)
                   end
  | PResize id n => (pool_resize p id n, OResized)
  end.

Fixpoint pool_run (p : pool) (ops : list pool_op) : pool * list pool_out :=
  match ops with
  | [] => (p, [])
  | o :: t => let '(p1, out) := pool_step p o in
              let '(p2, outs) := pool_run p1 t in (p2, out :: outs)
  end.
