(* TlsComplete.v — C01's clause "a Send with unlimited timeout returns only after all its bytes were accepted", for the TLS
   glue (finding F10): Write() stops short only when a wait said "not yet". A wait says so only when a poll returned 0, which
   a poll without time limit never does; so on a script in which no poll returns 0 every Send returns its full size. *)
From SP Require Import Base ListAux Os OsLemmas WaitModel WaitLemmas SocketModel SocketLemmas Objects DriverModel TlsModel TlsLemmas.
Local Open Scope Z_scope.
Local Notation os := (os ext).

(* ---- operations consume the script from the front -------------------------------------------------------------------- *)
Definition shrinks {A} (m : MX A) : Prop := forall (s : os) r s', m s = (r, s') -> suffix s s'.
Definition still {A} (m : MX A) : Prop := forall (s : os) r s', m s = (r, s') -> o_script s' = o_script s.

Lemma shrinks_of_still {A} (m : MX A) : still m -> shrinks m.
Proof. intros H s r s' E. exists []. now rewrite (H _ _ _ E). Qed.

Lemma shrinks_bind {A B} (m : MX A) (f : A -> MX B) : shrinks m -> (forall a, shrinks (f a)) -> shrinks (bind m f).
Proof.
  intros Hm Hf s r s' H. apply bind_inv in H. destruct H as [[a [s1 [H1 H2]]]|[r0 [H1 _]]].
  - eapply suffix_trans; [exact (Hm _ _ _ H1)|exact (Hf a _ _ _ H2)].
  - exact (Hm _ _ _ H1).
Qed.
Lemma still_bind {A B} (m : MX A) (f : A -> MX B) : still m -> (forall a, still (f a)) -> still (bind m f).
Proof.
  intros Hm Hf s r s' H. apply bind_inv in H. destruct H as [[a [s1 [H1 H2]]]|[r0 [H1 _]]].
  - rewrite (Hf a _ _ _ H2). exact (Hm _ _ _ H1).
  - exact (Hm _ _ _ H1).
Qed.
Lemma shrinks_catch {A} (m : MX A) (h : exn -> MX A) : shrinks m -> (forall e, shrinks (h e)) -> shrinks (catch m h).
Proof.
  intros Hm Hh s r s' H. apply catch_inv in H. destruct H as [[e [s1 [H1 H2]]]|[H1 _]].
  - eapply suffix_trans; [exact (Hm _ _ _ H1)|exact (Hh e _ _ _ H2)].
  - exact (Hm _ _ _ H1).
Qed.

Lemma still_ret {A} (a : A) : still (ret a).
Proof. intros s r s' H. inversion H. reflexivity. Qed.
Lemma still_throw {A} e : still (throw (X:=ext) (A:=A) e).
Proof. intros s r s' H. inversion H. reflexivity. Qed.
Lemma still_stuck {A} u : still (stuck (X:=ext) (A:=A) u).
Proof. intros s r s' H. inversion H. reflexivity. Qed.
Lemma still_bad {A} w : still (bad (X:=ext) (A:=A) w).
Proof. intros s r s' H. inversion H. reflexivity. Qed.
Lemma still_get_ext : still (get_ext (X:=ext)).
Proof. intros s r s' H. inversion H. reflexivity. Qed.
Lemma still_put_ext x : still (put_ext (X:=ext) x).
Proof. intros s r s' H. inversion H. reflexivity. Qed.
Lemma still_emit c a : still (emit (X:=ext) c a).
Proof. intros s r s' H. inversion H. reflexivity. Qed.
Lemma still_script_fuel : still (script_fuel (X:=ext)).
Proof. intros s r s' H. inversion H. reflexivity. Qed.
Lemma still_get_tls k : still (get_tls k).
Proof. unfold get_tls. apply still_bind; [apply still_get_ext|]. intros x. destruct (aget k (x_tls x)); [apply still_ret|apply still_bad]. Qed.
Lemma still_put_tls k t : still (put_tls k t).
Proof. unfold put_tls. apply still_bind; [apply still_get_ext|]. intros x. apply still_put_ext. Qed.
Lemma still_upd_tls k f : still (upd_tls k f).
Proof. unfold upd_tls. apply still_bind; [apply still_get_tls|]. intros t. apply still_put_tls. Qed.
Lemma still_get_sock k : still (get_sock k).
Proof. unfold get_sock. apply still_bind; [apply still_get_ext|]. intros x. destruct (aget k (x_socks x)); [apply still_ret|apply still_bad]. Qed.

Ltac sh := first [ apply shrinks_of_still; first [apply still_ret|apply still_throw|apply still_stuck|apply still_bad|apply still_get_ext
                  |apply still_put_ext|apply still_emit|apply still_script_fuel|apply still_get_tls|apply still_put_tls|apply still_upd_tls|apply still_get_sock] ].

Lemma shrinks_sys_now : shrinks (sys_now (X:=ext)).
Proof. intros s r s' H. apply sys_now_inv in H. destruct H as [[dt [sc [Hs [_ ->]]]]|[_ ->]]; [eapply upd_suffix; exact Hs|apply suffix_refl]. Qed.
Lemma shrinks_sys_send fd len fl : shrinks (sys_send (X:=ext) fd len fl).
Proof. intros s r s' H. apply sys_send_inv in H. destruct H as [[ret_ [e [sc [Hs [_ ->]]]]]|[_ ->]]; [eapply upd_suffix; exact Hs|apply suffix_refl]. Qed.
Lemma shrinks_sys_recv fd size : shrinks (sys_recv (X:=ext) fd size).
Proof. intros s r s' H. apply sys_recv_inv in H. destruct H as [[ret_ [e [sc [Hs [_ ->]]]]]|[_ ->]]; [eapply upd_suffix; exact Hs|apply suffix_refl]. Qed.
Lemma shrinks_wait_fd fd ev T : shrinks (wait_fd (X:=ext) fd ev T).
Proof. intros s r s' H. destruct (wait_fd_spec _ _ _ _ _ _ H) as [new W]. destruct W as [[_ _ Hsuf] _ _ _ _ _ _ _ _ _ _ _ _]. exact Hsuf. Qed.
Lemma shrinks_dl_new t : shrinks (dl_new (X:=ext) t).
Proof. unfold dl_new. apply shrinks_bind; [apply shrinks_sys_now|]. intros a. sh. Qed.
Lemma shrinks_dl_tick d : shrinks (dl_tick (X:=ext) d).
Proof. unfold dl_tick. apply shrinks_bind; [apply shrinks_sys_now|]. intros a. sh. Qed.

Lemma shrinks_set_timeout k T : shrinks (tls_set_timeout k T).
Proof.
  unfold tls_set_timeout. apply shrinks_bind; [sh|]. intros _.
  destruct (0 <? T); [|sh]. apply shrinks_bind; [apply shrinks_sys_now|]. intros now. sh.
Qed.

Lemma shrinks_send_now fd len : shrinks (send_now (X:=ext) fd len).
Proof.
  unfold send_now. apply shrinks_bind; [apply shrinks_sys_send|]. intros [sent err].
  destruct (sent <? 0); [sh|]. destruct ((sent =? 0) && (0 <? len)); [sh|]. destruct (len <? sent); sh.
Qed.
Lemma shrinks_receive_now fd size : shrinks (receive_now (X:=ext) fd size).
Proof.
  unfold receive_now. apply shrinks_bind; [apply shrinks_sys_recv|]. intros [n err].
  destruct (n <? 0); [sh|]. destruct (n =? 0); [sh|]. destruct (size <? n); sh.
Qed.
Lemma shrinks_receive fd size T : shrinks (receive (X:=ext) fd size T).
Proof.
  unfold receive. apply shrinks_bind; [apply shrinks_wait_fd|]. intros ready.
  destruct ready; [|sh]. apply shrinks_bind; [apply shrinks_receive_now|]. intros n. sh.
Qed.
Lemma shrinks_send_all_loop fuel fd : forall remaining, shrinks (send_all_loop (X:=ext) fuel fd remaining).
Proof.
  induction fuel as [|f IH]; intros remaining; cbn [send_all_loop]; [sh|].
  apply shrinks_bind; [apply shrinks_wait_fd|]. intros _.
  apply shrinks_bind; [apply shrinks_send_now|]. intros sent.
  destruct (remaining - sent =? 0); [sh|apply IH].
Qed.
Lemma shrinks_send_all fd size : shrinks (send_all (X:=ext) fd size).
Proof.
  unfold send_all. apply shrinks_bind; [sh|]. intros fuel.
  apply shrinks_bind; [apply shrinks_send_all_loop|]. intros _. sh.
Qed.
Lemma shrinks_send_try fd size : shrinks (send_try (X:=ext) fd size).
Proof. unfold send_try. apply shrinks_bind; [apply shrinks_wait_fd|]. intros ready. destruct ready; [apply shrinks_send_now|sh]. Qed.
Lemma shrinks_send_some_loop fuel fd : forall remaining d, shrinks (send_some_loop (X:=ext) fuel fd remaining d).
Proof.
  induction fuel as [|f IH]; intros remaining d; cbn [send_some_loop]; [sh|].
  apply shrinks_bind; [apply shrinks_wait_fd|]. intros ready.
  destruct (negb ready); [sh|].
  apply shrinks_bind; [apply shrinks_dl_tick|]. intros d'.
  apply shrinks_bind; [apply shrinks_send_now|]. intros sent.
  destruct (negb (remaining - sent =? 0) && dl_time_left d'); [apply IH|sh].
Qed.
Lemma shrinks_send_some fd size d : shrinks (send_some (X:=ext) fd size d).
Proof.
  unfold send_some. apply shrinks_bind; [sh|]. intros fuel.
  apply shrinks_bind; [apply shrinks_send_some_loop|]. intros [remaining d']. sh.
Qed.

Lemma shrinks_under_deadline {A} k (fn : Z -> MX A) : (forall t, shrinks (fn t)) -> shrinks (under_deadline k fn).
Proof.
  intros Hf. unfold under_deadline. apply shrinks_bind; [sh|]. intros t.
  destruct (t_rem t <=? 0); [apply Hf|].
  apply shrinks_bind; [apply shrinks_dl_new|]. intros d.
  apply shrinks_bind; [apply Hf|]. intros r.
  apply shrinks_bind; [apply shrinks_dl_tick|]. intros d'.
  apply shrinks_bind; [sh|]. intros _. sh.
Qed.
Lemma shrinks_bio_read k size : shrinks (bio_read k size).
Proof.
  unfold bio_read. apply shrinks_bind; [sh|]. intros sk.
  apply shrinks_bind; [sh|]. intros t. destruct (t_isr t).
  - apply shrinks_bind; [sh|]. intros _. apply shrinks_receive_now.
  - apply shrinks_bind; [apply shrinks_under_deadline; intros tm; apply shrinks_receive|]. intros r. sh.
Qed.
Lemma shrinks_bio_write k size : shrinks (bio_write k size).
Proof.
  unfold bio_write. apply shrinks_bind; [sh|]. intros sk.
  apply shrinks_bind; [sh|]. intros t. destruct (t_isw t).
  - apply shrinks_bind; [sh|]. intros _. apply shrinks_send_now.
  - destruct (t_rem t <? 0); [apply shrinks_send_all|]. destruct (t_rem t =? 0); [apply shrinks_send_try|].
    apply shrinks_bind; [apply shrinks_dl_new|]. intros d.
    apply shrinks_bind; [apply shrinks_send_some|]. intros [sent d'].
    apply shrinks_bind; [sh|]. intros _. sh.
Qed.
Lemma shrinks_bio_read_all fuel k : forall size, shrinks (bio_read_all fuel k size).
Proof.
  induction fuel as [|f IH]; intros size; cbn [bio_read_all]; [sh|].
  apply shrinks_bind; [apply shrinks_bio_read|]. intros r.
  apply shrinks_bind; [sh|]. intros _.
  destruct (r =? 0); [sh|]. destruct (size <=? r); [sh|apply IH].
Qed.
Lemma shrinks_run_bios k n : forall args, shrinks (run_bios k n args).
Proof.
  induction n as [|n IH]; intros args; cbn [run_bios]; [sh|].
  destruct (nthZ args 0 =? 1).
  - apply shrinks_bind; [sh|]. intros fuel.
    apply shrinks_bind; [apply shrinks_bio_read_all|]. intros ok. destruct (negb ok); [sh|apply IH].
  - apply shrinks_bind; [apply shrinks_bio_write|]. intros w.
    apply shrinks_bind; [sh|]. intros _.
    destruct (negb (w =? nthZ args 1)); [sh|apply IH].
Qed.
Lemma shrinks_engine k call size : shrinks (engine k call size).
Proof.
  unfold engine.
  apply shrinks_bind; [sh|]. intros _.
  apply shrinks_bind; [sh|]. intros _.
  apply shrinks_bind; [sh|]. intros x.
  destruct (x_eng x) as [|[c args] tl]; [sh|].
  destruct (c =? 8) eqn:Ec.
  2:{ destruct c; try sh. all: repeat (match goal with p : positive |- _ => destruct p; try sh end). all: try discriminate. }
  apply Z.eqb_eq in Ec. subst c.
  destruct args as [|call' [|nbio rest]]; try sh.
  destruct (negb (call' =? call)); [sh|].
  apply shrinks_bind; [sh|]. intros _.
  apply shrinks_bind; [apply shrinks_run_bios|]. intros st.
  destruct (negb (st =? 0)).
  - apply shrinks_bind; [sh|]. intros _. sh.
  - apply shrinks_bind; [sh|]. intros _.
    apply shrinks_bind; [sh|]. intros _. sh.
Qed.
Lemma shrinks_handle_error k err : shrinks (handle_error k err).
Proof.
  unfold handle_error. apply shrinks_bind; [sh|]. intros sk.
  destruct (err =? E_NONE); [sh|].
  destruct (err =? E_WANT_READ); [apply shrinks_under_deadline; intros t; apply shrinks_wait_fd|].
  destruct (err =? E_WANT_WRITE); [apply shrinks_under_deadline; intros t; apply shrinks_wait_fd|].
  destruct (err =? E_SSL); [sh|]. destruct (err =? E_SYSCALL); [sh|]. destruct (err =? E_ZERO_RETURN); sh.
Qed.
Lemma shrinks_handle_last_error k : shrinks (handle_last_error k).
Proof.
  unfold handle_last_error. apply shrinks_bind; [sh|]. intros t.
  apply shrinks_bind; [apply shrinks_handle_error|]. intros ok.
  destruct ok; [|sh]. apply shrinks_bind; [sh|]. intros _. sh.
Qed.
Lemma shrinks_handle_result k err : shrinks (handle_result k err).
Proof. unfold handle_result. apply shrinks_bind; [sh|]. intros _. apply shrinks_handle_last_error. Qed.

(* ---- a wait says "not yet" only when a poll returned 0 --------------------------------------------------------------- *)
Definition never_idle (sc : list ev) : Prop := forall r e dt rev, In (EvPoll r e dt rev) sc -> r <> 0.

Lemma never_idle_suffix (s s' : os) : suffix s s' -> never_idle (o_script s) -> never_idle (o_script s').
Proof. intros [u H] N r e dt rev Hin. apply (N r e dt rev). rewrite H. apply in_or_app. right. exact Hin. Qed.

Lemma poll_unlimited_zero fuel fds T : forall (s : os) e rev s',
  poll_unlimited fuel fds T s = (Ok (0, e, rev), s') -> ~ never_idle (o_script s).
Proof.
  induction fuel as [|f IH]; intros s e rev s' H; cbn [poll_unlimited] in H; [inversion H|].
  apply bind_inv in H. destruct H as [[[[r0 e0] rev0] [s1 [H1 H2]]]|[r0 [_ [_ Hx]]]]; [|exfalso; exact (recast_not_ok _ _ Hx)].
  apply sys_poll_inv in H1. destruct H1 as [[ret_ [e1 [dt [rev1 [sc [Hs [Hr ->]]]]]]]|[Hr _]]; [|discriminate].
  inversion Hr; subst ret_ e1 rev1.
  destruct (interrupted (r0, e0, rev0)) eqn:Ei.
  - intros N. apply (IH _ _ _ _ H2). intros r e' dt' rev' Hin. apply (N r e' dt' rev'). rewrite Hs. right. exact Hin.
  - inversion H2; subst. intros N. apply (N 0 e dt rev); [rewrite Hs; left; reflexivity|reflexivity].
Qed.

Lemma poll_limited_zero fuel fds : forall d (s : os) e rev s',
  poll_limited fuel fds d s = (Ok (0, e, rev), s') -> ~ never_idle (o_script s).
Proof.
  induction fuel as [|f IH]; intros d s e rev s' H; cbn [poll_limited] in H; [inversion H|].
  apply bind_inv in H. destruct H as [[[[r0 e0] rev0] [s1 [H1 H2]]]|[r0 [_ [_ Hx]]]]; [|exfalso; exact (recast_not_ok _ _ Hx)].
  apply sys_poll_inv in H1. destruct H1 as [[ret_ [e1 [dt [rev1 [sc [Hs [Hr ->]]]]]]]|[Hr _]]; [|discriminate].
  inversion Hr; subst ret_ e1 rev1.
  destruct (interrupted (r0, e0, rev0)) eqn:Ei.
  - apply bind_inv in H2. destruct H2 as [[d' [s2 [Hd H2]]]|[r1 [_ [_ Hx]]]]; [|exfalso; exact (recast_not_ok _ _ Hx)].
    intros N. apply (IH _ _ _ _ _ H2). apply (never_idle_suffix _ _ (shrinks_dl_tick _ _ _ _ Hd)).
    intros r e' dt' rev' Hin. apply (N r e' dt' rev'). rewrite Hs. right. exact Hin.
  - inversion H2; subst. intros N. apply (N 0 e dt rev); [rewrite Hs; left; reflexivity|reflexivity].
Qed.

Lemma wait_fd_false fd ev T (s : os) s' : wait_fd fd ev T s = (Ok false, s') -> ~ never_idle (o_script s).
Proof.
  unfold wait_fd, do_poll. intros H.
  apply bind_inv in H. destruct H as [[[[ret_ err] rev] [s1 [H1 H2]]]|[r0 [_ [_ Hx]]]]; [|exfalso; exact (recast_not_ok _ _ Hx)].
  destruct (ret_ <? 0); [inversion H2|]. inversion H2; subst.
  destruct (ret_ =? 0) eqn:E0; [|discriminate]. apply Z.eqb_eq in E0. subst ret_.
  apply bind_inv in H1. destruct H1 as [[fuel [s0 [Hf H1]]]|[r0 [_ [_ Hx]]]]; [|exfalso; exact (recast_not_ok _ _ Hx)].
  inversion Hf; subst s0.
  destruct (T <=? 0).
  - exact (poll_unlimited_zero _ _ _ _ _ _ _ H1).
  - apply bind_inv in H1. destruct H1 as [[d [s2 [Hd H1]]]|[r0 [_ [_ Hx]]]]; [|exfalso; exact (recast_not_ok _ _ Hx)].
    intros N. apply (poll_limited_zero _ _ _ _ _ _ _ H1). exact (never_idle_suffix _ _ (shrinks_dl_new _ _ _ _ Hd) N).
Qed.

Lemma under_deadline_false k (fn : Z -> MX bool) :
  (forall t (s : os) s', fn t s = (Ok false, s') -> ~ never_idle (o_script s)) ->
  forall (s : os) s', under_deadline k fn s = (Ok false, s') -> ~ never_idle (o_script s).
Proof.
  intros Hf s s' H. unfold under_deadline in H.
  apply bind_inv in H. destruct H as [[t [s1 [Hg H]]]|[r0 [_ [_ Hx]]]]; [|exfalso; exact (recast_not_ok _ _ Hx)].
  pose proof (still_get_tls _ _ _ _ Hg) as Hs1.
  destruct (t_rem t <=? 0).
  - rewrite <- Hs1. exact (Hf _ _ _ H).
  - apply bind_inv in H. destruct H as [[d [s2 [Hd H]]]|[r0 [_ [_ Hx]]]]; [|exfalso; exact (recast_not_ok _ _ Hx)].
    apply bind_inv in H. destruct H as [[r [s3 [Hr H]]]|[r0 [_ [_ Hx]]]]; [|exfalso; exact (recast_not_ok _ _ Hx)].
    apply bind_inv in H. destruct H as [[d' [s4 [_ H]]]|[r0 [_ [_ Hx]]]]; [|exfalso; exact (recast_not_ok _ _ Hx)].
    apply bind_inv in H. destruct H as [[[] [s5 [_ H]]]|[r0 [_ [_ Hx]]]]; [|exfalso; exact (recast_not_ok _ _ Hx)].
    inversion H; subst r s5. intros N. apply (Hf _ _ _ Hr).
    apply (never_idle_suffix _ _ (shrinks_dl_new _ _ _ _ Hd)). rewrite Hs1. exact N.
Qed.

Lemma handle_error_false_idle k err (s : os) s' : handle_error k err s = (Ok false, s') -> ~ never_idle (o_script s).
Proof.
  unfold handle_error. intros H.
  apply bind_inv in H. destruct H as [[sk [s1 [Hg H]]]|[r0 [_ [_ Hx]]]]; [|exfalso; exact (recast_not_ok _ _ Hx)].
  rewrite <- (still_get_sock _ _ _ _ Hg).
  destruct (err =? E_NONE); [inversion H|].
  destruct (err =? E_WANT_READ); [exact (under_deadline_false _ _ (fun t => wait_fd_false _ _ t) _ _ H)|].
  destruct (err =? E_WANT_WRITE); [exact (under_deadline_false _ _ (fun t => wait_fd_false _ _ t) _ _ H)|].
  destruct (err =? E_SSL); [inversion H|]. destruct (err =? E_SYSCALL); [inversion H|]. destruct (err =? E_ZERO_RETURN); inversion H.
Qed.

Lemma handle_last_error_false_idle k (s : os) s' : handle_last_error k s = (Ok false, s') -> ~ never_idle (o_script s).
Proof.
  unfold handle_last_error. intros H.
  apply bind_inv in H. destruct H as [[t [s1 [Hg H]]]|[r0 [_ [_ Hx]]]]; [|exfalso; exact (recast_not_ok _ _ Hx)].
  rewrite <- (still_get_tls _ _ _ _ Hg).
  apply bind_inv in H. destruct H as [[ok [s2 [He H]]]|[r0 [_ [_ Hx]]]]; [|exfalso; exact (recast_not_ok _ _ Hx)].
  destruct ok.
  - apply bind_inv in H. destruct H as [[[] [s3 [_ H]]]|[r0 [_ [_ Hx]]]]; [inversion H|exfalso; exact (recast_not_ok _ _ Hx)].
  - exact (handle_error_false_idle _ _ _ _ He).
Qed.

Lemma handle_result_false_idle k err (s : os) s' : handle_result k err s = (Ok false, s') -> ~ never_idle (o_script s).
Proof.
  unfold handle_result. intros H.
  apply bind_inv in H. destruct H as [[[] [s1 [Hu H]]]|[r0 [_ [_ Hx]]]]; [|exfalso; exact (recast_not_ok _ _ Hx)].
  rewrite <- (still_upd_tls _ _ _ _ _ Hu). exact (handle_last_error_false_idle _ _ _ H).
Qed.

(* ---- Write() ------------------------------------------------------------------------------------------------------------ *)
Lemma write_loop_complete fuel k : forall hs remaining (s : os) rem' s',
  write_loop fuel hs k remaining s = (Ok rem', s') -> never_idle (o_script s) -> rem' = 0.
Proof.
  induction fuel as [|f IH]; intros hs remaining s rem' s' H N; cbn [write_loop] in H; [inversion H|].
  destruct (remaining =? 0) eqn:E0; [inversion H; subst; apply Z.eqb_eq in E0; exact E0|].
  apply bind_inv in H. destruct H as [[t [s1 [Hg H]]]|[r0 [_ [_ Hx]]]]; [|exfalso; exact (recast_not_ok _ _ Hx)].
  destruct (negb _); [inversion H|].
  apply bind_inv in H. destruct H as [[[res err] [s2 [He H]]]|[r0 [_ [_ Hx]]]]; [|exfalso; exact (recast_not_ok _ _ Hx)].
  assert (N2 : never_idle (o_script s2)).
  { apply (never_idle_suffix _ _ (shrinks_engine _ _ _ _ _ _ He)). rewrite (still_get_tls _ _ _ _ Hg). exact N. }
  destruct (res <=? 0).
  - apply bind_inv in H. destruct H as [[[] [s3 [Hu H]]]|[r0 [_ [_ Hx]]]]; [|exfalso; exact (recast_not_ok _ _ Hx)].
    assert (N3 : never_idle (o_script s3)) by (rewrite (still_upd_tls _ _ _ _ _ Hu); exact N2).
    apply bind_inv in H. destruct H as [[ok [s4 [Hh H]]]|[r0 [_ [_ Hx]]]]; [|exfalso; exact (recast_not_ok _ _ Hx)].
    destruct ok; cbn [negb] in H.
    + destruct hs; [inversion H|]. apply (IH _ _ _ _ _ H).
      exact (never_idle_suffix _ _ (shrinks_handle_result _ _ _ _ _ Hh) N3).
    + exfalso. exact (handle_result_false_idle _ _ _ _ Hh N3).
  - apply bind_inv in H. destruct H as [[[] [s3 [Hu H]]]|[r0 [_ [_ Hx]]]]; [|exfalso; exact (recast_not_ok _ _ Hx)].
    destruct (remaining <? res); [inversion H|]. apply (IH _ _ _ _ _ H).
    rewrite (still_upd_tls _ _ _ _ _ Hu). exact N2.
Qed.

Theorem tls_send_complete : forall k size T (s : os) n s',
  never_idle (o_script s) -> tls_send k size T s = (Ok n, s') -> n = size.
Proof.
  intros k size T s n s' N H. unfold tls_send in H.
  apply bind_inv in H. destruct H as [[[] [s1 [Hu H]]]|[r0 [_ [_ Hx]]]]; [|exfalso; exact (recast_not_ok _ _ Hx)].
  assert (N1 : never_idle (o_script s1)) by exact (never_idle_suffix _ _ (shrinks_set_timeout _ _ _ _ _ Hu) N).
  unfold tls_write in H.
  apply bind_inv in H. destruct H as [[ok [s2 [Hl H]]]|[r0 [_ [_ Hx]]]]; [|exfalso; exact (recast_not_ok _ _ Hx)].
  destruct ok.
  - apply bind_inv in H. destruct H as [[x [s3 [Hg H]]]|[r0 [_ [_ Hx]]]]; [|exfalso; exact (recast_not_ok _ _ Hx)].
    apply bind_inv in H. destruct H as [[rem [s4 [Hw H]]]|[r0 [_ [_ Hx]]]]; [|exfalso; exact (recast_not_ok _ _ Hx)].
    inversion H; subst.
    assert (rem = 0); [|lia].
    apply (write_loop_complete _ _ _ _ _ _ _ Hw). rewrite (still_get_ext _ _ _ Hg).
    exact (never_idle_suffix _ _ (shrinks_handle_last_error _ _ _ _ Hl) N1).
  - exfalso. exact (handle_last_error_false_idle _ _ _ Hl N1).
Qed.

(* The loop's fuel (length of the engine script + 1) cannot run out before the script does: every round consumes one engine
   event. Bad 145 is excluded by the statements above (they speak about Ok results); a model run that ended in Bad 145 would
   show up in the correspondence check as a case the implementation completes and the model calls malformed. *)
