(* FdProgram.v — the descriptor ledger over EVERY program built from the synchronous constructors, accept and destruction,
   for every fault overlay and every oracle script: whatever fails and whenever, what the library opened and did not hand to
   the program has been closed exactly once, and what the program holds is open, distinct and closed by nobody else. *)
From SP Require Import Base ListAux Os OsLemmas WaitLemmas SocketModel FdLemmas.
From Coq Require Import Permutation.
Local Open Scope Z_scope.

Section WithExt.
Context {X : Type}.
Local Notation M := (M X).
Local Notation os := (os X).

Inductive fop :=
| FNewTcp | FNewUdp | FNewAcc        (* SocketTcp(addr) / SocketUdp(addr) / Acceptor(addr) *)
| FAccept (lfd : Z)                  (* accept on a listening descriptor *)
| FClose (fd : Z).                   (* destruction of the object that owns fd *)

Definition mem (fd : Z) (l : list Z) : bool := existsb (Z.eqb fd) l.
Fixpoint remove1 (fd : Z) (l : list Z) : list Z :=
  match l with [] => [] | h :: t => if h =? fd then t else h :: remove1 fd t end.

(* the program catches whatever a constructor throws and goes on (the library remains usable) *)
Definition run_fop (o : fop) (live : list Z) : M (list Z) :=
  match o with
  | FNewTcp => catch (fd <- tcp_client_new ;; ret (fd :: live)) (fun _ => ret live)
  | FNewUdp => catch (fd <- udp_new ;; ret (fd :: live)) (fun _ => ret live)
  | FNewAcc => catch (fd <- acceptor_new ;; ret (fd :: live)) (fun _ => ret live)
  | FAccept lfd => catch (r <- accept_now lfd ;; ret (fst r :: live)) (fun _ => ret live)
  | FClose fd => if mem fd live then sys_close fd ;;; ret (remove1 fd live) else ret live
  end.

Fixpoint run_fops (ops : list fop) (live : list Z) : M (list Z) :=
  match ops with
  | [] => ret live
  | o :: t => bind (run_fop o live) (fun live' => run_fops t live')
  end.

Record ledger (s s' : os) (live live' : list Z) (new : list raw) : Prop := {
  lg_ext : extends s s' new;
  lg_fd : o_nextfd s <= o_nextfd s';
  lg_bal : Permutation (opened new ++ live) (closed new ++ live');
  lg_nodup : NoDup live';
  lg_below : forall fd, In fd live' -> fd < o_nextfd s'
}.

Lemma mem_in fd l : mem fd l = true <-> In fd l.
Proof.
  unfold mem. rewrite existsb_exists. split.
  - intros [x [Hin He]]. apply Z.eqb_eq in He. now subst.
  - intros H. exists fd. split; [assumption|apply Z.eqb_refl].
Qed.

Lemma remove1_perm fd l : In fd l -> Permutation l (fd :: remove1 fd l).
Proof.
  induction l as [|h t IH]; cbn; [tauto|]. intros [->|H].
  - rewrite Z.eqb_refl. reflexivity.
  - destruct (h =? fd) eqn:E; [apply Z.eqb_eq in E; subst; reflexivity|].
    rewrite perm_swap. constructor. now apply IH.
Qed.

Lemma remove1_sub fd l x : In x (remove1 fd l) -> In x l.
Proof.
  induction l as [|h t IH]; cbn; [tauto|]. destruct (h =? fd); [tauto|]. cbn. intros [->|H]; [tauto|]. right. now apply IH.
Qed.

Lemma remove1_nodup fd l : NoDup l -> NoDup (remove1 fd l).
Proof.
  induction l as [|h t IH]; cbn; intros H; [constructor|]. inversion H; subst.
  destruct (h =? fd); [assumption|]. constructor; [|now apply IH]. intros Hin. apply remove1_sub in Hin. contradiction.
Qed.

(* one constructor call wrapped in the program's try/catch *)
Lemma ctor_step (m : M Z) (live : list Z) (s : os) r s' :
  (forall s0 r0 s0', 0 <= o_nextfd s0 -> m s0 = (r0, s0') -> exists new, ctor_spec s0 s0' r0 new) ->
  0 <= o_nextfd s -> NoDup live -> (forall fd, In fd live -> fd < o_nextfd s) ->
  catch (fd <- m ;; ret (fd :: live)) (fun _ => ret live) s = (r, s') ->
  exists live' new, r = Ok live' /\ ledger s s' live live' new.
Proof.
  intros Hm Hnn Hnd Hlt H. apply catch_inv in H. destruct H as [[e [s1 [H1 H2]]]|[H1 Hne]].
  - inversion H2; subst. apply bind_inv in H1. destruct H1 as [[fd [s0 [Ha Hb]]]|[r0 [Ha [Hb Hc]]]]; [inversion Hb|].
    destruct (Hm _ _ _ Hnn Ha) as [new [Hx Hfd Hres]].
    destruct Hres as [[fd [-> _]]|[e0 [_ [-> [_ [Hoc Hndc]]]]]]; [discriminate|].
    exists live, new. split; [reflexivity|]. constructor; [assumption|assumption| |assumption|].
    + rewrite Hoc. reflexivity.
    + intros fd Hin. specialize (Hlt fd Hin). lia.
  - apply bind_inv in H1. destruct H1 as [[fd [s0 [Ha Hb]]]|[r0 [Ha [Hb ->]]]].
    + inversion Hb; subst. destruct (Hm _ _ _ Hnn Ha) as [new [Hx Hfd Hres]].
      destruct Hres as [[fd' [Hr [_ [Ho [Hc Hrange]]]]]|[e0 [_ [Hr _]]]]; [|discriminate].
      inversion Hr; subst fd'. exists (fd :: live), new. split; [reflexivity|].
      constructor; [assumption|assumption| | |].
      * rewrite Ho, Hc. reflexivity.
      * constructor; [|assumption]. intros Hin. specialize (Hlt fd Hin). lia.
      * intros x [<-|Hin]; [lia|]. specialize (Hlt x Hin). lia.
    + destruct (Hm _ _ _ Hnn Ha) as [new [Hx Hfd Hres]].
      destruct Hres as [[fd' [-> _]]|[e0 [_ [-> _]]]]; [discriminate|]. exfalso. eapply Hne. reflexivity.
Qed.

Lemma accept_step lfd (live : list Z) (s : os) r s' :
  0 <= o_nextfd s -> NoDup live -> (forall fd, In fd live -> fd < o_nextfd s) ->
  catch (x <- accept_now lfd ;; ret (fst x :: live)) (fun _ => ret live) s = (r, s') ->
  (exists live' new, r = Ok live' /\ ledger s s' live live' new) \/ (exists w, r = Bad w).
Proof.
  intros Hnn Hnd Hlt H. apply catch_inv in H. destruct H as [[e [s1 [H1 H2]]]|[H1 Hne]].
  - inversion H2; subst. apply bind_inv in H1. destruct H1 as [[x [s0 [Ha Hb]]]|[r0 [Ha [Hb Hc]]]]; [inversion Hb|].
    destruct (accept_now_ledger _ _ _ _ Hnn Ha) as [new [Hx Hfd Hres]].
    destruct Hres as [[c [peer [-> _]]]|[[e0 [-> [Hoc [Hndc _]]]]|[w [-> _]]]]; try discriminate.
    left. exists live, new. split; [reflexivity|]. constructor; [assumption|assumption| |assumption|].
    + rewrite Hoc. reflexivity.
    + intros fd Hin. specialize (Hlt fd Hin). lia.
  - apply bind_inv in H1. destruct H1 as [[x [s0 [Ha Hb]]]|[r0 [Ha [Hb ->]]]].
    + inversion Hb; subst. destruct (accept_now_ledger _ _ _ _ Hnn Ha) as [new [Hx Hfd Hres]].
      destruct Hres as [[c [peer [Hr [_ [Ho [Hc Hrange]]]]]]|[[e0 [Hr _]]|[w [Hr _]]]]; try discriminate.
      inversion Hr; subst x. cbn [fst]. left. exists (c :: live), new. split; [reflexivity|].
      constructor; [assumption|assumption| | |].
      * rewrite Ho, Hc. reflexivity.
      * constructor; [|assumption]. intros Hin. specialize (Hlt c Hin). lia.
      * intros y [<-|Hin]; [lia|]. specialize (Hlt y Hin). lia.
    + destruct (accept_now_ledger _ _ _ _ Hnn Ha) as [new [Hx Hfd Hres]].
      destruct Hres as [[c [peer [-> _]]]|[[e0 [-> _]]|[w [-> _]]]]; try discriminate.
      * exfalso. eapply Hne. reflexivity.
      * right. exists w. reflexivity.
Qed.

Lemma run_fop_ledger o (live : list Z) (s : os) r s' :
  0 <= o_nextfd s -> NoDup live -> (forall fd, In fd live -> fd < o_nextfd s) ->
  run_fop o live s = (r, s') ->
  (exists live' new, r = Ok live' /\ ledger s s' live live' new) \/ (exists w, r = Bad w).
Proof.
  intros Hnn Hnd Hlt H. destruct o as [| | |lfd|fd]; cbn [run_fop] in H.
  - left. eapply ctor_step; try eassumption. intros s0 r0 s0'. apply tcp_client_new_ledger.
  - left. eapply ctor_step; try eassumption. intros s0 r0 s0'. apply udp_new_ledger.
  - left. eapply ctor_step; try eassumption. intros s0 r0 s0'. apply acceptor_new_ledger.
  - eapply accept_step; eassumption.
  - left. destruct (mem fd live) eqn:Em.
    + apply mem_in in Em. apply bind_inv in H. destruct H as [[[] [s1 [H1 H2]]]|[r0 [H1 [H2 _]]]].
      * destruct (sys_close_spec _ _ _ _ H1) as [cerr [_ [Hx Hfd]]]. inversion H2; subst.
        exists (remove1 fd live), [sys_entry S_CLOSE fd cerr]. split; [reflexivity|].
        constructor; [assumption|lia| |now apply remove1_nodup|].
        -- rewrite opened_close, closed_close. cbn. now apply remove1_perm.
        -- intros x Hin. apply remove1_sub in Hin. specialize (Hlt x Hin). lia.
      * destruct (sys_close_spec _ _ _ _ H1) as [cerr [-> _]]. discriminate.
    + inversion H; subst. exists live, []. split; [reflexivity|].
      constructor; [apply extends_refl|lia|reflexivity|assumption|assumption].
Qed.

Lemma perm_chain (o1 o2 c1 c2 l l1 l' : list Z) :
  Permutation (o1 ++ l) (c1 ++ l1) -> Permutation (o2 ++ l1) (c2 ++ l') ->
  Permutation ((o1 ++ o2) ++ l) ((c1 ++ c2) ++ l').
Proof.
  intros H1 H2. rewrite <- !app_assoc.
  rewrite (Permutation_app_swap_app o1 o2 l). rewrite H1.
  rewrite (Permutation_app_swap_app o2 c1 l1). rewrite H2. reflexivity.
Qed.

(* every program, every fault overlay, every script *)
Theorem ledger_balanced_all_programs : forall ops (live : list Z) (s : os) live' s',
  0 <= o_nextfd s -> NoDup live -> (forall fd, In fd live -> fd < o_nextfd s) ->
  run_fops ops live s = (Ok live', s') ->
  exists new, ledger s s' live live' new.
Proof.
  induction ops as [|o t IH]; intros live s live' s' Hnn Hnd Hlt H; cbn [run_fops] in H.
  - inversion H; subst. exists []. constructor; [apply extends_refl|lia|reflexivity|assumption|assumption].
  - apply bind_inv in H. destruct H as [[l1 [s1 [H1 H2]]]|[r0 [_ [_ Hr]]]]; [|exfalso; exact (recast_not_ok _ _ Hr)].
    destruct (run_fop_ledger _ _ _ _ _ Hnn Hnd Hlt H1) as [[l1' [n1 [Hr [X1 F1 B1 N1 L1]]]]|[w Hw]]; [|discriminate].
    inversion Hr; subst l1'.
    assert (Hnn1 : 0 <= o_nextfd s1) by lia.
    destruct (IH _ _ _ _ Hnn1 N1 L1 H2) as [n2 [X2 F2 B2 N2 L2]].
    exists (n2 ++ n1). constructor; [eapply extends_trans; eassumption|lia| |assumption|assumption].
    rewrite opened_app, closed_app. eapply perm_chain; eassumption.
Qed.

(* corollary: a program that destroys everything it created leaves nothing open, closes nothing twice *)
Corollary everything_destroyed_nothing_leaked : forall ops (s : os) s',
  0 <= o_nextfd s -> run_fops ops [] s = (Ok [], s') ->
  exists new, extends s s' new /\ Permutation (opened new) (closed new).
Proof.
  intros ops s s' Hnn H. destruct (ledger_balanced_all_programs ops [] s [] s' Hnn (NoDup_nil _) ltac:(intros fd []) H) as [new [Hx Hf Hb _ _]].
  exists new. split; [assumption|]. now rewrite !app_nil_r in Hb.
Qed.

End WithExt.
