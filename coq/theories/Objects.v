(* Objects.v — the library objects of a scenario (pools, sockets of every class, the driver, ToDos, futures)
   and the monad operations to reach them. *)
From SP Require Export BufferedModel TodoModel.
From RecordUpdate Require Export RecordSet.
Export RecordSetNotations.
Local Open Scope Z_scope.

Record sock := mkSock {
  s_fd : Z;
  s_kind : Z;                    (* 1 TCP, 2 UDP, 3 acceptor *)
  s_open : bool;                 (* object alive (descriptor not yet closed) *)
  s_buffered : bool;
  s_rxsize : Z;
  s_pool : pool;                 (* receive pool of the buffered / async variants *)
  s_async : bool;                (* wrapped into SocketTcpAsync / SocketUdpAsync / AcceptorAsync *)
  s_peer : Z;                    (* peer address cached at construction of the async TCP socket *)
  s_sendq : list (Z * Z * Z * Z);(* (future, buffer owner, buffer id, destination) — front first *)
  s_h1 : Z;                      (* handler blocks: receive / receive-from / connect *)
  s_h2 : Z                       (*                 disconnect *)
}.
#[export] Instance eta_sock : Settable _ :=
  settable! mkSock <s_fd; s_kind; s_open; s_buffered; s_rxsize; s_pool; s_async; s_peer; s_sendq; s_h1; s_h2>.

Record driver := mkDriver {
  d_alive : bool;
  d_from : Z;                    (* pipeFrom.fd *)
  d_to : Z;                      (* pipeTo.fd *)
  d_todos : list tentry;         (* sorted by due time *)
  d_socks : list Z;              (* registered sockets (keys), in registration order *)
  d_pfds : list (Z * Z);         (* (fd, events); front element = signalling pipe *)
  d_stop : bool                  (* shouldStop *)
}.
#[export] Instance eta_driver : Settable _ :=
  settable! mkDriver <d_alive; d_from; d_to; d_todos; d_socks; d_pfds; d_stop>.

Record todo_obj := mkTodo {
  to_when : Z;                   (* ToDoImpl::when *)
  to_block : Z;                  (* the task: a block of operations *)
  to_handle : bool               (* the ToDo handle object is still alive *)
}.
#[export] Instance eta_todo : Settable _ := settable! mkTodo <to_when; to_block; to_handle>.

(* future states: 0 pending, 1 value, 2 exception, 3 broken promise *)
Record fut := mkFut { f_state : Z; f_code : list Z; f_reported : Z }.
#[export] Instance eta_fut : Settable _ := settable! mkFut <f_state; f_code; f_reported>.

(* glue state of a TLS socket (src/socket_tls_impl.h) *)
Record tlsst := mkTls {
  t_last : Z;                    (* lastError: 0 NONE, 1 SSL, 2 WANT_READ, 3 WANT_WRITE, 5 SYSCALL, 6 ZERO_RETURN *)
  t_isr : bool;                  (* isReadable *)
  t_isw : bool;                  (* isWritable *)
  t_supp : bool;                 (* driverSendSuppressed *)
  t_init : bool;                 (* SSL_is_init_finished (state of the engine) *)
  t_pend : Z;                    (* size of pendingSend, -1 = empty *)
  t_rem : Z;                     (* remainingTime, ms *)
  t_server : bool;               (* SSL_is_server: accept state (socket obtained from a TLS acceptor) *)
  t_started : bool;              (* negation of SSL_in_before: the engine was entered at least once *)
  t_more : bool;                 (* SSL_pending > 0: the engine holds the rest of a decrypted record *)
  t_end : Z                      (* deadline (ns) of the operation in progress, meaningful while t_rem > 0 (finding F15) *)
}.
#[export] Instance eta_tls : Settable _ := settable! mkTls <t_last; t_isr; t_isw; t_supp; t_init; t_pend; t_rem; t_server; t_started; t_more; t_end>.

Record ext := mkExt {
  x_pools : list (Z * pool);     (* user pools by key *)
  x_socks : list (Z * sock);     (* sockets by key *)
  x_names : list (Z * Z);        (* buffers (owner, id) in order of first appearance: name = index *)
  x_driver : driver;
  x_todos : list (Z * todo_obj);
  x_futs : list (Z * fut);
  x_nfut : Z;
  x_blocks : list (Z * list raw);
  x_ntodo : Z;                   (* anonymous ToDos created so far (identities 1000, 1001, ...) *)
  x_npool : Z;                   (* pools created so far (buffer identities are unique across pools) *)
  x_held : list (Z * Z);         (* buffers (owner, id) whose BufferPtr the scenario (the user) holds *)
  x_arg : option (Z * Z);        (* buffer handed to the handler that is running (owner, id), if not kept yet *)
  x_acc : option (Z * Z);        (* (descriptor, peer) of the socket handed to the running connect handler *)
  x_tls : list (Z * tlsst);      (* TLS sockets by key: glue state *)
  x_eng : list raw               (* script of the TLS engine (scripted OpenSSL), see TlsModel.v *)
}.
#[export] Instance eta_ext : Settable _ :=
  settable! mkExt <x_pools; x_socks; x_names; x_driver; x_todos; x_futs; x_nfut; x_blocks; x_ntodo; x_npool; x_held; x_arg; x_acc; x_tls; x_eng>.

Definition dummy_pool : pool := {| p_max := 0; p_idle := []; p_busy := []; p_next := 0 |}.
Definition no_driver : driver :=
  {| d_alive := false; d_from := -1; d_to := -1; d_todos := []; d_socks := []; d_pfds := []; d_stop := false |}.
Definition ext_init : ext :=
  {| x_pools := []; x_socks := []; x_names := []; x_driver := no_driver; x_todos := []; x_futs := []; x_nfut := 0;
     x_blocks := []; x_ntodo := 0; x_npool := 0; x_held := []; x_arg := None; x_acc := None; x_tls := []; x_eng := [] |}.

Section Assoc.
Context {V : Type}.
Fixpoint aget (k : Z) (l : list (Z * V)) : option V :=
  match l with [] => None | (k', v) :: t => if k' =? k then Some v else aget k t end.
Fixpoint aset (k : Z) (v : V) (l : list (Z * V)) : list (Z * V) :=
  match l with
  | [] => [(k, v)]
  | (k', v') :: t => if k' =? k then (k, v) :: t else (k', v') :: aset k v t
  end.
End Assoc.

(* owner keys: user pool p -> p (< 1000); receive pool of socket s -> 1000 + s *)
Definition owner_pool (x : ext) (owner : Z) : pool :=
  if owner <? 1000 then match aget owner (x_pools x) with Some p => p | None => dummy_pool end
  else match aget (owner - 1000) (x_socks x) with Some s => s_pool s | None => dummy_pool end.

Definition set_owner_pool (owner : Z) (x : ext) (p : pool) : ext :=
  if owner <? 1000 then x <| x_pools := aset owner p (x_pools x) |>
  else match aget (owner - 1000) (x_socks x) with
       | Some s => x <| x_socks := aset (owner - 1000) (s <| s_pool := p |>) (x_socks x) |>
       | None => x
       end.

Fixpoint find_name (o i : Z) (l : list (Z * Z)) (idx : Z) : option Z :=
  match l with
  | [] => None
  | (o', i') :: t => if (o' =? o) && (i' =? i) then Some idx else find_name o i t (idx + 1)
  end.

Notation MX := (M ext).

(* name of buffer (owner, id): index of first appearance (registered on demand) *)
Definition name_of (owner id : Z) : MX Z :=
  x <- get_ext ;;
  match find_name owner id (x_names x) 0 with
  | Some n => ret n
  | None => put_ext (x <| x_names := x_names x ++ [(owner, id)] |>) ;;; ret (Z.of_nat (length (x_names x)))
  end.

Definition get_sock (k : Z) : MX sock :=
  x <- get_ext ;; match aget k (x_socks x) with Some s => ret s | None => bad 102 end.

Definition put_sock (k : Z) (s : sock) : MX unit :=
  x <- get_ext ;; put_ext (x <| x_socks := aset k s (x_socks x) |>).

Definition upd_sock (k : Z) (f : sock -> sock) : MX unit :=
  s <- get_sock k ;; put_sock k (f s).

Definition get_driver : MX driver := x <- get_ext ;; ret (x_driver x).
Definition put_driver (d : driver) : MX unit := x <- get_ext ;; put_ext (x <| x_driver := d |>).
Definition upd_driver (f : driver -> driver) : MX unit := d <- get_driver ;; put_driver (f d).

Definition is_busy (id : Z) (l : list buf) : bool := existsb (fun b => b_id b =? id) l.
Definition buf_size (id : Z) (l : list buf) : Z :=
  match find (fun b => b_id b =? id) l with Some b => b_size b | None => 0 end.

Definition pget (owner : Z) : MX buf := pool_get_m (fun x => owner_pool x owner) (set_owner_pool owner).
Definition precycle (owner id : Z) : MX unit := pool_recycle_m (fun x => owner_pool x owner) (set_owner_pool owner) id.
Definition presize (owner id n : Z) : MX unit := pool_resize_m (fun x => owner_pool x owner) (set_owner_pool owner) id n.

Definition is_held (owner id : Z) (l : list (Z * Z)) : bool :=
  existsb (fun oi => (fst oi =? owner) && (snd oi =? id)) l.

Fixpoint unhold_in (owner id : Z) (l : list (Z * Z)) : list (Z * Z) :=
  match l with
  | [] => []
  | (o, i) :: t => if (o =? owner) && (i =? id) then t else (o, i) :: unhold_in owner id t
  end.

(* the scenario takes / gives up ownership of a BufferPtr *)
Definition hold (owner id : Z) : MX unit :=
  x <- get_ext ;; put_ext (x <| x_held := (owner, id) :: x_held x |>).

(* drop a BufferPtr if the scenario still holds it *)
Definition release_if_held (owner id : Z) : MX unit :=
  x <- get_ext ;;
  if is_held owner id (x_held x)
  then put_ext (x <| x_held := unhold_in owner id (x_held x) |>) ;;; precycle owner id
  else ret tt.

(* BufferPool(count, reserve): each pool draws its buffer identities from its own range *)
Definition fresh_pool (count reserve : Z) : MX pool :=
  x <- get_ext ;;
  put_ext (x <| x_npool := x_npool x + 1 |>) ;;;
  ret (pool_new (x_npool x * 1000000) count reserve).

(* ---- trace entries above the system-call level -------------------------------------------------- *)
Definition K_RET := 20.        (* [opcode; 1; results...] or [opcode; 0; exception code...] *)
Definition K_HANDLER := 21.    (* [kind; ...]: 1 receive [sock; name; size]  2 disconnect [sock; peer]  3 connect [sock; peer]
                                              4 receive-from [sock; name; size; src]  5 task [todo id] *)
Definition K_FUTURE := 22.     (* [future; state; code...]  state: 1 value 2 exception 3 broken promise *)
Definition K_POOL := 23.       (* [owner; outstanding buffers] *)
Definition K_PFDS := 24.       (* [fd; events; ...] the driver's poll list *)
Definition K_TODOS := 25.      (* [id; when; ...] the driver's ToDo list *)

Definition report_ok (opc : Z) (vals : list Z) : MX unit := emit K_RET (opc :: 1 :: vals).

(* run an API call; a C++ exception is what the caller observes: record it *)
Definition api (opc : Z) (m : MX (list Z)) : MX unit :=
  catch (vals <- m ;; report_ok opc vals)
        (fun e => emit K_RET (opc :: 0 :: exn_code e)).
