(* TodoLemmas.v — the sorted ToDo list (src/todo_impl.cpp) and the due test of StepTodos, for every history. *)
From SP Require Import Base ListAux TodoModel.
From Coq Require Import Sorted.
Local Open Scope Z_scope.

Definition whens_sorted (l : list tentry) : Prop := Sorted Z.le (todo_whens l).

Lemma hdrel_insert id w (a : tentry) l : Z.le (snd a) w -> HdRel Z.le (snd a) (todo_whens l) ->
  HdRel Z.le (snd a) (todo_whens (todo_insert id w l)).
Proof.
  intros Ha H. destruct l as [|[i w'] t]; cbn.
  - constructor. exact Ha.
  - destruct (w <? w'); cbn; constructor; [exact Ha|]. inversion H; subst. assumption.
Qed.

(* Insert keeps the list sorted by due time *)
Lemma insert_sorted id w l : whens_sorted l -> whens_sorted (todo_insert id w l).
Proof.
  unfold whens_sorted. induction l as [|[i w'] t IH]; intros H; cbn.
  - repeat constructor.
  - destruct (w <? w') eqn:E; cbn.
    + apply Z.ltb_lt in E. constructor; [exact H|]. constructor. lia.
    + apply Z.ltb_ge in E. inversion H; subst. constructor; [now apply IH|].
      apply (hdrel_insert id w (i, w') t); assumption.
Qed.

(* ... and is stable: the new entry goes behind every entry that is not strictly later (equal due times keep
   their scheduling order), in front of every strictly later one *)
Lemma insert_stable id w l :
  exists l1 l2, todo_insert id w l = l1 ++ (id, w) :: l2 /\ l = l1 ++ l2 /\
    Forall (fun e => snd e <= w) l1 /\ (whens_sorted l -> Forall (fun e => w < snd e) l2).
Proof.
  induction l as [|[i w'] t IH]; cbn.
  - exists [], []. repeat split; constructor.
  - destruct (w <? w') eqn:E.
    + apply Z.ltb_lt in E. exists [], ((i, w') :: t). split; [reflexivity|]. split; [reflexivity|]. split; [constructor|].
      intros Hs. constructor; [exact E|].
      unfold whens_sorted in Hs. cbn in Hs. apply Sorted_StronglySorted in Hs; [|intros x y z; lia].
      inversion Hs as [|? ? Hss Hall]; subst. rewrite Forall_forall in *. intros e He.
      assert (Hin : In (snd e) (todo_whens t)) by (unfold todo_whens; now apply in_map). specialize (Hall _ Hin). cbn. lia.
    + apply Z.ltb_ge in E. destruct IH as [l1 [l2 [H1 [H2 [H3 H4]]]]].
      exists ((i, w') :: l1), l2. split; [cbn; now rewrite H1|]. split; [cbn; now rewrite H2|].
      split; [constructor; [cbn; lia|assumption]|].
      intros Hs. apply H4. unfold whens_sorted in *. cbn in Hs. now inversion Hs.
Qed.

Lemma remove_whens_sub id l : forall x, In x (todo_whens (todo_remove id l)) -> In x (todo_whens l).
Proof.
  induction l as [|[i w] t IH]; intros x; cbn; [tauto|].
  destruct (i =? id); cbn; [tauto|]. intros [->|H]; [tauto|]. right. now apply IH.
Qed.

Lemma remove_sorted id l : whens_sorted l -> whens_sorted (todo_remove id l).
Proof.
  unfold whens_sorted. intros H. apply Sorted_StronglySorted in H; [|intros x y z; lia].
  apply StronglySorted_Sorted.
  induction l as [|[i w] t IH]; cbn in *; [constructor|].
  inversion H; subst. destruct (i =? id); [assumption|]. cbn. constructor; [now apply IH|].
  rewrite Forall_forall in *. intros x Hx. apply H3. now apply (remove_whens_sub id).
Qed.

Lemma move_sorted id w l : whens_sorted l -> whens_sorted (todo_move id w l).
Proof. intros H. unfold todo_move. now apply insert_sorted, remove_sorted. Qed.

(* at most one entry per ToDo *)
Lemma insert_ids id w l : forall x, In x (todo_ids (todo_insert id w l)) <-> x = id \/ In x (todo_ids l).
Proof.
  induction l as [|[i w'] t IH]; intros x; cbn; [intuition congruence|].
  destruct (w <? w'); cbn; [intuition congruence|]. rewrite IH. intuition congruence.
Qed.

Lemma insert_nodup id w l : NoDup (todo_ids l) -> ~ In id (todo_ids l) -> NoDup (todo_ids (todo_insert id w l)).
Proof.
  induction l as [|[i w'] t IH]; intros Hn Hi; cbn.
  - constructor; [tauto|constructor].
  - destruct (w <? w'); cbn.
    + constructor; assumption.
    + inversion Hn; subst. constructor.
      * rewrite insert_ids. cbn in Hi. intros [->|Hc]; tauto.
      * apply IH; [assumption|]. cbn in Hi. tauto.
Qed.

Lemma remove_ids_sub id l : forall x, In x (todo_ids (todo_remove id l)) -> In x (todo_ids l).
Proof.
  induction l as [|[i w] t IH]; intros x; cbn; [tauto|].
  destruct (i =? id); cbn; [tauto|]. intros [->|H]; [tauto|]. right. now apply IH.
Qed.

Lemma remove_nodup id l : NoDup (todo_ids l) -> NoDup (todo_ids (todo_remove id l)) /\ ~ In id (todo_ids (todo_remove id l)).
Proof.
  induction l as [|[i w] t IH]; intros Hn; cbn; [split; [constructor|tauto]|].
  inversion Hn; subst. destruct (i =? id) eqn:E.
  - apply Z.eqb_eq in E. subst. tauto.
  - apply Z.eqb_neq in E. destruct (IH H2) as [Ha Hb]. cbn. split.
    + constructor; [|assumption]. intro Hc. apply H1. now apply (remove_ids_sub id).
    + intros [Hc|Hc]; [contradiction|tauto].
Qed.

(* Remove tolerates an entry that was already removed *)
Lemma remove_absent id l : ~ In id (todo_ids l) -> todo_remove id l = l.
Proof.
  induction l as [|[i w] t IH]; intros H; cbn; [reflexivity|].
  destruct (i =? id) eqn:E; [apply Z.eqb_eq in E; subst; exfalso; apply H; now left|].
  f_equal. apply IH. intro Hc. apply H. now right.
Qed.

(* Move = Remove + Insert: exactly one entry of that ToDo afterwards, whatever was there before *)
Lemma move_single_entry_lemma id w l : NoDup (todo_ids l) ->
  NoDup (todo_ids (todo_move id w l)) /\ In (id, w) (todo_move id w l).
Proof.
  intros Hn. unfold todo_move. destruct (remove_nodup id l Hn) as [Ha Hb]. split.
  - now apply insert_nodup.
  - destruct (insert_stable id w (todo_remove id l)) as [l1 [l2 [H1 _]]]. rewrite H1. apply in_or_app. right. now left.
Qed.

(* ---- abstract specification: pending : id -> due time ------------------------------------------------ *)
Fixpoint lookup_when (id : Z) (l : list tentry) : option Z :=
  match l with [] => None | (i, w) :: t => if i =? id then Some w else lookup_when id t end.

Lemma lookup_insert id w l x : ~ In id (todo_ids l) ->
  lookup_when x (todo_insert id w l) = if x =? id then Some w else lookup_when x l.
Proof.
  induction l as [|[i w'] t IH]; intros Hi; cbn.
  - rewrite (Z.eqb_sym id x). reflexivity.
  - destruct (w <? w'); cbn.
    + rewrite (Z.eqb_sym id x). reflexivity.
    + cbn in Hi. destruct (i =? x) eqn:E.
      * apply Z.eqb_eq in E. subst i. destruct (x =? id) eqn:E2; [apply Z.eqb_eq in E2; subst; tauto|reflexivity].
      * apply IH. tauto.
Qed.

Lemma lookup_remove id l x : NoDup (todo_ids l) ->
  lookup_when x (todo_remove id l) = if x =? id then None else lookup_when x l.
Proof.
  induction l as [|[i w] t IH]; intros Hn; cbn; [now destruct (x =? id)|].
  inversion Hn; subst. destruct (i =? id) eqn:E.
  - apply Z.eqb_eq in E. subst i. rewrite (Z.eqb_sym id x). destruct (x =? id) eqn:E2; [|reflexivity].
    apply Z.eqb_eq in E2. subst x. clear - H1. induction t as [|[i w'] t IH]; cbn; [reflexivity|].
    cbn in H1. destruct (i =? id) eqn:E; [apply Z.eqb_eq in E; subst; tauto|]. apply IH. tauto.
  - cbn. destruct (i =? x) eqn:E2.
    + apply Z.eqb_eq in E2. subst i. rewrite E. reflexivity.
    + now apply IH.
Qed.

(* ---- every history ----------------------------------------------------------------------------------------- *)
(* what can happen to the list: the public operations, and the driver popping the front when it is due *)
Inductive tl_op := TInsert (id when : Z) | TRemove (id : Z) | TMove (id when : Z) | TPop (now : Z).

Definition tl_step (l : list tentry) (o : tl_op) : list tentry * option tentry :=
  match o with
  | TInsert id w => (todo_insert id w l, None)
  | TRemove id => (todo_remove id l, None)
  | TMove id w => (todo_move id w l, None)
  | TPop now => match l with
                | (id, w) :: rest => if 0 <? w - now then (l, None) else (rest, Some (id, w))
                | [] => (l, None)
                end
  end.

(* Insert is only ever used for a ToDo that is not in the list (constructors; Move removes first) *)
Definition op_ok (l : list tentry) (o : tl_op) : Prop :=
  match o with TInsert id _ => ~ In id (todo_ids l) | _ => True end.

Record TInv (l : list tentry) : Prop := { ti_sorted : whens_sorted l; ti_nodup : NoDup (todo_ids l) }.

Lemma tl_step_inv l o : TInv l -> op_ok l o -> TInv (fst (tl_step l o)).
Proof.
  intros [Hs Hn] Hok. destruct o as [id w|id|id w|now]; cbn.
  - constructor; [now apply insert_sorted|now apply insert_nodup].
  - constructor; [now apply remove_sorted|now apply remove_nodup].
  - constructor; [now apply move_sorted|now apply move_single_entry_lemma].
  - destruct l as [|[id w] rest]; cbn; [now constructor|].
    destruct (0 <? w - now); cbn; [now constructor|].
    constructor.
    + unfold whens_sorted in *. cbn in Hs. now inversion Hs.
    + cbn in Hn. now inversion Hn.
Qed.

Fixpoint tl_run (l : list tentry) (ops : list tl_op) : Prop :=
  match ops with [] => True | o :: t => op_ok l o /\ tl_run (fst (tl_step l o)) t end.

Fixpoint tl_after (l : list tentry) (ops : list tl_op) : list tentry :=
  match ops with [] => l | o :: t => tl_after (fst (tl_step l o)) t end.

Lemma tl_after_inv ops : forall l, TInv l -> tl_run l ops -> TInv (tl_after l ops).
Proof.
  induction ops as [|o t IH]; intros l I H; [exact I|]. destruct H as [Hok Hr].
  cbn. apply IH; [now apply tl_step_inv|assumption].
Qed.

(* the entry the driver pops is due, and no pending entry is due earlier; among equal due times it is the one
   scheduled first (stability of Insert) *)
Lemma pop_is_due_minimum l now e l' : TInv l -> tl_step l (TPop now) = (l', Some e) ->
  snd e <= now /\ (forall x, In x l -> snd e <= snd x) /\ l = e :: l'.
Proof.
  intros [Hs _] H. destruct l as [|[id w] rest]; cbn in H; [discriminate|].
  destruct (0 <? w - now) eqn:E; [discriminate|]. inversion H; subst. apply Z.ltb_ge in E. cbn.
  split; [lia|]. split; [|reflexivity].
  unfold whens_sorted in Hs. cbn in Hs. apply Sorted_StronglySorted in Hs; [|intros x y z; lia].
  inversion Hs as [|? ? Hss Hall]; subst. intros x [<-|Hx]; [cbn; lia|]. rewrite Forall_forall in Hall. apply Hall.
  unfold todo_whens. now apply in_map.
Qed.

(* nothing is popped early *)
Lemma pop_none_not_due l now l' : tl_step l (TPop now) = (l', None) ->
  l' = l /\ match l with (_, w) :: _ => now < w | [] => True end.
Proof.
  destruct l as [|[id w] rest]; cbn; intros H; [now inversion H|].
  destruct (0 <? w - now) eqn:E; inversion H; subst. apply Z.ltb_lt in E. split; [reflexivity|lia].
Qed.
