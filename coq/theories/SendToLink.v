(* SendToLink.v — DriverSendTo (UDP) against the real state: one queue element = one sendto(); whatever the outcome, exactly
   that element leaves the queue and exactly its future is resolved (value / error), so a failed datagram never holds up the
   later ones (C09, last clause). *)
From SP Require Import Base ListAux Os OsLemmas WaitModel SocketModel Objects PoolModel DriverModel DriverLemmas SendLink.
Local Open Scope Z_scope.
Local Notation os := (os ext).

Lemma sendto_now_ok fd len dst e sc (s : os) :
  o_script s = EvSendTo len e :: sc -> 0 <= len ->
  sendto_now fd len dst s = (Ok len, upd s sc (o_now s) (K_SENDTO, [fd; len; dst; len])).
Proof.
  intros Hs Hl. unfold sendto_now, bind, sys_sendto. rewrite Hs. cbn.
  assert (H1 : (len <? 0) = false) by (apply Z.ltb_ge; lia). rewrite H1, Z.eqb_refl. reflexivity.
Qed.

Lemma sendto_now_fail fd len dst r e sc (s : os) :
  o_script s = EvSendTo r e :: sc -> r < 0 ->
  sendto_now fd len dst s = (Exn (SysErr e), upd s sc (o_now s) (K_SENDTO, [fd; len; dst; r])).
Proof.
  intros Hs Hr. unfold sendto_now, bind, sys_sendto. rewrite Hs. cbn.
  assert (H1 : (r <? 0) = true) by (apply Z.ltb_lt; lia). now rewrite H1.
Qed.

Section Link.
Variables (k f o i dst : Z) (rest : list (Z * Z * Z * Z)) (sk : sock) (ft : fut) (pl : pool) (b : buf) (busy' : list buf).
Variable st : os.
Let x := o_ext st.
Hypothesis Hsock : aget k (x_socks x) = Some sk.
Hypothesis Hq : s_sendq sk = (f, o, i, dst) :: rest.
Hypothesis Ho : o <? 1000 = true.
Hypothesis Hpool : aget o (x_pools x) = Some pl.
Hypothesis Hbusy : remove_id i (p_busy pl) = Some (b, busy').
Hypothesis Hfut : aget f (x_futs x) = Some ft.
Hypothesis Hpend : f_state ft = 0.

Let size := buf_size i (p_busy pl).
Let emptied := match rest with [] => true | _ => false end.

(* the datagram is accepted whole (r = size) or refused (r < 0): a datagram socket has no partial writes *)
Theorem driver_sendto_pops_and_resolves : forall r err sc,
  o_script st = EvSendTo r err :: sc -> 0 <= size -> (r = size \/ r < 0) ->
  exists st',
    driver_sendto k st = (Ok emptied, st') /\ o_script st' = sc /\
    o_trace st' = (K_SENDTO, [s_fd sk; size; dst; r]) :: o_trace st /\
    fut_state (o_ext st') f = (if r <? 0 then 2 else 1) /\
    (forall g, g <> f -> fut_state (o_ext st') g = fut_state x g) /\
    (exists sk', aget k (x_socks (o_ext st')) = Some sk' /\ s_sendq sk' = rest /\ s_fd sk' = s_fd sk) /\
    (forall k2, k2 <> k -> aget k2 (x_socks (o_ext st')) = aget k2 (x_socks x)).
Proof.
  intros r err sc Hs Hsz Hr.
  assert (Hop : owner_pool x o = pl) by (unfold owner_pool; now rewrite Ho, Hpool).
  unfold driver_sendto, bind at 1, get_sock, bind at 1, get_ext. fold x. rewrite Hsock. cbn [ret].
  rewrite Hq. unfold bind at 1, get_ext. fold x. rewrite Hop. fold size.
  destruct (r <? 0) eqn:Eneg.
  - apply Z.ltb_lt in Eneg. unfold bind at 1, catch, bind at 1.
    rewrite (sendto_now_fail _ _ _ _ _ _ _ Hs Eneg). cbn [is_runtime_error ret].
    set (s1 := upd st sc (o_now st) _).
    unfold bind at 1. unfold bind at 1. rewrite (resolve_ok f 2 sliced_runtime_error s1 ft Hfut Hpend).
    set (s2 := with_ext s1 _).
    rewrite (upd_sock_ok k _ s2 sk Hsock). cbv beta iota. set (s3 := with_ext s2 _).
    unfold bind at 1. rewrite (precycle_user o i s3 pl b busy' Ho Hpool Hbusy). cbv beta iota. set (s4 := with_ext s3 _).
    exists s4. split; [reflexivity|]. split; [reflexivity|]. split; [reflexivity|].
    split; [unfold fut_state; cbn; rewrite aget_aset_same; reflexivity|].
    split; [intros g Hg; unfold fut_state; cbn; now rewrite aget_aset_other|].
    split; [eexists; cbn; rewrite aget_aset_same; split; [reflexivity|split; reflexivity]|].
    intros k2 Hk2. cbn. now rewrite aget_aset_other.
  - apply Z.ltb_ge in Eneg. destruct Hr as [->|Hr]; [|lia].
    unfold bind at 1, catch, bind at 1.
    rewrite (sendto_now_ok _ _ _ _ _ _ Hs Hsz). cbn [ret].
    set (s1 := upd st sc (o_now st) _).
    unfold bind at 1. unfold bind at 1. rewrite (resolve_ok f 1 [] s1 ft Hfut Hpend).
    set (s2 := with_ext s1 _).
    rewrite (upd_sock_ok k _ s2 sk Hsock). cbv beta iota. set (s3 := with_ext s2 _).
    unfold bind at 1. rewrite (precycle_user o i s3 pl b busy' Ho Hpool Hbusy). cbv beta iota. set (s4 := with_ext s3 _).
    exists s4. split; [reflexivity|]. split; [reflexivity|]. split; [reflexivity|].
    split; [unfold fut_state; cbn; rewrite aget_aset_same; reflexivity|].
    split; [intros g Hg; unfold fut_state; cbn; now rewrite aget_aset_other|].
    split; [eexists; cbn; rewrite aget_aset_same; split; [reflexivity|split; reflexivity]|].
    intros k2 Hk2. cbn. now rewrite aget_aset_other.
Qed.
End Link.
