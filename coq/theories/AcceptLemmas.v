(* AcceptLemmas.v — an accepted trace is a run of the model: the state the acceptor ends in is reachable,
   so every theorem of SyncLemmas holds along the observed execution. *)
From SP Require Import SyncModel SyncLemmas AcceptSync.
From Coq Require Import ZArith.

Section Reach.
Variables n m : nat.

Lemma do_step_reach a th t nu ns ev rr who why a' :
  reach n m (a_st a) -> do_step a th t nu ns ev rr who why = inl a' -> reach n m (a_st a').
Proof.
  unfold do_step. intros R H. destruct (step ev rr (a_st a) who) eqn:E; [|discriminate].
  inversion H; subst. cbn. eapply rS; eauto.
Qed.

Lemma driver_check_reach a a' : reach n m (a_st a) -> driver_check a = inl a' -> reach n m (a_st a').
Proof.
  unfold driver_check. intros R H. destruct (d (a_st a)); try discriminate.
  destruct (step false false (a_st a) Drv) eqn:E; [|discriminate]. inversion H; subst. cbn. eapply rS; eauto.
Qed.

Ltac crush R :=
  repeat match goal with
  | H : inl _ = inl _ |- _ => inversion H; subst; clear H; cbn
  | H : inr _ = inl _ |- _ => discriminate H
  | H : reject _ = inl _ |- _ => discriminate H
  | H : do_step _ _ _ _ _ _ _ _ _ = inl _ |- _ => exact (do_step_reach _ _ _ _ _ _ _ _ _ _ R H)
  | H : driver_check _ = inl _ |- _ => eapply driver_check_reach; [|exact H]
  | H : context [match ?x with _ => _ end] |- _ => destruct x eqn:?
  | |- reach n m (a_st (set_thr _ _ _ ?s _ _)) => cbn
  end; try assumption.

Lemma on_event_reach a c th arg a' :
  reach n m (a_st a) -> on_event a c th arg = inl a' -> reach n m (a_st a').
Proof.
  intros R H. unfold on_event in H.
  destruct c as [|[|[|[|[|[|[|[|[|[|[|c']]]]]]]]]]].
  all: try (inversion H; subst; assumption).
  all: timeout 120 (crush R).
  all: try (eapply do_step_reach; eassumption).
  all: try (eapply rS; eassumption).
  all: try (eapply rS; [eapply rS; eassumption|eassumption]).
Qed.

Lemma replay_reach : forall evs a idx why idx' a',
  reach n m (a_st a) -> replay a evs idx = (why, idx', a') -> reach n m (a_st a').
Proof.
  induction evs as [|[[c th] arg] rest IH]; intros a idx why idx' a' R H; cbn in H.
  - inversion H; subst. assumption.
  - destruct (on_event a c th arg) eqn:E.
    + eapply IH; [|exact H]. eapply on_event_reach; eauto.
    + inversion H; subst. assumption.
Qed.

End Reach.

(* the trace accepted so far (whether or not a later event is rejected) is a run of the model *)
Theorem accepted_trace_is_model_run : forall nthreads nusers nstops evs a why idx,
  replay {| a_st := init nusers nstops; a_thr := repeat thr0 nthreads; a_nuser := 0; a_nstop := 0 |} evs 0 = (why, idx, a) ->
  reach nusers nstops (a_st a).
Proof.
  intros. eapply replay_reach; [|eassumption]. cbn. constructor.
Qed.
