(* SocketLemmas.v — facts about the blocking primitives of src/socket_impl.cpp, for every oracle script. *)
From SP Require Import Base ListAux Os OsLemmas WaitModel WaitLemmas SocketModel.
Local Open Scope Z_scope.

Section WithExt.
Context {X : Type}.
Local Notation M := (M X).
Local Notation os := (os X).

(* ---- trace vocabulary -------------------------------------------------------------------------- *)
(* chronological (oldest first) list of (offered length, result) of the send() calls on fd in a trace segment
   (segments are kept most-recent-first, like o_trace) *)
Definition send_entry (fd : Z) (e : raw) : list (Z * Z) :=
  if (fst e =? K_SEND) && (nthZ (snd e) 0 =? fd) then [(nthZ (snd e) 1, nthZ (snd e) 3)] else [].

Definition sends_of (fd : Z) (seg : list raw) : list (Z * Z) := flat_map (send_entry fd) (rev seg).

Lemma sends_of_app fd a b : sends_of fd (a ++ b) = sends_of fd b ++ sends_of fd a.
Proof. unfold sends_of. rewrite rev_app_distr, flat_map_app. reflexivity. Qed.

Lemma sends_of_nil fd : sends_of fd [] = [].
Proof. reflexivity. Qed.

Lemma flat_send_wait fd (l : list raw) :
  Forall (fun e : raw => fst e = K_POLL \/ fst e = K_NOW) l -> flat_map (send_entry fd) l = [].
Proof.
  intros H. induction H as [|e l0 He Hrest IH]; [reflexivity|].
  cbn [flat_map]. rewrite IH, app_nil_r. unfold send_entry.
  destruct He as [-> | ->]; reflexivity.
Qed.

Lemma sends_of_wait fd seg : only_wait_entries seg -> sends_of fd seg = [].
Proof. intros H. unfold sends_of. apply flat_send_wait. apply Forall_rev. exact H. Qed.

(* bytes the OS accepted *)
Fixpoint accepted (l : list (Z * Z)) : Z :=
  match l with [] => 0 | (_, r) :: t => Z.max 0 r + accepted t end.

Lemma accepted_app a b : accepted (a ++ b) = accepted a + accepted b.
Proof. induction a as [|[len r] t IH]; cbn; [reflexivity|rewrite IH; lia]. Qed.

(* exact accounting: every send() is offered exactly what is still unsent, and takes no more than offered;
   a failing or zero send is the last one *)
Fixpoint acct (remaining : Z) (l : list (Z * Z)) : Prop :=
  match l with
  | [] => True
  | (len, r) :: t => len = remaining /\ r <= len /\ (r <= 0 -> t = []) /\ acct (remaining - Z.max 0 r) t
  end.

Lemma acct_app rem a b : acct rem a -> (a <> [] -> 0 < snd (last a (0, 1))) -> acct (rem - accepted a) b -> acct rem (a ++ b).
Proof.
  revert rem. induction a as [|[len r] t IH]; intros rem Ha Hl Hb; cbn in *.
  - now rewrite Z.sub_0_r in Hb.
  - destruct Ha as [-> [Hr [Hz Ha]]]. split; [reflexivity|]. split; [assumption|].
    destruct t as [|x t'].
    + cbn in *. specialize (Hl ltac:(discriminate)). split; [intros; lia|].
      replace (rem - Z.max 0 r) with (rem - (Z.max 0 r + 0)) by lia. exact Hb.
    + split; [intros H0; specialize (Hz H0); discriminate|].
      apply IH; [assumption| |].
      * intros _. apply Hl. discriminate.
      * replace (rem - Z.max 0 r - accepted (x :: t')) with (rem - (Z.max 0 r + accepted (x :: t'))) by lia. exact Hb.
Qed.

(* trace entries that are not polls never matter for the kernel-honesty hypotheses *)
Lemma poll_entry_other e : fst e <> K_POLL -> poll_entry e = None.
Proof. unfold poll_entry. intros H. destruct (fst e =? K_POLL) eqn:E; [apply Z.eqb_eq in E; contradiction|reflexivity]. Qed.

Definition no_polls (seg : list raw) : Prop := Forall (fun e => fst e <> K_POLL) seg.

Lemma honest_up_nopolls seg : no_polls seg -> honest_up seg.
Proof.
  intros H e t r dt Hin Hp. unfold no_polls in H. rewrite Forall_forall in H.
  rewrite (poll_entry_other e (H e Hin)) in Hp. discriminate.
Qed.
Lemma honest_lo_nopolls seg : no_polls seg -> honest_lo seg.
Proof.
  intros H e t r dt Hin Hp. unfold no_polls in H. rewrite Forall_forall in H.
  rewrite (poll_entry_other e (H e Hin)) in Hp. discriminate.
Qed.
Lemma poll_timeouts_nopolls seg P : no_polls seg -> poll_timeouts seg P.
Proof.
  intros H e t r dt Hin Hp. unfold no_polls in H. rewrite Forall_forall in H.
  rewrite (poll_entry_other e (H e Hin)) in Hp. discriminate.
Qed.

(* ---- SendNow ------------------------------------------------------------------------------------ *)
Record sendnow_spec (fd len : Z) (s s' : os) (r : res Z) (new : list raw) : Prop := {
  sn_steps : steps s s' new;
  sn_now : o_now s' = o_now s;
  sn_bad : forall w, r = Bad w -> w = 3 /\ new = [];
  sn_dec : (forall w, r <> Bad w) -> (length (o_script s') < length (o_script s))%nat;
  sn_one : (forall w, r <> Bad w) -> exists ret_, new = [(K_SEND, [fd; len; MSG_NOSIGNAL; ret_])] /\
           match r with
           | Ok n => n = ret_ /\ 0 <= n <= len /\ (0 < len -> 0 < n)
           | Exn e => (ret_ < 0 /\ exists errno, e = SysErr errno) \/ (ret_ = 0 /\ 0 < len /\ e = LogicErr 1)
           | Stuck u => u = 1 /\ len < ret_
           | Bad _ => False
           end
}.

Lemma send_now_spec fd len s r s' : send_now fd len s = (r, s') -> exists new, sendnow_spec fd len s s' r new.
Proof.
  unfold send_now. intros H. apply bind_inv in H.
  destruct H as [[[sent err] [s1 [H1 H2]]]|[r0 [H1 [H2 ->]]]].
  - apply sys_send_inv in H1. destruct H1 as [[ret_ [e [sc [Hs [Hr ->]]]]]|[Hr _]]; [|discriminate].
    inversion Hr; subst sent err. clear Hr.
    set (entry := (K_SEND, [fd; len; MSG_NOSIGNAL; ret_])) in *.
    exists [entry].
    destruct (ret_ <? 0) eqn:E1.
    + apply Z.ltb_lt in E1. inversion H2; subst. constructor.
      * eapply steps_upd; exact Hs.
      * reflexivity.
      * discriminate.
      * intros _. cbn. rewrite Hs. cbn. lia.
      * intros _. exists ret_. split; [reflexivity|]. left. split; [assumption|eauto].
    + apply Z.ltb_ge in E1. destruct ((ret_ =? 0) && (0 <? len)) eqn:E2.
      * apply andb_prop in E2. destruct E2 as [Ea Eb]. apply Z.eqb_eq in Ea. apply Z.ltb_lt in Eb.
        inversion H2; subst. constructor.
        -- eapply steps_upd; exact Hs.
        -- reflexivity.
        -- discriminate.
        -- intros _. cbn. rewrite Hs. cbn. lia.
        -- intros _. exists 0. split; [reflexivity|]. right. auto.
      * destruct (len <? ret_) eqn:E3.
        -- apply Z.ltb_lt in E3. inversion H2; subst. constructor.
           ++ eapply steps_upd; exact Hs.
           ++ reflexivity.
           ++ discriminate.
           ++ intros _. cbn. rewrite Hs. cbn. lia.
           ++ intros _. exists ret_. split; [reflexivity|]. auto.
        -- apply Z.ltb_ge in E3. inversion H2; subst. constructor.
           ++ eapply steps_upd; exact Hs.
           ++ reflexivity.
           ++ discriminate.
           ++ intros _. cbn. rewrite Hs. cbn. lia.
           ++ intros _. exists ret_. split; [reflexivity|]. split; [reflexivity|]. split; [lia|].
              intros Hl. apply andb_false_iff in E2. destruct E2 as [E2|E2].
              ** apply Z.eqb_neq in E2. lia.
              ** apply Z.ltb_ge in E2. lia.
  - apply sys_send_inv in H1. destruct H1 as [[ret_ [e [sc [Hs [Hr _]]]]]|[Hr ->]]; [subst r0; discriminate|].
    subst r0. exists []. constructor.
    + apply steps_refl.
    + reflexivity.
    + intros w Hw. inversion Hw. auto.
    + intros Hn. exfalso. apply (Hn 3). reflexivity.
    + intros Hn. exfalso. apply (Hn 3). reflexivity.
Qed.


Lemma acct_bounds l : forall rem, acct rem l -> 0 <= rem -> 0 <= accepted l <= rem.
Proof.
  induction l as [|[len r] t IH]; intros rem H Hr; cbn in *; [lia|].
  destruct H as [-> [Hle [Hz Ha]]].
  destruct (Z_le_gt_dec r 0) as [H0|H0].
  - rewrite (Hz H0). cbn. lia.
  - specialize (IH (rem - Z.max 0 r) Ha ltac:(lia)). lia.
Qed.

Lemma sends_of_single fd len flags ret_ : sends_of fd [(K_SEND, [fd; len; flags; ret_])] = [(len, ret_)].
Proof. unfold sends_of, send_entry. cbn. rewrite Z.eqb_refl. reflexivity. Qed.

(* ---- what every send variant guarantees ------------------------------------------------------------ *)
Record send_spec (fd size : Z) (s s' : os) (r : res Z) (new : list raw) : Prop := {
  sp_steps : steps s s' new;
  (* exact accounting at the libc boundary, whatever the result *)
  sp_acct : acct size (sends_of fd new);
  (* the count returned is the number of bytes the OS accepted *)
  sp_count : forall n, r = Ok n -> n = accepted (sends_of fd new) /\ 0 <= n <= size;
  (* a failing wait never reports EINTR; all other errors come from send() itself *)
  sp_exn : forall e, r = Exn e ->
           (exists errno, e = SysErr errno /\ errno <> EINTR) \/
           (exists len ret_ rest, sends_of fd new = rest ++ [(len, ret_)] /\ ret_ <= 0);
  sp_mono : calm (o_script s) -> o_now s <= o_now s'
}.

(* the last send() of a segment, if the call failed in send() rather than in the wait *)
Definition failed_in_send (fd : Z) (new : list raw) : Prop :=
  exists len ret_ rest, sends_of fd new = rest ++ [(len, ret_)] /\ ret_ <= 0.

Lemma send_all_loop_spec fuel fd : forall remaining (s : os) r s',
  send_all_loop fuel fd remaining s = (r, s') ->
  (length (o_script s) < fuel)%nat -> 0 <= remaining ->
  exists new,
    steps s s' new /\
    ((forall u, r <> Stuck u) -> acct remaining (sends_of fd new)) /\
    (forall u, r = Ok u -> accepted (sends_of fd new) = remaining) /\
    (forall e, r = Exn e -> (exists errno, e = SysErr errno /\ errno <> EINTR) \/ failed_in_send fd new) /\
    (forall w, r = Bad w -> w = 1 \/ w = 2 \/ w = 3) /\
    (forall u, r = Stuck u -> u = 1) /\
    poll_timeouts new (fun t => t = -1) /\
    (calm (o_script s) -> o_now s <= o_now s').
Proof.
  induction fuel as [|k IH]; intros remaining s r s' H Hf Hrem; [lia|].
  cbn [send_all_loop] in H. apply bind_inv in H.
  destruct H as [[ready [s1 [H1 H2]]]|[r0 [H1 [H2 ->]]]].
  - destruct (wait_fd_spec _ _ _ _ _ _ H1) as [nw [Wst Wonly Wexn Wbad Wstuck Wnoth Wready Wneg Wzero Wpos Wmono Wup Wlo]].
    specialize (Wneg ltac:(lia)).
    apply bind_inv in H2. destruct H2 as [[sent [s2 [H21 H22]]]|[r0 [H21 [H22 ->]]]].
    + destruct (send_now_spec _ _ _ _ _ H21) as [ns [Sst Snow Sbad Sdec Sone]].
      destruct (Sone ltac:(discriminate)) as [ret_ [-> [<- [Hrange Hpos]]]].
      specialize (Sdec ltac:(discriminate)).
      set (entry := (K_SEND, [fd; remaining; MSG_NOSIGNAL; sent])) in *.
      assert (Hst2 : steps s s2 ([entry] ++ nw)) by (eapply steps_trans; eassumption).
      assert (Hso : sends_of fd ([entry] ++ nw) = [(remaining, sent)]).
      { rewrite sends_of_app, (sends_of_wait _ _ Wonly). apply sends_of_single. }
      assert (Htm : poll_timeouts ([entry] ++ nw) (fun t => t = -1)).
      { apply poll_timeouts_app. split; [|assumption]. apply poll_timeouts_nopolls. constructor; [discriminate|constructor]. }
      assert (Hmono2 : calm (o_script s) -> o_now s <= o_now s2).
      { intros Hc. specialize (Wmono Hc). lia. }
      destruct (remaining - sent =? 0) eqn:Ez.
      * apply Z.eqb_eq in Ez. inversion H22; subst r s'. exists ([entry] ++ nw).
        split; [exact Hst2|]. rewrite Hso.
        split; [intros _; cbn; repeat split; try lia|].
        split; [intros _ _; cbn; lia|].
        split; [discriminate|]. split; [discriminate|]. split; [discriminate|].
        split; [exact Htm|exact Hmono2].
      * apply Z.eqb_neq in Ez.
        destruct (IH (remaining - sent) s2 r s' H22) as [nr [Rst [Racct [Rfull [Rexn [Rbad [Rstuck [Rtmo Rmono]]]]]]]].
        { pose proof (suffix_length _ _ (st_suffix _ _ _ Wst)). lia. }
        { lia. }
        exists (nr ++ [entry] ++ nw).
        assert (Hso2 : sends_of fd (nr ++ [entry] ++ nw) = (remaining, sent) :: sends_of fd nr).
        { rewrite sends_of_app, Hso. reflexivity. }
        split; [eapply steps_trans; eassumption|]. rewrite Hso2.
        split.
        { intros Hns. cbn [acct]. split; [reflexivity|]. split; [lia|]. split; [intros H0; lia|].
          replace (Z.max 0 sent) with sent by lia. exact (Racct Hns). }
        split.
        { intros u Hu. cbn [accepted]. rewrite (Rfull u Hu). lia. }
        split.
        { intros e He. destruct (Rexn e He) as [Hw|[len [ret_ [rest [Hs Hr]]]]]; [now left|].
          right. exists len, ret_, ((remaining, sent) :: rest). rewrite Hso2, Hs. split; [reflexivity|assumption]. }
        split; [exact Rbad|]. split; [exact Rstuck|].
        split; [apply poll_timeouts_app; split; assumption|].
        intros Hc. specialize (Hmono2 Hc). specialize (Rmono (steps_calm _ _ _ Hst2 Hc)). lia.
    + (* send_now did not return normally *)
      destruct (send_now_spec _ _ _ _ _ H21) as [ns [Sst Snow Sbad Sdec Sone]].
      assert (Hst2 : steps s s' (ns ++ nw)) by (eapply steps_trans; eassumption).
      assert (Hmono2 : calm (o_script s) -> o_now s <= o_now s').
      { intros Hc. specialize (Wmono Hc). lia. }
      exists (ns ++ nw). split; [exact Hst2|].
      destruct r0 as [x|e|w|u]; [discriminate| | |]; cbn [recast].
      * destruct (Sone ltac:(discriminate)) as [ret_ [-> Hcase]].
        set (entry := (K_SEND, [fd; remaining; MSG_NOSIGNAL; ret_])) in *.
        assert (Hso : sends_of fd (@app raw [entry] nw) = [(remaining, ret_)]).
        { rewrite sends_of_app, (sends_of_wait _ _ Wonly). apply sends_of_single. }
        rewrite Hso.
        assert (Hle : ret_ <= 0) by (destruct Hcase as [[Hl _]|[-> _]]; lia).
        split; [intros _; cbn; repeat split; lia|].
        split; [discriminate|].
        split; [intros e0 _; right; exists remaining, ret_, []; rewrite Hso; split; [reflexivity|assumption]|].
        split; [discriminate|]. split; [discriminate|].
        split; [|exact Hmono2].
        apply poll_timeouts_app. split; [|assumption]. apply poll_timeouts_nopolls. constructor; [discriminate|constructor].
      * destruct (Sbad w eq_refl) as [-> ->]. cbn [app]. rewrite (sends_of_wait _ _ Wonly).
        split; [intros _; exact I|]. split; [discriminate|]. split; [discriminate|].
        split; [intros w Hw; inversion Hw; auto|]. split; [discriminate|]. split; [assumption|exact Hmono2].
      * destruct (Sone ltac:(discriminate)) as [ret_ [-> [-> Hgt]]].
        split; [intros Hns; exfalso; exact (Hns _ eq_refl)|].
        split; [discriminate|]. split; [discriminate|]. split; [discriminate|].
        split; [intros u0 Hu; now inversion Hu|]. split; [|exact Hmono2].
        apply poll_timeouts_app. split; [|assumption]. apply poll_timeouts_nopolls. constructor; [discriminate|constructor].
  - (* the wait did not return normally *)
    destruct (wait_fd_spec _ _ _ _ _ _ H1) as [nw [Wst Wonly Wexn Wbad Wstuck Wnoth Wready Wneg Wzero Wpos Wmono Wup Wlo]].
    specialize (Wneg ltac:(lia)).
    exists nw. split; [exact Wst|]. rewrite (sends_of_wait _ _ Wonly).
    split; [intros _; exact I|].
    destruct r0 as [x|e|w|u]; [discriminate| | |]; cbn [recast].
    + split; [discriminate|]. split; [intros e0 He; inversion He; subst; left; now apply Wexn|].
      split; [discriminate|]. split; [discriminate|]. split; assumption.
    + split; [discriminate|]. split; [discriminate|].
      split; [intros w0 Hw; inversion Hw; subst; destruct (Wbad _ eq_refl); auto|].
      split; [discriminate|]. split; assumption.
    + exfalso. exact (Wstuck u eq_refl).
Qed.


(* ---- what a Send call guarantees ------------------------------------------------------------------ *)
Record send_result (fd size : Z) (s s' : os) (r : res Z) (new : list raw) : Prop := {
  sr_steps : steps s s' new;
  sr_acct : (forall u, r <> Stuck u) -> acct size (sends_of fd new);
  sr_count : forall n, r = Ok n -> n = accepted (sends_of fd new);
  sr_exn : forall e, r = Exn e -> (exists errno, e = SysErr errno /\ errno <> EINTR) \/ failed_in_send fd new;
  sr_bad : forall w, r = Bad w -> w = 1 \/ w = 2 \/ w = 3;
  sr_stuck : forall u, r = Stuck u -> u = 1;
  sr_mono : calm (o_script s) -> o_now s <= o_now s'
}.

Lemma send_result_bounds fd size s s' r new n :
  send_result fd size s s' r new -> 0 <= size -> r = Ok n -> 0 <= n <= size.
Proof.
  intros [_ Ha Hc _ _ _ _] Hs Hr. rewrite (Hc n Hr). apply acct_bounds; [|assumption].
  apply Ha. intros u Hu. subst r. discriminate.
Qed.

Lemma send_all_spec fd size (s : os) r s' :
  send_all fd size s = (r, s') -> 0 <= size ->
  exists new, send_result fd size s s' r new /\ (forall n, r = Ok n -> n = size) /\ poll_timeouts new (fun t => t = -1).
Proof.
  unfold send_all. intros H Hs. apply bind_inv in H.
  destruct H as [[fuel [s0 [H1 H2]]]|[r0 [H1 [H2 _]]]].
  2:{ apply script_fuel_inv in H1. destruct H1 as [-> _]. discriminate. }
  apply script_fuel_inv in H1. destruct H1 as [Hfu ->]. inversion Hfu; subst fuel. clear Hfu.
  apply bind_inv in H2. destruct H2 as [[u [s1 [H21 H22]]]|[r0 [H21 [H22 ->]]]].
  - inversion H22; subst r s'.
    destruct (send_all_loop_spec _ fd size s _ _ H21 ltac:(lia) Hs) as [new [Hst [Hacct [Hfull [Hexn [Hbad [Hstuck [Htm Hmono]]]]]]]].
    exists new. split; [|split; [intros n Hn; now inversion Hn|assumption]].
    constructor; try assumption; try discriminate.
    + intros _. apply Hacct. discriminate.
    + intros n Hn. inversion Hn; subst n. symmetry. exact (Hfull u eq_refl).
  - destruct (send_all_loop_spec _ fd size s _ _ H21 ltac:(lia) Hs) as [new [Hst [Hacct [Hfull [Hexn [Hbad [Hstuck [Htm Hmono]]]]]]]].
    exists new. split; [|split; [|assumption]].
    + destruct r0 as [x|e|w|u]; [discriminate| | |]; cbn [recast]; constructor; try assumption; try discriminate.
      * intros _. apply Hacct. discriminate.
      * intros e0 He. inversion He; subst. now apply Hexn.
      * intros _. apply Hacct. discriminate.
      * intros w0 Hw. inversion Hw; subst. now apply Hbad.
      * intros Hns. exfalso. exact (Hns _ eq_refl).
      * intros u0 Hu. inversion Hu; subst. now apply Hstuck.
    + intros n Hn. destruct r0; discriminate.
Qed.

(* ---- the pattern "wait, then one non-blocking call" (SendTry, Receive, SendTo, ReceiveFrom, Accept) ----- *)
Definition timeless {A} (m : M A) : Prop :=
  forall s r s', m s = (r, s') -> exists new, steps s s' new /\ no_polls new /\ o_now s' = o_now s.

Definition wait_then {A} (fd events T : Z) (nowop : M A) (dflt : A) : M A :=
  ready <- wait_fd fd events T ;; if ready then nowop else ret dflt.

Record wait_then_spec {A} (T : Z) (nowop : M A) (dflt : A) (s s' : os) (r : res A) (new : list raw) : Prop := {
  wt_steps : steps s s' new;
  (* either the wait timed out / failed, or the non-blocking call ran right after a wait that reported ready *)
  wt_cases :
    (only_wait_entries new /\
        ((r = Ok dflt /\
          (* "time-out exceeded": not before T (minus rounding) has passed *)
          (0 < T <= INT_MAX -> calm (o_script s) -> honest_lo new -> o_now s + T * NS_PER_MS - NS_PER_MS < o_now s') /\
          exists e rest t dt, new = e :: rest /\ poll_entry e = Some (t, 0, dt)) \/
         (exists errno, r = Exn (SysErr errno) /\ errno <> EINTR) \/
         (exists w, r = Bad w /\ (w = 1 \/ w = 2)))) \/
    (exists nw no s1, new = no ++ nw /\ only_wait_entries nw /\ no_polls no /\
        steps s s1 nw /\ steps s1 s' no /\ nowop s1 = (r, s'));
  wt_neg : T < 0 -> poll_timeouts new (fun t => t = -1);
  wt_zero : T = 0 -> poll_timeouts new (fun t => t = 0);
  wt_pos : 0 < T -> poll_timeouts new (fun t => 0 <= t <= INT_MAX) /\
                    (calm (o_script s) -> poll_timeouts new (fun t => t <= T));
  wt_mono : calm (o_script s) -> o_now s <= o_now s';
  wt_upper : 0 <= T -> calm (o_script s) -> instant (o_script s) -> honest_up new ->
             o_now s' <= o_now s + T * NS_PER_MS
}.

Lemma wait_then_ok {A} fd events T (nowop : M A) dflt s r s' :
  timeless nowop -> wait_then fd events T nowop dflt s = (r, s') ->
  exists new, wait_then_spec T nowop dflt s s' r new.
Proof.
  intros Htl H. unfold wait_then in H. apply bind_inv in H.
  destruct H as [[ready [s1 [H1 H2]]]|[r0 [H1 [H2 ->]]]].
  - destruct (wait_fd_spec _ _ _ _ _ _ H1) as [nw [Wst Wonly Wexn Wbad Wstuck Wnoth Wready Wneg Wzero Wpos Wmono Wup Wlo]].
    destruct ready.
    + destruct (Htl _ _ _ H2) as [no [Nst [Nnp Nnow]]].
      exists (no ++ nw). constructor.
      * eapply steps_trans; eassumption.
      * right. exists nw, no, s1. split; [reflexivity|]. split; [assumption|]. split; [assumption|]. split; [assumption|]. split; assumption.
      * intros HT. apply poll_timeouts_app. split; [now apply poll_timeouts_nopolls|auto].
      * intros HT. apply poll_timeouts_app. split; [now apply poll_timeouts_nopolls|auto].
      * intros HT. destruct (Wpos HT) as [Wa Wb]. split.
        -- apply poll_timeouts_app. split; [now apply poll_timeouts_nopolls|auto].
        -- intros Hc. apply poll_timeouts_app. split; [now apply poll_timeouts_nopolls|auto].
      * intros Hc. specialize (Wmono Hc). lia.
      * intros HT Hc Hi Hh. apply honest_up_app in Hh. destruct Hh as [_ Hh]. specialize (Wup HT Hc Hi Hh). lia.
    + inversion H2; subst r s'. exists nw. constructor; try assumption.
      left. split; [assumption|]. left. split; [reflexivity|]. split.
      * intros HT Hc Hh. exact (Wlo HT Hc Hh false eq_refl eq_refl).
      * exact (Wnoth false eq_refl eq_refl).
  - destruct (wait_fd_spec _ _ _ _ _ _ H1) as [nw [Wst Wonly Wexn Wbad Wstuck Wnoth Wready Wneg Wzero Wpos Wmono Wup Wlo]].
    exists nw. destruct r0 as [x|e|w|u]; [discriminate| | |]; cbn [recast].
    + destruct (Wexn e eq_refl) as [errno [-> Hne]]. constructor; try assumption.
      left. split; [assumption|]. right. left. eauto.
    + constructor; try assumption.
      left. split; [assumption|]. right. right. exists w. split; [reflexivity|]. now apply Wbad.
    + exfalso. exact (Wstuck u eq_refl).
Qed.


(* ---- the non-blocking calls are timeless --------------------------------------------------------- *)
Lemma send_now_timeless fd len : timeless (send_now (X:=X) fd len).
Proof.
  intros s r s' H. destruct (send_now_spec _ _ _ _ _ H) as [ns [Sst Snow Sbad Sdec Sone]].
  exists ns. split; [assumption|]. split; [|assumption].
  destruct r as [x|e|w|u].
  - destruct (Sone ltac:(discriminate)) as [ret_ [-> _]]. constructor; [discriminate|constructor].
  - destruct (Sone ltac:(discriminate)) as [ret_ [-> _]]. constructor; [discriminate|constructor].
  - destruct (Sbad w eq_refl) as [_ ->]. constructor.
  - destruct (Sone ltac:(discriminate)) as [ret_ [-> _]]. constructor; [discriminate|constructor].
Qed.

(* ReceiveNow: 1..size bytes, or "connection closed" exactly when recv() returned 0 *)
Record recvnow_spec (fd size : Z) (s s' : os) (r : res Z) (new : list raw) : Prop := {
  rn_steps : steps s s' new;
  rn_now : o_now s' = o_now s;
  rn_bad : forall w, r = Bad w -> w = 4 /\ new = [];
  rn_one : (forall w, r <> Bad w) -> exists ret_, new = [(K_RECV, [fd; size; ret_])] /\
           match r with
           | Ok n => n = ret_ /\ 1 <= n <= size
           | Exn e => (ret_ < 0 /\ exists errno, e = SysErr errno) \/ (ret_ = 0 /\ e = ConnClosed)
           | Stuck u => u = 2 /\ size < ret_
           | Bad _ => False
           end
}.

Lemma receive_now_spec fd size (s : os) r s' :
  receive_now fd size s = (r, s') -> exists new, recvnow_spec fd size s s' r new.
Proof.
  unfold receive_now. intros H. apply bind_inv in H.
  destruct H as [[[n err] [s1 [H1 H2]]]|[r0 [H1 [H2 ->]]]].
  - apply sys_recv_inv in H1. destruct H1 as [[ret_ [e [sc [Hs [Hr ->]]]]]|[Hr _]]; [|discriminate].
    inversion Hr; subst n err. clear Hr.
    exists [(K_RECV, [fd; size; ret_])].
    destruct (ret_ <? 0) eqn:E1.
    + apply Z.ltb_lt in E1. inversion H2; subst. constructor; [eapply steps_upd; exact Hs|reflexivity|discriminate|].
      intros _. exists ret_. split; [reflexivity|]. left. split; [assumption|eauto].
    + apply Z.ltb_ge in E1. destruct (ret_ =? 0) eqn:E2.
      * apply Z.eqb_eq in E2. inversion H2; subst. constructor; [eapply steps_upd; exact Hs|reflexivity|discriminate|].
        intros _. exists 0. split; [reflexivity|]. right. auto.
      * apply Z.eqb_neq in E2. destruct (size <? ret_) eqn:E3.
        -- apply Z.ltb_lt in E3. inversion H2; subst. constructor; [eapply steps_upd; exact Hs|reflexivity|discriminate|].
           intros _. exists ret_. split; [reflexivity|]. auto.
        -- apply Z.ltb_ge in E3. inversion H2; subst. constructor; [eapply steps_upd; exact Hs|reflexivity|discriminate|].
           intros _. exists ret_. split; [reflexivity|]. split; [reflexivity|lia].
  - apply sys_recv_inv in H1. destruct H1 as [[ret_ [e [sc [Hs [Hr _]]]]]|[Hr ->]]; [subst r0; discriminate|].
    subst r0. exists []. constructor; [apply steps_refl|reflexivity| |].
    + intros w Hw. inversion Hw. auto.
    + intros Hn. exfalso. apply (Hn 4). reflexivity.
Qed.

Lemma receive_now_timeless fd size : timeless (receive_now (X:=X) fd size).
Proof.
  intros s r s' H. destruct (receive_now_spec _ _ _ _ _ H) as [ns [Sst Snow Sbad Sone]].
  exists ns. split; [assumption|]. split; [|assumption].
  destruct r as [x|e|w|u].
  - destruct (Sone ltac:(discriminate)) as [ret_ [-> _]]. constructor; [discriminate|constructor].
  - destruct (Sone ltac:(discriminate)) as [ret_ [-> _]]. constructor; [discriminate|constructor].
  - destruct (Sbad w eq_refl) as [_ ->]. constructor.
  - destruct (Sone ltac:(discriminate)) as [ret_ [-> _]]. constructor; [discriminate|constructor].
Qed.

(* SendTo (no waiting): all of the datagram or an exception *)
Record sendtonow_spec (fd size dst : Z) (s s' : os) (r : res Z) (new : list raw) : Prop := {
  tn_steps : steps s s' new;
  tn_now : o_now s' = o_now s;
  tn_bad : forall w, r = Bad w -> w = 5 /\ new = [];
  tn_one : (forall w, r <> Bad w) -> exists ret_, new = [(K_SENDTO, [fd; size; dst; ret_])] /\
           match r with
           | Ok n => n = size /\ ret_ = size
           | Exn e => (ret_ < 0 /\ exists errno, e = SysErr errno) \/ (0 <= ret_ /\ ret_ <> size /\ e = LogicErr 2)
           | _ => False
           end
}.

Lemma sendto_now_spec fd size dst (s : os) r s' :
  sendto_now fd size dst s = (r, s') -> exists new, sendtonow_spec fd size dst s s' r new.
Proof.
  unfold sendto_now. intros H. apply bind_inv in H.
  destruct H as [[[n err] [s1 [H1 H2]]]|[r0 [H1 [H2 ->]]]].
  - apply sys_sendto_inv in H1. destruct H1 as [[ret_ [e [sc [Hs [Hr ->]]]]]|[Hr _]]; [|discriminate].
    inversion Hr; subst n err. clear Hr.
    exists [(K_SENDTO, [fd; size; dst; ret_])].
    destruct (ret_ <? 0) eqn:E1.
    + apply Z.ltb_lt in E1. inversion H2; subst. constructor; [eapply steps_upd; exact Hs|reflexivity|discriminate|].
      intros _. exists ret_. split; [reflexivity|]. left. split; [assumption|eauto].
    + apply Z.ltb_ge in E1. destruct (ret_ =? size) eqn:E2; cbn [negb] in H2.
      * apply Z.eqb_eq in E2. inversion H2; subst. constructor; [eapply steps_upd; exact Hs|reflexivity|discriminate|].
        intros _. exists size. split; [reflexivity|]. auto.
      * apply Z.eqb_neq in E2. inversion H2; subst. constructor; [eapply steps_upd; exact Hs|reflexivity|discriminate|].
        intros _. exists ret_. split; [reflexivity|]. right. auto.
  - apply sys_sendto_inv in H1. destruct H1 as [[ret_ [e [sc [Hs [Hr _]]]]]|[Hr ->]]; [subst r0; discriminate|].
    subst r0. exists []. constructor; [apply steps_refl|reflexivity| |].
    + intros w Hw. inversion Hw. auto.
    + intros Hn. exfalso. apply (Hn 5). reflexivity.
Qed.

Lemma sendto_now_timeless fd size dst : timeless (sendto_now (X:=X) fd size dst).
Proof.
  intros s r s' H. destruct (sendto_now_spec _ _ _ _ _ _ H) as [ns [Sst Snow Sbad Sone]].
  exists ns. split; [assumption|]. split; [|assumption].
  destruct r as [x|e|w|u].
  - destruct (Sone ltac:(discriminate)) as [ret_ [-> _]]. constructor; [discriminate|constructor].
  - destruct (Sone ltac:(discriminate)) as [ret_ [-> _]]. constructor; [discriminate|constructor].
  - destruct (Sbad w eq_refl) as [_ ->]. constructor.
  - destruct (Sone ltac:(discriminate)) as [ret_ [_ []]].
Qed.

(* ReceiveFrom (no waiting): size and source are exactly what recvfrom() reported *)
Record recvfromnow_spec (fd size : Z) (s s' : os) (r : res (Z * Z)) (new : list raw) : Prop := {
  fn_steps : steps s s' new;
  fn_now : o_now s' = o_now s;
  fn_bad : forall w, r = Bad w -> w = 6 /\ new = [];
  fn_one : (forall w, r <> Bad w) -> exists ret_ err src sc, o_script s = EvRecvFrom ret_ err src :: sc /\
           new = [(K_RECVFROM, [fd; size; ret_])] /\
           match r with
           | Ok (n, from) => n = ret_ /\ from = src /\ 0 <= n <= size
           | Exn e => ret_ < 0 /\ e = SysErr err
           | Stuck u => u = 3 /\ size < ret_
           | Bad _ => False
           end
}.

Lemma recvfrom_now_spec fd size (s : os) r s' :
  recvfrom_now fd size s = (r, s') -> exists new, recvfromnow_spec fd size s s' r new.
Proof.
  unfold recvfrom_now. intros H. apply bind_inv in H.
  destruct H as [[[[n err] src] [s1 [H1 H2]]]|[r0 [H1 [H2 ->]]]].
  - apply sys_recvfrom_inv in H1. destruct H1 as [[ret_ [e [src0 [sc [Hs [Hr ->]]]]]]|[Hr _]]; [|discriminate].
    inversion Hr; subst n err src. clear Hr.
    exists [(K_RECVFROM, [fd; size; ret_])].
    destruct (ret_ <? 0) eqn:E1.
    + apply Z.ltb_lt in E1. inversion H2; subst. constructor; [eapply steps_upd; exact Hs|reflexivity|discriminate|].
      intros _. exists ret_, e, src0, sc. split; [assumption|]. split; [reflexivity|]. auto.
    + apply Z.ltb_ge in E1. destruct (size <? ret_) eqn:E3.
      * apply Z.ltb_lt in E3. inversion H2; subst. constructor; [eapply steps_upd; exact Hs|reflexivity|discriminate|].
        intros _. exists ret_, e, src0, sc. split; [assumption|]. split; [reflexivity|]. auto.
      * apply Z.ltb_ge in E3. inversion H2; subst. constructor; [eapply steps_upd; exact Hs|reflexivity|discriminate|].
        intros _. exists ret_, e, src0, sc. split; [assumption|]. split; [reflexivity|]. repeat split; lia.
  - apply sys_recvfrom_inv in H1. destruct H1 as [[ret_ [e [src0 [sc [Hs [Hr _]]]]]]|[Hr ->]]; [subst r0; discriminate|].
    subst r0. exists []. constructor; [apply steps_refl|reflexivity| |].
    + intros w Hw. inversion Hw. auto.
    + intros Hn. exfalso. apply (Hn 6). reflexivity.
Qed.

Lemma recvfrom_now_timeless fd size : timeless (recvfrom_now (X:=X) fd size).
Proof.
  intros s r s' H. destruct (recvfrom_now_spec _ _ _ _ _ H) as [ns [Sst Snow Sbad Sone]].
  exists ns. split; [assumption|]. split; [|assumption].
  destruct r as [x|e|w|u].
  - destruct (Sone ltac:(discriminate)) as [ret_ [? [? [? [_ [-> _]]]]]]. constructor; [discriminate|constructor].
  - destruct (Sone ltac:(discriminate)) as [ret_ [? [? [? [_ [-> _]]]]]]. constructor; [discriminate|constructor].
  - destruct (Sbad w eq_refl) as [_ ->]. constructor.
  - destruct (Sone ltac:(discriminate)) as [ret_ [? [? [? [_ [-> _]]]]]]. constructor; [discriminate|constructor].
Qed.


Lemma timeless_map {A B} (m : M A) (f : A -> B) : timeless m -> timeless (a <- m ;; ret (f a)).
Proof.
  intros Hm s r s' H. apply bind_inv in H. destruct H as [[a [s1 [H1 H2]]]|[r0 [H1 [H2 _]]]].
  - inversion H2; subst. eapply Hm; eassumption.
  - eapply Hm; eassumption.
Qed.

(* ---- SendSome(fd, data, size, deadline): accounting and the deadline ------------------------------- *)
Lemma dl_tick_spec d (s : os) r s' :
  dl_tick d s = (r, s') ->
  (exists dt sc, o_script s = EvNow dt :: sc /\
      r = Ok {| d_now := o_now s + dt; d_deadline := d_deadline d |} /\
      s' = upd s sc (o_now s + dt) (K_NOW, [o_now s + dt])) \/
  (r = Bad 1 /\ s' = s).
Proof.
  unfold dl_tick. intros H. apply bind_inv in H. destruct H as [[now [s1 [H1 H2]]]|[r0 [H1 [H2 ->]]]].
  - apply sys_now_inv in H1. destruct H1 as [[dt [sc [Hs [Hr ->]]]]|[Hr _]]; [|discriminate].
    inversion Hr; subst now. inversion H2; subst. left. eauto.
  - apply sys_now_inv in H1. destruct H1 as [[dt [sc [Hs [Hr _]]]]|[Hr ->]]; [subst r0; discriminate|].
    subst r0. right. auto.
Qed.

Lemma sends_of_cons_now fd t (nw : list raw) : sends_of fd ((K_NOW, t) :: nw) = sends_of fd nw.
Proof.
  change ((K_NOW, t) :: nw) with (@app raw [(K_NOW, t)] nw). rewrite sends_of_app.
  replace (sends_of fd [(K_NOW, t)]) with (@nil (Z * Z)) by reflexivity. now rewrite app_nil_r.
Qed.

Lemma send_some_loop_spec fuel fd : forall remaining d (s : os) r s',
  send_some_loop fuel fd remaining d s = (r, s') ->
  (length (o_script s) < fuel)%nat -> 0 <= remaining -> d_now d = o_now s ->
  exists new,
    steps s s' new /\
    ((forall u, r <> Stuck u) -> acct remaining (sends_of fd new)) /\
    (forall rem' d', r = Ok (rem', d') -> accepted (sends_of fd new) = remaining - rem' /\ 0 <= rem' <= remaining) /\
    (forall e, r = Exn e -> (exists errno, e = SysErr errno /\ errno <> EINTR) \/ failed_in_send fd new) /\
    (forall w, r = Bad w -> w = 1 \/ w = 2 \/ w = 3) /\
    (forall u, r = Stuck u -> u = 1) /\
    (calm (o_script s) -> o_now s <= o_now s') /\
    poll_timeouts new (fun t => 0 <= t <= INT_MAX) /\
    (* never blocks beyond the deadline *)
    (calm (o_script s) -> instant (o_script s) -> honest_up new -> o_now s' <= Z.max (o_now s) (d_deadline d)).
Proof.
  induction fuel as [|k IH]; intros remaining d s r s' H Hf Hrem Hnow; [lia|].
  cbn [send_some_loop] in H. apply bind_inv in H.
  pose proof (dl_remaining_nonneg d) as Hr0.
  pose proof (dl_remaining_spec d) as [Hrs1 Hrs2].
  destruct H as [[ready [s1 [H1 H2]]]|[r0 [H1 [H2 ->]]]].
  - destruct (wait_fd_spec _ _ _ _ _ _ H1) as [nw [Wst Wonly Wexn Wbad Wstuck Wnoth Wready Wneg Wzero Wpos Wmono Wup Wlo]].
    assert (Wtm : poll_timeouts nw (fun t => 0 <= t <= INT_MAX)).
    { destruct (Z.eq_dec (dl_remaining d) 0) as [E0|E0].
      - eapply poll_timeouts_weaken; [|apply Wzero; exact E0]. intros t ->. unfold INT_MAX. lia.
      - apply Wpos. lia. }
    (* the wait ends no later than the deadline *)
    assert (Wdl : calm (o_script s) -> instant (o_script s) -> honest_up nw -> o_now s1 <= Z.max (o_now s) (d_deadline d)).
    { intros Hc Hi Hh. specialize (Wup Hr0 Hc Hi Hh).
      destruct (Z_le_gt_dec (d_now d) (d_deadline d)) as [Hle|Hgt].
      - specialize (Hrs1 Hle). unfold NS_PER_MS in *. lia.
      - rewrite Hrs2 in Wup by lia. lia. }
    destruct ready; cbn [negb] in H2.
    + apply bind_inv in H2. destruct H2 as [[d' [s2 [H21 H22]]]|[r0 [H21 [H22 ->]]]].
      * apply dl_tick_spec in H21. destruct H21 as [[dt [sc [Hs1 [Hd' ->]]]]|[Hd' _]]; [|discriminate].
        inversion Hd'; subst d'. clear Hd'.
        set (tick := (K_NOW, [o_now s1 + dt])) in *.
        set (s2 := upd s1 sc (o_now s1 + dt) tick) in *.
        assert (Tst : steps s1 s2 [tick]) by (eapply steps_upd; exact Hs1).
        assert (Tcalm : calm (o_script s1) -> 0 <= dt).
        { intros Hc. rewrite Hs1 in Hc. inversion Hc; subst. assumption. }
        assert (Tinst : instant (o_script s1) -> dt = 0).
        { intros Hc. rewrite Hs1 in Hc. inversion Hc; subst. assumption. }
        apply bind_inv in H22. destruct H22 as [[sent [s3 [H31 H32]]]|[r0 [H31 [H32 ->]]]].
        -- destruct (send_now_spec _ _ _ _ _ H31) as [ns [Sst Snow Sbad Sdec Sone]].
           destruct (Sone ltac:(discriminate)) as [ret_ [-> [<- [Hrange Hpos]]]].
           specialize (Sdec ltac:(discriminate)).
           set (entry := (K_SEND, [fd; remaining; MSG_NOSIGNAL; sent])) in *.
           assert (Hst3 : steps s s3 (@app raw [entry] (@app raw [tick] nw))).
           { eapply steps_trans; [|exact Sst]. eapply steps_trans; eassumption. }
           assert (Hso : sends_of fd (@app raw [entry] (@app raw [tick] nw)) = [(remaining, sent)]).
           { rewrite sends_of_app, sends_of_app, (sends_of_wait _ _ Wonly). cbn [app].
             replace (sends_of fd [tick]) with (@nil (Z * Z)) by reflexivity. apply sends_of_single. }
           assert (Htm3 : poll_timeouts (@app raw [entry] (@app raw [tick] nw)) (fun t => 0 <= t <= INT_MAX)).
           { apply poll_timeouts_app. split; [apply poll_timeouts_nopolls; constructor; [discriminate|constructor]|].
             apply poll_timeouts_app. split; [apply poll_timeouts_nopolls; constructor; [discriminate|constructor]|assumption]. }
           assert (Hmono3 : calm (o_script s) -> o_now s <= o_now s3).
           { intros Hc. specialize (Wmono Hc). specialize (Tcalm (steps_calm _ _ _ Wst Hc)). rewrite Snow. cbn. lia. }
           assert (Hup3 : calm (o_script s) -> instant (o_script s) -> honest_up (@app raw [entry] (@app raw [tick] nw)) ->
                          o_now s3 <= Z.max (o_now s) (d_deadline d)).
           { intros Hc Hi Hh. apply honest_up_app in Hh. destruct Hh as [_ Hh]. apply honest_up_app in Hh. destruct Hh as [_ Hh].
             specialize (Wdl Hc Hi Hh). pose proof (Tinst (steps_instant _ _ _ Wst Hi)) as Hdt0. rewrite Snow. unfold s2. cbn [o_now upd]. lia. }
           destruct (negb (remaining - sent =? 0) && dl_time_left {| d_now := o_now s1 + dt; d_deadline := d_deadline d |}) eqn:Ego.
           ++ apply andb_prop in Ego. destruct Ego as [Enz Etl]. apply negb_true_iff in Enz. apply Z.eqb_neq in Enz.
              destruct (IH (remaining - sent) {| d_now := o_now s1 + dt; d_deadline := d_deadline d |} s3 r s' H32)
                as [nr [Rst [Racct [Rcount [Rexn [Rbad [Rstuck [Rmono [Rtm Rup]]]]]]]]].
              { pose proof (suffix_length _ _ (st_suffix _ _ _ Wst)). pose proof (suffix_length _ _ (st_suffix _ _ _ Tst)). lia. }
              { lia. }
              { cbn. rewrite Snow. reflexivity. }
              cbn [d_deadline] in *.
              exists (nr ++ (@app raw [entry] (@app raw [tick] nw))).
              assert (Hso2 : sends_of fd (nr ++ (@app raw [entry] (@app raw [tick] nw))) = (remaining, sent) :: sends_of fd nr).
              { rewrite sends_of_app, Hso. reflexivity. }
              split; [eapply steps_trans; eassumption|]. rewrite Hso2.
              split.
              { intros Hns. cbn [acct]. split; [reflexivity|]. split; [lia|]. split; [intros H0; lia|].
                replace (Z.max 0 sent) with sent by lia. exact (Racct Hns). }
              split.
              { intros rem' d' Hr. destruct (Rcount rem' d' Hr) as [Ha Hb]. cbn [accepted]. split; lia. }
              split.
              { intros e He. destruct (Rexn e He) as [Hw|[len [ret_ [rest [Hs Hr]]]]]; [now left|].
                right. exists len, ret_, ((remaining, sent) :: rest). rewrite Hso2, Hs. split; [reflexivity|assumption]. }
              split; [exact Rbad|]. split; [exact Rstuck|].
              split.
              { intros Hc. specialize (Hmono3 Hc). specialize (Rmono (steps_calm _ _ _ Hst3 Hc)). lia. }
              split; [apply poll_timeouts_app; split; assumption|].
              intros Hc Hi Hh. apply honest_up_app in Hh. destruct Hh as [Hh1 Hh2].
              specialize (Hup3 Hc Hi Hh2). specialize (Rup (steps_calm _ _ _ Hst3 Hc) (steps_instant _ _ _ Hst3 Hi) Hh1). lia.
           ++ inversion H32; subst r s'. exists (@app raw [entry] (@app raw [tick] nw)).
              split; [exact Hst3|]. rewrite Hso.
              split; [intros _; cbn; repeat split; try lia|].
              split; [intros rem' d' Hr; inversion Hr; subst; cbn; split; lia|].
              split; [discriminate|]. split; [discriminate|]. split; [discriminate|].
              split; [exact Hmono3|]. split; [exact Htm3|exact Hup3].
        -- (* send_now did not return normally *)
           destruct (send_now_spec _ _ _ _ _ H31) as [ns [Sst Snow Sbad Sdec Sone]].
           assert (Hst3 : steps s s' (ns ++ (@app raw [tick] nw))).
           { eapply steps_trans; [|exact Sst]. eapply steps_trans; eassumption. }
           assert (Hmono3 : calm (o_script s) -> o_now s <= o_now s').
           { intros Hc. specialize (Wmono Hc). specialize (Tcalm (steps_calm _ _ _ Wst Hc)). rewrite Snow. cbn. lia. }
           assert (Hup3 : calm (o_script s) -> instant (o_script s) -> honest_up (ns ++ (@app raw [tick] nw)) ->
                          o_now s' <= Z.max (o_now s) (d_deadline d)).
           { intros Hc Hi Hh. apply honest_up_app in Hh. destruct Hh as [_ Hh]. apply honest_up_app in Hh. destruct Hh as [_ Hh].
             specialize (Wdl Hc Hi Hh). pose proof (Tinst (steps_instant _ _ _ Wst Hi)) as Hdt0. rewrite Snow. unfold s2. cbn [o_now upd]. lia. }
           exists (ns ++ (@app raw [tick] nw)). split; [exact Hst3|].
           assert (Hnp : no_polls ns).
           { destruct (send_now_timeless fd remaining _ _ _ H31) as [ns' [Sst' [Hnp' _]]].
             (* same segment: both extend the trace of s2 to that of s' *)
             destruct Sst as [Sx _ _]. destruct Sst' as [Sx' _ _]. unfold extends in *. rewrite Sx in Sx'.
             apply app_inv_tail in Sx'. now subst ns'. }
           assert (Htm3 : poll_timeouts (ns ++ (@app raw [tick] nw)) (fun t => 0 <= t <= INT_MAX)).
           { apply poll_timeouts_app. split; [now apply poll_timeouts_nopolls|].
             apply poll_timeouts_app. split; [apply poll_timeouts_nopolls; constructor; [discriminate|constructor]|assumption]. }
           destruct r0 as [x|e|w|u]; [discriminate| | |]; cbn [recast].
           ++ destruct (Sone ltac:(discriminate)) as [ret_ [-> Hcase]].
              set (entry := (K_SEND, [fd; remaining; MSG_NOSIGNAL; ret_])) in *.
              assert (Hso : sends_of fd (@app raw [entry] (@app raw [tick] nw)) = [(remaining, ret_)]).
              { rewrite sends_of_app, sends_of_app, (sends_of_wait _ _ Wonly). cbn [app].
                replace (sends_of fd [tick]) with (@nil (Z * Z)) by reflexivity. apply sends_of_single. }
              rewrite Hso.
              assert (Hle : ret_ <= 0) by (destruct Hcase as [[Hl _]|[-> _]]; lia).
              split; [intros _; cbn; repeat split; lia|].
              split; [discriminate|].
              split; [intros e0 _; right; exists remaining, ret_, []; rewrite Hso; split; [reflexivity|assumption]|].
              split; [discriminate|]. split; [discriminate|].
              split; [exact Hmono3|]. split; [exact Htm3|exact Hup3].
           ++ destruct (Sbad w eq_refl) as [-> ->]. cbn [app].
              unfold tick. rewrite sends_of_cons_now, (sends_of_wait _ _ Wonly).
              split; [intros _; exact I|]. split; [discriminate|]. split; [discriminate|].
              split; [intros w Hw; inversion Hw; auto|]. split; [discriminate|].
              split; [exact Hmono3|]. split; [exact Htm3|exact Hup3].
           ++ destruct (Sone ltac:(discriminate)) as [ret_ [-> [-> Hgt]]].
              split; [intros Hns; exfalso; exact (Hns _ eq_refl)|].
              split; [discriminate|]. split; [discriminate|]. split; [discriminate|].
              split; [intros u0 Hu; now inversion Hu|].
              split; [exact Hmono3|]. split; [exact Htm3|exact Hup3].
      * (* the clock read after the wait has no event *)
        apply dl_tick_spec in H21. destruct H21 as [[dt [sc [Hs1 [Hd' _]]]]|[Hd' ->]]; [subst r0; discriminate|].
        subst r0. cbn [recast]. exists nw. split; [exact Wst|]. rewrite (sends_of_wait _ _ Wonly).
        split; [intros _; exact I|]. split; [discriminate|]. split; [discriminate|].
        split; [intros w Hw; inversion Hw; auto|]. split; [discriminate|].
        split; [assumption|]. split; [assumption|assumption].
    + inversion H2; subst r s'. exists nw. split; [exact Wst|]. rewrite (sends_of_wait _ _ Wonly).
      split; [intros _; exact I|].
      split; [intros rem' d' Hr; inversion Hr; subst; cbn; split; lia|].
      split; [discriminate|]. split; [discriminate|]. split; [discriminate|].
      split; [assumption|]. split; [assumption|assumption].
  - destruct (wait_fd_spec _ _ _ _ _ _ H1) as [nw [Wst Wonly Wexn Wbad Wstuck Wnoth Wready Wneg Wzero Wpos Wmono Wup Wlo]].
    assert (Wtm : poll_timeouts nw (fun t => 0 <= t <= INT_MAX)).
    { destruct (Z.eq_dec (dl_remaining d) 0) as [E0|E0].
      - eapply poll_timeouts_weaken; [|apply Wzero; exact E0]. intros t ->. unfold INT_MAX. lia.
      - apply Wpos. lia. }
    assert (Wdl : calm (o_script s) -> instant (o_script s) -> honest_up nw -> o_now s' <= Z.max (o_now s) (d_deadline d)).
    { intros Hc Hi Hh. specialize (Wup Hr0 Hc Hi Hh).
      destruct (Z_le_gt_dec (d_now d) (d_deadline d)) as [Hle|Hgt].
      - specialize (Hrs1 Hle). unfold NS_PER_MS in *. lia.
      - rewrite Hrs2 in Wup by lia. lia. }
    exists nw. split; [exact Wst|]. rewrite (sends_of_wait _ _ Wonly).
    split; [intros _; exact I|].
    destruct r0 as [x|e|w|u]; [discriminate| | |]; cbn [recast].
    + split; [discriminate|]. split; [intros e0 He; inversion He; subst; left; now apply Wexn|].
      split; [discriminate|]. split; [discriminate|]. split; [assumption|]. split; assumption.
    + split; [discriminate|]. split; [discriminate|].
      split; [intros w0 Hw; inversion Hw; subst; destruct (Wbad _ eq_refl); auto|].
      split; [discriminate|]. split; [assumption|]. split; assumption.
    + exfalso. exact (Wstuck u eq_refl).
Qed.


(* ---- SendTry ---------------------------------------------------------------------------------------- *)
Lemma send_try_spec fd size (s : os) r s' :
  send_try fd size s = (r, s') -> 0 <= size ->
  exists new, send_result fd size s s' r new /\ poll_timeouts new (fun t => t = 0) /\
              (calm (o_script s) -> instant (o_script s) -> honest_up new -> o_now s' = o_now s).
Proof.
  intros H Hs. change (send_try fd size) with (wait_then fd POLLOUT 0 (send_now (X:=X) fd size) 0) in H.
  destruct (wait_then_ok _ _ _ _ _ _ _ _ (send_now_timeless fd size) H) as [new [Wst Wcases Wneg Wzero Wpos Wmono Wup]].
  exists new. split; [|split; [now apply Wzero|]].
  2:{ intros Hc Hi Hh. specialize (Wup ltac:(lia) Hc Hi Hh). specialize (Wmono Hc). lia. }
  destruct Wcases as [[Wonly [[-> _]|[[errno [-> Hne]]|[w [-> Hw]]]]]|[nw [no [s1 [-> [Wonly [Nnp [Wst1 [Nst Hnow]]]]]]]]].
  - constructor; try assumption; try discriminate.
    + intros _. rewrite (sends_of_wait _ _ Wonly). exact I.
    + intros n Hn. inversion Hn; subst. now rewrite (sends_of_wait _ _ Wonly).
  - constructor; try assumption; try discriminate.
    + intros _. rewrite (sends_of_wait _ _ Wonly). exact I.
    + intros e He. inversion He; subst. left. eauto.
  - constructor; try assumption; try discriminate.
    + intros _. rewrite (sends_of_wait _ _ Wonly). exact I.
    + intros w0 Hw0. inversion Hw0; subst. destruct Hw; auto.
  - destruct (send_now_spec _ _ _ _ _ Hnow) as [ns [Sst Snow Sbad Sdec Sone]].
    assert (ns = no).
    { destruct Sst as [Sx _ _]. destruct Nst as [Nx _ _]. unfold extends in *. rewrite Sx in Nx. now apply app_inv_tail in Nx. }
    subst ns. constructor; try assumption.
    + intros Hns. rewrite sends_of_app, (sends_of_wait _ _ Wonly). cbn [app].
      destruct r as [x|e|w|u].
      * destruct (Sone ltac:(discriminate)) as [ret_ [-> [<- [Hr Hp]]]]. rewrite sends_of_single. cbn. repeat split; lia.
      * destruct (Sone ltac:(discriminate)) as [ret_ [-> Hc]]. rewrite sends_of_single. cbn.
        destruct Hc as [[Hl _]|[-> _]]; repeat split; lia.
      * destruct (Sbad w eq_refl) as [_ ->]. exact I.
      * exfalso. exact (Hns _ eq_refl).
    + intros n Hn. subst r. destruct (Sone ltac:(discriminate)) as [ret_ [-> [<- [Hr Hp]]]].
      rewrite sends_of_app, (sends_of_wait _ _ Wonly), sends_of_single. cbn. lia.
    + intros e He. subst r. destruct (Sone ltac:(discriminate)) as [ret_ [-> Hc]]. right.
      exists size, ret_, []. rewrite sends_of_app, (sends_of_wait _ _ Wonly), sends_of_single. split; [reflexivity|].
      destruct Hc as [[Hl _]|[-> _]]; lia.
    + intros w Hw. subst r. destruct (Sbad w eq_refl) as [-> _]. auto.
    + intros u Hu. subst r. destruct (Sone ltac:(discriminate)) as [ret_ [_ [-> _]]]. reflexivity.
Qed.

(* ---- SocketImpl::Send(data, size, timeout) ---------------------------------------------------------- *)
Record sock_send_facts (fd size T : Z) (s s' : os) (r : res Z) (new : list raw) : Prop := {
  ss_result : send_result fd size s s' r new;
  (* unlimited: returns only after everything was accepted, waits are unlimited polls *)
  ss_neg : T < 0 -> (forall n, r = Ok n -> n = size) /\ poll_timeouts new (fun t => t = -1);
  (* zero: never blocks *)
  ss_zero : T = 0 -> poll_timeouts new (fun t => t = 0) /\
                     (calm (o_script s) -> instant (o_script s) -> honest_up new -> o_now s' = o_now s);
  (* limited: blocks no longer than T in total, however many waits and partial sends it takes *)
  ss_pos : 0 < T -> poll_timeouts new (fun t => 0 <= t <= INT_MAX) /\
                    (calm (o_script s) -> instant (o_script s) -> honest_up new -> o_now s' <= o_now s + T * NS_PER_MS)
}.

Lemma sock_send_spec fd size T (s : os) r s' :
  sock_send fd size T s = (r, s') -> 0 <= size -> exists new, sock_send_facts fd size T s s' r new.
Proof.
  unfold sock_send. intros H Hs. destruct (T <? 0) eqn:E1.
  - apply Z.ltb_lt in E1. destruct (send_all_spec _ _ _ _ _ H Hs) as [new [Hres [Hfull Htm]]].
    exists new. constructor; [assumption|auto|intros; lia|intros; lia].
  - apply Z.ltb_ge in E1. destruct (T =? 0) eqn:E2.
    + apply Z.eqb_eq in E2. subst T. destruct (send_try_spec _ _ _ _ _ H Hs) as [new [Hres [Htm Hz]]].
      exists new. constructor; [assumption|intros; lia|auto|intros; lia].
    + apply Z.eqb_neq in E2. apply bind_inv in H.
      destruct H as [[d [s1 [Hd H2]]]|[r0 [Hd [Hn ->]]]].
      * unfold dl_new in Hd. apply bind_inv in Hd.
        destruct Hd as [[now1 [s1' [Hn1 Hn2]]]|[r1 [Hn1 [Hn2 Hn3]]]]; [|exfalso; exact (recast_not_ok _ _ Hn3)].
        inversion Hn2; subst s1' d. clear Hn2.
        apply sys_now_inv in Hn1. destruct Hn1 as [[dt0 [sc [Hsc [Hr ->]]]]|[Hr _]]; [|discriminate].
        inversion Hr; subst now1. clear Hr.
        set (tick := (K_NOW, [o_now s + dt0])) in *.
        set (s1 := upd s sc (o_now s + dt0) tick) in *.
        assert (Tst : steps s s1 [tick]) by (eapply steps_upd; exact Hsc).
        assert (Tcalm : calm (o_script s) -> 0 <= dt0).
        { intros Hc. rewrite Hsc in Hc. inversion Hc; subst. assumption. }
        assert (Tinst : instant (o_script s) -> dt0 = 0).
        { intros Hc. rewrite Hsc in Hc. inversion Hc; subst. assumption. }
        apply bind_inv in H2. destruct H2 as [[[n d'] [s2 [H21 H22]]]|[r0 [H21 [H22 ->]]]].
        -- inversion H22; subst r s'. cbn [fst].
           unfold send_some in H21. apply bind_inv in H21.
           destruct H21 as [[fuel [s0 [Hf Hl]]]|[r0 [Hf [Hnok _]]]].
           2:{ apply script_fuel_inv in Hf. destruct Hf as [-> _]. discriminate. }
           apply script_fuel_inv in Hf. destruct Hf as [Hfu ->]. inversion Hfu; subst fuel. clear Hfu.
           apply bind_inv in Hl. destruct Hl as [[[rem' d''] [s3 [Hl1 Hl2]]]|[r0 [Hl1 [Hl2 Hl3]]]]; [|exfalso; exact (recast_not_ok _ _ Hl3)].
           inversion Hl2; subst n d' s3. clear Hl2.
           destruct (send_some_loop_spec _ fd size _ s1 _ _ Hl1)
             as [nr [Rst [Racct [Rcount [Rexn [Rbad [Rstuck [Rmono [Rtm Rup]]]]]]]]]; [cbn; lia|exact Hs|reflexivity|].
           destruct (Rcount _ _ eq_refl) as [Rc1 Rc2]. cbn [d_deadline] in Rup.
           exists (nr ++ [tick]).
           assert (Hso : sends_of fd (nr ++ [tick]) = sends_of fd nr).
           { rewrite sends_of_app. replace (sends_of fd [tick]) with (@nil (Z * Z)) by reflexivity. reflexivity. }
           constructor.
           ++ constructor; try discriminate.
              ** eapply steps_trans; eassumption.
              ** intros _. rewrite Hso. apply Racct. discriminate.
              ** intros n Hn. inversion Hn; subst n. rewrite Hso. lia.
              ** intros Hc. specialize (Tcalm Hc). specialize (Rmono (steps_calm _ _ _ Tst Hc)). cbn in Rmono. lia.
           ++ intros; lia.
           ++ intros; lia.
           ++ intros _. split.
              ** apply poll_timeouts_app. split; [assumption|]. apply poll_timeouts_nopolls. constructor; [discriminate|constructor].
              ** intros Hc Hi Hh. apply honest_up_app in Hh. destruct Hh as [Hh _].
                 specialize (Rup (steps_calm _ _ _ Tst Hc) (steps_instant _ _ _ Tst Hi) Hh).
                 pose proof (Tinst Hi) as Hd0. assert (Hs1 : o_now s1 = o_now s + dt0) by reflexivity. unfold NS_PER_MS in *. lia.
        -- unfold send_some in H21. apply bind_inv in H21.
           destruct H21 as [[fuel [s0 [Hf Hl]]]|[r1 [Hf [Hnok _]]]].
           2:{ apply script_fuel_inv in Hf. destruct Hf as [-> _]. discriminate. }
           apply script_fuel_inv in Hf. destruct Hf as [Hfu ->]. inversion Hfu; subst fuel. clear Hfu.
           apply bind_inv in Hl. destruct Hl as [[[rem' d''] [s3 [Hl1 Hl2]]]|[r1 [Hl1 [Hl2 Hl3]]]]; [inversion Hl2; subst; discriminate|].
           subst r0.
           destruct (send_some_loop_spec _ fd size _ s1 _ _ Hl1)
             as [nr [Rst [Racct [Rcount [Rexn [Rbad [Rstuck [Rmono [Rtm Rup]]]]]]]]]; [cbn; lia|exact Hs|reflexivity|].
           cbn [d_deadline] in Rup.
           exists (nr ++ [tick]).
           assert (Hso : sends_of fd (nr ++ [tick]) = sends_of fd nr).
           { rewrite sends_of_app. replace (sends_of fd [tick]) with (@nil (Z * Z)) by reflexivity. reflexivity. }
           assert (Hfs : failed_in_send fd nr -> failed_in_send fd (nr ++ [tick])).
           { intros [len [ret_ [rest [Hs1 Hr1]]]]. exists len, ret_, rest. rewrite Hso. auto. }
           constructor.
           ++ destruct r1 as [x|e|w|u]; [discriminate| | |]; cbn [recast]; constructor; try discriminate.
              ** eapply steps_trans; eassumption.
              ** intros _. rewrite Hso. apply Racct. discriminate.
              ** intros e0 He. inversion He; subst. destruct (Rexn _ eq_refl); auto.
              ** intros Hc. specialize (Tcalm Hc). specialize (Rmono (steps_calm _ _ _ Tst Hc)). cbn in Rmono. lia.
              ** eapply steps_trans; eassumption.
              ** intros _. rewrite Hso. apply Racct. discriminate.
              ** intros w0 Hw. inversion Hw; subst. now apply Rbad.
              ** intros Hc. specialize (Tcalm Hc). specialize (Rmono (steps_calm _ _ _ Tst Hc)). cbn in Rmono. lia.
              ** eapply steps_trans; eassumption.
              ** intros Hns. exfalso. exact (Hns _ eq_refl).
              ** intros u0 Hu. inversion Hu; subst. now apply Rstuck.
              ** intros Hc. specialize (Tcalm Hc). specialize (Rmono (steps_calm _ _ _ Tst Hc)). cbn in Rmono. lia.
           ++ intros; lia.
           ++ intros; lia.
           ++ intros _. split.
              ** apply poll_timeouts_app. split; [assumption|]. apply poll_timeouts_nopolls. constructor; [discriminate|constructor].
              ** intros Hc Hi Hh. apply honest_up_app in Hh. destruct Hh as [Hh _].
                 specialize (Rup (steps_calm _ _ _ Tst Hc) (steps_instant _ _ _ Tst Hi) Hh).
                 pose proof (Tinst Hi) as Hd0. assert (Hs1 : o_now s1 = o_now s + dt0) by reflexivity. unfold NS_PER_MS in *. lia.
      * (* the first clock read has no event *)
        unfold dl_new in Hd. apply bind_inv in Hd.
        destruct Hd as [[now1 [s1' [Hn1 Hn2]]]|[r1 [Hn1 [Hn2 Hn3]]]]; [inversion Hn2; subst; discriminate|].
        apply sys_now_inv in Hn1. destruct Hn1 as [[dt0 [sc [Hsc [Hr _]]]]|[Hr ->]]; [subst r1; discriminate|].
        subst r1 r0. cbn [recast]. exists []. constructor.
        -- constructor; try discriminate.
           ++ apply steps_refl.
           ++ intros _. exact I.
           ++ intros w Hw. inversion Hw. auto.
           ++ lia.
        -- intros; lia.
        -- intros; lia.
        -- intros _. split; [apply poll_timeouts_nil|]. intros. unfold NS_PER_MS. lia.
Qed.

End WithExt.
