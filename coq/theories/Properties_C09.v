(* Properties_C09.v — UDP datagrams at the basic API level: SendTo is all-or-nothing, ReceiveFrom reports
   exactly what recvfrom() delivered (size, source). The kernel's datagram queue (loopback: ordered, loss-free
   below the queue limit, truncation to the buffer size) is trusted and validated by the harness. *)
From SP Require Import Base ListAux Os OsLemmas WaitModel WaitLemmas SocketModel SocketLemmas.
Local Open Scope Z_scope.

Section C09.
Context {X : Type}.
Local Notation os := (os X).

(* SendTo returns the full size, or 0 only when the (limited) wait timed out; never a partial count.
   When it returns the size, exactly one sendto() carrying the whole datagram to that destination was made
   and accepted it entirely. *)
Theorem sendto_all_or_nothing : forall fd size dst T (s : os) n s',
  sock_sendto fd size dst T s = (Ok n, s') ->
  exists new, steps s s' new /\
    ((n = size /\ exists nw, new = (K_SENDTO, [fd; size; dst; size]) :: nw /\ only_wait_entries nw) \/
     (n = 0 /\ only_wait_entries new /\ exists e rest t dt, new = e :: rest /\ poll_entry e = Some (t, 0, dt))).
Proof.
  intros fd size dst T s n s' H.
  change (sock_sendto fd size dst T) with (wait_then fd POLLOUT T (sendto_now (X:=X) fd size dst) 0) in H.
  destruct (wait_then_ok _ _ _ _ _ _ _ _ (sendto_now_timeless fd size dst) H) as [new [Wst Wcases _ _ _ _ _]].
  exists new. split; [assumption|].
  destruct Wcases as [[Wonly [[Hr [_ Hp]]|[[errno [Hr _]]|[w [Hr _]]]]]|[nw [no [s1 [-> [Wonly [Nnp [_ [Nst Hnow]]]]]]]]]; try discriminate.
  - inversion Hr; subst. right. auto.
  - left. destruct (sendto_now_spec _ _ _ _ _ _ Hnow) as [ns [Sst _ _ Sone]].
    assert (ns = no).
    { destruct Sst as [Sx _ _]. destruct Nst as [Nx _ _]. unfold extends in *. rewrite Sx in Nx. now apply app_inv_tail in Nx. }
    subst ns. destruct (Sone ltac:(discriminate)) as [ret_ [-> [-> ->]]]. split; [reflexivity|]. exists nw. auto.
Qed.

(* a failing sendto() is reported with its errno; a short count (impossible for a datagram) as logic_error *)
Theorem sendto_failure_reported : forall fd size dst (s : os) e s',
  sendto_now fd size dst s = (Exn e, s') ->
  exists ret_ err sc, o_script s = EvSendTo ret_ err :: sc /\
    ((ret_ < 0 /\ e = SysErr err) \/ (0 <= ret_ /\ ret_ <> size /\ e = LogicErr 2)).
Proof.
  intros fd size dst s e s' H. unfold sendto_now, bind, sys_sendto in H.
  destruct (o_script s) as [|[| | | |ret_ err| |] sc] eqn:Hs; try discriminate.
  exists ret_, err, sc. split; [reflexivity|]. cbn in H.
  destruct (ret_ <? 0) eqn:E1.
  - apply Z.ltb_lt in E1. inversion H; subst. left. auto.
  - apply Z.ltb_ge in E1. destruct (ret_ =? size) eqn:E2; cbn in H; inversion H; subst.
    apply Z.eqb_neq in E2. right. auto.
Qed.

(* ReceiveFrom reports exactly the size and the source address recvfrom() delivered — each datagram once:
   one recvfrom() per reported datagram *)
Theorem recvfrom_faithful : forall fd size T (s : os) n from s',
  sock_recvfrom fd size T s = (Ok (Some (n, from)), s') ->
  exists new nw ret_ err sc0 (s1 : os), steps s s' new /\ new = (K_RECVFROM, [fd; size; n]) :: nw /\ only_wait_entries nw /\
    o_script s1 = EvRecvFrom ret_ err from :: sc0 /\ n = ret_ /\ 0 <= n <= size.
Proof.
  intros fd size T s n from s' H.
  change (sock_recvfrom fd size T) with (wait_then fd POLLIN T (k <- recvfrom_now (X:=X) fd size ;; ret (Some k)) None) in H.
  destruct (wait_then_ok _ _ _ _ _ _ _ _ (timeless_map _ _ (recvfrom_now_timeless fd size)) H) as [new [Wst Wcases _ _ _ _ _]].
  destruct Wcases as [[Wonly [[Hr _]|[[errno [Hr _]]|[w [Hr _]]]]]|[nw [no [s1 [-> [Wonly [Nnp [_ [Nst Hnow]]]]]]]]]; try discriminate.
  apply bind_inv in Hnow. destruct Hnow as [[k [s2 [H1 H2]]]|[r0 [_ [_ Hr]]]]; [|exfalso; exact (recast_not_ok _ _ Hr)].
  inversion H2; subst k s2. destruct (recvfrom_now_spec _ _ _ _ _ H1) as [ns [Sst _ _ Sone]].
  assert (ns = no).
  { destruct Sst as [Sx _ _]. destruct Nst as [Nx _ _]. unfold extends in *. rewrite Sx in Nx. now apply app_inv_tail in Nx. }
  subst ns. destruct (Sone ltac:(discriminate)) as [ret_ [err [src [sc0 [Hs [-> [-> [-> Hb]]]]]]]].
  exists ([(K_RECVFROM, [fd; size; ret_])] ++ nw), nw, ret_, err, sc0, s1.
  split; [assumption|]. split; [reflexivity|]. split; [assumption|]. split; [assumption|]. split; [reflexivity|assumption].
Qed.

End C09.

Example c09_nonvacuous :
  fst (sock_sendto 1000 1472 7 (-1) (os_init tt [EvPoll 1 0 0 [4]; EvSendTo 1472 0] [])) = Ok 1472 /\
  fst (sock_sendto 1000 1472 7 50 (os_init tt [EvNow 0; EvPoll 0 0 50000000 [0]] [])) = Ok 0 /\
  fst (sock_recvfrom 1000 100 0 (os_init tt [EvPoll 1 0 0 [1]; EvRecvFrom 100 0 3] [])) = Ok (Some (100, 3)).
Proof. vm_compute. repeat split; reflexivity. Qed.

Print Assumptions sendto_all_or_nothing.
Print Assumptions sendto_failure_reported.
Print Assumptions recvfrom_faithful.
