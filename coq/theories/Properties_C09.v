(* Properties_C09.v — UDP datagrams at the basic API level: SendTo is all-or-nothing, ReceiveFrom reports
   exactly what recvfrom() delivered (size, source). The kernel's datagram queue (loopback: ordered, loss-free
   below the queue limit, truncation to the buffer size) is trusted and validated by the harness. *)
From SP Require Import Base ListAux Os OsLemmas WaitModel WaitLemmas SocketModel SocketLemmas PoolModel Objects DriverModel DriverLemmas SendLink SendToLink Sim.
Local Open Scope Z_scope.

Section C09.
Context {X : Type}.
Local Notation os := (os X).

(* SendTo returns the full size, or 0 only when the (limited) wait timed out; never a partial count.
   When it returns the size, exactly one sendto() carrying the whole datagram to that destination was made
   and accepted it entirely. *)
Theorem sendto_all_or_nothing : forall fd size dst T (s : os) n s',
  sock_sendto fd size dst T s = (Ok n, s') ->
  exists new, steps s s' new /\
    ((n = size /\ exists nw, new = (K_SENDTO, [fd; size; dst; size]) :: nw /\ only_wait_entries nw) \/
     (n = 0 /\ only_wait_entries new /\ exists e rest t dt, new = e :: rest /\ poll_entry e = Some (t, 0, dt))).
Proof.
  intros fd size dst T s n s' H.
  change (sock_sendto fd size dst T) with (wait_then fd POLLOUT T (sendto_now (X:=X) fd size dst) 0) in H.
  destruct (wait_then_ok _ _ _ _ _ _ _ _ (sendto_now_timeless fd size dst) H) as [new [Wst Wcases _ _ _ _ _]].
  exists new. split; [assumption|].
  destruct Wcases as [[Wonly [[Hr [_ Hp]]|[[errno [Hr _]]|[w [Hr _]]]]]|[nw [no [s1 [-> [Wonly [Nnp [_ [Nst Hnow]]]]]]]]]; try discriminate.
  - inversion Hr; subst. right. auto.
  - left. destruct (sendto_now_spec _ _ _ _ _ _ Hnow) as [ns [Sst _ _ Sone]].
    assert (ns = no).
    { destruct Sst as [Sx _ _]. destruct Nst as [Nx _ _]. unfold extends in *. rewrite Sx in Nx. now apply app_inv_tail in Nx. }
    subst ns. destruct (Sone ltac:(discriminate)) as [ret_ [-> [-> ->]]]. split; [reflexivity|]. exists nw. auto.
Qed.

(* a failing sendto() is reported with its errno; a short count (impossible for a datagram) as logic_error *)
Theorem sendto_failure_reported : forall fd size dst (s : os) e s',
  sendto_now fd size dst s = (Exn e, s') ->
  exists ret_ err sc, o_script s = EvSendTo ret_ err :: sc /\
    ((ret_ < 0 /\ e = SysErr err) \/ (0 <= ret_ /\ ret_ <> size /\ e = LogicErr 2)).
Proof.
  intros fd size dst s e s' H. unfold sendto_now, bind, sys_sendto in H.
  destruct (o_script s) as [|[| | | |ret_ err| |] sc] eqn:Hs; try discriminate.
  exists ret_, err, sc. split; [reflexivity|]. cbn in H.
  destruct (ret_ <? 0) eqn:E1.
  - apply Z.ltb_lt in E1. inversion H; subst. left. auto.
  - apply Z.ltb_ge in E1. destruct (ret_ =? size) eqn:E2; cbn in H; inversion H; subst.
    apply Z.eqb_neq in E2. right. auto.
Qed.

(* ReceiveFrom reports exactly the size and the source address recvfrom() delivered — each datagram once:
   one recvfrom() per reported datagram *)
Theorem recvfrom_faithful : forall fd size T (s : os) n from s',
  sock_recvfrom fd size T s = (Ok (Some (n, from)), s') ->
  exists new nw ret_ err sc0 (s1 : os), steps s s' new /\ new = (K_RECVFROM, [fd; size; n]) :: nw /\ only_wait_entries nw /\
    o_script s1 = EvRecvFrom ret_ err from :: sc0 /\ n = ret_ /\ 0 <= n <= size.
Proof.
  intros fd size T s n from s' H.
  change (sock_recvfrom fd size T) with (wait_then fd POLLIN T (k <- recvfrom_now (X:=X) fd size ;; ret (Some k)) None) in H.
  destruct (wait_then_ok _ _ _ _ _ _ _ _ (timeless_map _ _ (recvfrom_now_timeless fd size)) H) as [new [Wst Wcases _ _ _ _ _]].
  destruct Wcases as [[Wonly [[Hr _]|[[errno [Hr _]]|[w [Hr _]]]]]|[nw [no [s1 [-> [Wonly [Nnp [_ [Nst Hnow]]]]]]]]]; try discriminate.
  apply bind_inv in Hnow. destruct Hnow as [[k [s2 [H1 H2]]]|[r0 [_ [_ Hr]]]]; [|exfalso; exact (recast_not_ok _ _ Hr)].
  inversion H2; subst k s2. destruct (recvfrom_now_spec _ _ _ _ _ H1) as [ns [Sst _ _ Sone]].
  assert (ns = no).
  { destruct Sst as [Sx _ _]. destruct Nst as [Nx _ _]. unfold extends in *. rewrite Sx in Nx. now apply app_inv_tail in Nx. }
  subst ns. destruct (Sone ltac:(discriminate)) as [ret_ [err [src [sc0 [Hs [-> [-> [-> Hb]]]]]]]].
  exists ([(K_RECVFROM, [fd; size; ret_])] ++ nw), nw, ret_, err, sc0, s1.
  split; [assumption|]. split; [reflexivity|]. split; [assumption|]. split; [assumption|]. split; [reflexivity|assumption].
Qed.

End C09.

(* The asynchronous SendTo (DriverSendTo on the driver's thread): one queue element = one sendto(); whether the OS takes the
   datagram (r = size) or refuses it (r < 0), exactly that element leaves the queue, exactly its future is resolved — with
   the value or with the error — and the remaining elements, other futures and other sockets are untouched: a failed
   datagram never holds up the later ones. (A datagram socket has no partial writes: 0 <= r <> size is reported as
   logic_error by sendto_failure_reported.) *)
Theorem driver_sendto_pops_and_resolves :
  forall (k f o i dst : Z) (rest : list (Z * Z * Z * Z)) (sk : sock) (ft : fut) (pl : pool) (b : buf) (busy' : list buf) (st : os ext),
  aget k (x_socks (o_ext st)) = Some sk -> s_sendq sk = (f, o, i, dst) :: rest ->
  o <? 1000 = true -> aget o (x_pools (o_ext st)) = Some pl -> remove_id i (p_busy pl) = Some (b, busy') ->
  aget f (x_futs (o_ext st)) = Some ft -> f_state ft = 0 ->
  forall r err sc, o_script st = EvSendTo r err :: sc -> 0 <= buf_size i (p_busy pl) -> (r = buf_size i (p_busy pl) \/ r < 0) ->
  exists st',
    driver_sendto k st = (Ok (match rest with [] => true | _ => false end), st') /\ o_script st' = sc /\
    o_trace st' = (K_SENDTO, [s_fd sk; buf_size i (p_busy pl); dst; r]) :: o_trace st /\
    fut_state (o_ext st') f = (if r <? 0 then 2 else 1) /\
    (forall g, g <> f -> fut_state (o_ext st') g = fut_state (o_ext st) g) /\
    (exists sk', aget k (x_socks (o_ext st')) = Some sk' /\ s_sendq sk' = rest /\ s_fd sk' = s_fd sk) /\
    (forall k2, k2 <> k -> aget k2 (x_socks (o_ext st')) = aget k2 (x_socks (o_ext st))).
Proof. exact SendToLink.driver_sendto_pops_and_resolves. Qed.

(* non-vacuity: two queued datagrams, the first refused (ENETUNREACH... errno 105), the second — an empty one — sent by the
   next step: future 0 carries the (sliced) error, future 1 the value *)
Example async_sendto_failed_then_next :
  let tr := run_case [(1, [1]); (2, []); (40, []); (10, [1; 0; 64]); (21, [1]); (30, [1; 1; 100]); (60, [1; 1; 0]);
                      (62, [1; 1; 1472; 3]); (62, [1; 1; 0; 7]); (41, [-1]); (41, [-1])]
                     [(2, [1; 0; 0; 0; 4]); (5, [-1; 105]); (2, [1; 0; 0; 0; 4]); (5, [0; 0])] [] in
  In (K_SENDTO, [1002; 1472; 3; -1]) tr /\ In (K_FUTURE, [0; 2; 9; 0]) tr /\
  In (K_SENDTO, [1002; 0; 7; 0]) tr /\ In (K_FUTURE, [1; 1]) tr.
Proof. vm_compute. repeat split; tauto. Qed.

Example c09_nonvacuous :
  fst (sock_sendto 1000 1472 7 (-1) (os_init tt [EvPoll 1 0 0 [4]; EvSendTo 1472 0] [])) = Ok 1472 /\
  fst (sock_sendto 1000 1472 7 50 (os_init tt [EvNow 0; EvPoll 0 0 50000000 [0]] [])) = Ok 0 /\
  fst (sock_recvfrom 1000 100 0 (os_init tt [EvPoll 1 0 0 [1]; EvRecvFrom 100 0 3] [])) = Ok (Some (100, 3)).
Proof. vm_compute. repeat split; reflexivity. Qed.

Print Assumptions sendto_all_or_nothing.
Print Assumptions sendto_failure_reported.
Print Assumptions recvfrom_faithful.
Print Assumptions driver_sendto_pops_and_resolves.
