(* Properties_C10.v — BufferPool accounting and recycling (pool part of C10).
   Every theorem quantifies over ALL operation histories (Get / release in any order / user resizes)
   on a pool with ANY (maxCount, reserve); each is closed by `exact <lemma>`. *)
From SP Require Import Base PoolModel PoolLemmas.
Local Open Scope Z_scope.

(* the state reached from a fresh pool BufferPool(n, reserve) by the history ops *)
Definition after (first n reserve : Z) (ops : list pool_op) : pool :=
  fst (pool_run (pool_new first n reserve) ops).

Lemma after_inv first n reserve ops : 0 <= n -> Inv n reserve (after first n reserve ops).
Proof. intros Hn. apply run_inv. now apply inv_new. Qed.

(* N > 0: never more than N outstanding *)
Theorem pool_limit : forall first n reserve ops, 0 < n ->
  Z.of_nat (length (p_busy (after first n reserve ops))) <= n.
Proof. intros. apply (limit n reserve); [apply after_inv; lia|assumption]. Qed.

(* the N+1st Get throws and changes nothing *)
Theorem pool_refuse_unchanged : forall first n reserve ops, 0 < n < two64 ->
  let p := after first n reserve ops in
  Z.of_nat (length (p_busy p)) = n -> pool_get p = (Exn OutOfBuffers, p).
Proof. intros first n reserve ops Hn p Hl. apply (refuse_unchanged n reserve); try lia. apply after_inv; lia. Qed.

(* ... and with fewer than N outstanding it is granted *)
Theorem pool_grants_below_limit : forall first n reserve ops, 0 < n ->
  let p := after first n reserve ops in
  Z.of_nat (length (p_busy p)) < n -> exists b p', pool_get p = (Ok b, p').
Proof. intros first n reserve ops Hn p Hl. apply (grant_below_limit n reserve); try lia. apply after_inv; lia. Qed.

(* N = 0 never refuses (as long as the count fits size_t at all) *)
Theorem pool_unlimited_never_refuses : forall first reserve ops,
  let p := after first 0 reserve ops in
  Z.of_nat (length (p_busy p)) < two64 -> exists b p', pool_get p = (Ok b, p').
Proof. intros first reserve ops p Hl. apply (unlimited_never_refuses reserve); [apply after_inv; lia|assumption]. Qed.

(* every Get yields an empty buffer, distinct from all outstanding ones, with the reserved capacity *)
Theorem get_empty_distinct_reserved : forall first n reserve ops b p', 0 <= n ->
  let p := after first n reserve ops in
  pool_get p = (Ok b, p') ->
  b_size b = 0 /\ ~ In (b_id b) (ids (p_busy p)) /\ (0 < n -> reserve <= b_cap b).
Proof.
  intros first n reserve ops b p' Hn p H. pose proof (after_inv first n reserve ops Hn) as I.
  split; [exact (get_empty _ _ _ H)|]. split; [exact (proj1 (get_distinct _ _ _ _ _ I H))|].
  intros Hp. exact (get_reserved _ _ _ _ _ I Hp H).
Qed.

(* outstanding buffers and idle buffers are pairwise distinct at all times *)
Theorem buffers_distinct : forall first n reserve ops, 0 <= n ->
  NoDup (ids (all_bufs (after first n reserve ops))).
Proof. intros. apply (inv_nodup n reserve). now apply after_inv. Qed.

(* releasing an outstanding buffer always works, and that same buffer (same identity, storage intact:
   capacity unchanged, content cleared) is what the next Get hands out *)
Theorem recycle_reuses_same : forall first n reserve ops id,
  let p := after first n reserve ops in
  In id (ids (p_busy p)) ->
  exists p1, pool_recycle p id = (Ok tt, p1) /\
  exists b, In b (p_busy p) /\ b_id b = id /\
  exists p2, pool_get p1 = (Ok {| b_id := id; b_size := 0; b_cap := b_cap b |}, p2).
Proof.
  intros first n reserve ops id p Hin. destruct (recycle_outstanding_ok p id Hin) as [p1 H1].
  exists p1. split; [assumption|]. exact (recycle_reuses_same p id p1 H1).
Qed.

(* a pool never creates a buffer while it has an idle one *)
Theorem no_alloc_while_idle : forall first n reserve ops r p',
  let p := after first n reserve ops in
  p_idle p <> [] -> pool_get p = (r, p') ->
  p_next p' = p_next p /\ exists b, r = Ok b /\ In (b_id b) (ids (p_idle p)).
Proof. intros first n reserve ops r p' p. exact (PoolLemmas.no_alloc_while_idle p r p'). Qed.

(* non-vacuity: a concrete non-trivial history meets the hypotheses *)
Example c10_nonvacuous :
  let p := after 0 2 100 [PGet; PGet; PResize 1 50; PRelease 1; PGet; PGet] in
  Z.of_nat (length (p_busy p)) = 2 /\ pool_get p = (Exn OutOfBuffers, p) /\
  snd (pool_run (pool_new 0 2 100) [PGet; PGet; PResize 1 50; PRelease 1; PGet; PGet])
  = [OGot 1 0 100; OGot 0 0 100; OResized; OReleased; OGot 1 0 100; ORefused].
Proof. vm_compute. repeat split; reflexivity. Qed.

Print Assumptions pool_limit.
Print Assumptions pool_refuse_unchanged.
Print Assumptions pool_grants_below_limit.
Print Assumptions pool_unlimited_never_refuses.
Print Assumptions get_empty_distinct_reserved.
Print Assumptions buffers_distinct.
Print Assumptions recycle_reuses_same.
Print Assumptions no_alloc_while_idle.
