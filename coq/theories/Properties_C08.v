(* Properties_C08.v — Stop always ends Run. For every interleaving of any number of Stop() calls (from any thread, from
   tasks/handlers, from a signal handler interrupting the driver thread: a stopper is an independent agent of SyncModel)
   with thread start-up, the loop-condition check, the blocking poll and step exit. *)
From SP Require Import SyncModel SyncLemmas AcceptSync AcceptLemmas.

(* once a Stop() has completed (flag set, wake-up sent), a driver sitting in poll is woken by the pipe alone: the step in
   progress ends and the loop condition is reached *)
Theorem stop_wakes_poll : forall n m s, reach n m s -> flag s = true -> cnt is_s1 (ss s) = 0 -> d s = D1 ->
  exists s', step false false s Drv = Some s'.
Proof. exact SyncLemmas.stop_wakes_poll. Qed.

(* at the loop condition a pending stop request makes Run() return (and is consumed); without one Run() goes on *)
Theorem run_returns_iff_flag : forall ev rr s s', d s = Dchk -> step ev rr s Drv = Some s' ->
  (flag s = true -> d s' = Dend /\ flag s' = false) /\ (flag s = false -> d s' = D0 /\ flag s' = false).
Proof. exact SyncLemmas.run_returns_iff_flag. Qed.

(* Run() does not return without a Stop() *)
Theorem run_needs_stop : forall ev rr s s', step ev rr s Drv = Some s' -> d s' = Dend -> d s = Dchk /\ flag s = true.
Proof. exact SyncLemmas.run_ends_only_from_check. Qed.

(* a Stop() that arrives before Run() is entered is not lost: the flag survives until the loop condition *)
Theorem stop_before_entry : forall n m s, reach n m s -> d s = Dend -> flag s = true ->
  exists s1 s2, step false true s Drv = Some s1 /\ d s1 = Dchk /\ flag s1 = true /\
                step false false s1 Drv = Some s2 /\ d s2 = Dend /\ flag s2 = false.
Proof.
  intros n m s R D F. destruct s as [dd uu sl pp fl sn]; simpl in *. subst dd fl.
  eexists. eexists. split; [reflexivity|]. simpl. repeat split; reflexivity.
Qed.

(* the stop request is still visible wherever the driver can be: flag set and the wake-up out => pipe non-empty, or the
   driver is past its poll and on its way to the check *)
Theorem stop_request_visible : forall n m s, reach n m s -> flag s = true ->
  cnt is_s1 (ss s) >= 1 \/ pipe s >= 1 \/ d_past_poll (d s) = true.
Proof. intros n m s R. destruct (inv_reach _ _ _ R) as (_ & _ & _ & _ & I5). exact I5. Qed.

(* a stopped driver can be run again *)
Example rerunnable :
  let run := fold_left (fun s t => match s with Some x => step false true x t | None => None end) in
  match run [Stp 0; Stp 0; Drv; Drv; Drv; Drv; Drv] (Some (init 0 1)) with
  | Some s => d s = D1 /\ flag s = false
  | None => False
  end.
Proof. vm_compute. split; reflexivity. Qed.

Print Assumptions stop_wakes_poll.
Print Assumptions run_returns_iff_flag.
Print Assumptions run_needs_stop.
Print Assumptions stop_before_entry.
Print Assumptions stop_request_visible.
