(* TlsBudget.v — finding F15: after every step of a TLS operation with a limited time-out the remaining budget is what is left
   until the deadline fixed when the operation began (SetTimeout), at the clock reading taken after the step — whatever the
   remaining budget was before the step. Rounding it to milliseconds therefore costs less than one millisecond in total, not
   one per step. *)
From SP Require Import Base ListAux Os OsLemmas WaitModel WaitLemmas SocketModel Objects DriverModel TlsModel TlsLemmas TlsInterest.
Local Open Scope Z_scope.
Local Notation os := (os ext).

Lemma upd_tls_ok k f (s : os) s' : upd_tls k f s = (Ok tt, s') ->
  exists t0, aget k (x_tls (o_ext s)) = Some t0 /\ aget k (x_tls (o_ext s')) = Some (f t0).
Proof.
  unfold upd_tls, bind, get_tls, bind, get_ext, put_tls, bind, get_ext, put_ext. intros H.
  destruct (aget k (x_tls (o_ext s))) as [t0|] eqn:E; inversion H; subst. exists t0. split; [reflexivity|]. cbn. apply aget_aset_same'.
Qed.

Theorem step_budget_is_measured_against_the_operation_deadline :
  forall A k (fn : Z -> MX A) (s : os) t r s',
  aget k (x_tls (o_ext s)) = Some t -> 0 < t_rem t ->
  under_deadline k fn s = (Ok r, s') ->
  exists t' now', aget k (x_tls (o_ext s')) = Some t' /\
                  t_rem t' = dl_remaining {| d_now := now'; d_deadline := t_end t |}.
Proof.
  intros A k fn s t r s' Ht Hrem H. unfold under_deadline in H.
  apply bind_inv in H. destruct H as [[t0 [s1 [Hg H]]]|[r0 [_ [_ Hx]]]]; [|exfalso; exact (recast_not_ok _ _ Hx)].
  destruct (get_tls_ok _ _ _ _ Hg) as [-> Ht0]. rewrite Ht in Ht0. inversion Ht0; subst t0.
  assert (E : (t_rem t <=? 0) = false) by (apply Z.leb_gt; exact Hrem). rewrite E in H.
  apply bind_inv in H. destruct H as [[d [s2 [_ H]]]|[r0 [_ [_ Hx]]]]; [|exfalso; exact (recast_not_ok _ _ Hx)].
  apply bind_inv in H. destruct H as [[r1 [s3 [_ H]]]|[r0 [_ [_ Hx]]]]; [|exfalso; exact (recast_not_ok _ _ Hx)].
  apply bind_inv in H. destruct H as [[d' [s4 [Hd H]]]|[r0 [_ [_ Hx]]]]; [|exfalso; exact (recast_not_ok _ _ Hx)].
  apply bind_inv in H. destruct H as [[[] [s5 [Hu H]]]|[r0 [_ [_ Hx]]]]; [|exfalso; exact (recast_not_ok _ _ Hx)].
  inversion H; subst r1 s5.
  destruct (upd_tls_ok _ _ _ _ Hu) as [t4 [_ Ht']].
  unfold dl_tick in Hd. apply bind_inv in Hd. destruct Hd as [[now' [s6 [_ Hd]]]|[r0 [_ [_ Hx]]]]; [|exfalso; exact (recast_not_ok _ _ Hx)].
  inversion Hd; subst d' s6.
  eexists. exists now'. split; [exact Ht'|]. cbn. reflexivity.
Qed.
