(* AddressScheme.v — "name://host": a service NAME as scheme (src/address_impl.cpp: UriDissect) *)
From SP Require Import Base ListAux AddressModel AddressLemmas AddressSpelling AddressToString.
Local Open Scope Z_scope.

Definition is_alpha (c : Z) : bool := in_range 97 122 c || in_range 65 90 c.

Lemma alpha_word c : is_alpha c = true -> is_word c = true.
Proof. unfold is_alpha, is_word. intros H. apply orb_true_iff in H. destruct H as [H|H]; rewrite H; [reflexivity|now rewrite orb_true_r]. Qed.

Lemma alpha_not_digit c : is_alpha c = true -> is_digit c = false.
Proof.
  unfold is_alpha, is_digit, in_range. intros H. apply andb_false_iff.
  apply orb_true_iff in H. destruct H as [H|H]; apply andb_true_iff in H; destruct H as [H1 H2]; apply Z.leb_le in H1; apply Z.leb_le in H2;
    right; apply Z.leb_gt; lia.
Qed.
Lemma alpha_not_space c : is_alpha c = true -> is_space c = false.
Proof.
  unfold is_alpha, is_space, in_range. intros H. apply orb_false_iff.
  apply orb_true_iff in H. destruct H as [H|H]; apply andb_true_iff in H; destruct H as [H1 H2]; apply Z.leb_le in H1; apply Z.leb_le in H2;
    (split; [apply Z.eqb_neq; lia|apply andb_false_iff; right; apply Z.leb_gt; lia]).
Qed.
Lemma alpha_not_sign c : is_alpha c = true -> (c =? MINUS) = false /\ (c =? PLUS) = false /\ (c =? 0) = false.
Proof.
  unfold is_alpha, in_range, MINUS, PLUS. intros H.
  apply orb_true_iff in H. destruct H as [H|H]; apply andb_true_iff in H; destruct H as [H1 H2]; apply Z.leb_le in H1; apply Z.leb_le in H2;
    repeat split; apply Z.eqb_neq; lia.
Qed.

Definition scheme_host (scheme host : str) : str := scheme ++ COLON :: SLASH :: SLASH :: host.

Section Scheme.
Variables scheme host : str.
Hypothesis Hsc : forallb is_alpha scheme = true.
Hypothesis Hsc0 : scheme <> [].
Hypothesis Hh : forallb plain_char host = true.
Hypothesis Hh0 : host <> [].
Hypothesis Hlen : (length (scheme_host scheme host) <= AUTHORITY_MAX)%nat.
Hypothesis Hls : (length scheme <= SERV_MAX)%nat.

Let u := scheme_host scheme host.

Lemma host_no_slash : forallb (fun c => negb (is_slash c)) host = true.
Proof. apply forallb_forall. intros c Hc. rewrite forallb_forall in Hh. now rewrite (plain_not_slash c (Hh c Hc)). Qed.
Lemma host_no_newline : forallb (fun c => negb (is_newline c)) host = true.
Proof. apply forallb_forall. intros c Hc. rewrite forallb_forall in Hh. now rewrite (plain_not_newline c (Hh c Hc)). Qed.
Lemma scheme_word : forallb is_word scheme = true.
Proof. apply forallb_forall. intros c Hc. rewrite forallb_forall in Hsc. now apply alpha_word, Hsc. Qed.

(* the path trimmer leaves "scheme://host" alone: the first '/' belongs to "://", and no further '/' follows *)
Lemma s_trim : trim_path u = u.
Proof.
  unfold trim_path, find_from. cbn [skipn Nat.add].
  assert (Hns : forallb (fun c => negb (is_slash c)) (scheme ++ [COLON]) = true).
  { rewrite forallb_app. cbn. rewrite andb_true_r. apply forallb_forall. intros c Hc. rewrite forallb_forall in Hsc.
    specialize (Hsc c Hc). unfold is_slash, SLASH. destruct (c =? 47) eqn:E; [apply Z.eqb_eq in E; subst c; cbn in Hsc; discriminate|reflexivity]. }
  assert (Eu : u = (scheme ++ [COLON]) ++ SLASH :: SLASH :: host) by (unfold u, scheme_host; rewrite <- app_assoc; reflexivity).
  assert (F1 : find_first is_slash u 0 = Some (length scheme + 1)%nat).
  { rewrite Eu. generalize 0%nat as i. intros i.
    assert (G : forall l i, forallb (fun c => negb (is_slash c)) l = true ->
                find_first is_slash (l ++ SLASH :: SLASH :: host) i = Some (i + length l)%nat).
    { induction l as [|c t IH]; intros j H; cbn; [f_equal; lia|].
      cbn in H. apply andb_true_iff in H. destruct H as [H1 H2]. apply negb_true_iff in H1. rewrite H1. rewrite IH by assumption. f_equal. lia. }
    rewrite G by assumption. rewrite app_length. cbn [length]. f_equal. lia. }
  rewrite F1.
  assert (L0 : Nat.ltb 0 (length scheme + 1) = true) by (apply Nat.ltb_lt; lia). rewrite L0.
  assert (Hc : nth (length scheme + 1 - 1) u 0 = COLON).
  { replace (length scheme + 1 - 1)%nat with (length scheme) by lia. unfold u, scheme_host. rewrite app_nth2 by lia. now rewrite Nat.sub_diag. }
  rewrite Hc, Z.eqb_refl. cbn [andb].
  assert (Hsk : skipn (length scheme + 1) u = SLASH :: SLASH :: host).
  { rewrite Eu. apply skipn_exact. rewrite app_length. reflexivity. }
  rewrite Hsk. replace (starts_with [SLASH; SLASH] (SLASH :: SLASH :: host)) with true by reflexivity.
  (* no slash behind the "//" *)
  assert (F2 : find_first is_slash (skipn (length scheme + 1 + 2) u) (length scheme + 1 + 2 + 0) = None).
  { assert (Hsk2 : skipn (length scheme + 1 + 2) u = host).
    { replace u with ((scheme ++ [COLON; SLASH; SLASH]) ++ host) by (unfold u, scheme_host; rewrite <- app_assoc; reflexivity).
      apply skipn_exact. rewrite app_length. cbn [length]. lia. }
    rewrite Hsk2. apply find_first_none. exact host_no_slash. }
  rewrite F2. reflexivity.
Qed.

Lemma take_while_word_u : take_while is_word u = scheme.
Proof. unfold u, scheme_host. apply take_while_app_stop; [exact scheme_word|reflexivity]. Qed.

Lemma s_re_serv : re_serv u = Some (scheme, host).
Proof.
  unfold re_serv. rewrite take_while_word_u.
  assert (Hsk : skipn (length scheme) u = COLON :: SLASH :: SLASH :: host) by (unfold u, scheme_host; apply skipn_app_exact).
  rewrite Hsk. replace (starts_with [COLON; SLASH; SLASH] (COLON :: SLASH :: SLASH :: host)) with true by reflexivity.
  unfold re_tail.
  assert (Hsk3 : skipn (length scheme + 3) u = host).
  { replace u with ((scheme ++ [COLON; SLASH; SLASH]) ++ host) by (unfold u, scheme_host; rewrite <- app_assoc; reflexivity).
    apply skipn_exact. rewrite app_length. reflexivity. }
  rewrite Hsk3.
  destruct host as [|c t] eqn:Eh; [contradiction|]. rewrite <- Eh in *.
  assert (Hc : is_slash c = false).
  { pose proof host_no_slash as H. rewrite Eh in H. cbn in H. apply andb_true_iff in H. destruct H as [H _]. now apply negb_true_iff in H. }
  rewrite Hc. rewrite (take_while_all _ _ host_no_slash). rewrite skipn_all. cbn [forallb].
  f_equal. f_equal; [apply firstn_app_exact|].
  unfold sub. rewrite Hsk3. apply firstn_all.
Qed.

Lemma nth_plain_not_colon : forall (l : str) i, forallb plain_char l = true -> (nth i l 0 =? COLON) = false.
Proof.
  induction l as [|c t IH]; intros i H; [destruct i; reflexivity|].
  cbn in H. apply andb_true_iff in H. destruct H as [H1 H2]. destruct i; cbn; [now apply plain_not_colon|now apply IH].
Qed.

Lemma s_re_port : re_port host = None.
Proof.
  unfold re_port. destruct (Nat.ltb (digit_suffix_start host) (length host)); [|reflexivity].
  rewrite !(nth_plain_not_colon host _ Hh). repeat rewrite andb_false_r. cbn [andb]. repeat rewrite andb_false_r. reflexivity.
Qed.

Lemma scheme_not_numeric : is_service_numeric scheme = false.
Proof.
  unfold is_service_numeric, numeric_value.
  assert (Hc : c_str scheme = scheme).
  { unfold c_str. apply take_while_all. apply forallb_forall. intros c Hin. rewrite forallb_forall in Hsc.
    now rewrite (proj2 (proj2 (alpha_not_sign c (Hsc c Hin)))). }
  rewrite Hc. destruct scheme as [|c t] eqn:E; [contradiction|].
  assert (Ha : is_alpha c = true) by (cbn in Hsc; apply andb_true_iff in Hsc; tauto).
  cbn [drop_while]. rewrite (alpha_not_space c Ha).
  destruct (alpha_not_sign c Ha) as [Hm [Hp _]]. rewrite Hm, Hp.
  cbn [forallb]. rewrite (alpha_not_digit c Ha). reflexivity.
Qed.

(* "scheme://host" with a service NAME as scheme and (host, scheme) as a pair hand the same two texts to the resolver *)
Theorem uri_scheme_host_is_pair :
  uri_dissect u = DOk host scheme false /\ hostserv_dissect host scheme = DOk host scheme false.
Proof.
  split.
  - assert (Hu : u <> []) by (unfold u, scheme_host; intros E; apply app_eq_nil in E; destruct E as [_ E]; discriminate).
    rewrite (uri_nonempty u Hu). cbv zeta. rewrite s_trim.
    assert (Hlt : Nat.ltb AUTHORITY_MAX (length u) = false) by (apply Nat.ltb_ge; exact Hlen). rewrite Hlt.
    rewrite s_re_serv, s_re_port, scheme_not_numeric. reflexivity.
  - rewrite (hostserv_nonempty host scheme Hh0 Hsc0).
    assert (Hlt : Nat.ltb SERV_MAX (length scheme) = false) by (apply Nat.ltb_ge; exact Hls). rewrite Hlt.
    now rewrite scheme_not_numeric.
Qed.
End Scheme.
