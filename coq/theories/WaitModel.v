(* WaitModel.v — src/wait.h, src/wait.cpp: deadlines and the single poll-based wait primitive. *)
From SP Require Export Os.
Local Open Scope Z_scope.

Section WithExt.
Context {X : Type}.
Local Notation M := (M X).

Definition NS_PER_MS := 1000000.

(* ToMsec (wait.cpp): Duration (ms, 64 bit) -> int for poll *)
Definition to_msec (t : Z) : Z :=
  if INT_MAX <? t then INT_MAX else if t <? 0 then -1 else t.

(* DeadlineLimited (wait.h:103-127): now and deadline are steady-clock time points (ns) *)
Record dl := { d_now : Z; d_deadline : Z }.

Definition dl_new (timeout_ms : Z) : M dl :=
  now <- sys_now ;; ret {| d_now := now; d_deadline := now + timeout_ms * NS_PER_MS |}.

Definition dl_tick (d : dl) : M dl :=
  now <- sys_now ;; ret {| d_now := now; d_deadline := d_deadline d |}.

Definition dl_time_left (d : dl) : bool := d_now d <? d_deadline d.

(* duration_cast<milliseconds> truncates toward zero; a negative remainder is reported as 0 *)
Definition dl_remaining (d : dl) : Z :=
  let r := Z.quot (d_deadline d - d_now d) NS_PER_MS in
  if r <? 0 then 0 else r.

Definition interrupted (r : Z * Z * list Z) : bool :=
  let '(ret_, err, _) := r in (ret_ <? 0) && (err =? EINTR).

(* DoPoll(pfds, count, Duration) (wait.cpp): poll, resumed with the time remaining when a signal interrupts it *)
Fixpoint poll_unlimited (fuel : nat) (fds : list (Z * Z)) (timeout : Z) : M (Z * Z * list Z) :=
  match fuel with
  | O => bad 10
  | S k => r <- sys_poll fds (to_msec timeout) ;;
           if interrupted r then poll_unlimited k fds timeout else ret r
  end.

Fixpoint poll_limited (fuel : nat) (fds : list (Z * Z)) (d : dl) : M (Z * Z * list Z) :=
  match fuel with
  | O => bad 11
  | S k => r <- sys_poll fds (to_msec (dl_remaining d)) ;;
           if interrupted r then d' <- dl_tick d ;; poll_limited k fds d' else ret r
  end.

Definition do_poll (fds : list (Z * Z)) (timeout : Z) : M (Z * Z * list Z) :=
  fuel <- script_fuel ;;
  if timeout <=? 0 then poll_unlimited fuel fds timeout
  else d <- dl_new timeout ;; poll_limited fuel fds d.

(* Wait(fd, events, timeout): true = ready, false = time-out exceeded *)
Definition wait_fd (fd events timeout : Z) : M bool :=
  r <- do_poll [(fd, events)] timeout ;;
  let '(ret_, err, _) := r in
  if ret_ <? 0 then throw (SysErr err) else ret (negb (ret_ =? 0)).

Definition wait_readable (fd timeout : Z) : M bool := wait_fd fd POLLIN timeout.
Definition wait_writable (fd timeout : Z) : M bool := wait_fd fd POLLOUT timeout.

(* Wait(std::vector<pollfd>&, timeout): returns the revents when something is ready *)
Definition wait_fds (fds : list (Z * Z)) (timeout : Z) : M (option (list Z)) :=
  r <- do_poll fds timeout ;;
  let '(ret_, err, rev) := r in
  if ret_ <? 0 then throw (SysErr err) else
  if ret_ =? 0 then ret None else ret (Some rev).

End WithExt.
