(* Properties_C05.v — the driver always yields and always wakes: no deadlock, no lost wake-up, bounded yield.
   For ANY number of concurrent management calls and Stop() calls and EVERY interleaving at the granularity of lock
   operations and system calls (SyncModel). Real executions are tied to the model by AcceptSync: the sched harness runs the
   library under a deterministic scheduler and every observed synchronisation event must be an enabled model transition. *)
From SP Require Import SyncModel SyncLemmas AcceptSync AcceptLemmas.

(* while some management call is unfinished, the driver or a call can move — even with unlimited time-out and no traffic
   (ev = false), whether or not Run() is in progress: no interleaving deadlocks, no wake-up is lost *)
Theorem no_deadlock : forall n m s, reach n m s -> cnt unfinished (us s) >= 1 ->
  exists t s', (t = Drv \/ exists i, t = Usr i) /\ step false false s t = Some s'.
Proof. exact SyncLemmas.no_deadlock. Qed.

(* after a call owns pauseMtx the driver completes at most ONE further step before the call gets stepMtx *)
Theorem bounded_yield : forall n m s, reach n m s -> cnt is_hpws (us s) >= 1 -> since s <= 1.
Proof. exact SyncLemmas.bounded_yield. Qed.

(* the wake-up of a waiting call is in the pipe unless the driver has already passed its poll *)
Theorem wakeup_not_lost : forall n m s, reach n m s -> cnt is_ws (us s) >= 1 -> pipe s >= 1 \/ d s = D2 \/ d s = D3.
Proof. intros n m s R. destruct (inv_reach _ _ _ R) as (_ & _ & I3 & _). exact I3. Qed.

(* every execution the harness accepts is a run of the model (so the above holds along it) *)
Theorem accepted_trace_is_model_run : forall nthreads nusers nstops evs a why idx,
  replay {| a_st := init nusers nstops; a_thr := repeat thr0 nthreads; a_nuser := 0; a_nstop := 0 |} evs 0 = (why, idx, a) ->
  reach nusers nstops (a_st a).
Proof. exact AcceptLemmas.accepted_trace_is_model_run. Qed.

(* non-vacuity: a contended call (try-lock fails, hand-over through pauseMtx and the pipe) completes *)
Example c05_nonvacuous :
  let run := fold_left (fun s t => match s with Some x => step false true x t | None => None end) in
  match run [Drv; Drv; Drv; Usr 0; Usr 0; Usr 0; Drv; Drv; Usr 0; Usr 0; Usr 0; Drv; Drv] (Some (init 1 0)) with
  | Some s => us s = [Udone] /\ d s = Dchk /\ pipe s = 0
  | None => False
  end.
Proof. vm_compute. repeat split; reflexivity. Qed.

Print Assumptions no_deadlock.
Print Assumptions bounded_yield.
Print Assumptions wakeup_not_lost.
Print Assumptions accepted_trace_is_model_run.
