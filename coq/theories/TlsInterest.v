(* TlsInterest.v — the glue never forgets what the engine is waiting for: when a driver-side Receive / DriverPending makes no
   progress during the handshake, lastError still says WANT_READ or WANT_WRITE, so that DriverQuery keeps (or suppresses) the
   write poll accordingly. (Losing it stalls the handshake for ever: seeded change C18/a, finding F9.) *)
From SP Require Import Base ListAux Os OsLemmas WaitModel WaitLemmas SocketModel Objects DriverModel TlsModel TlsLemmas.
Local Open Scope Z_scope.
Local Notation os := (os ext).

Definition last_of (s : os) (k : Z) : option Z := option_map t_last (aget k (x_tls (o_ext s))).
Definition wants (e : Z) : Prop := e = E_WANT_READ \/ e = E_WANT_WRITE.

(* operations that leave lastError of socket k alone *)
Definition keeps_last {A} (k : Z) (m : MX A) : Prop := forall (s : os) r s', m s = (r, s') -> last_of s' k = last_of s k.

Lemma kl_bind {A B} k (m : MX A) (f : A -> MX B) : keeps_last k m -> (forall a, keeps_last k (f a)) -> keeps_last k (bind m f).
Proof.
  intros Hm Hf s r s' H. apply bind_inv in H. destruct H as [[a [s1 [H1 H2]]]|[r0 [H1 _]]].
  - rewrite (Hf a _ _ _ H2). apply (Hm _ _ _ H1).
  - apply (Hm _ _ _ H1).
Qed.
Lemma kl_ret {A} k (a : A) : keeps_last k (ret a).
Proof. intros s r s' H. inversion H. reflexivity. Qed.
Lemma kl_throw {A} k e : keeps_last k (throw (X:=ext) (A:=A) e).
Proof. intros s r s' H. inversion H. reflexivity. Qed.
Lemma kl_stuck {A} k u : keeps_last k (stuck (X:=ext) (A:=A) u).
Proof. intros s r s' H. inversion H. reflexivity. Qed.
Lemma kl_get_tls k j : keeps_last k (get_tls j).
Proof.
  intros s r s' H. unfold get_tls, bind, get_ext in H. destruct (aget j (x_tls (o_ext s))); inversion H; reflexivity.
Qed.
Lemma get_tls_ok k (s : os) t s1 : get_tls k s = (Ok t, s1) -> s1 = s /\ aget k (x_tls (o_ext s)) = Some t.
Proof.
  unfold get_tls, bind, get_ext. intros H. destruct (aget k (x_tls (o_ext s))) as [t0|] eqn:E; inversion H; subst. split; reflexivity.
Qed.
Lemma kl_get_sock k j : keeps_last k (get_sock j).
Proof.
  intros s r s' H. unfold get_sock, bind, get_ext in H. destruct (aget j (x_socks (o_ext s))); inversion H; reflexivity.
Qed.

Lemma aget_aset_same' {V} k (v : V) l : aget k (aset k v l) = Some v.
Proof.
  induction l as [|[k' v'] t IH]; cbn; [now rewrite Z.eqb_refl|].
  destruct (k' =? k) eqn:E; cbn; [now rewrite Z.eqb_refl|now rewrite E].
Qed.
Lemma aget_aset_other' {V} k k2 (v : V) l : k2 <> k -> aget k2 (aset k v l) = aget k2 l.
Proof.
  intros Hne. induction l as [|[k' v'] t IH]; cbn.
  - assert (E : (k =? k2) = false) by (apply Z.eqb_neq; congruence). now rewrite E.
  - destruct (k' =? k) eqn:E; cbn.
    + apply Z.eqb_eq in E. subst k'. assert (E2 : (k =? k2) = false) by (apply Z.eqb_neq; congruence). now rewrite E2.
    + destruct (k' =? k2); [reflexivity|exact IH].
Qed.

(* an update of the TLS record of socket j by a function that does not touch t_last *)
Lemma kl_upd_tls k j f : (forall t, t_last (f t) = t_last t) -> keeps_last k (upd_tls j f).
Proof.
  intros Hf s r s' H. unfold upd_tls, bind, get_tls, bind, get_ext, put_tls, bind, get_ext, put_ext in H.
  destruct (aget j (x_tls (o_ext s))) as [t|] eqn:E; inversion H; subst; [|reflexivity].
  unfold last_of. cbn. destruct (Z.eq_dec k j) as [->|Hne].
  - rewrite aget_aset_same', E. cbn. now rewrite Hf.
  - now rewrite aget_aset_other'.
Qed.

Lemma kl_frame {A} k (m : MX A) : (forall (s : os) r s', m s = (r, s') -> o_ext s' = o_ext s) -> keeps_last k m.
Proof. intros H s r s' E. unfold last_of. now rewrite (H _ _ _ E). Qed.

Lemma wait_fd_ext fd ev T (s : os) r s' : wait_fd fd ev T s = (r, s') -> o_ext s' = o_ext s.
Proof. intros H. destruct (wait_fd_spec _ _ _ _ _ _ H) as [new W]. destruct W as [[_ [Hx _] _] _ _ _ _ _ _ _ _ _ _ _ _]. exact Hx. Qed.

Lemma sys_now_ext (s : os) r s' : sys_now s = (r, s') -> o_ext s' = o_ext s.
Proof. intros H. apply sys_now_inv in H. destruct H as [[dt [sc [_ [_ ->]]]]|[_ ->]]; reflexivity. Qed.

Lemma kl_dl_new k t : keeps_last k (dl_new (X:=ext) t).
Proof. unfold dl_new. apply kl_bind; [apply kl_frame; exact sys_now_ext|]. intros a. apply kl_ret. Qed.
Lemma kl_dl_tick k d : keeps_last k (dl_tick (X:=ext) d).
Proof. unfold dl_tick. apply kl_bind; [apply kl_frame; exact sys_now_ext|]. intros a. apply kl_ret. Qed.

Lemma kl_under_deadline {A} k j (fn : Z -> MX A) : (forall t, keeps_last k (fn t)) -> keeps_last k (under_deadline j fn).
Proof.
  intros Hf. unfold under_deadline. apply kl_bind; [apply kl_get_tls|]. intros t.
  destruct (t_rem t <=? 0); [apply Hf|].
  apply kl_bind; [apply kl_dl_new|]. intros d. apply kl_bind; [apply Hf|]. intros r.
  apply kl_bind; [apply kl_dl_tick|]. intros d'.
  apply kl_bind; [apply kl_upd_tls; intros t0; reflexivity|]. intros _. apply kl_ret.
Qed.

Lemma kl_handle_error k j err : keeps_last k (handle_error j err).
Proof.
  unfold handle_error. apply kl_bind; [apply kl_get_sock|]. intros sk.
  destruct (err =? E_NONE); [apply kl_ret|].
  destruct (err =? E_WANT_READ); [apply kl_under_deadline; intros t; apply kl_frame; intros s r s'; apply wait_fd_ext|].
  destruct (err =? E_WANT_WRITE); [apply kl_under_deadline; intros t; apply kl_frame; intros s r s'; apply wait_fd_ext|].
  destruct (err =? E_SSL); [apply kl_throw|]. destruct (err =? E_SYSCALL); [apply kl_throw|].
  destruct (err =? E_ZERO_RETURN); [apply kl_throw|apply kl_stuck].
Qed.

(* the wait can only say "not yet" for the two waiting states *)
Lemma handle_error_false k err (s : os) s' : handle_error k err s = (Ok false, s') -> wants err.
Proof.
  unfold handle_error. intros H. apply bind_inv in H. destruct H as [[sk [s1 [_ H]]]|[r0 [_ [_ Hr]]]]; [|exfalso; exact (recast_not_ok _ _ Hr)].
  destruct (err =? E_NONE) eqn:E0; [inversion H|].
  destruct (err =? E_WANT_READ) eqn:E1; [apply Z.eqb_eq in E1; left; exact E1|].
  destruct (err =? E_WANT_WRITE) eqn:E2; [apply Z.eqb_eq in E2; right; exact E2|].
  destruct (err =? E_SSL); [inversion H|]. destruct (err =? E_SYSCALL); [inversion H|].
  destruct (err =? E_ZERO_RETURN); inversion H.
Qed.

Lemma handle_last_error_false k (s : os) s' : handle_last_error k s = (Ok false, s') ->
  exists e, last_of s' k = Some e /\ wants e.
Proof.
  unfold handle_last_error. intros H.
  apply bind_inv in H. destruct H as [[t [s1 [Hg H]]]|[r0 [_ [_ Hr]]]]; [|exfalso; exact (recast_not_ok _ _ Hr)].
  apply bind_inv in H. destruct H as [[ok [s2 [He H]]]|[r0 [_ [_ Hr]]]]; [|exfalso; exact (recast_not_ok _ _ Hr)].
  destruct ok.
  - apply bind_inv in H. destruct H as [[[] [s3 [_ H]]]|[r0 [_ [_ Hr]]]]; [inversion H|exfalso; exact (recast_not_ok _ _ Hr)].
  - inversion H; subst s2. exists (t_last t). split; [|exact (handle_error_false _ _ _ _ He)].
    rewrite (kl_handle_error k k _ _ _ _ He).
    destruct (get_tls_ok _ _ _ _ Hg) as [-> Hk]. unfold last_of. rewrite Hk. reflexivity.
Qed.

Lemma handle_result_false k err (s : os) s' : handle_result k err s = (Ok false, s') ->
  exists e, last_of s' k = Some e /\ wants e.
Proof.
  unfold handle_result. intros H.
  apply bind_inv in H. destruct H as [[[] [s1 [_ H]]]|[r0 [_ [_ Hr]]]]; [|exfalso; exact (recast_not_ok _ _ Hr)].
  exact (handle_last_error_false _ _ _ H).
Qed.

(* Read gives up (0) only while the engine waits for the wire *)
Lemma read_loop_zero fuel k size : forall (s : os) s',
  read_loop fuel k size s = (Ok 0, s') -> (0 < fuel)%nat -> exists e, last_of s' k = Some e /\ wants e.
Proof.
  induction fuel as [|f IH]; intros s s' H Hf; [lia|]. cbn [read_loop] in H.
  apply bind_inv in H. destruct H as [[[res err] [s1 [_ H]]]|[r0 [_ [_ Hr]]]]; [|exfalso; exact (recast_not_ok _ _ Hr)].
  destruct (0 <? res) eqn:E; [inversion H; subst; apply Z.ltb_lt in E; lia|].
  apply bind_inv in H. destruct H as [[ok [s2 [Hh H]]]|[r0 [_ [_ Hr]]]]; [|exfalso; exact (recast_not_ok _ _ Hr)].
  destruct ok; cbn [negb] in H.
  - destruct f; [inversion H|]. apply (IH _ _ H). lia.
  - inversion H; subst. exact (handle_result_false _ _ _ _ Hh).
Qed.

Lemma tls_read_zero k size (s : os) s' : tls_read k size s = (Ok 0, s') -> exists e, last_of s' k = Some e /\ wants e.
Proof.
  unfold tls_read. intros H.
  apply bind_inv in H. destruct H as [[ok [s1 [Hl H]]]|[r0 [_ [_ Hr]]]]; [|exfalso; exact (recast_not_ok _ _ Hr)].
  destruct ok.
  - apply (read_loop_zero _ _ _ _ _ H). unfold STEPS_MAX. lia.
  - inversion H; subst. exact (handle_last_error_false _ _ _ Hl).
Qed.

(* the driver's Receive during the handshake: no progress => the glue still knows what the engine waits for *)
Theorem receive_now_keeps_the_interest : forall k size (s : os) s',
  tls_receive_now k size s = (Ok 0, s') ->
  (exists t, aget k (x_tls (o_ext s')) = Some t /\ t_init t = false) ->
  exists e, last_of s' k = Some e /\ wants e.
Proof.
  intros k size s s' H [t' [Ht' Hinit]]. unfold tls_receive_now in H.
  apply bind_inv in H. destruct H as [[[] [s1 [_ H]]]|[r0 [_ [_ Hr]]]]; [|exfalso; exact (recast_not_ok _ _ Hr)].
  apply bind_inv in H. destruct H as [[n [s2 [Hr H]]]|[r0 [_ [_ Hx]]]]; [|exfalso; exact (recast_not_ok _ _ Hx)].
  apply bind_inv in H. destruct H as [[t [s3 [Hg H]]]|[r0 [_ [_ Hx]]]]; [|exfalso; exact (recast_not_ok _ _ Hx)].
  apply bind_inv in H. destruct H as [[[] [s4 [Hu H]]]|[r0 [_ [_ Hx]]]]; [|exfalso; exact (recast_not_ok _ _ Hx)].
  inversion H; subst n s4. clear H.
  destruct (tls_read_zero _ _ _ _ Hr) as [e [He Hw]].
  destruct (get_tls_ok _ _ _ _ Hg) as [-> Ht].
  rewrite Z.eqb_refl in Hu. cbn [andb] in Hu.
  destruct (t_init t) eqn:Ei.
  - (* the record of s' would have init = true: excluded *)
    unfold put_tls, bind, get_ext, put_ext in Hu. inversion Hu; subst s'. cbn in Ht'. rewrite aget_aset_same' in Ht'. inversion Ht'; subst t'.
    cbn in Hinit. congruence.
  - inversion Hu; subst s'. exists e. split; assumption.
Qed.

(* Write stops short only while the engine waits for the wire *)
Lemma write_loop_short fuel k : forall hs remaining (s : os) r s',
  write_loop fuel hs k remaining s = (Ok r, s') -> r <> 0 -> exists e, last_of s' k = Some e /\ wants e.
Proof.
  induction fuel as [|f IH]; intros hs remaining s r s' H Hr; cbn [write_loop] in H; [inversion H|].
  destruct (remaining =? 0) eqn:E0; [inversion H; subst; apply Z.eqb_eq in E0; lia|].
  apply bind_inv in H. destruct H as [[t [s1 [_ H]]]|[r0 [_ [_ Hx]]]]; [|exfalso; exact (recast_not_ok _ _ Hx)].
  destruct (negb _); [inversion H|].
  apply bind_inv in H. destruct H as [[[res err] [s2 [_ H]]]|[r0 [_ [_ Hx]]]]; [|exfalso; exact (recast_not_ok _ _ Hx)].
  destruct (res <=? 0).
  - apply bind_inv in H. destruct H as [[[] [s3 [_ H]]]|[r0 [_ [_ Hx]]]]; [|exfalso; exact (recast_not_ok _ _ Hx)].
    apply bind_inv in H. destruct H as [[ok [s4 [Hh H]]]|[r0 [_ [_ Hx]]]]; [|exfalso; exact (recast_not_ok _ _ Hx)].
    destruct ok; cbn [negb] in H.
    + destruct hs; [inversion H|]. apply (IH _ _ _ _ _ H Hr).
    + inversion H; subst. exact (handle_result_false _ _ _ _ Hh).
  - apply bind_inv in H. destruct H as [[[] [s3 [_ H]]]|[r0 [_ [_ Hx]]]]; [|exfalso; exact (recast_not_ok _ _ Hx)].
    destruct (remaining <? res); [inversion H|]. apply (IH _ _ _ _ _ H Hr).
Qed.

Theorem send_some_keeps_the_interest : forall k size (s : os) n s',
  tls_send_some k size s = (Ok n, s') -> n <> size -> exists e, last_of s' k = Some e /\ wants e.
Proof.
  intros k size s n s' H Hn. unfold tls_send_some in H.
  apply bind_inv in H. destruct H as [[[] [s1 [_ H]]]|[r0 [_ [_ Hx]]]]; [|exfalso; exact (recast_not_ok _ _ Hx)].
  unfold tls_write in H.
  apply bind_inv in H. destruct H as [[ok [s2 [Hl H]]]|[r0 [_ [_ Hx]]]]; [|exfalso; exact (recast_not_ok _ _ Hx)].
  destruct ok.
  - apply bind_inv in H. destruct H as [[x [s2' [_ H]]]|[r0 [_ [_ Hx]]]]; [|exfalso; exact (recast_not_ok _ _ Hx)].
    apply bind_inv in H. destruct H as [[rem [s3 [Hw H]]]|[r0 [_ [_ Hx]]]]; [|exfalso; exact (recast_not_ok _ _ Hx)].
    inversion H; subst. apply (write_loop_short _ _ _ _ _ _ _ Hw). lia.
  - inversion H; subst. exact (handle_last_error_false _ _ _ Hl).
Qed.

(* DriverPending: either the handshake call succeeded last, or the glue knows what the engine waits for *)
Lemma handshake_loop_end fuel k : forall (s : os) s',
  handshake_loop fuel k s = (Ok tt, s') -> (0 < fuel)%nat ->
  (exists e, last_of s' k = Some e /\ wants e) \/ (exists s0 res err, engine k 4 0 s0 = (Ok (res, err), s') /\ 0 < res).
Proof.
  induction fuel as [|f IH]; intros s s' H Hf; [lia|]. cbn [handshake_loop] in H.
  apply bind_inv in H. destruct H as [[[res err] [s1 [He H]]]|[r0 [_ [_ Hx]]]]; [|exfalso; exact (recast_not_ok _ _ Hx)].
  cbn [fst snd] in H.
  destruct (0 <? res) eqn:E.
  - inversion H; subst. right. exists s, res, err. split; [exact He|apply Z.ltb_lt in E; exact E].
  - apply bind_inv in H. destruct H as [[ok [s2 [Hh H]]]|[r0 [_ [_ Hx]]]]; [|exfalso; exact (recast_not_ok _ _ Hx)].
    destruct ok; cbn [negb] in H.
    + destruct f; [inversion H|]. apply (IH _ _ H). lia.
    + inversion H; subst. left. exact (handle_result_false _ _ _ _ Hh).
Qed.

Theorem pending_keeps_the_interest : forall k (s : os) s' t,
  aget k (x_tls (o_ext s)) = Some t -> t_init t = false ->
  tls_pending k s = (Ok tt, s') ->
  (exists e, last_of s' k = Some e /\ wants e) \/ (exists s0 res err, engine k 4 0 s0 = (Ok (res, err), s') /\ 0 < res).
Proof.
  intros k s s' t Ht Hi H. unfold tls_pending in H.
  apply bind_inv in H. destruct H as [[t0 [s1 [Hg H]]]|[r0 [_ [_ Hx]]]]; [|exfalso; exact (recast_not_ok _ _ Hx)].
  destruct (get_tls_ok _ _ _ _ Hg) as [-> Ht0]. rewrite Ht in Ht0. inversion Ht0; subst t0. rewrite Hi in H.
  apply bind_inv in H. destruct H as [[[] [s2 [_ H]]]|[r0 [_ [_ Hx]]]]; [|exfalso; exact (recast_not_ok _ _ Hx)].
  apply bind_inv in H. destruct H as [[ok [s3 [Hl H]]]|[r0 [_ [_ Hx]]]]; [|exfalso; exact (recast_not_ok _ _ Hx)].
  destruct ok.
  - apply (handshake_loop_end _ _ _ _ H). unfold STEPS_MAX. lia.
  - inversion H; subst. left. exact (handle_last_error_false _ _ _ Hl).
Qed.

(* and what DriverQuery does with that knowledge: WANT_WRITE => POLLOUT is requested; WANT_READ => the read poll (which the
   driver always requests) is what the handshake waits for *)
Theorem known_interest_is_polled : forall t events e,
  t_init t = false -> t_last t = e -> wants e ->
  (e = E_WANT_WRITE -> has_bit (snd (tls_query t events)) POLLOUT = true) /\
  (e = E_WANT_READ -> has_bit (snd (tls_query t events)) POLLOUT = false).
Proof.
  intros t events e Hi Hl Hw. unfold tls_query. rewrite Hi. cbn [negb]. rewrite Hl. split; intros ->.
  - cbn [Z.eqb E_WANT_WRITE Pos.eqb orb snd]. apply has_bit_lor_self. unfold POLLOUT. lia.
  - cbn [Z.eqb E_WANT_READ E_WANT_WRITE E_NONE Pos.eqb orb andb snd]. apply has_bit_clear.
Qed.
