(* Properties_C15.v — peer failure at any point is reported, never fatal (plain TCP; the TLS layer is C18).
   The kernel's side of a dead connection is what the oracle script says: poll() reports the descriptor ready
   (POLLERR / POLLHUP / whatever — Wait ignores which bits), send() fails with EPIPE / ECONNRESET, recv() fails or
   returns 0. The theorems hold for every size, every continuation of the script, every errno. *)
From SP Require Import Base ListAux Os OsLemmas WaitModel WaitLemmas SocketModel SocketLemmas DriverLemmas
  Properties_C01 Properties_C02 Properties_C03.
Local Open Scope Z_scope.

Section C15.
Context {X : Type}.
Local Notation os := (os X).

(* Send with unlimited time-out on a dead connection: ONE poll, ONE send, then std::system_error with the errno of
   that send — it neither blocks nor retries, whatever the size *)
Theorem unlimited_send_on_dead_peer_throws : forall fd size n dt rev e sc (s : os),
  0 < n -> o_script s = EvPoll n 0 dt rev :: EvSend (-1) e :: sc ->
  exists s', sock_send fd size (-1) s = (Exn (SysErr e), s') /\ o_script s' = sc /\
             o_trace s' = (K_SEND, [fd; size; MSG_NOSIGNAL; -1]) :: (K_POLL, [-1; n; dt; fd; POLLOUT]) :: o_trace s.
Proof.
  intros fd size n dt rev e sc s Hn Hs.
  unfold sock_send. cbn [Z.ltb Z.compare]. unfold send_all, script_fuel, bind. rewrite Hs. cbn [length send_all_loop].
  unfold wait_writable, wait_fd, do_poll, script_fuel, bind. rewrite Hs. cbn [length poll_unlimited Z.leb Z.compare].
  unfold sys_poll, bind. rewrite Hs. cbn.
  assert (H1 : (n <? 0) = false) by (apply Z.ltb_ge; lia). rewrite H1. cbn. rewrite H1. cbn.
  eexists. split; [reflexivity|]. cbn. split; reflexivity.
Qed.

(* the same for a non-blocking Send (time-out 0) *)
Theorem try_send_on_dead_peer_throws : forall fd size n dt rev e sc (s : os),
  0 < n -> o_script s = EvPoll n 0 dt rev :: EvSend (-1) e :: sc ->
  exists s', sock_send fd size 0 s = (Exn (SysErr e), s') /\ o_script s' = sc.
Proof.
  intros fd size n dt rev e sc s Hn Hs.
  unfold sock_send. cbn [Z.ltb Z.eqb Z.compare]. unfold send_try, bind.
  unfold wait_writable, wait_fd, do_poll, script_fuel, bind. rewrite Hs. cbn [length poll_unlimited Z.leb Z.compare].
  unfold sys_poll, bind. rewrite Hs. cbn.
  assert (H1 : (n <? 0) = false) by (apply Z.ltb_ge; lia). rewrite H1. cbn. rewrite H1. cbn.
  assert (H2 : (n =? 0) = false) by (apply Z.eqb_neq; lia). rewrite H2. cbn.
  eexists. split; reflexivity.
Qed.

Lemma dl_remaining_fresh now T : 0 < T -> dl_remaining {| d_now := now; d_deadline := now + T * NS_PER_MS |} = T.
Proof.
  intros HT. unfold dl_remaining. cbn [d_now d_deadline].
  replace (now + T * NS_PER_MS - now) with (T * NS_PER_MS) by lia.
  rewrite Z.quot_mul by (unfold NS_PER_MS; lia).
  assert (H : (T <? 0) = false) by (apply Z.ltb_ge; lia). now rewrite H.
Qed.

(* Send with a limited time-out on a dead connection: two clock readings, one poll, one clock reading, one send, then the
   errno of that send is thrown — whatever the size and the time-out *)
Theorem limited_send_on_dead_peer_throws : forall fd size T n a b c dt rev e sc (s : os),
  0 < T <= INT_MAX -> 0 < n ->
  o_script s = EvNow a :: EvNow b :: EvPoll n 0 dt rev :: EvNow c :: EvSend (-1) e :: sc ->
  exists s', sock_send fd size T s = (Exn (SysErr e), s') /\ o_script s' = sc.
Proof.
  intros fd size T n a b c dt rev e sc s [HT HTm] Hn Hs.
  unfold sock_send.
  assert (H1 : (T <? 0) = false) by (apply Z.ltb_ge; lia). rewrite H1.
  assert (H2 : (T =? 0) = false) by (apply Z.eqb_neq; lia). rewrite H2.
  unfold bind at 1. unfold dl_new, bind, sys_now. rewrite Hs. cbn [emit set_script].
  cbv beta iota zeta. cbn [ret].
  unfold send_some, bind, script_fuel. cbn [o_script set_script length].
  cbn [send_some_loop]. unfold bind at 1.
  unfold wait_writable, wait_fd, bind at 1.
  rewrite dl_remaining_fresh by assumption.
  unfold do_poll, bind, script_fuel. cbn [o_script length].
  assert (H3 : (T <=? 0) = false) by (apply Z.leb_gt; lia). rewrite H3.
  unfold dl_new, bind, sys_now. cbn [o_script emit set_script o_now]. cbv beta iota zeta. cbn [ret].
  cbn [poll_limited]. unfold bind, sys_poll. cbn [o_script emit set_script o_now]. cbv beta iota zeta.
  rewrite dl_remaining_fresh by assumption.
  unfold interrupted.
  assert (H4 : (n <? 0) = false) by (apply Z.ltb_ge; lia). rewrite H4. cbn [andb ret].
  rewrite H4.
  assert (H5 : (n =? 0) = false) by (apply Z.eqb_neq; lia). rewrite H5. cbn [negb].
  unfold dl_tick, bind, sys_now. cbn [o_script emit set_script o_now]. cbv beta iota zeta. cbn [ret].
  unfold send_now, bind, sys_send. cbn [o_script emit set_script o_now]. cbv beta iota zeta.
  cbn. eexists. split; reflexivity.
Qed.

(* Receive on a reset connection (unlimited or zero time-out): the errno of recv() is thrown *)
Theorem receive_on_reset_throws : forall fd size T n dt rev e sc (s : os),
  T <= 0 -> 0 < n -> o_script s = EvPoll n 0 dt rev :: EvRecv (-1) e :: sc ->
  exists s', receive fd size T s = (Exn (SysErr e), s') /\ o_script s' = sc.
Proof.
  intros fd size T n dt rev e sc s HT Hn Hs.
  unfold receive, bind, wait_readable, wait_fd, do_poll, script_fuel, bind. rewrite Hs.
  assert (HT' : (T <=? 0) = true) by (apply Z.leb_le; lia). rewrite HT'. cbn [length poll_unlimited].
  unfold sys_poll, bind. rewrite Hs. cbn.
  assert (H1 : (n <? 0) = false) by (apply Z.ltb_ge; lia). rewrite H1. cbn. rewrite H1. cbn.
  assert (H2 : (n =? 0) = false) by (apply Z.eqb_neq; lia). rewrite H2. cbn.
  eexists. split; reflexivity.
Qed.

(* Receive after an orderly close, once every byte was delivered: recv() returns 0, reported as "connection closed" *)
Theorem receive_after_close_throws_closed : forall fd size T n dt rev err sc (s : os),
  T <= 0 -> 0 < n -> o_script s = EvPoll n 0 dt rev :: EvRecv 0 err :: sc ->
  exists s', receive fd size T s = (Exn ConnClosed, s') /\ o_script s' = sc.
Proof.
  intros fd size T n dt rev err sc s HT Hn Hs.
  unfold receive, bind, wait_readable, wait_fd, do_poll, script_fuel, bind. rewrite Hs.
  assert (HT' : (T <=? 0) = true) by (apply Z.leb_le; lia). rewrite HT'. cbn [length poll_unlimited].
  unfold sys_poll, bind. rewrite Hs. cbn.
  assert (H1 : (n <? 0) = false) by (apply Z.ltb_ge; lia). rewrite H1. cbn. rewrite H1. cbn.
  assert (H2 : (n =? 0) = false) by (apply Z.eqb_neq; lia). rewrite H2. cbn.
  eexists. split; reflexivity.
Qed.

(* what was delivered before the report is what recv() returned, 1..size bytes each time, and a failing Send leaves
   an exact prefix on the wire (C01/C03): restated here because C15 relies on them *)
Theorem delivered_is_what_recv_returned : forall fd size (s : os) r s',
  receive_now fd size s = (r, s') ->
  match r with
  | Ok n => exists ret_ err sc, o_script s = EvRecv ret_ err :: sc /\ n = ret_ /\ 1 <= n <= size
  | Exn e => exists ret_ err sc, o_script s = EvRecv ret_ err :: sc /\ ret_ <= 0 /\ is_runtime_error e = true
  | _ => True
  end.
Proof. intros fd size. exact (receive_delivers_what_recv_returned fd size). Qed.

Theorem failing_send_leaves_a_prefix : forall fd size T (s : os) e s',
  0 <= size -> sock_send fd size T s = (Exn e, s') ->
  exists new, steps s s' new /\ acct size (sends_of fd new) /\ 0 <= accepted (sends_of fd new) <= size.
Proof. exact send_prefix_on_failure. Qed.

(* SIGPIPE protection: every send() the library issues carries MSG_NOSIGNAL *)
Theorem every_send_uses_nosignal : forall fd len (s : os) r s' new,
  send_now fd len s = (r, s') -> steps s s' new ->
  forall e, In e new -> fst e = K_SEND -> nthZ (snd e) 2 = MSG_NOSIGNAL.
Proof. intros fd len. exact (sends_use_nosignal fd len). Qed.

End C15.

(* driver: pending data is handed to the receive handler BEFORE the disconnect is reported (POLLIN wins over
   POLLHUP/POLLERR), and a hang-up without data goes to the disconnect path *)
Theorem data_before_disconnect : forall rv,
  (has_bit rv POLLIN = true -> classify rv = Some ARead) /\
  (has_bit rv POLLIN = false -> has_bit rv POLLOUT = false -> has_bit rv (Z.lor POLLHUP POLLERR) = true -> classify rv = Some AError).
Proof.
  intros rv. split.
  - intros H. unfold classify. now rewrite H.
  - intros H1 H2 H3. unfold classify. now rewrite H1, H2, H3.
Qed.

(* non-vacuity: concrete dead-peer scripts *)
Example dead_peer_unlimited :
  fst (sock_send 1000 5000 (-1) (os_init tt [EvPoll 1 0 0 [POLLERR]; EvSend (-1) EPIPE] [])) = Exn (SysErr EPIPE).
Proof. reflexivity. Qed.

Print Assumptions unlimited_send_on_dead_peer_throws.
Print Assumptions try_send_on_dead_peer_throws.
Print Assumptions limited_send_on_dead_peer_throws.
Print Assumptions receive_on_reset_throws.
Print Assumptions receive_after_close_throws_closed.
Print Assumptions delivered_is_what_recv_returned.
Print Assumptions failing_send_leaves_a_prefix.
Print Assumptions every_send_uses_nosignal.
Print Assumptions data_before_disconnect.
