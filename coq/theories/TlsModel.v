(* TlsModel.v — the TLS glue of src/socket_tls_impl.cpp over a SCRIPTED TLS engine.
   OpenSSL itself is not modelled: like the operating system it is an oracle. Each call of SSL_read / SSL_write_ex /
   SSL_shutdown consumes one engine event of the case
       (8, [call; nbio; kind_1; size_1; ...; kind_n; size_n; res; err; init])
   and behaves as the event says: it performs the listed BIO calls in order (kind 1 = BIO read of up to size bytes,
   kind 2 = BIO write of size bytes) THROUGH THE GLUE'S OWN BIO CALLBACKS (BioRead / BioWrite below, which do the real
   system calls with the glue's time-out bookkeeping); a BIO read that yields nothing ends the call with
   SSL_ERROR_WANT_READ, an incomplete BIO write with SSL_ERROR_WANT_WRITE (that is what the retry flags set by
   bio::Read / bio::Write make OpenSSL do); otherwise the call returns res (for SSL_write_ex: res > 0 = bytes written)
   with SSL_get_error = err, and SSL_is_init_finished becomes init. harness/fakessl.cpp implements exactly this engine
   for the C++ side. Executable; no proofs in this file. *)
From SP Require Export DriverModel.
Local Open Scope Z_scope.

Definition K_ENG := 40.    (* [call; size; res; err; init] — one entry per completed engine call *)
Definition K_BIO := 41.    (* [kind; size; result] *)
Definition K_ENGCALL := 42.  (* [call; size; socket] — the engine is entered (the harness logs the descriptor, the model the key) *)

Definition E_NONE := 0. Definition E_SSL := 1. Definition E_WANT_READ := 2. Definition E_WANT_WRITE := 3.
Definition E_SYSCALL := 5. Definition E_ZERO_RETURN := 6.
Definition EIO := 5.       (* the errno the scripted engine leaves behind for SSL_ERROR_SYSCALL *)

Definition tls0 : tlsst :=
  {| t_last := 0; t_isr := false; t_isw := false; t_supp := false; t_init := false; t_pend := -1; t_rem := 0;
     t_server := false; t_started := false; t_more := false; t_end := 0 |}.

Definition get_tls (k : Z) : MX tlsst :=
  x <- get_ext ;; match aget k (x_tls x) with Some t => ret t | None => bad 140 end.
Definition put_tls (k : Z) (t : tlsst) : MX unit :=
  x <- get_ext ;; put_ext (x <| x_tls := aset k t (x_tls x) |>).
Definition upd_tls (k : Z) (f : tlsst -> tlsst) : MX unit := t <- get_tls k ;; put_tls k (f t).
Definition is_tls (k : Z) : MX bool :=
  x <- get_ext ;; ret (match aget k (x_tls x) with Some _ => true | None => false end).

(* SetTimeout(timeout): a limited time-out fixes the deadline of the whole operation (one clock reading) *)
Definition tls_set_timeout (k timeout : Z) : MX unit :=
  upd_tls k (fun t => t <| t_rem := timeout |>) ;;;
  if 0 <? timeout then now <- sys_now ;; upd_tls k (fun t => t <| t_end := now + timeout * NS_PER_MS |>) else ret tt.

(* the DeadlineLimited of one step: built from the remaining time (a clock reading), but measured against the deadline of the
   whole operation — rounding the remaining time to milliseconds after each step then does not add up (finding F15) *)
Definition step_deadline (t : tlsst) (d : dl) : dl := {| d_now := d_now d; d_deadline := t_end t |}.

(* UnderDeadline(fn, timeout, until): the remaining time is updated only when it is limited; an exception leaves it alone *)
Definition under_deadline {A} (k : Z) (fn : Z -> MX A) : MX A :=
  t <- get_tls k ;;
  if t_rem t <=? 0 then fn (t_rem t)
  else d <- dl_new (t_rem t) ;;
       r <- fn (t_rem t) ;;
       d' <- dl_tick (step_deadline t d) ;;
       upd_tls k (fun t => t <| t_rem := dl_remaining d' |>) ;;;
       ret r.

(* SocketTlsImpl::BioRead *)
Definition bio_read (k size : Z) : MX Z :=
  s <- get_sock k ;; t <- get_tls k ;;
  if t_isr t then put_tls k (t <| t_isr := false |>) ;;; receive_now (s_fd s) size
  else r <- under_deadline k (fun tm => receive (s_fd s) size tm) ;;
       ret (match r with Some n => n | None => 0 end).

(* SocketTlsImpl::BioWrite *)
Definition bio_write (k size : Z) : MX Z :=
  s <- get_sock k ;; t <- get_tls k ;;
  if t_isw t then put_tls k (t <| t_isw := false |>) ;;; send_now (s_fd s) size
  else if t_rem t <? 0 then send_all (s_fd s) size
  else if t_rem t =? 0 then send_try (s_fd s) size
  else d <- dl_new (t_rem t) ;;
       r <- send_some (s_fd s) size (step_deadline t d) ;;
       let '(sent, d') := r in
       upd_tls k (fun t => t <| t_rem := if sent =? size then dl_remaining d' else 0 |>) ;;;
       ret sent.

(* ---- the scripted engine ------------------------------------------------------------------------------------------- *)
(* a BIO read step of [size] bytes repeats until the engine has the whole record (the kernel may deliver it in
   segments) or a read yields nothing; returns true when complete *)
Fixpoint bio_read_all (fuel : nat) (k size : Z) : MX bool :=
  match fuel with
  | O => bad 9
  | S f => r <- bio_read k size ;; emit K_BIO [1; size; r] ;;;
           if r =? 0 then ret false
           else if size <=? r then ret true
           else bio_read_all f k (size - r)
  end.

(* returns 0 when every listed BIO call went through, else the SSL error that ends the call *)
Fixpoint run_bios (k : Z) (n : nat) (args : list Z) : MX Z :=
  match n with
  | O => ret 0
  | S n' =>
      let kind := nthZ args 0 in let size := nthZ args 1 in let rest := skipn 2 args in
      if kind =? 1 then
        fuel <- script_fuel ;;
        ok <- bio_read_all fuel k size ;;
        if negb ok then ret E_WANT_READ else run_bios k n' rest
      else
        w <- bio_write k size ;; emit K_BIO [2; size; w] ;;;
        if negb (w =? size) then ret E_WANT_WRITE else run_bios k n' rest
  end.

(* call: 1 SSL_read(size) 2 SSL_write_ex(size) 3 SSL_shutdown 4 SSL_do_handshake; returns (res, SSL_get_error) *)
Definition engine (k call size : Z) : MX (Z * Z) :=
  emit K_ENGCALL [call; size; k] ;;;
  upd_tls k (fun t => t <| t_started := true |>) ;;;
  x <- get_ext ;;
  match x_eng x with
  | (8, call' :: nbio :: rest) :: tl =>
      if negb (call' =? call) then bad 8 else
      put_ext (x <| x_eng := tl |>) ;;;
      st <- run_bios k (Z.to_nat nbio) rest ;;
      let fin := skipn (2 * Z.to_nat nbio) rest in
      if negb (st =? 0) then emit K_ENG [call; size; -1; st; -1] ;;; ret (-1, st)
      else let res := nthZ fin 0 in let err := nthZ fin 1 in let init := nthZ fin 2 in let more := nthZ fin 3 in
           upd_tls k (fun t => t <| t_init := (init =? 1) |> <| t_more := (more =? 1) |>) ;;;
           emit K_ENG [call; size; res; err; init] ;;;
           ret (res, err)
  | _ => bad 8
  end.

Definition STEPS_MAX : nat := 10.

(* ---- error handling ----------------------------------------------------------------------------------------------- *)
Definition handle_error (k err : Z) : MX bool :=
  s <- get_sock k ;;
  if err =? E_NONE then ret true
  else if err =? E_WANT_READ then under_deadline k (fun tm => wait_readable (s_fd s) tm)
  else if err =? E_WANT_WRITE then under_deadline k (fun tm => wait_writable (s_fd s) tm)
  else if err =? E_SSL then throw (SysErr E_SSL)             (* std::system_error(SslError(error)) *)
  else if err =? E_SYSCALL then throw (SysErr EIO)           (* std::system_error(SocketError()) *)
  else if err =? E_ZERO_RETURN then throw (RuntimeErr 2)     (* std::runtime_error *)
  else stuck 45.                                             (* assert(false) *)

Definition handle_last_error (k : Z) : MX bool :=
  t <- get_tls k ;;
  ok <- handle_error k (t_last t) ;;
  if ok then upd_tls k (fun t => t <| t_last := E_NONE |>) ;;; ret true else ret false.

Definition handle_result (k err : Z) : MX bool :=
  upd_tls k (fun t => t <| t_last := err |>) ;;; handle_last_error k.

(* ---- Read / Write: loops over engine calls that may perform the handshake at any time ------------------------ *)
Fixpoint read_loop (fuel : nat) (k size : Z) : MX Z :=
  match fuel with
  | O => ret 0
  | S f => r <- engine k 1 size ;;
           let '(res, err) := r in
           if 0 <? res then ret res
           else ok <- handle_result k err ;;
                if negb ok then ret 0
                else match f with O => stuck 41 | _ => read_loop f k size end     (* assert(i < handshakeStepsMax) *)
  end.

Definition tls_read (k size : Z) : MX Z :=
  ok <- handle_last_error k ;; if ok then read_loop STEPS_MAX k size else ret 0.

(* returns what remains unsent. The C++ loop counts CONSECUTIVE engine calls without progress (handshakeStepsMax, reset to
   the start whenever a record went out: i = 0); [hs] is the number of such continuations still allowed. The loop itself is
   bounded by the data only, so the recursion is on [fuel] = the length of the engine script + 1: every round consumes one
   engine event, the fuel cannot run out before the script does (Bad 145 is unreachable, see write_loop_fuel_enough). *)
Fixpoint write_loop (fuel : nat) (hs : nat) (k remaining : Z) : MX Z :=
  match fuel with
  | O => bad 145
  | S f =>
      if remaining =? 0 then ret remaining else
      t <- get_tls k ;;
      (* assert(pendingSend.empty() || pendingSend == remaining): a failed TLS send must be retried with the same data *)
      if negb ((t_pend t =? -1) || (t_pend t =? remaining)) then stuck 40 else
      r <- engine k 2 remaining ;;
      let '(res, err) := r in
      if res <=? 0 then
        upd_tls k (fun t => t <| t_pend := remaining |>) ;;;
        ok <- handle_result k err ;;
        if negb ok then ret remaining
        else match hs with O => stuck 42 | S h => write_loop f h k remaining end     (* assert(i < handshakeStepsMax) *)
      else
        upd_tls k (fun t => t <| t_pend := -1 |>) ;;;
        if remaining <? res then stuck 43                        (* assert(written <= remaining.size()) *)
        else write_loop f (pred STEPS_MAX) k (remaining - res)
  end.

Definition tls_write (k size : Z) : MX Z :=
  ok <- handle_last_error k ;;
  if ok then x <- get_ext ;; rem <- write_loop (S (length (x_eng x))) (pred STEPS_MAX) k size ;; ret (size - rem) else ret 0.

(* ---- the SocketImpl interface ------------------------------------------------------------------------------------ *)
(* Receive(data, size, timeout) *)
Definition tls_receive (k size timeout : Z) : MX (option Z) :=
  tls_set_timeout k timeout ;;;
  n <- tls_read k size ;;
  if 0 <? n then ret (Some n)
  else if timeout <? 0 then stuck 44          (* assert(timeout.count() >= 0) *)
  else ret None.

(* Receive(data, size): the driver has deemed us readable *)
Definition tls_receive_now (k size : Z) : MX Z :=
  upd_tls k (fun t => t <| t_rem := 0 |> <| t_isr := true |>
                        <| t_last := if t_last t =? E_WANT_READ then E_NONE else t_last t |>) ;;;
  n <- tls_read k size ;;
  t <- get_tls k ;;
  (if (n =? 0) && t_init t then put_tls k (t <| t_last := E_NONE |>) else ret tt) ;;;
  ret n.

(* Send(data, size, timeout) *)
Definition tls_send (k size timeout : Z) : MX Z :=
  tls_set_timeout k timeout ;;; tls_write k size.

(* SendSome(data, size): the driver has deemed us writable *)
Definition tls_send_some (k size : Z) : MX Z :=
  upd_tls k (fun t => t <| t_rem := 0 |> <| t_isw := true |>
                        <| t_last := if t_last t =? E_WANT_WRITE then E_NONE else t_last t |>) ;;;
  tls_write k size.

(* DriverQuery(events) *)
Definition tls_query (t : tlsst) (events : Z) : tlsst * Z :=
  if negb (t_init t) then
    (* a pending handshake write — or a client whose handshake has not started: nobody else would write its first flight *)
    if (t_last t =? E_WANT_WRITE) || ((t_last t =? E_NONE) && negb (t_started t) && negb (t_server t))
    then (t, Z.lor events POLLOUT)
    else if t_last t =? E_WANT_READ then
      (t <| t_supp := t_supp t || has_bit events POLLOUT |>, Z.land events (Z.lnot POLLOUT))
    else (t, events)
  else if t_supp t then (t <| t_supp := false |>, Z.lor events POLLOUT)
  else (t, events).

(* DriverPending(): advance the handshake only (SSL_do_handshake, retried while the wait for its WANT_READ / WANT_WRITE
   succeeds at once); user data stays queued for the next Receive *)
Fixpoint handshake_loop (fuel : nat) (k : Z) : MX unit :=
  match fuel with
  | O => ret tt
  | S f => r <- engine k 4 0 ;;
           if 0 <? fst r then ret tt
           else ok <- handle_result k (snd r) ;;
                if negb ok then ret tt
                else match f with O => stuck 46 | _ => handshake_loop f k end     (* assert(i < handshakeStepsMax) *)
  end.

Definition tls_pending (k : Z) : MX unit :=
  t <- get_tls k ;;
  if t_init t then ret tt else
  put_tls k (t <| t_rem := 0 |> <| t_isw := true |> <| t_last := if t_last t =? E_WANT_WRITE then E_NONE else t_last t |>) ;;;
  ok <- handle_last_error k ;;
  if ok then handshake_loop STEPS_MAX k else ret tt.

(* Shutdown() *)
Fixpoint shutdown_loop (fuel : nat) (k : Z) : MX unit :=
  match fuel with
  | O => ret tt
  | S f => r <- engine k 1 1024 ;;
           let '(res, err) := r in
           if res <? 0 then ok <- handle_result k err ;; if ok then shutdown_loop f k else ret tt
           else if res =? 0 then ret tt
           else shutdown_loop f k
  end.

Definition tls_shutdown (k : Z) : MX unit :=
  upd_tls k (fun t => t <| t_isr := false |> <| t_isw := false |>) ;;;
  tls_set_timeout k 1000 ;;;
  r <- engine k 3 0 ;;
  if fst r <=? 0 then shutdown_loop STEPS_MAX k ;;; _ <- engine k 3 0 ;; ret tt else ret tt.

(* ~SocketTlsImpl: no clean shutdown after fatal errors; whatever Shutdown throws is swallowed *)
Definition tls_dtor (k : Z) : MX unit :=
  t <- get_tls k ;;
  (if (t_last t =? E_SYSCALL) || (t_last t =? E_SSL) then ret tt
   else catch (tls_shutdown k) (fun _ => ret tt)) ;;;
  x <- get_ext ;; put_ext (x <| x_tls := filter (fun kt => negb (fst kt =? k)) (x_tls x) |>).

(* ---- buffered variants over a TLS socket (SocketBufferedImpl is generic in the socket) ---------------------- *)
Definition tls_buffered_receive (k rxsize timeout : Z) : MX (option (Z * Z)) :=
  r <- with_buffer (fun x => owner_pool x (1000 + k)) (set_owner_pool (1000 + k)) rxsize (fun b => tls_receive k rxsize timeout) ;;
  match r with
  | Some (b, n) => presize (1000 + k) (b_id b) n ;;; ret (Some (b_id b, n))
  | None => ret None
  end.

Definition tls_buffered_receive_now (k rxsize : Z) : MX (Z * Z) :=
  r <- with_buffer (fun x => owner_pool x (1000 + k)) (set_owner_pool (1000 + k)) rxsize
                   (fun b => n <- tls_receive_now k rxsize ;; ret (Some n)) ;;
  match r with
  | Some (b, n) => presize (1000 + k) (b_id b) n ;;; ret (b_id b, n)
  | None => bad 30
  end.

(* ---- the driver with TLS sockets (src/driver_impl.cpp built WITH_TLS, src/socket_async_impl.cpp) ----------- *)
Section TlsDriver.
Variable run_block : Z -> MX unit.

(* DriverReceive: a TLS socket that received handshake data only yields an empty buffer: no handler call. While the engine
   still holds the rest of a decrypted record (SSL_pending > 0: it will cause no poll event, it has left the kernel) the
   next buffer is filled and handed over at once (finding F14). Every round consumes one engine event: fuel as in write_loop. *)
Fixpoint tdriver_receive_loop (fuel : nat) (k : Z) (s : sock) : MX unit :=
  match fuel with
  | O => bad 146
  | S f =>
      r <- tls_buffered_receive_now k (s_rxsize s) ;;
      let '(id, n) := r in
      if n =? 0 then precycle (1000 + k) id
      else nm <- name_of (1000 + k) id ;;
           emit K_HANDLER [1; k; nm; n] ;;;
           with_arg (1000 + k) id (run_block (s_h1 s)) ;;;
           t <- get_tls k ;;
           if t_more t then tdriver_receive_loop f k s else ret tt
  end.

Definition tdriver_receive (k : Z) : MX unit :=
  s <- get_sock k ;;
  catch (x <- get_ext ;; tdriver_receive_loop (S (length (x_eng x))) k s)
        (fun e => if is_runtime_error e then driver_disconnect run_block k else throw e).

(* DriverSend: an empty queue means the TLS socket asked for the write event itself *)
Definition tdriver_send (k : Z) : MX bool :=
  s <- get_sock k ;;
  match s_sendq s with
  | [] => tls_pending k ;;; ret true
  | (f, owner, id, _) :: rest =>
      x <- get_ext ;;
      let size := buf_size id (p_busy (owner_pool x owner)) in
      r <- catch (sent <- tls_send_some k size ;; ret (inl sent))
                 (fun e => if is_runtime_error e then ret (inr e) else throw e) ;;
      match r with
      | inl sent =>
          if sent =? size then
            resolve f 1 [] ;;; upd_sock k (fun s => s <| s_sendq := rest |>) ;;; precycle owner id ;;;
            ret (match rest with [] => true | _ => false end)
          else
            presize owner id (size - sent) ;;; ret false
      | inr e =>
          resolve f 2 sliced_runtime_error ;;; upd_sock k (fun s => s <| s_sendq := rest |>) ;;; precycle owner id ;;;
          ret (match rest with [] => true | _ => false end)
      end
  end.

Definition tdriver_on_readable (k : Z) : MX unit :=
  tl <- is_tls k ;; if tl then tdriver_receive k else driver_on_readable run_block k.

Definition tdriver_on_writable (k : Z) : MX bool :=
  tl <- is_tls k ;; if tl then tdriver_send k else driver_on_writable k.

Fixpoint tdo_one_socket_task (i : nat) (socks : list Z) (revs : list Z) : MX unit :=
  match socks with
  | [] => throw (LogicErr 4)
  | k :: rest =>
      let rv := nthZ revs 0 in
      if has_bit rv POLLIN then tdriver_on_readable k
      else if has_bit rv POLLOUT then
        emptied <- tdriver_on_writable k ;;
        if emptied then upd_driver (fun d => d <| d_pfds := disarm_at i POLLOUT (d_pfds d) |>) else ret tt
      else if has_bit rv (Z.lor POLLHUP POLLERR) then driver_on_error run_block k
      else tdo_one_socket_task (S i) rest (tl revs)
  end.

(* QuerySockets: every registered socket may request / suppress the write poll *)
Fixpoint query_sockets (socks : list Z) (pfds : list (Z * Z)) : MX (list (Z * Z)) :=
  match socks, pfds with
  | k :: rest, (fd, ev) :: pt =>
      x <- get_ext ;;
      match aget k (x_tls x) with
      | Some t => let '(t', ev') := tls_query t ev in
                  put_tls k t' ;;; more <- query_sockets rest pt ;; ret ((fd, ev') :: more)
      | None => more <- query_sockets rest pt ;; ret ((fd, ev) :: more)
      end
  | _, _ => ret pfds
  end.

Definition tstep_sockets (timeout : Z) : MX unit :=
  d0 <- get_driver ;;
  (match d_pfds d0 with
   | pipe :: rest => q <- query_sockets (d_socks d0) rest ;; put_driver (d0 <| d_pfds := pipe :: q |>)
   | [] => ret tt
   end) ;;;
  d <- get_driver ;;
  r <- wait_fds (d_pfds d) timeout ;;
  match r with
  | None => ret tt
  | Some revs0 =>
      let revs := mask_revents (d_pfds d) revs0 in
      let pipe := nthZ revs 0 in
      if has_bit pipe POLLIN then unbump
      else if negb (pipe =? 0) then throw (LogicErr 3)
      else if Nat.eqb (length (d_socks d) + 1) (length (d_pfds d))
           then tdo_one_socket_task 1 (d_socks d) (tl revs)
           else stuck 31
  end.

Definition tstep (timeout : Z) : MX unit :=
  d <- get_driver ;;
  match d_todos d with
  | [] => tstep_sockets timeout
  | _ => fuel <- script_fuel ;;
         dl0 <- sdl_new timeout ;;
         remaining <- step_todos run_block fuel dl0 ;;
         tstep_sockets remaining
  end.

Fixpoint trun_loop (fuel : nat) : MX unit :=
  match fuel with
  | O => bad 41
  | S k => d <- get_driver ;;
           if d_stop d then put_driver (d <| d_stop := false |>)
           else tstep (-1) ;;; trun_loop k
  end.

Definition trun : MX unit := fuel <- script_fuel ;; trun_loop fuel.

End TlsDriver.
