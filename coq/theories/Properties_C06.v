(* Properties_C06.v — ToDo scheduling: never early, in due order, exactly once, cancellable, shiftable.
   The driver's list is only ever changed by Insert (constructors), Remove (Cancel), Move (Shift) and by StepTodos popping the
   front when it is due (DriverModel.step_todos uses exactly these functions of TodoModel); the theorems hold for EVERY
   history of such operations, with arbitrary (equal, past, future) due times and arbitrary clock readings. *)
From SP Require Import Base ListAux TodoModel TodoLemmas.
From Coq Require Import Sorted.
Local Open Scope Z_scope.

Theorem insert_sorted : forall id w l, whens_sorted l -> whens_sorted (todo_insert id w l).
Proof. exact TodoLemmas.insert_sorted. Qed.

(* equal due times keep scheduling order: the new entry goes behind everything not strictly later *)
Theorem insert_stable : forall id w l,
  exists l1 l2, todo_insert id w l = l1 ++ (id, w) :: l2 /\ l = l1 ++ l2 /\
    Forall (fun e => snd e <= w) l1 /\ (whens_sorted l -> Forall (fun e => w < snd e) l2).
Proof. exact TodoLemmas.insert_stable. Qed.

Theorem remove_sorted : forall id l, whens_sorted l -> whens_sorted (todo_remove id l).
Proof. exact TodoLemmas.remove_sorted. Qed.

(* Shift replaces a pending run by a single run at the new time (or schedules an idle / executed ToDo) *)
Theorem move_single_entry : forall id w l, NoDup (todo_ids l) ->
  NoDup (todo_ids (todo_move id w l)) /\ In (id, w) (todo_move id w l).
Proof. exact move_single_entry_lemma. Qed.

(* Cancel prevents the run: the ToDo is no longer in the list; cancelling twice / after the run is harmless *)
Theorem cancel_prevents : forall id l, NoDup (todo_ids l) ->
  ~ In id (todo_ids (todo_remove id l)) /\ todo_remove id (todo_remove id l) = todo_remove id l.
Proof.
  intros id l Hn. destruct (remove_nodup id l Hn) as [_ Hb]. split; [assumption|]. now apply remove_absent.
Qed.

(* every reachable list is sorted by due time and holds at most one entry per ToDo *)
Theorem todos_invariant_all_histories : forall ops, tl_run [] ops -> TInv (tl_after [] ops).
Proof.
  intros ops H. apply tl_after_inv; [|assumption]. constructor; [constructor|constructor].
Qed.

(* the task the driver runs is due (never early) and is the earliest pending one; ties: see insert_stable *)
Theorem front_is_minimum : forall ops now e l', tl_run [] ops ->
  tl_step (tl_after [] ops) (TPop now) = (l', Some e) ->
  snd e <= now /\ (forall x, In x (tl_after [] ops) -> snd e <= snd x) /\ tl_after [] ops = e :: l'.
Proof. intros ops now e l' H. apply pop_is_due_minimum. now apply todos_invariant_all_histories. Qed.

Theorem never_early : forall l now l', tl_step l (TPop now) = (l', None) ->
  l' = l /\ match l with (_, w) :: _ => now < w | [] => True end.
Proof. exact pop_none_not_due. Qed.

(* the list refines the abstract map  ToDo -> due time *)
Theorem refines_pending : forall id w l x, NoDup (todo_ids l) ->
  lookup_when x (todo_move id w l) = (if x =? id then Some w else lookup_when x l) /\
  lookup_when x (todo_remove id l) = (if x =? id then None else lookup_when x l).
Proof.
  intros id w l x Hn. split; [|now apply lookup_remove].
  unfold todo_move. destruct (remove_nodup id l Hn) as [Ha Hb]. rewrite lookup_insert by assumption.
  destruct (x =? id) eqn:E; [reflexivity|]. rewrite lookup_remove by assumption. now rewrite E.
Qed.

(* exactly once: after being popped (run) the ToDo is not in the list any more *)
Theorem exactly_once : forall ops now e l', tl_run [] ops ->
  tl_step (tl_after [] ops) (TPop now) = (l', Some e) -> ~ In (fst e) (todo_ids l').
Proof.
  intros ops now e l' H Hp. destruct (front_is_minimum ops now e l' H Hp) as [_ [_ Heq]].
  pose proof (ti_nodup _ (todos_invariant_all_histories ops H)) as Hn. rewrite Heq in Hn. cbn in Hn. now inversion Hn.
Qed.

Example c06_nonvacuous :
  let ops := [TInsert 1 50; TInsert 2 30; TInsert 3 50; TMove 1 30; TRemove 9; TPop 40; TPop 40; TPop 40] in
  tl_run [] ops /\ tl_after [] ops = [(3, 50)] /\
  tl_step (tl_after [] [TInsert 1 50; TInsert 2 30; TInsert 3 50; TMove 1 30]) (TPop 40) = ([(1, 30); (3, 50)], Some (2, 30)).
Proof. vm_compute. repeat split; try reflexivity; intuition discriminate. Qed.

Print Assumptions insert_sorted.
Print Assumptions insert_stable.
Print Assumptions remove_sorted.
Print Assumptions move_single_entry.
Print Assumptions cancel_prevents.
Print Assumptions todos_invariant_all_histories.
Print Assumptions front_is_minimum.
Print Assumptions never_early.
Print Assumptions refines_pending.
Print Assumptions exactly_once.
