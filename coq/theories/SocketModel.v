(* SocketModel.v — src/socket_impl.cpp: the blocking primitives over one descriptor. *)
From SP Require Export WaitModel.
Local Open Scope Z_scope.

Section WithExt.
Context {X : Type}.
Local Notation M := (M X).

(* SendNow (socket_impl.cpp) *)
Definition send_now (fd len : Z) : M Z :=
  r <- sys_send fd len MSG_NOSIGNAL ;;
  let '(sent, err) := r in
  if sent <? 0 then throw (SysErr err)
  else if (sent =? 0) && (0 <? len) then throw (LogicErr 1)   (* "unexpected send result" *)
  else if len <? sent then stuck 1      (* assert(sent <= size): remove_prefix beyond the view is undefined *)
  else ret sent.

(* ReceiveNow *)
Definition receive_now (fd size : Z) : M Z :=
  r <- sys_recv fd size ;;
  let '(n, err) := r in
  if n <? 0 then throw (SysErr err)
  else if n =? 0 then throw ConnClosed
  else if size <? n then stuck 2        (* the kernel never returns more than asked for *)
  else ret n.

(* Receive(fd, data, size, timeout) *)
Definition receive (fd size timeout : Z) : M (option Z) :=
  ready <- wait_readable fd timeout ;;
  if ready then n <- receive_now fd size ;; ret (Some n) else ret None.

(* SendAll: do { wait; send; remove_prefix } while(!remaining.empty()) — remaining is a length *)
Fixpoint send_all_loop (fuel : nat) (fd remaining : Z) : M unit :=
  match fuel with
  | O => bad 20
  | S k => _ <- wait_writable fd (-1) ;;
           sent <- send_now fd remaining ;;
           let remaining' := remaining - sent in
           if remaining' =? 0 then ret tt else send_all_loop k fd remaining'
  end.

Definition send_all (fd size : Z) : M Z :=
  fuel <- script_fuel ;;
  send_all_loop fuel fd size ;;; ret size.       (* size - remaining.size() with remaining empty *)

(* SendTry *)
Definition send_try (fd size : Z) : M Z :=
  ready <- wait_writable fd 0 ;;
  if ready then send_now fd size else ret 0.

(* SendSome(fd, data, size, deadline) *)
Fixpoint send_some_loop (fuel : nat) (fd remaining : Z) (d : dl) : M (Z * dl) :=
  match fuel with
  | O => bad 21
  | S k => ready <- wait_writable fd (dl_remaining d) ;;
           if negb ready then ret (remaining, d) else
           d' <- dl_tick d ;;
           sent <- send_now fd remaining ;;
           let remaining' := remaining - sent in
           if negb (remaining' =? 0) && dl_time_left d' then send_some_loop k fd remaining' d'
           else ret (remaining', d')
  end.

Definition send_some (fd size : Z) (d : dl) : M (Z * dl) :=
  fuel <- script_fuel ;;
  r <- send_some_loop fuel fd size d ;;
  let '(remaining, d') := r in ret (size - remaining, d').

(* SocketImpl::Send(data, size, timeout) *)
Definition sock_send (fd size timeout : Z) : M Z :=
  if timeout <? 0 then send_all fd size
  else if timeout =? 0 then send_try fd size
  else d <- dl_new timeout ;; r <- send_some fd size d ;; ret (fst r).

(* SocketImpl::SendTo(data, size, dst) — no waiting *)
Definition sendto_now (fd size dst : Z) : M Z :=
  r <- sys_sendto fd size dst ;;
  let '(sent, err) := r in
  if sent <? 0 then throw (SysErr err)
  else if negb (sent =? size) then throw (LogicErr 2)      (* "unexpected UDP send result" *)
  else ret sent.

(* SocketImpl::SendTo(data, size, dst, timeout) *)
Definition sock_sendto (fd size dst timeout : Z) : M Z :=
  ready <- wait_writable fd timeout ;;
  if ready then sendto_now fd size dst else ret 0.

(* SocketImpl::ReceiveFrom(data, size): (received, source) *)
Definition recvfrom_now (fd size : Z) : M (Z * Z) :=
  r <- sys_recvfrom fd size ;;
  let '(n, err, src) := r in
  if n <? 0 then throw (SysErr err)
  else if size <? n then stuck 3        (* the kernel never returns more than asked for *)
  else ret (n, src).

Definition sock_recvfrom (fd size timeout : Z) : M (option (Z * Z)) :=
  ready <- wait_readable fd timeout ;;
  if ready then r <- recvfrom_now fd size ;; ret (Some r) else ret None.

(* ---- set-up operations ------------------------------------------------------------------------ *)
Definition check_setup (which fd : Z) : M unit :=
  e <- sys_setup which fd ;; if e =? 0 then ret tt else throw (SysErr e).

(* SetBlocking(fd, false): fcntl(F_GETFL), fcntl(F_SETFL) *)
Definition set_nonblocking (fd : Z) : M unit :=
  check_setup S_FCNTL_GET fd ;;; check_setup S_FCNTL_SET fd.

(* SocketImpl::SocketImpl(family, type, protocol) *)
Definition socket_new : M Z :=
  r <- sys_socket ;;
  let '(fd, err) := r in if fd <? 0 then throw (SysErr err) else ret fd.

(* run the constructor body; if it throws, the already constructed SocketImpl member closes the fd *)
Definition guarded (fd : Z) (body : M unit) : M Z :=
  catch (body ;;; ret fd) (fun e => sys_close fd ;;; throw e).

(* SocketTcp::SocketTcp(Address): socket, connect, non-blocking *)
Definition tcp_client_new : M Z :=
  fd <- socket_new ;;
  guarded fd (check_setup S_CONNECT fd ;;; set_nonblocking fd).

(* SocketUdp::SocketUdp(Address): socket, bind, SO_BROADCAST, non-blocking *)
Definition udp_new : M Z :=
  fd <- socket_new ;;
  guarded fd (check_setup S_BIND fd ;;; check_setup S_SETSOCKOPT fd ;;; set_nonblocking fd).

(* Acceptor::Acceptor(Address): socket, SO_REUSEADDR, bind, non-blocking *)
Definition acceptor_new : M Z :=
  fd <- socket_new ;;
  guarded fd (check_setup S_SETSOCKOPT fd ;;; check_setup S_BIND fd ;;; set_nonblocking fd).

(* sockpuppet::Accept(fd) + SocketImpl(SOCKET) + SocketTcp(unique_ptr<SocketImpl>&&):
   accept; an invalid descriptor throws; then non-blocking (descriptor closed if that throws) *)
Definition accept_now (fd : Z) : M (Z * Z) :=
  r <- sys_accept fd ;;
  let '(cfd, err, peer) := r in
  if cfd <? 0 then throw (SysErr err) else
  c <- guarded cfd (set_nonblocking cfd) ;; ret (c, peer).

(* Acceptor::Listen(timeout): listen, wait readable, accept *)
Definition acceptor_listen (fd timeout : Z) : M (option (Z * Z)) :=
  check_setup S_LISTEN fd ;;;
  ready <- wait_readable fd timeout ;;
  if ready then r <- accept_now fd ;; ret (Some r) else ret None.

End WithExt.
