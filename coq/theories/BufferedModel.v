(* BufferedModel.v — src/socket_buffered_impl.cpp: receive paths that borrow a buffer from the socket's pool.
   The pool lives in the extension state; `with_pool` gives access to it. A borrowed buffer is a BufferPtr
   (RAII): it goes back to the pool on every exit that does not hand it to the caller. *)
From SP Require Export SocketModel PoolModel.
Local Open Scope Z_scope.

Section WithExt.
Context {X : Type}.
Variable get_pool : X -> pool.
Variable set_pool : X -> pool -> X.
Local Notation M := (M X).

Definition RCVBUF_DEFAULT := 4096.   (* what the virtual OS reports for SO_RCVBUF *)

Definition pool_get_m : M buf :=
  x <- get_ext ;;
  match pool_get (get_pool x) with
  | (Ok b, p') => put_ext (set_pool x p') ;;; ret b
  | (Exn e, _) => throw e
  | (Bad w, _) => bad w
  | (Stuck u, _) => stuck u
  end.

Definition pool_recycle_m (id : Z) : M unit :=
  x <- get_ext ;;
  match pool_recycle (get_pool x) id with
  | (Ok _, p') => put_ext (set_pool x p')
  | (Exn e, _) => throw e
  | (Bad w, _) => bad w
  | (Stuck u, _) => stuck u
  end.

Definition pool_resize_m (id n : Z) : M unit :=
  x <- get_ext ;; put_ext (set_pool x (pool_resize (get_pool x) id n)).

(* SocketBufferedImpl::GetBuffer *)
Definition get_buffer (rxsize : Z) : M buf :=
  b <- pool_get_m ;; pool_resize_m (b_id b) rxsize ;;; ret b.

(* keep the buffer only if the body yields Some; release it on None and on exception *)
Definition with_buffer {A} (rxsize : Z) (body : buf -> M (option A)) : M (option (buf * A)) :=
  b <- get_buffer rxsize ;;
  r <- catch (body b) (fun e => pool_recycle_m (b_id b) ;;; throw e) ;;
  match r with
  | Some a => ret (Some (b, a))
  | None => pool_recycle_m (b_id b) ;;; ret None
  end.

(* SocketBufferedImpl::Receive(timeout): (buffer id, received size) *)
Definition buffered_receive (fd rxsize timeout : Z) : M (option (Z * Z)) :=
  r <- with_buffer rxsize (fun b => receive fd rxsize timeout) ;;
  match r with
  | Some (b, n) => pool_resize_m (b_id b) n ;;; ret (Some (b_id b, n))
  | None => ret None
  end.

(* SocketBufferedImpl::Receive(): assumes readable *)
Definition buffered_receive_now (fd rxsize : Z) : M (Z * Z) :=
  r <- with_buffer rxsize (fun b => n <- receive_now fd rxsize ;; ret (Some n)) ;;
  match r with
  | Some (b, n) => pool_resize_m (b_id b) n ;;; ret (b_id b, n)
  | None => bad 30
  end.

(* SocketBufferedImpl::ReceiveFrom(): (buffer id, size, source) *)
Definition buffered_recvfrom_now (fd rxsize : Z) : M (Z * Z * Z) :=
  r <- with_buffer rxsize (fun b => r <- recvfrom_now fd rxsize ;; ret (Some r)) ;;
  match r with
  | Some (b, (n, src)) => pool_resize_m (b_id b) n ;;; ret (b_id b, n, src)
  | None => bad 31
  end.

(* SocketBufferedImpl::ReceiveFrom(timeout): waits BEFORE borrowing the buffer *)
Definition buffered_recvfrom (fd rxsize timeout : Z) : M (option (Z * Z * Z)) :=
  ready <- wait_readable fd timeout ;;
  if ready then r <- buffered_recvfrom_now fd rxsize ;; ret (Some r) else ret None.

End WithExt.
