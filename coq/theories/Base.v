(* Base.v — common vocabulary of the sockpuppet models.
   Executable definitions only (no proofs), so that the model keeps running when a proof breaks. *)
From Coq Require Export List ZArith NArith Bool Lia.
Export ListNotations.
Local Open Scope Z_scope.

(* ---- C++ exceptions as values -------------------------------------------------------------- *)
Inductive exn :=
| SysErr (errno : Z)        (* std::system_error with the socket (errno) category *)
| GaiErr (code : Z)         (* std::system_error with the getaddrinfo category *)
| ConnClosed                (* std::runtime_error("connection closed") *)
| LogicErr (site : Z)       (* std::logic_error; site identifies the throw statement *)
| OutOfBuffers              (* std::runtime_error("out of buffers") *)
| InvalidArg (site : Z)     (* std::invalid_argument *)
| OutOfRange                (* std::out_of_range (a std::logic_error) *)
| BrokenPromise             (* std::future_error(broken_promise), as seen through a future *)
| RuntimeErr (site : Z).    (* any other std::runtime_error *)

(* whether a C++ handler `catch(std::runtime_error const &)` catches it
   (system_error derives from runtime_error; logic_error does not) *)
Definition is_runtime_error (e : exn) : bool :=
  match e with
  | SysErr _ | GaiErr _ | ConnClosed | OutOfBuffers | RuntimeErr _ => true
  | LogicErr _ | InvalidArg _ | BrokenPromise | OutOfRange => false
  end.

Definition exn_code (e : exn) : list Z :=
  match e with
  | SysErr n => [1; n] | GaiErr c => [2; c] | ConnClosed => [3; 0] | LogicErr s => [4; s]
  | OutOfBuffers => [5; 0] | InvalidArg s => [6; s] | OutOfRange => [7; 0] | BrokenPromise => [8; 0] | RuntimeErr _ => [9; 0]
  end.

(* ---- results -------------------------------------------------------------------------------- *)
(* Bad: the oracle script does not fit (exhausted / wrong kind of event) — a harness matter;
   Stuck: the C++ would have undefined behaviour here (code identifies the place). *)
Inductive res (A : Type) :=
| Ok (a : A) | Exn (e : exn) | Bad (why : Z) | Stuck (ub : Z).
Arguments Ok {A}. Arguments Exn {A}. Arguments Bad {A}. Arguments Stuck {A}.

(* ---- raw interface to the outside (OCaml driver / C++ harness): everything is integers ------ *)
Definition raw := (Z * list Z)%type.     (* (code, arguments) *)

Definition nthZ (l : list Z) (i : nat) : Z := nth i l 0.

(* errno values used by the models (Linux) *)
Definition EINTR := 4. Definition EAGAIN := 11. Definition EPIPE := 32. Definition ECONNRESET := 104.

(* poll bits *)
Definition POLLIN := 1. Definition POLLOUT := 4. Definition POLLERR := 8. Definition POLLHUP := 16.
Definition has_bit (x bit : Z) : bool := negb (Z.land x bit =? 0).

Definition two64 : Z := 18446744073709551616.
Definition two31 : Z := 2147483648.
Definition INT_MAX : Z := 2147483647.
