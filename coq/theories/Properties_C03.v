(* Properties_C03.v — asynchronous events: which socket a step serves, in what order, and what the
   disconnect path does first. For every readiness vector the (scripted) kernel can report. *)
From SP Require Import Base ListAux Os OsLemmas Objects DriverModel DriverLemmas SocketModel SocketLemmas.
Local Open Scope Z_scope.

(* DoOneSocketTask is exactly: pick by `select`, then run that one socket's path — one socket per step *)
Theorem one_socket_per_step : forall run_block socks i revs,
  do_one_socket_task run_block i socks revs = dispatch run_block (select i socks revs).
Proof. exact do_one_socket_task_select. Qed.

(* the socket served is the first one, in registration order, that has any event *)
Theorem socket_task_first_ready : forall socks i revs j k a,
  select i socks revs = Some (j, k, a) ->
  exists n, j = (i + n)%nat /\ nth_error socks n = Some k /\ classify (nthZ revs n) = Some a /\
            forall m, (m < n)%nat -> classify (nthZ revs m) = None.
Proof. exact select_first. Qed.

(* readable is served before writable before hang-up/error: pending data is delivered before the disconnect
   is reported, even when the kernel reports POLLIN|POLLHUP together *)
Theorem socket_task_priority : forall rv,
  (has_bit rv POLLIN = true -> classify rv = Some ARead) /\
  (has_bit rv POLLIN = false -> has_bit rv POLLOUT = true -> classify rv = Some AWrite) /\
  (classify rv = Some AError -> has_bit rv POLLIN = false /\ has_bit rv POLLOUT = false).
Proof. exact classify_priority. Qed.

(* unregistering removes the socket and its pollfd together and keeps the two lists aligned *)
Theorem unregister_removes_both : forall regs pipe rest k fd,
  map snd regs = map fst rest -> NoDup (map fst regs) -> NoDup (map snd regs) ->
  In (k, fd) regs -> fst pipe <> fd ->
  map snd (reg_del k fd regs) = map fst (remove_first_fd fd rest) /\
  remove_first_fd fd (pipe :: rest) = pipe :: remove_first_fd fd rest.
Proof. exact unregister_aligned. Qed.

(* the receive path hands the handler exactly what recv() returned: 1..rxBufSize bytes, never an empty buffer;
   recv()==0 / errors become exceptions, i.e. the disconnect path *)
Theorem receive_delivers_what_recv_returned : forall {X} fd size (s : os X) r s',
  receive_now fd size s = (r, s') ->
  match r with
  | Ok n => exists ret_ err sc, o_script s = EvRecv ret_ err :: sc /\ n = ret_ /\ 1 <= n <= size
  | Exn e => exists ret_ err sc, o_script s = EvRecv ret_ err :: sc /\ ret_ <= 0 /\ is_runtime_error e = true
  | _ => True
  end.
Proof.
  intros X fd size s r s' H. unfold receive_now, bind, sys_recv in H.
  destruct (o_script s) as [|[| | |ret_ err| | |] sc] eqn:Hs; try (inversion H; exact I).
  cbn in H. destruct (ret_ <? 0) eqn:E1.
  - apply Z.ltb_lt in E1. inversion H; subst. exists ret_, err, sc. repeat split; try lia.
  - apply Z.ltb_ge in E1. destruct (ret_ =? 0) eqn:E2.
    + apply Z.eqb_eq in E2. inversion H; subst. exists 0, err, sc. repeat split; lia.
    + apply Z.eqb_neq in E2. destruct (size <? ret_) eqn:E3; inversion H; subst; [exact I|].
      apply Z.ltb_ge in E3. exists ret_, err, sc. repeat split; lia.
Qed.

(* DriverDisconnect unregisters BEFORE calling the user's handler, so the handler runs exactly once:
   the next step cannot see the dead descriptor again *)
Theorem disconnect_unregisters_first : forall run_block k,
  driver_disconnect run_block k =
  (s <- get_sock k ;; async_unregister k (s_fd s) ;;; emit K_HANDLER [2; k; s_peer s] ;;; run_block (s_h2 s)).
Proof. reflexivity. Qed.

Example c03_nonvacuous :
  select 1 [7; 8; 9] [0; Z.lor POLLIN POLLHUP; POLLOUT] = Some (2%nat, 8, ARead) /\
  select 1 [7; 8; 9] [POLLHUP; POLLIN; POLLOUT] = Some (1%nat, 7, AError) /\
  select 1 [7; 8; 9] [0; 0; 32] = None.
Proof. vm_compute. repeat split; reflexivity. Qed.

Lemma remove_first_key_not_in k l : NoDup l -> ~ In k (remove_first_key k l).
Proof.
  induction l as [|h t IH]; cbn; intros Hn; [tauto|]. inversion Hn; subst.
  destruct (h =? k) eqn:E.
  - apply Z.eqb_eq in E. subst h. assumption.
  - apply Z.eqb_neq in E. cbn. intros [H|H]; [congruence|]. now apply IH.
Qed.

Lemma remove_first_key_sub k l x : In x (remove_first_key k l) -> In x l.
Proof.
  induction l as [|h t IH]; cbn; [tauto|]. destruct (h =? k); [tauto|]. cbn. intros [H|H]; [tauto|]. right. now apply IH.
Qed.

Lemma remove_first_key_nodup k l : NoDup l -> NoDup (remove_first_key k l).
Proof.
  induction l as [|h t IH]; cbn; intros Hn; [constructor|]. inversion Hn; subst.
  destruct (h =? k); [assumption|]. constructor; [|now apply IH]. intros Hin. apply remove_first_key_sub in Hin. contradiction.
Qed.

Lemma select_in : forall socks i revs j k a, select i socks revs = Some (j, k, a) -> In k socks.
Proof.
  induction socks as [|h t IH]; intros i revs j k a H; cbn in H; [discriminate|].
  destruct (classify (nthZ revs 0)).
  - inversion H; subst. now left.
  - right. eapply IH. exact H.
Qed.

(* exactly one disconnect: DriverDisconnect unregisters the socket before it calls the handler; from then on no readiness
   vector whatsoever makes the driver dispatch anything to that socket again *)
Theorem disconnected_socket_is_never_dispatched_again : forall k socks,
  NoDup socks -> forall i revs j a, select i (remove_first_key k socks) revs <> Some (j, k, a).
Proof.
  intros k socks Hn i revs j a H. apply select_in in H. exact (remove_first_key_not_in k socks Hn H).
Qed.

Print Assumptions one_socket_per_step.
Print Assumptions disconnected_socket_is_never_dispatched_again.
Print Assumptions socket_task_first_ready.
Print Assumptions socket_task_priority.
Print Assumptions unregister_removes_both.
Print Assumptions receive_delivers_what_recv_returned.
Print Assumptions disconnect_unregisters_first.
