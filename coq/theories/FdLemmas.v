(* FdLemmas.v — descriptor ledger and failure reporting of the socket constructors and of accept
   (src/socket_impl.cpp: SocketImpl ctors, SocketTcpImpl/SocketUdpImpl/AcceptorImpl ctors, Accept), for EVERY fault
   overlay: whichever set-up call fails, with whatever errno. *)
From SP Require Import Base ListAux Os OsLemmas WaitLemmas SocketModel.
Local Open Scope Z_scope.

Section WithExt.
Context {X : Type}.
Local Notation M := (M X).
Local Notation os := (os X).

(* ---- reading a trace segment (most recent entry first) -------------------------------------------------------- *)
Definition opened_by (e : raw) : list Z :=
  if (fst e =? K_SYS) && (nthZ (snd e) 0 =? S_SOCKET) && (nthZ (snd e) 2 =? 0) then [nthZ (snd e) 1]
  else if (fst e =? K_ACCEPT) && (0 <=? nthZ (snd e) 1) then [nthZ (snd e) 1]
  else [].
Definition closed_by (e : raw) : list Z :=
  if (fst e =? K_SYS) && (nthZ (snd e) 0 =? S_CLOSE) then [nthZ (snd e) 1] else [].
(* errno of a failed set-up call (close() excepted: the library ignores its result by design) *)
Definition failed_by (e : raw) : list Z :=
  if (fst e =? K_SYS) && negb (nthZ (snd e) 0 =? S_CLOSE) && negb (nthZ (snd e) 2 =? 0) then [nthZ (snd e) 2] else [].

Definition opened (seg : list raw) : list Z := flat_map opened_by (rev seg).
Definition closed (seg : list raw) : list Z := flat_map closed_by (rev seg).
Definition failures (seg : list raw) : list Z := flat_map failed_by (rev seg).

Lemma opened_app a b : opened (a ++ b) = opened b ++ opened a.
Proof. unfold opened. now rewrite rev_app_distr, flat_map_app. Qed.
Lemma closed_app a b : closed (a ++ b) = closed b ++ closed a.
Proof. unfold closed. now rewrite rev_app_distr, flat_map_app. Qed.
Lemma failures_app a b : failures (a ++ b) = failures b ++ failures a.
Proof. unfold failures. now rewrite rev_app_distr, flat_map_app. Qed.

Definition sys_entry (which fd err : Z) : raw := (K_SYS, [which; fd; err]).

Lemma opened_sys w fd err : w <> S_SOCKET -> opened [sys_entry w fd err] = [].
Proof.
  intros H. unfold opened, opened_by, sys_entry. cbn. apply Z.eqb_neq in H. unfold nthZ. cbn. rewrite H. reflexivity.
Qed.
Lemma closed_sys w fd err : w <> S_CLOSE -> closed [sys_entry w fd err] = [].
Proof.
  intros H. unfold closed, closed_by, sys_entry. cbn. apply Z.eqb_neq in H. unfold nthZ. cbn. rewrite H. reflexivity.
Qed.
Lemma failures_sys w fd err : w <> S_CLOSE ->
  failures [sys_entry w fd err] = if err =? 0 then [] else [err].
Proof.
  intros H. unfold failures, failed_by, sys_entry. cbn. apply Z.eqb_neq in H. unfold nthZ. cbn. rewrite H. cbn.
  destruct (err =? 0); reflexivity.
Qed.
Lemma opened_close fd err : opened [sys_entry S_CLOSE fd err] = [].
Proof. apply opened_sys. discriminate. Qed.
Lemma closed_close fd err : closed [sys_entry S_CLOSE fd err] = [fd].
Proof. reflexivity. Qed.
Lemma failures_close fd err : failures [sys_entry S_CLOSE fd err] = [].
Proof. reflexivity. Qed.
Lemma opened_socket fd : opened [sys_entry S_SOCKET fd 0] = [fd].
Proof. reflexivity. Qed.
Lemma opened_socket_failed fd err : err <> 0 -> opened [sys_entry S_SOCKET fd err] = [].
Proof.
  intros H. unfold opened, opened_by, sys_entry. cbn. unfold nthZ. cbn. apply Z.eqb_neq in H. rewrite H. reflexivity.
Qed.

(* ---- primitives ---------------------------------------------------------------------------------------------------- *)
Lemma sys_setup_inv which fd (s : os) r s' : sys_setup which fd s = (r, s') ->
  exists err, r = Ok err /\ extends s s' [sys_entry which fd err] /\ o_nextfd s' = o_nextfd s.
Proof.
  unfold sys_setup. intros H. inversion H; subst. eexists. split; [reflexivity|]. split; reflexivity.
Qed.

Lemma check_setup_spec which fd (s : os) r s' : check_setup which fd s = (r, s') ->
  exists err, extends s s' [sys_entry which fd err] /\ o_nextfd s' = o_nextfd s /\
    ((err = 0 /\ r = Ok tt) \/ (err <> 0 /\ r = Exn (SysErr err))).
Proof.
  unfold check_setup. intros H. apply bind_inv in H. destruct H as [[e [s1 [H1 H2]]]|[r0 [H1 [H2 _]]]].
  - destruct (sys_setup_inv _ _ _ _ _ H1) as [err [Hr [Hst Hfd]]]. inversion Hr; subst e. exists err.
    destruct (err =? 0) eqn:E.
    + apply Z.eqb_eq in E. inversion H2; subst. split; [assumption|]. split; [assumption|]. left. auto.
    + apply Z.eqb_neq in E. inversion H2; subst. split; [assumption|]. split; [assumption|]. right. auto.
  - destruct (sys_setup_inv _ _ _ _ _ H1) as [err [Hr _]]. subst r0. discriminate.
Qed.

Lemma sys_close_spec fd (s : os) r s' : sys_close fd s = (r, s') ->
  exists err, r = Ok tt /\ extends s s' [sys_entry S_CLOSE fd err] /\ o_nextfd s' = o_nextfd s.
Proof.
  unfold sys_close. intros H. apply bind_inv in H. destruct H as [[e [s1 [H1 H2]]]|[r0 [H1 [H2 _]]]].
  - destruct (sys_setup_inv _ _ _ _ _ H1) as [err [Hr [Hst Hfd]]]. inversion H2; subst. eauto.
  - destruct (sys_setup_inv _ _ _ _ _ H1) as [err [Hr _]]. subst r0. discriminate.
Qed.

(* a run of set-up calls on one descriptor: stops at the first failure *)
Fixpoint setup_seq (ws : list Z) (fd : Z) : M unit :=
  match ws with
  | [] => ret tt
  | w :: t => match t with
              | [] => check_setup w fd
              | _ => bind (check_setup w fd) (fun _ => setup_seq t fd)
              end
  end.

Definition plain (w : Z) : Prop := w <> S_SOCKET /\ w <> S_CLOSE.

Record seq_spec (s s' : os) (r : res unit) (new : list raw) : Prop := {
  q_ext : extends s s' new;
  q_fd : o_nextfd s' = o_nextfd s;
  q_opened : opened new = [];
  q_closed : closed new = [];
  q_result : (r = Ok tt /\ failures new = []) \/ (exists e, e <> 0 /\ r = Exn (SysErr e) /\ failures new = [e])
}.

Lemma setup_seq_spec ws fd : Forall plain ws -> forall (s : os) r s',
  setup_seq ws fd s = (r, s') -> exists new, seq_spec s s' r new.
Proof.
  induction ws as [|w t IH]; intros Hp s r s' H.
  - inversion H; subst. exists []. constructor; [apply extends_refl|reflexivity|reflexivity|reflexivity|left; auto].
  - inversion Hp as [|? ? [Hw1 Hw2] Ht]; subst. cbn [setup_seq] in H. destruct t as [|w2 t2].
    { destruct (check_setup_spec _ _ _ _ _ H) as [err [Hx [Hfd [[He Hr]|[He Hr]]]]]; subst r.
      - subst err. exists [sys_entry w fd 0]. constructor; [assumption|assumption|now apply opened_sys|now apply closed_sys|].
        left. split; [reflexivity|]. rewrite failures_sys by assumption. reflexivity.
      - exists [sys_entry w fd err]. constructor; [assumption|assumption|now apply opened_sys|now apply closed_sys|].
        right. exists err. split; [assumption|]. split; [reflexivity|]. rewrite failures_sys by assumption.
        apply Z.eqb_neq in He. rewrite He. reflexivity. }
    apply bind_inv in H.
    destruct H as [[[] [s1 [H1 H2]]]|[r0 [H1 [H2 ->]]]].
    + destruct (check_setup_spec _ _ _ _ _ H1) as [err [Hx [Hfd [[He _]|[_ Hr]]]]]; [|discriminate]. subst err.
      destruct (IH Ht _ _ _ H2) as [new [qe qf qo qc qr]]. exists (new ++ [sys_entry w fd 0]).
      constructor.
      * eapply extends_trans; eassumption.
      * congruence.
      * rewrite opened_app, opened_sys, qo by assumption. reflexivity.
      * rewrite closed_app, closed_sys, qc by assumption. reflexivity.
      * rewrite failures_app, failures_sys by assumption. cbn. exact qr.
    + destruct (check_setup_spec _ _ _ _ _ H1) as [err [Hx [Hfd [[_ Hr]|[He Hr]]]]]; subst r0; [discriminate|].
      exists [sys_entry w fd err]. constructor; [assumption|assumption|now apply opened_sys|now apply closed_sys|].
      right. exists err. split; [assumption|]. split; [reflexivity|]. rewrite failures_sys by assumption.
      apply Z.eqb_neq in He. rewrite He. reflexivity.
Qed.

Lemma socket_new_spec (s : os) r s' : 0 <= o_nextfd s -> socket_new s = (r, s') ->
  exists err, extends s s' [sys_entry S_SOCKET (o_nextfd s) err] /\
    ((err = 0 /\ r = Ok (o_nextfd s) /\ o_nextfd s' = o_nextfd s + 1) \/
     (err <> 0 /\ r = Exn (SysErr err) /\ o_nextfd s' = o_nextfd s)).
Proof.
  intros Hnn. unfold socket_new, bind, sys_socket.
  set (err := fault_of s S_SOCKET).
  intros H. exists err. cbn in H. destruct (err =? 0) eqn:E.
  - apply Z.eqb_eq in E. cbn in H.
    assert (Hlt : (o_nextfd s <? 0) = false) by (apply Z.ltb_ge; assumption).
    rewrite Hlt in H. inversion H; subst. split; [reflexivity|]. left. auto.
  - apply Z.eqb_neq in E. cbn in H. inversion H; subst. split; [reflexivity|]. right. auto.
Qed.

(* ---- the constructor pattern: socket(), then set-up calls under the guard of the SocketImpl member ------------ *)
(* what every constructor guarantees, whichever call fails *)
Record ctor_spec (s s' : os) (r : res Z) (new : list raw) : Prop := {
  c_ext : extends s s' new;
  c_fd : o_nextfd s <= o_nextfd s';
  c_result :
    (* success: no call failed; exactly the returned descriptor was opened and it is still open *)
    (exists fd, r = Ok fd /\ failures new = [] /\ opened new = [fd] /\ closed new = [] /\ o_nextfd s <= fd < o_nextfd s')
    \/
    (* failure: the FIRST failing call's errno is thrown as std::system_error; nothing after it was attempted;
       whatever had been opened was closed again, exactly once *)
    (exists e, e <> 0 /\ r = Exn (SysErr e) /\ failures new = [e] /\ opened new = closed new /\ NoDup (closed new))
}.

Lemma guarded_spec fd ws : Forall plain ws -> forall (s : os) r s',
  guarded fd (setup_seq ws fd) s = (r, s') ->
  exists new, extends s s' new /\ o_nextfd s' = o_nextfd s /\ opened new = [] /\
    ((r = Ok fd /\ failures new = [] /\ closed new = []) \/
     (exists e, e <> 0 /\ r = Exn (SysErr e) /\ failures new = [e] /\ closed new = [fd])).
Proof.
  intros Hp s r s' H. unfold guarded in H. apply catch_inv in H.
  destruct H as [[e [s1 [H1 H2]]]|[H1 Hne]].
  - apply bind_inv in H1. destruct H1 as [[[] [s0 [Ha Hb]]]|[r0 [Ha [Hb Hc]]]]; [inversion Hb|].
    destruct (setup_seq_spec _ _ Hp _ _ _ Ha) as [new [qe qf qo qc qr]].
    destruct qr as [[-> _]|[e0 [He0 [-> Hf]]]]; [discriminate|]. cbn in Hc. inversion Hc; subst e.
    apply bind_inv in H2. destruct H2 as [[[] [s2 [Hd He]]]|[r1 [Hd [He _]]]].
    + destruct (sys_close_spec _ _ _ _ Hd) as [cerr [_ [Hx Hfd]]]. inversion He; subst.
      exists ([sys_entry S_CLOSE fd cerr] ++ new). split; [eapply extends_trans; eassumption|].
      split; [congruence|]. split; [rewrite opened_app, qo, opened_close; reflexivity|].
      right. exists e0. split; [assumption|]. split; [reflexivity|].
      split; [rewrite failures_app, Hf, failures_close; reflexivity|rewrite closed_app, qc, closed_close; reflexivity].
    + destruct (sys_close_spec _ _ _ _ Hd) as [cerr [-> _]]. discriminate.
  - apply bind_inv in H1. destruct H1 as [[[] [s0 [Ha Hb]]]|[r0 [Ha [Hb ->]]]].
    + inversion Hb; subst. destruct (setup_seq_spec _ _ Hp _ _ _ Ha) as [new [qe qf qo qc qr]].
      destruct qr as [[_ Hf]|[e0 [_ [Hr _]]]]; [|discriminate].
      exists new. split; [assumption|]. split; [assumption|]. split; [assumption|]. left. auto.
    + destruct (setup_seq_spec _ _ Hp _ _ _ Ha) as [new [qe qf qo qc qr]].
      destruct qr as [[-> _]|[e0 [_ [-> _]]]]; [discriminate|]. exfalso. eapply Hne. reflexivity.
Qed.

Definition ctor (ws : list Z) : M Z := bind socket_new (fun fd => guarded fd (setup_seq ws fd)).

Lemma ctor_ok ws : Forall plain ws -> forall (s : os) r s', 0 <= o_nextfd s ->
  ctor ws s = (r, s') -> exists new, ctor_spec s s' r new.
Proof.
  intros Hp s r s' Hnn H. unfold ctor in H. apply bind_inv in H.
  destruct H as [[fd [s1 [H1 H2]]]|[r0 [H1 [H2 ->]]]].
  - destruct (socket_new_spec _ _ _ Hnn H1) as [err [Hx [[-> [Hr Hfd]]|[_ [Hr _]]]]]; [|discriminate].
    inversion Hr; subst fd.
    destruct (guarded_spec _ _ Hp _ _ _ H2) as [new [Hx2 [Hfd2 [Ho [[-> [Hf Hc]]|[e [He [-> [Hf Hc]]]]]]]]].
    + exists (new ++ [sys_entry S_SOCKET (o_nextfd s) 0]). constructor; [eapply extends_trans; eassumption|lia|].
      left. exists (o_nextfd s). split; [reflexivity|].
      rewrite failures_app, opened_app, closed_app, Hf, Ho, Hc, opened_socket. repeat split; try reflexivity; lia.
    + exists (new ++ [sys_entry S_SOCKET (o_nextfd s) 0]). constructor; [eapply extends_trans; eassumption|lia|].
      right. exists e. split; [assumption|]. split; [reflexivity|].
      rewrite failures_app, opened_app, closed_app, Hf, Ho, Hc, opened_socket. cbn.
      repeat split; try reflexivity. constructor; [intros []|constructor].
  - destruct (socket_new_spec _ _ _ Hnn H1) as [err [Hx [[_ [Hr _]]|[He [Hr Hfd]]]]]; subst r0; [discriminate|].
    exists [sys_entry S_SOCKET (o_nextfd s) err]. constructor; [assumption|lia|].
    right. exists err. split; [assumption|]. split; [reflexivity|].
    rewrite opened_socket_failed by assumption. unfold failures, failed_by, closed. cbn. unfold nthZ. cbn.
    apply Z.eqb_neq in He. rewrite He. cbn. repeat split; constructor.
Qed.

(* the three constructors are instances *)
Lemma tcp_client_new_is : tcp_client_new (X:=X) = ctor [S_CONNECT; S_FCNTL_GET; S_FCNTL_SET].
Proof. reflexivity. Qed.
Lemma udp_new_is : udp_new (X:=X) = ctor [S_BIND; S_SETSOCKOPT; S_FCNTL_GET; S_FCNTL_SET].
Proof. reflexivity. Qed.
Lemma acceptor_new_is : acceptor_new (X:=X) = ctor [S_SETSOCKOPT; S_BIND; S_FCNTL_GET; S_FCNTL_SET].
Proof. reflexivity. Qed.

Lemma plain_all : Forall plain [S_CONNECT; S_BIND; S_SETSOCKOPT; S_FCNTL_GET; S_FCNTL_SET; S_LISTEN].
Proof. repeat constructor; discriminate. Qed.

Theorem tcp_client_new_ledger (s : os) r s' : 0 <= o_nextfd s -> tcp_client_new s = (r, s') -> exists new, ctor_spec s s' r new.
Proof. rewrite tcp_client_new_is. apply ctor_ok. repeat constructor; discriminate. Qed.
Theorem udp_new_ledger (s : os) r s' : 0 <= o_nextfd s -> udp_new s = (r, s') -> exists new, ctor_spec s s' r new.
Proof. rewrite udp_new_is. apply ctor_ok. repeat constructor; discriminate. Qed.
Theorem acceptor_new_ledger (s : os) r s' : 0 <= o_nextfd s -> acceptor_new s = (r, s') -> exists new, ctor_spec s s' r new.
Proof. rewrite acceptor_new_is. apply ctor_ok. repeat constructor; discriminate. Qed.

(* ---- accept ------------------------------------------------------------------------------------------------------------ *)
Definition accept_entry (lfd nfd : Z) : raw := (K_ACCEPT, [lfd; nfd]).

Record accept_spec (lfd : Z) (s s' : os) (r : res (Z * Z)) (new : list raw) : Prop := {
  a_ext : extends s s' new;
  a_fd : o_nextfd s <= o_nextfd s';
  a_result :
    (exists c peer, r = Ok (c, peer) /\ failures new = [] /\ opened new = [c] /\ closed new = [] /\ o_nextfd s <= c < o_nextfd s')
    \/ (exists e, r = Exn (SysErr e) /\ opened new = closed new /\ NoDup (closed new) /\
                  (* either accept() itself failed (nothing opened), or a later set-up call did (its errno thrown) *)
                  ((opened new = [] /\ failures new = []) \/ (e <> 0 /\ failures new = [e])))
    \/ (exists w, r = Bad w /\ new = [])
}.

Lemma accept_now_ledger lfd (s : os) r s' : 0 <= o_nextfd s -> accept_now lfd s = (r, s') ->
  exists new, accept_spec lfd s s' r new.
Proof.
  intros Hnn H. unfold accept_now in H.
  assert (Hp : Forall plain [S_FCNTL_GET; S_FCNTL_SET]) by (repeat constructor; discriminate).
  assert (Hoa : opened [accept_entry lfd (o_nextfd s)] = [o_nextfd s]).
  { unfold opened, opened_by, accept_entry. cbn. unfold nthZ. cbn.
    assert (Hle : (0 <=? o_nextfd s) = true) by (apply Z.leb_le; assumption). rewrite Hle. reflexivity. }
  apply bind_inv in H.
  destruct H as [[[[cfd cerr] cpeer] [s1 [H1 H2]]]|[r0 [H1 [H2 ->]]]].
  - unfold sys_accept in H1.
    destruct (o_script s) as [|[dt|? ? ? ?|? ?|? ?|? ?|? ? ?|ae ap] sc] eqn:Esc; try discriminate.
    cbn in H1. destruct (ae =? 0) eqn:Ee.
    + inversion H1; subst cfd cerr cpeer s1; clear H1.
      assert (Hlt : (o_nextfd s <? 0) = false) by (apply Z.ltb_ge; assumption). rewrite Hlt in H2.
      change (set_nonblocking (o_nextfd s)) with (setup_seq [S_FCNTL_GET; S_FCNTL_SET] (o_nextfd s)) in H2.
      apply bind_inv in H2. destruct H2 as [[c [s2 [Ha Hb]]]|[r0 [Ha [Hb ->]]]].
      * inversion Hb; subst.
        destruct (guarded_spec _ _ Hp _ _ _ Ha) as [new [Hx [Hfd [Ho [[Hr [Hf Hc]]|[e0 [_ [Hr _]]]]]]]]; [|discriminate].
        inversion Hr; subst c.
        exists (new ++ [accept_entry lfd (o_nextfd s)]). constructor.
        -- unfold extends in *. rewrite Hx. cbn. rewrite <- app_assoc. reflexivity.
        -- rewrite Hfd. cbn. lia.
        -- left. exists (o_nextfd s), ap. split; [reflexivity|].
           rewrite failures_app, opened_app, closed_app, Hf, Ho, Hc, Hoa, Hfd. cbn. repeat split; try reflexivity; lia.
      * destruct (guarded_spec _ _ Hp _ _ _ Ha) as [new [Hx [Hfd [Ho [[Hr _]|[e0 [He0 [Hr [Hf Hc]]]]]]]]];
          subst r0; [discriminate|].
        exists (new ++ [accept_entry lfd (o_nextfd s)]). constructor.
        -- unfold extends in *. rewrite Hx. cbn. rewrite <- app_assoc. reflexivity.
        -- rewrite Hfd. cbn. lia.
        -- right. left. exists e0. split; [reflexivity|].
           rewrite failures_app, opened_app, closed_app, Hf, Ho, Hc, Hoa. cbn.
           split; [reflexivity|]. split; [constructor; [intros []|constructor]|]. right. auto.
    + inversion H1; subst cfd cerr cpeer s1; clear H1. cbn in H2. inversion H2; subst.
      exists [accept_entry lfd (-1)]. constructor; [reflexivity|cbn; lia|].
      right. left. exists ae. split; [reflexivity|]. cbn. split; [reflexivity|]. split; [constructor|]. left. auto.
  - unfold sys_accept in H1.
    destruct (o_script s) as [|[dt|? ? ? ?|? ?|? ?|? ?|? ? ?|ae ap] sc] eqn:Esc;
      try (inversion H1; subst; exists []; constructor; [apply extends_refl|lia|right; right; eexists; split; reflexivity]).
    cbn in H1. destruct (ae =? 0); inversion H1; subst; discriminate.
Qed.

End WithExt.
