(* AddressToString.v — the in-place composition of to_string() (src/address_impl.cpp) yields "host:serv", for every host and service
   text that getnameinfo can produce for an IPv4 address; with AddressSpelling: parse (to_string (host, serv)) = (host, serv). *)
From SP Require Import Base ListAux AddressModel AddressLemmas AddressSpelling.
Local Open Scope Z_scope.

(* to_string_model with the two buffer sizes as parameters (the model uses HOST_MAX = NI_MAXHOST, SERV_MAX = NI_MAXSERV) *)
Definition to_string_gen (hm sm : nat) (is_v6 : bool) (host serv : str) : str :=
  let buf0 := repeat 0 (hm + sm + 3) in
  let hoff := if is_v6 then 1%nat else 0%nat in
  let soff := ((hm + 1) + (if is_v6 then 2 else 0))%nat in
  let buf1 := if is_v6 then set_at buf0 0 LBRACK else buf0 in
  let buf2 := write_at (write_at buf1 hoff host) soff serv in
  let buf3 := erase_from buf2 (find_nul buf2 soff) in
  let soff1 := (soff - 1)%nat in
  let buf4 := set_at buf3 soff1 COLON in
  let '(buf5, soff2) := if is_v6 then (set_at buf4 (soff1 - 1) RBRACK, (soff1 - 1)%nat) else (buf4, soff1) in
  let hend := find_nul buf5 hoff in
  erase_range buf5 hend (soff2 - hend).

Lemma to_string_model_gen is_v6 host serv : to_string_model is_v6 host serv = to_string_gen HOST_MAX SERV_MAX is_v6 host serv.
Proof. reflexivity. Qed.

Definition no_nul (s : str) : Prop := forallb (fun c => negb (c =? 0)) s = true.

Lemma write_at_spec : forall (buf : str) off s, (off + length s <= length buf)%nat ->
  write_at buf off s = firstn off buf ++ s ++ skipn (off + length s) buf.
Proof.
  intros buf off. revert buf. induction off as [|k IH]; intros buf s H.
  - destruct buf; reflexivity.
  - destruct buf as [|c t]; [cbn in H; lia|]. cbn [write_at firstn Nat.add skipn app]. f_equal. apply IH. cbn in H. lia.
Qed.

Lemma set_at_spec : forall (buf : str) pos c, (pos < length buf)%nat ->
  set_at buf pos c = firstn pos buf ++ c :: skipn (S pos) buf.
Proof.
  intros buf pos. revert buf. induction pos as [|k IH]; intros buf c H.
  - destruct buf; [cbn in H; lia|reflexivity].
  - destruct buf as [|h t]; [cbn in H; lia|]. cbn [set_at firstn skipn app]. f_equal. apply IH. cbn in H. lia.
Qed.

Lemma find_first_app_none p a b idx : forallb (fun c => negb (p c)) a = true ->
  find_first p (a ++ b) idx = find_first p b (idx + length a).
Proof.
  revert idx. induction a as [|c t IH]; intros idx H; cbn.
  - f_equal. lia.
  - cbn in H. apply andb_true_iff in H. destruct H as [H1 H2]. apply negb_true_iff in H1. rewrite H1. rewrite IH by assumption.
    f_equal. lia.
Qed.

Lemma find_nul_spec (pre s : str) (z : nat) (rest : str) :
  no_nul s -> find_nul (pre ++ s ++ 0 :: rest) (length pre) = (length pre + length s)%nat.
Proof.
  intros Hs. unfold find_nul, find_from. rewrite skipn_app, skipn_all, Nat.sub_diag. cbn [app skipn].
  rewrite find_first_app_none by exact Hs. cbn. lia.
Qed.

Notation Zs := (repeat 0).

Lemma firstn_app_exact {A} (a b : list A) : firstn (length a) (a ++ b) = a.
Proof. rewrite firstn_app, Nat.sub_diag, firstn_all. cbn. apply app_nil_r. Qed.
Lemma skipn_app_exact {A} (a b : list A) : skipn (length a) (a ++ b) = b.
Proof. rewrite skipn_app, skipn_all, Nat.sub_diag. reflexivity. Qed.
Lemma firstn_exact {A} n (a b : list A) : n = length a -> firstn n (a ++ b) = a.
Proof. intros ->. apply firstn_app_exact. Qed.
Lemma skipn_exact {A} n (a b : list A) : n = length a -> skipn n (a ++ b) = b.
Proof. intros ->. apply skipn_app_exact. Qed.
Lemma Zs_split a b : Zs (a + b) = Zs a ++ Zs b.
Proof. apply repeat_app. Qed.

Section V4.
Variables (hm sm : nat) (host serv : str).
Hypothesis Hh : no_nul host.
Hypothesis Hs : no_nul serv.
Hypothesis Hlh : (length host < hm)%nat.
Hypothesis Hls : (length serv <= sm)%nat.
Hypothesis Hs0 : serv <> [].

Let lh := length host.
Let ls := length serv.

(* "host:serv" is what the in-place composition of to_string() yields for an IPv4 address *)
Theorem to_string_v4 : to_string_gen hm sm false host serv = host ++ COLON :: serv.
Proof.
  unfold to_string_gen. cbv zeta. cbn [Nat.add].
  (* the buffer after the two getnameinfo writes *)
  assert (E0 : repeat 0 (hm + sm + 3) = Zs lh ++ Zs (hm - lh) ++ [0] ++ Zs ls ++ Zs (sm + 2 - ls)).
  { rewrite <- !Zs_split. change [0] with (Zs 1). rewrite <- !Zs_split. f_equal. unfold lh, ls. lia. }
  assert (E1 : write_at (repeat 0 (hm + sm + 3)) 0 host = host ++ Zs (hm - lh) ++ [0] ++ Zs ls ++ Zs (sm + 2 - ls)).
  { rewrite write_at_spec by (rewrite repeat_length; unfold lh in *; lia). cbn [firstn app Nat.add].
    rewrite E0. f_equal. apply skipn_exact. now rewrite repeat_length. }
  rewrite E1.
  replace (hm + 1 + 0)%nat with (hm + 1)%nat by lia.
  assert (E2 : write_at (host ++ Zs (hm - lh) ++ [0] ++ Zs ls ++ Zs (sm + 2 - ls)) (hm + 1) serv
               = (host ++ Zs (hm - lh) ++ [0]) ++ serv ++ Zs (sm + 2 - ls)).
  { replace (host ++ Zs (hm - lh) ++ [0] ++ Zs ls ++ Zs (sm + 2 - ls)) with ((host ++ Zs (hm - lh) ++ [0]) ++ Zs ls ++ Zs (sm + 2 - ls))
      by (rewrite <- !app_assoc; reflexivity).
    set (pre := host ++ Zs (hm - lh) ++ [0]).
    assert (Lp : length pre = (hm + 1)%nat) by (unfold pre; rewrite !app_length, repeat_length; cbn [length]; unfold lh in *; lia).
    rewrite write_at_spec by (rewrite !app_length, !repeat_length, Lp; unfold ls in *; lia).
    rewrite (firstn_exact (hm + 1) pre _ (eq_sym Lp)). f_equal. f_equal.
    rewrite (app_assoc pre (Zs ls)). apply skipn_exact. rewrite app_length, repeat_length, Lp. reflexivity. }
  rewrite E2.
  assert (Hz : exists k, Zs (sm + 2 - ls) = 0 :: Zs k).
  { exists (sm + 1 - ls)%nat. replace (sm + 2 - ls)%nat with (S (sm + 1 - ls)) by (unfold ls in *; lia). reflexivity. }
  destruct Hz as [k Hk]. rewrite Hk.
  assert (Lpre : length (host ++ Zs (hm - lh) ++ [0]) = (hm + 1)%nat)
    by (rewrite !app_length, repeat_length; cbn [length]; unfold lh in *; lia).
  assert (EF : find_nul ((host ++ Zs (hm - lh) ++ [0]) ++ serv ++ 0 :: Zs k) (hm + 1) = (hm + 1 + ls)%nat).
  { rewrite <- Lpre. apply (find_nul_spec _ serv 0 _ Hs). }
  rewrite EF. unfold erase_from.
  assert (E3 : firstn (hm + 1 + ls) ((host ++ Zs (hm - lh) ++ [0]) ++ serv ++ 0 :: Zs k) = (host ++ Zs (hm - lh) ++ [0]) ++ serv).
  { set (pre := host ++ Zs (hm - lh) ++ [0]) in *. rewrite (app_assoc pre serv). apply firstn_exact. rewrite app_length, Lpre. reflexivity. }
  rewrite E3.
  (* the colon replaces the terminator of the host part *)
  replace (hm + 1 - 1)%nat with hm by lia.
  assert (E4 : set_at ((host ++ Zs (hm - lh) ++ [0]) ++ serv) hm COLON = (host ++ Zs (hm - lh)) ++ COLON :: serv).
  { replace ((host ++ Zs (hm - lh) ++ [0]) ++ serv) with ((host ++ Zs (hm - lh)) ++ [0] ++ serv) by (rewrite <- !app_assoc; reflexivity).
    set (hp := host ++ Zs (hm - lh)).
    assert (Lh : length hp = hm) by (unfold hp; rewrite app_length, repeat_length; unfold lh in *; lia).
    rewrite set_at_spec by (rewrite !app_length, Lh; cbn [length]; lia).
    rewrite (firstn_exact hm hp _ (eq_sym Lh)). f_equal. f_equal.
    change (hp ++ [0] ++ serv) with (hp ++ 0 :: serv).
    replace (S hm) with (length (hp ++ [0])) by (rewrite app_length, Lh; cbn [length]; lia).
    replace (hp ++ 0 :: serv) with ((hp ++ [0]) ++ serv) by (rewrite <- app_assoc; reflexivity).
    apply skipn_app_exact. }
  rewrite E4.
  (* the end of the host text *)
  assert (Hz2 : exists k2, Zs (hm - lh) = 0 :: Zs k2).
  { exists (hm - lh - 1)%nat. destruct (hm - lh)%nat as [|m] eqn:Em; [unfold lh in *; lia|]. cbn [repeat]. f_equal. f_equal. lia. }
  destruct Hz2 as [k2 Hk2].
  assert (E5 : find_nul ((host ++ Zs (hm - lh)) ++ COLON :: serv) 0 = lh).
  { rewrite Hk2. rewrite <- app_assoc. cbn [app].
    pose proof (find_nul_spec [] host 0 (Zs k2 ++ COLON :: serv) Hh) as F. cbn [app length Nat.add] in F. exact F. }
  rewrite E5. unfold erase_range.
  rewrite <- app_assoc. rewrite firstn_exact by reflexivity. f_equal.
  replace (lh + (hm - lh))%nat with (length (host ++ Zs (hm - lh))) by (rewrite app_length, repeat_length; unfold lh in *; lia).
  rewrite app_assoc. apply skipn_app_exact.
Qed.
End V4.

Lemma plain_no_nul host : forallb plain_char host = true -> no_nul host.
Proof.
  intros H. unfold no_nul. apply forallb_forall. intros c Hc. rewrite forallb_forall in H. specialize (H c Hc).
  apply negb_true_iff, Z.eqb_neq. intros ->. cbn in H. discriminate.
Qed.
Lemma digits_no_nul port : forallb is_digit port = true -> no_nul port.
Proof.
  intros H. unfold no_nul. apply forallb_forall. intros c Hc. rewrite forallb_forall in H. specialize (H c Hc).
  apply negb_true_iff, Z.eqb_neq. intros ->. cbn in H. discriminate.
Qed.

(* text round-trip for the IPv4 / host-name form: what to_string() composes from (host, service) parses back to exactly that
   host and service — for every plain host shorter than NI_MAXHOST and every in-range port text *)
Theorem text_round_trip_v4 : forall host port,
  forallb plain_char host = true -> host <> [] -> (length host < HOST_MAX)%nat ->
  forallb is_digit port = true -> port <> [] -> (length port <= SERV_MAX)%nat ->
  check_service_range port = None ->
  to_string_model false host port = host_port host port /\
  uri_dissect (to_string_model false host port) = DOk host port true.
Proof.
  intros host port Hh Hh0 Hlh Hp Hp0 Hlp Hr.
  assert (E : to_string_model false host port = host_port host port).
  { rewrite to_string_model_gen. apply to_string_v4; auto using plain_no_nul, digits_no_nul. }
  split; [exact E|]. rewrite E.
  refine (proj1 (uri_host_port_is_pair host port Hh Hh0 Hp Hp0 _ Hr Hlp)).
  unfold host_port. rewrite app_length. cbn [length]. unfold AUTHORITY_MAX, HOST_MAX, SERV_MAX in *. lia.
Qed.

Section V6.
Variables (hm sm : nat) (host serv : str).
Hypothesis Hh : no_nul host.
Hypothesis Hs : no_nul serv.
Hypothesis Hlh : (length host < hm)%nat.
Hypothesis Hls : (length serv < sm)%nat.

Let lh := length host.
Let ls := length serv.

(* "[host]:serv" is what the in-place composition of to_string() yields for an IPv6 address *)
Theorem to_string_v6 : to_string_gen hm sm true host serv = LBRACK :: host ++ RBRACK :: COLON :: serv.
Proof.
  unfold to_string_gen. cbv zeta.
  replace (hm + 1 + 2)%nat with (hm + 3)%nat by lia.
  (* the opening bracket *)
  assert (E0 : set_at (repeat 0 (hm + sm + 3)) 0 LBRACK = [LBRACK] ++ Zs lh ++ Zs (hm + 2 - lh) ++ Zs ls ++ Zs (sm - ls)).
  { replace (hm + sm + 3)%nat with (S (lh + ((hm + 2 - lh) + (ls + (sm - ls))))) by (unfold lh, ls in *; lia).
    cbn [repeat set_at app]. f_equal. now rewrite !Zs_split. }
  rewrite E0.
  (* host written behind it *)
  assert (E1 : write_at ([LBRACK] ++ Zs lh ++ Zs (hm + 2 - lh) ++ Zs ls ++ Zs (sm - ls)) 1 host
               = [LBRACK] ++ host ++ Zs (hm + 2 - lh) ++ Zs ls ++ Zs (sm - ls)).
  { set (rest := Zs (hm + 2 - lh) ++ Zs ls ++ Zs (sm - ls)).
    rewrite write_at_spec by (unfold rest; rewrite !app_length, !repeat_length; cbn [length]; unfold lh, ls in *; lia).
    replace ([LBRACK] ++ Zs lh ++ rest) with (([LBRACK] ++ Zs lh) ++ rest) by (rewrite <- app_assoc; reflexivity).
    assert (L : length ([LBRACK] ++ Zs lh) = (1 + length host)%nat) by (rewrite app_length, repeat_length; reflexivity).
    rewrite (skipn_exact (1 + length host) ([LBRACK] ++ Zs lh) rest (eq_sym L)).
    cbn [app firstn]. reflexivity. }
  rewrite E1.
  (* the service behind the host area *)
  set (pre := [LBRACK] ++ host ++ Zs (hm + 2 - lh)).
  assert (Lpre : length pre = (hm + 3)%nat) by (unfold pre; rewrite !app_length, repeat_length; cbn [length]; unfold lh in *; lia).
  assert (E2 : write_at ([LBRACK] ++ host ++ Zs (hm + 2 - lh) ++ Zs ls ++ Zs (sm - ls)) (hm + 3) serv = pre ++ serv ++ Zs (sm - ls)).
  { replace ([LBRACK] ++ host ++ Zs (hm + 2 - lh) ++ Zs ls ++ Zs (sm - ls)) with (pre ++ Zs ls ++ Zs (sm - ls))
      by (unfold pre; rewrite <- !app_assoc; reflexivity).
    rewrite write_at_spec by (rewrite !app_length, !repeat_length, Lpre; unfold ls in *; lia).
    rewrite (firstn_exact (hm + 3) pre _ (eq_sym Lpre)). f_equal. f_equal.
    rewrite (app_assoc pre (Zs ls)). apply skipn_exact. rewrite app_length, repeat_length, Lpre. reflexivity. }
  rewrite E2.
  assert (Hz : exists k, Zs (sm - ls) = 0 :: Zs k).
  { exists (sm - ls - 1)%nat. destruct (sm - ls)%nat as [|m] eqn:Em; [unfold ls in *; lia|]. cbn [repeat]. f_equal. f_equal. lia. }
  destruct Hz as [k Hk]. rewrite Hk.
  assert (EF : find_nul (pre ++ serv ++ 0 :: Zs k) (hm + 3) = (hm + 3 + ls)%nat).
  { rewrite <- Lpre. apply (find_nul_spec _ serv 0 _ Hs). }
  rewrite EF. unfold erase_from.
  assert (E3 : firstn (hm + 3 + ls) (pre ++ serv ++ 0 :: Zs k) = pre ++ serv).
  { rewrite (app_assoc pre serv). apply firstn_exact. rewrite app_length, Lpre. reflexivity. }
  rewrite E3.
  replace (hm + 3 - 1)%nat with (hm + 2)%nat by lia. replace (hm + 2 - 1)%nat with (hm + 1)%nat by lia.
  (* colon, then closing bracket, over the last two terminators of the host area *)
  assert (Hz2 : Zs (hm + 2 - lh) = Zs (hm - lh) ++ [0] ++ [0]).
  { replace (hm + 2 - lh)%nat with ((hm - lh) + (1 + 1))%nat by (unfold lh in *; lia). rewrite Zs_split. reflexivity. }
  set (hp := [LBRACK] ++ host ++ Zs (hm - lh)).
  assert (Lhp : length hp = (hm + 1)%nat) by (unfold hp; rewrite !app_length, repeat_length; cbn [length]; unfold lh in *; lia).
  assert (Epre : pre = hp ++ [0] ++ [0]) by (unfold pre, hp; rewrite Hz2, <- !app_assoc; reflexivity).
  assert (E4 : set_at (pre ++ serv) (hm + 2) COLON = hp ++ [0] ++ COLON :: serv).
  { rewrite Epre.
    replace ((hp ++ [0] ++ [0]) ++ serv) with ((hp ++ [0]) ++ [0] ++ serv) by (rewrite <- !app_assoc; reflexivity).
    assert (L1 : length (hp ++ [0]) = (hm + 2)%nat) by (rewrite app_length, Lhp; cbn [length]; lia).
    rewrite set_at_spec by (rewrite app_length, L1; cbn [length app]; lia).
    rewrite (firstn_exact (hm + 2) (hp ++ [0]) _ (eq_sym L1)). rewrite <- app_assoc. f_equal. f_equal. f_equal.
    replace (S (hm + 2)) with (length ((hp ++ [0]) ++ [0])) by (rewrite app_length, L1; cbn [length]; lia).
    replace ((hp ++ [0]) ++ [0] ++ serv) with (((hp ++ [0]) ++ [0]) ++ serv) by (rewrite <- !app_assoc; reflexivity).
    apply skipn_app_exact. }
  rewrite E4.
  assert (E5 : set_at (hp ++ [0] ++ COLON :: serv) (hm + 1) RBRACK = hp ++ RBRACK :: COLON :: serv).
  { rewrite set_at_spec by (rewrite app_length, Lhp; cbn [length app]; lia).
    rewrite (firstn_exact (hm + 1) hp _ (eq_sym Lhp)). f_equal. f_equal.
    replace (S (hm + 1)) with (length (hp ++ [0])) by (rewrite app_length, Lhp; cbn [length]; lia).
    replace (hp ++ [0] ++ COLON :: serv) with ((hp ++ [0]) ++ COLON :: serv) by (rewrite <- !app_assoc; reflexivity).
    apply skipn_app_exact. }
  rewrite E5.
  (* the end of the host text *)
  assert (Hz3 : exists k3, Zs (hm - lh) = 0 :: Zs k3).
  { exists (hm - lh - 1)%nat. destruct (hm - lh)%nat as [|m] eqn:Em; [unfold lh in *; lia|]. cbn [repeat]. f_equal. f_equal. lia. }
  destruct Hz3 as [k3 Hk3].
  assert (E6 : find_nul (hp ++ RBRACK :: COLON :: serv) 1 = (1 + lh)%nat).
  { unfold hp. rewrite Hk3. rewrite <- !app_assoc. cbn [app].
    pose proof (find_nul_spec [LBRACK] host 0 (Zs k3 ++ RBRACK :: COLON :: serv) Hh) as F. cbn [app length Nat.add] in F. exact F. }
  rewrite E6. unfold erase_range.
  replace (hm + 1 - (1 + lh))%nat with (hm - lh)%nat by lia.
  assert (F1 : firstn (1 + lh) (hp ++ RBRACK :: COLON :: serv) = LBRACK :: host).
  { unfold hp. replace (([LBRACK] ++ host ++ Zs (hm - lh)) ++ RBRACK :: COLON :: serv)
      with (([LBRACK] ++ host) ++ Zs (hm - lh) ++ RBRACK :: COLON :: serv) by (rewrite <- !app_assoc; reflexivity).
    apply firstn_exact. reflexivity. }
  assert (F2 : skipn (1 + lh + (hm - lh)) (hp ++ RBRACK :: COLON :: serv) = RBRACK :: COLON :: serv).
  { apply skipn_exact. rewrite Lhp. unfold lh in *. lia. }
  rewrite F1, F2. reflexivity.
Qed.
End V6.

(* text round-trip for the bracketed (IPv6) form *)
Theorem text_round_trip_v6 : forall h6 port,
  no_nul h6 -> forallb (fun c => negb (is_slash c)) h6 = true -> forallb (fun c => negb (is_newline c)) h6 = true ->
  (length h6 < HOST_MAX)%nat ->
  forallb is_digit port = true -> port <> [] -> (length port < SERV_MAX)%nat ->
  check_service_range port = None ->
  to_string_model true h6 port = bracket_port h6 port /\
  uri_dissect (to_string_model true h6 port) = DOk h6 port true.
Proof.
  intros h6 port Hn Hs Hnl Hl Hp Hp0 Hlp Hr.
  assert (E : to_string_model true h6 port = bracket_port h6 port).
  { rewrite to_string_model_gen. apply to_string_v6; auto using digits_no_nul. }
  split; [exact E|]. rewrite E.
  apply uri_bracket_port_is_pair; try assumption.
  unfold bracket_port. cbn [length]. rewrite app_length. cbn [length]. unfold AUTHORITY_MAX, HOST_MAX, SERV_MAX in *. lia.
Qed.
