(* Properties_C12.v — port fidelity of the Address constructors, for EVERY byte string.
   getaddrinfo parses a numeric service with strtoul (blanks, optional sign, digits) and silently reduces it modulo 65536;
   sockpuppet's part is to reject such a service before it gets there, in every position a service can be written. *)
From SP Require Import Base ListAux AddressModel AddressLemmas AddressSpelling AddressToString AddressScheme.
Local Open Scope Z_scope.

Lemma range_checked s : check_service_range s = None ->
  forall v, numeric_value (c_str s) = Some v -> 0 <= v <= 65535.
Proof.
  unfold check_service_range. intros H v Hv. rewrite Hv in H.
  destruct ((v <? -9223372036854775808) || (9223372036854775807 <? v)); [discriminate|].
  destruct ((v <? 0) || (65535 <? v)) eqn:E; [discriminate|].
  apply orb_false_iff in E. destruct E as [E1 E2]. apply Z.ltb_ge in E1, E2. lia.
Qed.

(* whatever URI is accepted: if the service text handed to getaddrinfo is numeric in strtoul's syntax (after the colon,
   or as the scheme), its value is a port number — never silently wrapped *)
Theorem no_silent_wrap_uri : forall uri host serv ns,
  uri_dissect uri = DOk host serv ns ->
  forall v, numeric_value (c_str serv) = Some v -> 0 <= v <= 65535.
Proof.
  intros uri host serv ns H v Hv. unfold uri_dissect in H. destruct uri as [|c0 u0]; [discriminate|].
  destruct (Nat.ltb AUTHORITY_MAX (length (trim_path (c0 :: u0)))); [discriminate|].
  destruct (re_serv (trim_path (c0 :: u0))) as [[scheme au]|]; [|discriminate].
  destruct (re_port au) as [[h p]|].
  - destruct (check_service_range p) eqn:Ec; [discriminate|]. inversion H; subst. eapply range_checked; eassumption.
  - unfold is_service_numeric in H. destruct (numeric_value (c_str scheme)) eqn:En.
    + destruct (check_service_range scheme) eqn:Ec; [discriminate|]. inversion H; subst. eapply range_checked; eassumption.
    + inversion H; subst. congruence.
Qed.

(* the same for the (host, service) constructor: sign, blanks and leading zeros included *)
Theorem no_silent_wrap_pair : forall host serv h s ns,
  hostserv_dissect host serv = DOk h s ns ->
  forall v, numeric_value (c_str s) = Some v -> 0 <= v <= 65535.
Proof.
  intros host serv h s ns H v Hv. unfold hostserv_dissect in H.
  destruct host as [|c0 h0]; [discriminate|]. destruct serv as [|c1 s1]; [discriminate|].
  destruct (Nat.ltb SERV_MAX (length (c1 :: s1))); [discriminate|].
  unfold is_service_numeric in H. destruct (numeric_value (c_str (c1 :: s1))) eqn:En.
  - destruct (check_service_range (c1 :: s1)) eqn:Ec; [discriminate|]. inversion H; subst. eapply range_checked; eassumption.
  - inversion H; subst. congruence.
Qed.

(* a service is handed to the resolver unchanged (no rewriting that could alter the port) *)
Theorem pair_service_unchanged : forall host serv h s ns,
  hostserv_dissect host serv = DOk h s ns -> h = host /\ s = serv /\ ns = false.
Proof.
  intros host serv h s ns H. unfold hostserv_dissect in H.
  destruct host as [|c0 h0]; [discriminate|]. destruct serv as [|c1 s1]; [discriminate|].
  destruct (Nat.ltb SERV_MAX (length (c1 :: s1))); [discriminate|].
  destruct (is_service_numeric (c1 :: s1)); [destruct (check_service_range (c1 :: s1)); [discriminate|]|]; inversion H; auto.
Qed.

(* Port() reads back what the encoding holds, for both families *)
Theorem port_of_encode4 : forall ip p, 0 <= p < 65536 -> port_of (encode4 ip p) = p.
Proof. exact AddressLemmas.port_of_encode4. Qed.
Theorem port_of_encode6 : forall ip p f s, 0 <= p < 65536 -> port_of (encode6 ip p f s) = p.
Proof. exact AddressLemmas.port_of_encode6. Qed.

(* spelling equivalence: "host:port" as a URI and (host, port) as a pair hand the same two texts to the resolver, for every
   plain host (letters, digits, '_', '.', '-') and every in-range port text; "[h]:port" hands (h, port) — the brackets are
   syntax, not part of the host *)
Theorem uri_host_port_is_pair : forall host port,
  forallb plain_char host = true -> host <> [] -> forallb is_digit port = true -> port <> [] ->
  (length (host_port host port) <= AUTHORITY_MAX)%nat ->
  check_service_range port = None -> (length port <= SERV_MAX)%nat ->
  uri_dissect (host_port host port) = DOk host port true /\ hostserv_dissect host port = DOk host port false.
Proof. exact AddressSpelling.uri_host_port_is_pair. Qed.

Theorem uri_bracket_port_is_pair : forall h6 port,
  forallb (fun c => negb (is_slash c)) h6 = true -> forallb (fun c => negb (is_newline c)) h6 = true ->
  forallb is_digit port = true -> port <> [] ->
  (length (bracket_port h6 port) <= AUTHORITY_MAX)%nat ->
  check_service_range port = None -> uri_dissect (bracket_port h6 port) = DOk h6 port true.
Proof. exact AddressSpelling.uri_bracket_port_is_pair. Qed.

(* text round-trip (host-name / IPv4 form): what to_string() composes in place from the host and service texts is "host:serv", and
   parsing that text hands exactly this host and service back to the resolver — for every plain host shorter than NI_MAXHOST and
   every in-range port text (the canonical texts themselves come from glibc's getnameinfo: observed by the correspondence) *)
Theorem text_round_trip_v4 : forall host port,
  forallb plain_char host = true -> host <> [] -> (length host < HOST_MAX)%nat ->
  forallb is_digit port = true -> port <> [] -> (length port <= SERV_MAX)%nat ->
  check_service_range port = None ->
  to_string_model false host port = host_port host port /\
  uri_dissect (to_string_model false host port) = DOk host port true.
Proof. exact AddressToString.text_round_trip_v4. Qed.

Theorem text_round_trip_v6 : forall h6 port,
  no_nul h6 -> forallb (fun c => negb (is_slash c)) h6 = true -> forallb (fun c => negb (is_newline c)) h6 = true ->
  (length h6 < HOST_MAX)%nat ->
  forallb is_digit port = true -> port <> [] -> (length port < SERV_MAX)%nat ->
  check_service_range port = None ->
  to_string_model true h6 port = bracket_port h6 port /\
  uri_dissect (to_string_model true h6 port) = DOk h6 port true.
Proof. exact AddressToString.text_round_trip_v6. Qed.

(* "name://host" with a service NAME (letters) as scheme and (host, name) as a pair hand the same two texts to the resolver *)
Theorem uri_scheme_host_is_pair : forall scheme host,
  forallb is_alpha scheme = true -> scheme <> [] -> forallb plain_char host = true -> host <> [] ->
  (length (scheme_host scheme host) <= AUTHORITY_MAX)%nat -> (length scheme <= SERV_MAX)%nat ->
  uri_dissect (scheme_host scheme host) = DOk host scheme false /\ hostserv_dissect host scheme = DOk host scheme false.
Proof. exact AddressScheme.uri_scheme_host_is_pair. Qed.

Example c12_nonvacuous :
  uri_dissect [57;57;57;57;57;58;47;47;49;46;50;46;51;46;52] = DExn (RuntimeErr 1) /\       (* "99999://1.2.3.4" *)
  hostserv_dissect [49;46;50;46;51;46;52] [32;43;57;57;57;57;57] = DExn (RuntimeErr 1) /\   (* ("1.2.3.4", " +99999") *)
  hostserv_dissect [49;46;50;46;51;46;52] [32;43;56;48] = DOk [49;46;50;46;51;46;52] [32;43;56;48] false /\
  uri_dissect [91;58;58;49;93;58;56;48;47;120] = DOk [58;58;49] [56;48] true /\         (* "[::1]:80/x" *)
  to_string_model true [58;58;49] [56;48] = [91;58;58;49;93;58;56;48].
Proof. vm_compute. repeat split; reflexivity. Qed.

Print Assumptions no_silent_wrap_uri.
Print Assumptions uri_host_port_is_pair.
Print Assumptions uri_bracket_port_is_pair.
Print Assumptions text_round_trip_v4.
Print Assumptions text_round_trip_v6.
Print Assumptions uri_scheme_host_is_pair.
Print Assumptions no_silent_wrap_pair.
Print Assumptions pair_service_unchanged.
Print Assumptions port_of_encode4.
Print Assumptions port_of_encode6.
