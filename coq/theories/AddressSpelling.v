(* AddressSpelling.v — spelling equivalences of address texts: different documented spellings hand the same host and
   service to the resolver (src/address_impl.cpp: ParseUri vs ParseHostServ). For EVERY plain host and EVERY port text. *)
From SP Require Import Base ListAux AddressModel AddressLemmas.
Local Open Scope Z_scope.

(* characters of a plain host name / IPv4 literal: letters, digits, '_', '.', '-' *)
Definition plain_char (c : Z) : bool := is_word c || (c =? 46) || (c =? 45).

Lemma plain_not_slash c : plain_char c = true -> is_slash c = false.
Proof.
  unfold plain_char, is_slash, is_word, is_digit, in_range, SLASH. intros H.
  destruct (c =? 47) eqn:E; [|reflexivity]. apply Z.eqb_eq in E. subst c. cbn in H. discriminate.
Qed.
Lemma plain_not_colon c : plain_char c = true -> (c =? COLON) = false.
Proof.
  unfold plain_char, is_word, is_digit, in_range, COLON. intros H.
  destruct (c =? 58) eqn:E; [|reflexivity]. apply Z.eqb_eq in E. subst c. cbn in H. discriminate.
Qed.
Lemma plain_not_newline c : plain_char c = true -> is_newline c = false.
Proof.
  unfold plain_char, is_newline, is_word, is_digit, in_range. intros H.
  destruct (c =? 10) eqn:E1; [apply Z.eqb_eq in E1; subst c; cbn in H; discriminate|].
  destruct (c =? 13) eqn:E2; [apply Z.eqb_eq in E2; subst c; cbn in H; discriminate|]. reflexivity.
Qed.
Lemma plain_not_lbrack c : plain_char c = true -> (c =? LBRACK) = false.
Proof.
  unfold plain_char, is_word, is_digit, in_range, LBRACK. intros H.
  destruct (c =? 91) eqn:E; [|reflexivity]. apply Z.eqb_eq in E. subst c. cbn in H. discriminate.
Qed.
Lemma digit_props c : is_digit c = true -> is_slash c = false /\ is_newline c = false /\ (c =? COLON) = false.
Proof.
  unfold is_digit, in_range, is_slash, is_newline, SLASH, COLON. intros H. apply andb_true_iff in H. destruct H as [H1 H2].
  apply Z.leb_le in H1. apply Z.leb_le in H2.
  repeat split.
  - apply Z.eqb_neq. lia.
  - apply orb_false_iff. split; apply Z.eqb_neq; lia.
  - apply Z.eqb_neq. lia.
Qed.

Lemma find_first_none p l idx : forallb (fun c => negb (p c)) l = true -> find_first p l idx = None.
Proof.
  revert idx. induction l as [|c t IH]; intros idx H; cbn in *; [reflexivity|].
  apply andb_true_iff in H. destruct H as [H1 H2]. apply negb_true_iff in H1. rewrite H1. now apply IH.
Qed.

Lemma take_while_all p l : forallb p l = true -> take_while p l = l.
Proof. induction l as [|c t IH]; cbn; intros H; [reflexivity|]. apply andb_true_iff in H. destruct H as [-> H]. now rewrite IH. Qed.

Lemma take_while_app_stop p a c b : forallb p a = true -> p c = false -> take_while p (a ++ c :: b) = a.
Proof.
  induction a as [|x t IH]; cbn; intros H Hc; [now rewrite Hc|].
  apply andb_true_iff in H. destruct H as [-> H]. now rewrite IH.
Qed.

Lemma forallb_app' {A} (p : A -> bool) a b : forallb p (a ++ b) = forallb p a && forallb p b.
Proof. apply forallb_app. Qed.

Lemma forallb_rev {A} (p : A -> bool) l : forallb p (rev l) = forallb p l.
Proof.
  induction l as [|c t IH]; cbn; [reflexivity|]. rewrite forallb_app, IH. cbn. rewrite andb_true_r. apply andb_comm.
Qed.

Definition host_port (host port : str) : str := host ++ COLON :: port.

Lemma hostserv_nonempty h sv : h <> [] -> sv <> [] ->
  hostserv_dissect h sv =
  if Nat.ltb SERV_MAX (length sv) then DExn (InvalidArg 4) else
  if is_service_numeric sv then match check_service_range sv with Some e => DExn e | None => DOk h sv false end
  else DOk h sv false.
Proof. intros Hh Hs. destruct h; [contradiction|]. destruct sv; [contradiction|]. reflexivity. Qed.

Lemma uri_nonempty x : x <> [] ->
  uri_dissect x =
  let t := trim_path x in
  if Nat.ltb AUTHORITY_MAX (length t) then DExn (InvalidArg 5) else
  match re_serv t with
  | None => DExn (LogicErr 10)
  | Some (scheme, au) =>
      match re_port au with
      | Some (host, port) => match check_service_range port with Some e => DExn e | None => DOk host port true end
      | None => if is_service_numeric scheme
                then match check_service_range scheme with Some e => DExn e | None => DOk au scheme false end
                else DOk au scheme false
      end
  end.
Proof. intros H. destruct x; [contradiction|]. reflexivity. Qed.

Section Spell.
Variables host port : str.
Hypothesis Hh : forallb plain_char host = true.
Hypothesis Hh0 : host <> [].
Hypothesis Hp : forallb is_digit port = true.
Hypothesis Hp0 : port <> [].
Hypothesis Hlen : (length (host_port host port) <= AUTHORITY_MAX)%nat.

Let u := host_port host port.

Lemma u_no_slash : forallb (fun c => negb (is_slash c)) u = true.
Proof.
  unfold u, host_port. rewrite forallb_app. cbn. apply andb_true_iff. split.
  - apply forallb_forall. intros c Hc. rewrite forallb_forall in Hh. now rewrite (plain_not_slash c (Hh c Hc)).
  - apply forallb_forall. intros c Hc. rewrite forallb_forall in Hp. now rewrite (proj1 (digit_props c (Hp c Hc))).
Qed.

Lemma u_no_newline : forallb (fun c => negb (is_newline c)) u = true.
Proof.
  unfold u, host_port. rewrite forallb_app. cbn. apply andb_true_iff. split.
  - apply forallb_forall. intros c Hc. rewrite forallb_forall in Hh. now rewrite (plain_not_newline c (Hh c Hc)).
  - apply forallb_forall. intros c Hc. rewrite forallb_forall in Hp. now rewrite (proj1 (proj2 (digit_props c (Hp c Hc)))).
Qed.

Lemma trim_path_u : trim_path u = u.
Proof. unfold trim_path, find_from. cbn [skipn]. now rewrite (find_first_none _ _ _ u_no_slash). Qed.


Lemma forallb_skipn {A} (p : A -> bool) n l : forallb p l = true -> forallb p (skipn n l) = true.
Proof.
  revert l. induction n as [|n IH]; intros l H; cbn; [assumption|]. destruct l as [|c t]; [reflexivity|].
  cbn in H. apply andb_true_iff in H. now apply IH.
Qed.

Lemma no_scheme_sep l : forallb (fun c => negb (is_slash c)) l = true -> starts_with [COLON; SLASH; SLASH] l = false.
Proof.
  intros H. unfold starts_with. destruct l as [|a [|b [|c t]]]; try reflexivity.
  cbn in H. apply andb_true_iff in H. destruct H as [_ H]. apply andb_true_iff in H. destruct H as [Hb _].
  apply negb_true_iff in Hb. unfold is_slash in Hb.
  cbn [length Nat.leb firstn combine forallb andb].
  replace (SLASH =? b) with (b =? SLASH) by apply Z.eqb_sym. rewrite Hb. cbn. now rewrite andb_false_r.
Qed.

Lemma re_serv_u : re_serv u = Some ([], u).
Proof.
  unfold re_serv. rewrite (no_scheme_sep _ (forallb_skipn _ _ _ u_no_slash)).
  unfold re_tail. cbn [skipn].
  assert (Hne : exists c t, u = c :: t /\ is_slash c = false).
  { unfold u, host_port. destruct host as [|c t]; [contradiction|]. exists c, (t ++ COLON :: port). split; [reflexivity|].
    cbn in Hh. apply andb_true_iff in Hh. now apply plain_not_slash. }
  destruct Hne as [c [t [Hu Hc]]]. rewrite Hu at 1. rewrite Hc.
  rewrite (take_while_all _ _ u_no_slash). rewrite skipn_all. cbn [forallb].
  f_equal. f_equal. unfold sub. cbn [skipn]. apply firstn_all.
Qed.

Lemma port_not_digit_colon : is_digit COLON = false.
Proof. reflexivity. Qed.

Lemma suffix_start_u : digit_suffix_start u = S (length host).
Proof.
  unfold digit_suffix_start, u, host_port. rewrite rev_app_distr. cbn [rev]. rewrite <- app_assoc. cbn [app].
  rewrite take_while_app_stop; [|now rewrite forallb_rev|reflexivity].
  rewrite rev_length, app_length. cbn [length]. lia.
Qed.

Lemma re_port_u : re_port u = Some (host, port).
Proof.
  unfold re_port. rewrite suffix_start_u.
  assert (Hn : length u = (length host + S (length port))%nat) by (unfold u, host_port; rewrite app_length; reflexivity).
  assert (Hpl : (0 < length port)%nat) by (destruct port; [contradiction|cbn; lia]).
  assert (Hhl : (0 < length host)%nat) by (destruct host; [contradiction|cbn; lia]).
  assert (Hlt : Nat.ltb (S (length host)) (length u) = true) by (apply Nat.ltb_lt; lia). rewrite Hlt.
  assert (H0 : (nth 0 u 0 =? LBRACK) = false).
  { unfold u, host_port. destruct host as [|c t]; [contradiction|]. cbn. cbn in Hh. apply andb_true_iff in Hh. now apply plain_not_lbrack. }
  rewrite H0. rewrite andb_false_r. cbn [andb].
  assert (H2 : Nat.leb 2 (S (length host)) = true) by (apply Nat.leb_le; lia). rewrite H2. cbn [andb].
  replace (S (length host) - 1)%nat with (length host) by lia.
  assert (Hc : nth (length host) u 0 = COLON).
  { unfold u, host_port. rewrite app_nth2 by lia. now rewrite Nat.sub_diag. }
  rewrite Hc, Z.eqb_refl. cbn [andb].
  assert (Hf : firstn (length host) u = host).
  { unfold u, host_port. rewrite firstn_app, Nat.sub_diag, firstn_all. cbn. apply app_nil_r. }
  rewrite Hf.
  assert (Hnc : forallb (fun c => negb (c =? COLON)) host = true).
  { apply forallb_forall. intros c Hin. rewrite forallb_forall in Hh. now rewrite (plain_not_colon c (Hh c Hin)). }
  rewrite Hnc. f_equal. f_equal.
  unfold u, host_port. rewrite skipn_app. rewrite skipn_all2 by lia. cbn [app].
  replace (S (length host) - length host)%nat with 1%nat by lia. reflexivity.
Qed.

Lemma c_str_digits : c_str port = port.
Proof.
  unfold c_str. apply take_while_all. apply forallb_forall. intros c Hc. rewrite forallb_forall in Hp.
  specialize (Hp c Hc). unfold is_digit, in_range in Hp. apply andb_true_iff in Hp. destruct Hp as [H1 _].
  apply Z.leb_le in H1. apply negb_true_iff, Z.eqb_neq. lia.
Qed.

Lemma digits_numeric : numeric_value port = Some (digits_value 0 port).
Proof.
  unfold numeric_value. destruct port as [|c t] eqn:E; [contradiction|].
  assert (Hd : is_digit c = true) by (cbn in Hp; apply andb_true_iff in Hp; tauto).
  assert (Hsp : is_space c = false).
  { unfold is_digit, in_range in Hd. apply andb_true_iff in Hd. destruct Hd as [H1 H2]. apply Z.leb_le in H1. apply Z.leb_le in H2.
    unfold is_space, in_range. apply orb_false_iff. split; [apply Z.eqb_neq; lia|]. apply andb_false_iff. right. apply Z.leb_gt. lia. }
  cbn [drop_while]. rewrite Hsp.
  assert (Hm : (c =? MINUS) = false).
  { unfold is_digit, in_range in Hd. apply andb_true_iff in Hd. destruct Hd as [H1 _]. apply Z.leb_le in H1. apply Z.eqb_neq. unfold MINUS. lia. }
  assert (Hpl : (c =? PLUS) = false).
  { unfold is_digit, in_range in Hd. apply andb_true_iff in Hd. destruct Hd as [H1 _]. apply Z.leb_le in H1. apply Z.eqb_neq. unfold PLUS. lia. }
  rewrite Hm, Hpl. rewrite Hp. reflexivity.
Qed.

(* "host:port" as a URI and (host, port) as a pair hand the same two texts to the resolver *)
Theorem uri_host_port_is_pair :
  check_service_range port = None -> (length port <= SERV_MAX)%nat ->
  uri_dissect u = DOk host port true /\ hostserv_dissect host port = DOk host port false.
Proof.
  intros Hr Hl. split.
  - assert (Hu : u <> []) by (unfold u, host_port; intros E; apply app_eq_nil in E; destruct E as [_ E]; discriminate).
    rewrite (uri_nonempty u Hu). cbv zeta. rewrite trim_path_u.
    assert (Hlt : Nat.ltb AUTHORITY_MAX (length u) = false) by (apply Nat.ltb_ge; exact Hlen). rewrite Hlt.
    rewrite re_serv_u, re_port_u, Hr. reflexivity.
  - rewrite (hostserv_nonempty host port Hh0 Hp0).
    assert (Hlt : Nat.ltb SERV_MAX (length port) = false) by (apply Nat.ltb_ge; exact Hl). rewrite Hlt.
    unfold is_service_numeric. rewrite c_str_digits, digits_numeric, Hr. reflexivity.
Qed.

End Spell.

(* ---- "[host]:port": the bracketed form used for IPv6 literals ---------------------------------------------------- *)
Definition bracket_port (h6 port : str) : str := LBRACK :: h6 ++ RBRACK :: COLON :: port.

Section Bracket.
Variables h6 port : str.
Hypothesis Hs : forallb (fun c => negb (is_slash c)) h6 = true.
Hypothesis Hn : forallb (fun c => negb (is_newline c)) h6 = true.
Hypothesis Hp : forallb is_digit port = true.
Hypothesis Hp0 : port <> [].
Hypothesis Hlen : (length (bracket_port h6 port) <= AUTHORITY_MAX)%nat.

Let u := bracket_port h6 port.

Lemma bu_no_slash : forallb (fun c => negb (is_slash c)) u = true.
Proof.
  unfold u, bracket_port. cbn [forallb]. rewrite forallb_app. cbn [forallb]. rewrite Hs. cbn.
  apply forallb_forall. intros c Hc. rewrite forallb_forall in Hp. now rewrite (proj1 (digit_props c (Hp c Hc))).
Qed.

Lemma b_trim : trim_path u = u.
Proof. unfold trim_path, find_from. cbn [skipn]. now rewrite (find_first_none _ _ _ bu_no_slash). Qed.

Lemma b_re_serv : re_serv u = Some ([], u).
Proof.
  unfold re_serv. replace (take_while is_word u) with (@nil Z) by reflexivity. cbn [length skipn].
  rewrite (no_scheme_sep _ bu_no_slash). unfold re_tail. cbn [skipn].
  unfold u at 1, bracket_port. replace (is_slash LBRACK) with false by reflexivity.
  fold (bracket_port h6 port). fold u.
  rewrite (take_while_all _ _ bu_no_slash). rewrite skipn_all. cbn [forallb].
  f_equal. f_equal. unfold sub. cbn [skipn]. apply firstn_all.
Qed.

Lemma b_suffix : digit_suffix_start u = (length h6 + 3)%nat.
Proof.
  unfold digit_suffix_start, u, bracket_port.
  replace (LBRACK :: h6 ++ RBRACK :: COLON :: port) with ((LBRACK :: h6 ++ [RBRACK]) ++ COLON :: port)
    by (cbn; rewrite <- app_assoc; reflexivity).
  rewrite rev_app_distr. cbn [rev]. rewrite <- app_assoc. cbn [app].
  rewrite take_while_app_stop; [|now rewrite forallb_rev|reflexivity].
  rewrite rev_length. cbn [length]. rewrite !app_length. cbn [length]. lia.
Qed.

Lemma b_re_port : re_port u = Some (h6, port).
Proof.
  unfold re_port. rewrite b_suffix.
  assert (Hlu : length u = (length h6 + 3 + length port)%nat).
  { unfold u, bracket_port. cbn [length]. rewrite app_length. cbn [length]. lia. }
  assert (Hpl : (0 < length port)%nat) by (destruct port; [contradiction|cbn; lia]).
  assert (Hlt : Nat.ltb (length h6 + 3) (length u) = true) by (apply Nat.ltb_lt; lia). rewrite Hlt.
  assert (H4 : Nat.leb 4 (length u) = true) by (apply Nat.leb_le; lia). rewrite H4.
  assert (H3 : Nat.leb 3 (length h6 + 3) = true) by (apply Nat.leb_le; lia). rewrite H3.
  assert (H0 : nth 0 u 0 = LBRACK) by reflexivity. rewrite H0, Z.eqb_refl.
  assert (Hc : nth (length h6 + 3 - 1) u 0 = COLON).
  { unfold u, bracket_port. replace (length h6 + 3 - 1)%nat with (S (length h6 + 1)) by lia. cbn [nth].
    rewrite app_nth2 by lia. replace (length h6 + 1 - length h6)%nat with 1%nat by lia. reflexivity. }
  rewrite Hc, Z.eqb_refl.
  assert (Hr : nth (length h6 + 3 - 2) u 0 = RBRACK).
  { unfold u, bracket_port. replace (length h6 + 3 - 2)%nat with (S (length h6)) by lia. cbn [nth].
    rewrite app_nth2 by lia. now rewrite Nat.sub_diag. }
  rewrite Hr, Z.eqb_refl. cbn [andb].
  assert (Hsub : sub u 1 (length h6 + 3 - 3) = h6).
  { unfold sub, u, bracket_port. cbn [skipn]. replace (length h6 + 3 - 3)%nat with (length h6) by lia.
    rewrite firstn_app, Nat.sub_diag, firstn_all. cbn. apply app_nil_r. }
  rewrite Hsub, Hn. f_equal. f_equal.
  unfold u, bracket_port. replace (length h6 + 3)%nat with (S (length h6 + 2)) by lia. cbn [skipn].
  rewrite skipn_app. rewrite skipn_all2 by lia. cbn [app].
  replace (length h6 + 2 - length h6)%nat with 2%nat by lia. reflexivity.
Qed.

(* "[h]:port" as a URI hands (h, port) to the resolver — the brackets are syntax, not part of the host *)
Theorem uri_bracket_port_is_pair :
  check_service_range port = None -> uri_dissect u = DOk h6 port true.
Proof.
  intros Hr. assert (Hu : u <> []) by discriminate.
  rewrite (uri_nonempty u Hu). cbv zeta. rewrite b_trim.
  assert (Hlt : Nat.ltb AUTHORITY_MAX (length u) = false) by (apply Nat.ltb_ge; exact Hlen). rewrite Hlt.
  rewrite b_re_serv, b_re_port, Hr. reflexivity.
Qed.
End Bracket.

