(* PoolLemmas.v — invariant of BufferPool and the facts C10 needs, for every operation history. *)
From SP Require Import Base ListAux PoolModel.
Local Open Scope Z_scope.

Definition ids (l : list buf) : list Z := map b_id l.
Definition all_bufs (p : pool) : list buf := p_busy p ++ p_idle p.

(* n = the maxCount the pool was created with, reserve = its reserveSize *)
Record Inv (n reserve : Z) (p : pool) : Prop := {
  inv_max   : p_max p = (n - 1) mod two64;
  inv_nodup : NoDup (ids (all_bufs p));
  inv_fresh : forall b, In b (all_bufs p) -> b_id b < p_next p;
  inv_count : 0 < n -> Z.of_nat (length (p_busy p)) + Z.of_nat (length (p_idle p)) = n;
  inv_cap   : 0 < n -> forall b, In b (all_bufs p) -> reserve <= b_cap b
}.

(* ---- prealloc -------------------------------------------------------------------------------- *)
Lemma prealloc_spec count : forall first reserve stack,
  (forall b, In b stack -> b_id b < first /\ reserve <= b_cap b) ->
  NoDup (ids stack) ->
  let r := prealloc count first reserve stack in
  length r = (count + length stack)%nat /\
  NoDup (ids r) /\
  (forall b, In b r -> b_id b < first + Z.of_nat count /\ reserve <= b_cap b).
Proof.
  induction count as [|k IH]; intros first reserve stack Hs Hnd; cbn [prealloc].
  - cbv zeta. split; [reflexivity|]. split; [assumption|]. intros b Hb. specialize (Hs b Hb). lia.
  - cbv zeta.
    set (nb := {| b_id := first; b_size := 0; b_cap := reserve |}).
    assert (Hs' : forall b, In b (nb :: stack) -> b_id b < first + 1 /\ reserve <= b_cap b).
    { intros b [<-|Hb]; cbn; [lia|]. specialize (Hs b Hb). lia. }
    assert (Hnd' : NoDup (ids (nb :: stack))).
    { cbn. constructor; [|assumption]. intro Hin. unfold ids in Hin. apply in_map_iff in Hin.
      destruct Hin as [b [Hid Hb]]. specialize (Hs b Hb). lia. }
    destruct (IH (first + 1) reserve (nb :: stack) Hs' Hnd') as [Hl [Hn Hb]].
    split; [rewrite Hl; cbn; lia|]. split; [assumption|].
    intros b Hin. specialize (Hb b Hin). lia.
Qed.

Lemma inv_new first n reserve : 0 <= n -> Inv n reserve (pool_new first n reserve).
Proof.
  intros Hn. unfold pool_new.
  destruct (prealloc_spec (Z.to_nat n) first reserve []) as [Hl [Hnd Hb]].
  { intros b []. } { constructor. }
  constructor; unfold all_bufs; cbn [p_max p_idle p_busy p_next app].
  - reflexivity.
  - assumption.
  - intros b Hin. specialize (Hb b Hin). lia.
  - intros _. rewrite Hl. cbn. lia.
  - intros _ b Hin. apply (Hb b Hin).
Qed.

(* ---- remove_id ------------------------------------------------------------------------------- *)
Lemma remove_id_spec id : forall l b l',
  remove_id id l = Some (b, l') ->
  b_id b = id /\ In b l /\ (forall x, In x l <-> x = b \/ In x l') /\
  length l = S (length l') /\
  (NoDup (ids l) -> NoDup (ids l') /\ ~ In id (ids l')).
Proof.
  induction l as [|h t IH]; intros b l' H; cbn in H; [discriminate|].
  destruct (b_id h =? id) eqn:E.
  - inversion H; subst. apply Z.eqb_eq in E. repeat split.
    + assumption.
    + now left.
    + intros [->|Hx]; [now left|now right].
    + intros [->|Hx]; [now left|now right].
    + inversion H0; assumption.
    + inversion H0; subst. assumption.
  - destruct (remove_id id t) as [[x t']|] eqn:R; [|discriminate].
    inversion H; subst. destruct (IH b t' eq_refl) as [Hid [Hin [Hiff [Hlen Hnd]]]].
    apply Z.eqb_neq in E. repeat split.
    + assumption.
    + now right.
    + intros [->|Hx]; [right; now left|]. apply Hiff in Hx. destruct Hx; [now left|right; now right].
    + intros [->|[->|Hx]]; [right; apply Hiff; now left|now left|right; apply Hiff; now right].
    + cbn. now rewrite Hlen.
    + inversion H0; subst. destruct (Hnd H4) as [Hn' Hni]. cbn. constructor; [|assumption].
      intro Hc. apply H3. unfold ids in *. apply in_map_iff in Hc. destruct Hc as [y [Hy Hiny]].
      apply in_map_iff. exists y. split; [assumption|]. apply Hiff. now right.
    + inversion H0; subst. destruct (Hnd H4) as [Hn' Hni]. cbn. intros [Hc|Hc]; [lia|contradiction].
Qed.

Lemma remove_id_none id : forall l, remove_id id l = None -> ~ In id (ids l).
Proof.
  induction l as [|h t IH]; cbn; intros H; [tauto|].
  destruct (b_id h =? id) eqn:E; [discriminate|].
  destruct (remove_id id t) as [[x t']|]; [discriminate|].
  apply Z.eqb_neq in E. intros [Hc|Hc]; [lia|]. now apply IH.
Qed.

Lemma remove_id_in id : forall l, In id (ids l) -> exists b l', remove_id id l = Some (b, l').
Proof.
  intros l Hin. destruct (remove_id id l) as [[b l']|] eqn:E; [eauto|].
  exfalso. now apply (remove_id_none id l).
Qed.

(* ---- one-step facts -------------------------------------------------------------------------- *)
Lemma ids_app a b : ids (a ++ b) = ids a ++ ids b.
Proof. unfold ids. apply map_app. Qed.

Lemma get_inv n reserve p r p' :
  Inv n reserve p -> pool_get p = (r, p') -> Inv n reserve p'.
Proof.
  intros I H. unfold pool_get in H. destruct (p_idle p) as [|b rest] eqn:Ei.
  - destruct (Z.of_nat (length (p_busy p)) <=? p_max p) eqn:El; inversion H; subst; [|assumption].
    apply Z.leb_le in El.
    assert (Hn0 : ~ 0 < n).
    { intro Hn. pose proof (inv_count _ _ _ I Hn) as Hc. rewrite Ei in Hc. cbn in Hc.
      rewrite (inv_max _ _ _ I) in El.
      assert (Hm := Z.mod_pos_bound (n - 1) two64 ltac:(unfold two64; lia)).
      destruct (Z_lt_ge_dec (n - 1) two64) as [Hs|Hs].
      - rewrite Z.mod_small in El by lia. lia.
      - lia. }
    constructor; unfold all_bufs; cbn [p_max p_idle p_busy p_next].
    + apply (inv_max _ _ _ I).
    + rewrite app_nil_r. rewrite ids_app. cbn.
      pose proof (inv_nodup _ _ _ I) as Hnd. unfold all_bufs in Hnd. rewrite Ei, app_nil_r in Hnd.
      apply NoDup_app_iff. split; [assumption|]. split; [repeat constructor; intros []|].
      intros x Hx [Hc|[]]. subst x. unfold ids in Hx. apply in_map_iff in Hx. destruct Hx as [y [Hy Hiny]].
      assert (Hf := inv_fresh _ _ _ I y). unfold all_bufs in Hf. rewrite Ei, app_nil_r in Hf.
      specialize (Hf Hiny). lia.
    + intros x Hx. rewrite app_nil_r in Hx. apply in_app_or in Hx. destruct Hx as [Hx|[<-|[]]]; cbn; [|lia].
      assert (Hf := inv_fresh _ _ _ I x). unfold all_bufs in Hf. rewrite Ei, app_nil_r in Hf.
      specialize (Hf Hx). lia.
    + intros Hn. contradiction.
    + intros Hn. contradiction.
  - inversion H; subst. clear H.
    set (b' := {| b_id := b_id b; b_size := 0; b_cap := b_cap b |}).
    assert (Hperm : forall x, In x (all_bufs p) <-> (x = b \/ In x (p_busy p) \/ In x rest)).
    { intros x. unfold all_bufs. rewrite Ei. rewrite in_app_iff. cbn. intuition. }
    constructor; unfold all_bufs; cbn [p_max p_idle p_busy p_next].
    + apply (inv_max _ _ _ I).
    + pose proof (inv_nodup _ _ _ I) as Hnd. unfold all_bufs in Hnd. rewrite Ei in Hnd.
      rewrite ids_app in Hnd. cbn in Hnd. rewrite !ids_app. cbn. rewrite <- app_assoc. cbn.
      exact Hnd.
    + intros x Hx. rewrite <- app_assoc in Hx. cbn in Hx. apply in_app_or in Hx.
      destruct Hx as [Hx|[<-|Hx]].
      * apply (inv_fresh _ _ _ I). apply Hperm. tauto.
      * cbn. apply (inv_fresh _ _ _ I b). apply Hperm. tauto.
      * apply (inv_fresh _ _ _ I). apply Hperm. tauto.
    + intros Hn. pose proof (inv_count _ _ _ I Hn) as Hc. rewrite Ei in Hc. cbn [length] in Hc.
      rewrite app_length. cbn [length]. lia.
    + intros Hn x Hx. rewrite <- app_assoc in Hx. cbn in Hx. apply in_app_or in Hx.
      destruct Hx as [Hx|[<-|Hx]].
      * apply (inv_cap _ _ _ I Hn). apply Hperm. tauto.
      * cbn. apply (inv_cap _ _ _ I Hn b). apply Hperm. tauto.
      * apply (inv_cap _ _ _ I Hn). apply Hperm. tauto.
Qed.

Lemma recycle_inv n reserve p id r p' :
  Inv n reserve p -> pool_recycle p id = (r, p') -> Inv n reserve p'.
Proof.
  intros I H. unfold pool_recycle in H.
  destruct (remove_id id (p_busy p)) as [[b busy']|] eqn:R; inversion H; subst; [|assumption].
  destruct (remove_id_spec _ _ _ _ R) as [Hid [Hin [Hiff [Hlen Hnd]]]].
  assert (Hperm : forall x, In x (busy' ++ b :: p_idle p) <-> In x (all_bufs p)).
  { intros x. unfold all_bufs. rewrite !in_app_iff. cbn. rewrite (Hiff x). intuition. }
  constructor; unfold all_bufs; cbn [p_max p_idle p_busy p_next].
  - apply (inv_max _ _ _ I).
  - pose proof (inv_nodup _ _ _ I) as Hn. unfold all_bufs in Hn. rewrite ids_app in Hn.
    rewrite ids_app. cbn.
    apply NoDup_app_iff in Hn. destruct Hn as [Hbusy [Hidle Hdisj]].
    destruct (Hnd Hbusy) as [Hnb' Hnotin].
    assert (Hsub : forall x, In x (ids busy') -> In x (ids (p_busy p))).
    { intros x Hx. unfold ids in *. apply in_map_iff in Hx. destruct Hx as [y [Hy Hiny]]. apply in_map_iff.
      exists y. split; [assumption|]. apply Hiff. now right. }
    assert (Hib : In (b_id b) (ids (p_busy p))) by (unfold ids; apply in_map; assumption).
    apply NoDup_app_iff. split; [assumption|]. split.
    + constructor; [|assumption]. intro Hc. apply (Hdisj _ Hib Hc).
    + intros x Hx [Hc|Hc].
      * subst x. rewrite Hid in Hx. contradiction.
      * apply (Hdisj x (Hsub x Hx) Hc).
  - intros x Hx. apply (inv_fresh _ _ _ I). now apply Hperm.
  - intros Hn. pose proof (inv_count _ _ _ I Hn) as Hc. rewrite Hlen in Hc. cbn [length]. lia.
  - intros Hn x Hx. apply (inv_cap _ _ _ I Hn). now apply Hperm.
Qed.

Lemma set_size_ids id n l : ids (set_size id n l) = ids l.
Proof.
  unfold ids. induction l as [|h t IH]; cbn; [reflexivity|].
  destruct (b_id h =? id) eqn:E; cbn; [apply Z.eqb_eq in E; now rewrite E|now rewrite IH].
Qed.

Lemma set_size_length id n l : length (set_size id n l) = length l.
Proof. induction l as [|h t IH]; cbn; [reflexivity|]. destruct (b_id h =? id); cbn; congruence. Qed.

Lemma set_size_in id n l x : In x (set_size id n l) ->
  exists y, In y l /\ b_id x = b_id y /\ b_cap y <= b_cap x.
Proof.
  induction l as [|h t IH]; cbn; [tauto|].
  destruct (b_id h =? id) eqn:E; cbn.
  - apply Z.eqb_eq in E. intros [<-|Hx].
    + exists h. cbn. split; [now left|]. split; [now rewrite E|lia].
    + exists x. split; [now right|]. split; [reflexivity|lia].
  - intros [<-|Hx].
    + exists h. split; [now left|]. split; [reflexivity|lia].
    + destruct (IH Hx) as [y [Hy H]]. exists y. split; [now right|assumption].
Qed.

Lemma resize_inv n reserve p id k : Inv n reserve p -> Inv n reserve (pool_resize p id k).
Proof.
  intros I. constructor; unfold all_bufs; cbn [pool_resize p_max p_idle p_busy p_next].
  - apply (inv_max _ _ _ I).
  - rewrite ids_app, set_size_ids, <- ids_app. apply (inv_nodup _ _ _ I).
  - intros x Hx. apply in_app_or in Hx. destruct Hx as [Hx|Hx].
    + destruct (set_size_in _ _ _ _ Hx) as [y [Hy [He _]]]. rewrite He.
      apply (inv_fresh _ _ _ I). unfold all_bufs. apply in_or_app. now left.
    + apply (inv_fresh _ _ _ I). unfold all_bufs. apply in_or_app. now right.
  - intros Hn. rewrite set_size_length. apply (inv_count _ _ _ I Hn).
  - intros Hn x Hx. apply in_app_or in Hx. destruct Hx as [Hx|Hx].
    + destruct (set_size_in _ _ _ _ Hx) as [y [Hy [_ Hc]]].
      assert (reserve <= b_cap y); [|lia].
      apply (inv_cap _ _ _ I Hn). unfold all_bufs. apply in_or_app. now left.
    + apply (inv_cap _ _ _ I Hn). unfold all_bufs. apply in_or_app. now right.
Qed.

Lemma step_inv n reserve p o : Inv n reserve p -> Inv n reserve (fst (pool_step p o)).
Proof.
  intros I. destruct o as [|id|id k]; cbn [pool_step].
  - destruct (pool_get p) as [r p'] eqn:E. pose proof (get_inv _ _ _ _ _ I E).
    destruct r; cbn; assumption.
  - destruct (pool_recycle p id) as [r p'] eqn:E. pose proof (recycle_inv _ _ _ _ _ _ I E).
    destruct r; cbn; assumption.
  - cbn. now apply resize_inv.
Qed.

Lemma run_fst p ops : forall o, fst (pool_run p (o :: ops)) = fst (pool_run (fst (pool_step p o)) ops).
Proof.
  intros o. cbn [pool_run]. destruct (pool_step p o) as [p1 out]. cbn [fst].
  destruct (pool_run p1 ops) as [p2 outs]. reflexivity.
Qed.

(* every reachable state *)
Lemma run_inv n reserve ops : forall p, Inv n reserve p -> Inv n reserve (fst (pool_run p ops)).
Proof.
  induction ops as [|o t IH]; intros p I; [exact I|].
  rewrite run_fst. apply IH. now apply step_inv.
Qed.

(* ---- the facts of C10 ------------------------------------------------------------------------ *)
Lemma limit n reserve p : Inv n reserve p -> 0 < n -> Z.of_nat (length (p_busy p)) <= n.
Proof. intros I Hn. pose proof (inv_count _ _ _ I Hn). lia. Qed.

Lemma refuse_unchanged n reserve p :
  Inv n reserve p -> 0 < n -> n < two64 -> Z.of_nat (length (p_busy p)) = n ->
  pool_get p = (Exn OutOfBuffers, p).
Proof.
  intros I Hn Hb Hl. pose proof (inv_count _ _ _ I Hn) as Hc.
  assert (Hi : p_idle p = []) by (destruct (p_idle p); [reflexivity|cbn in Hc; lia]).
  unfold pool_get. rewrite Hi, (inv_max _ _ _ I), Z.mod_small by (unfold two64 in *; lia).
  destruct (Z.of_nat (length (p_busy p)) <=? n - 1) eqn:E; [apply Z.leb_le in E; lia|reflexivity].
Qed.

Lemma grant_below_limit n reserve p :
  Inv n reserve p -> 0 < n -> Z.of_nat (length (p_busy p)) < n ->
  exists b p', pool_get p = (Ok b, p').
Proof.
  intros I Hn Hl. pose proof (inv_count _ _ _ I Hn) as Hc.
  unfold pool_get. destruct (p_idle p) as [|b rest]; [cbn in Hc; lia|eauto].
Qed.

Lemma unlimited_never_refuses reserve p :
  Inv 0 reserve p -> Z.of_nat (length (p_busy p)) < two64 -> exists b p', pool_get p = (Ok b, p').
Proof.
  intros I Hl. unfold pool_get. destruct (p_idle p) as [|b rest]; [|eauto].
  rewrite (inv_max _ _ _ I). replace ((0 - 1) mod two64) with (two64 - 1) by reflexivity.
  destruct (Z.of_nat (length (p_busy p)) <=? two64 - 1) eqn:E; [eauto|apply Z.leb_gt in E; lia].
Qed.

Lemma get_empty p b p' : pool_get p = (Ok b, p') -> b_size b = 0.
Proof.
  unfold pool_get. destruct (p_idle p); [destruct (_ <=? _)|]; intros H; inversion H; reflexivity.
Qed.

Lemma get_distinct n reserve p b p' :
  Inv n reserve p -> pool_get p = (Ok b, p') -> ~ In (b_id b) (ids (p_busy p)) /\ In b (p_busy p').
Proof.
  intros I H. unfold pool_get in H. destruct (p_idle p) as [|h rest] eqn:Ei.
  - destruct (_ <=? _); inversion H; subst; cbn. split; [|apply in_or_app; right; now left].
    intro Hc. unfold ids in Hc. apply in_map_iff in Hc. destruct Hc as [y [Hy Hiny]].
    assert (Hf := inv_fresh _ _ _ I y). unfold all_bufs in Hf.
    specialize (Hf (in_or_app _ _ _ (or_introl Hiny))). lia.
  - inversion H; subst; cbn. split; [|apply in_or_app; right; now left].
    pose proof (inv_nodup _ _ _ I) as Hnd. unfold all_bufs in Hnd. rewrite Ei, ids_app in Hnd. cbn in Hnd.
    apply NoDup_remove_2 in Hnd. intro Hc. apply Hnd. apply in_or_app. now left.
Qed.

Lemma get_reserved n reserve p b p' :
  Inv n reserve p -> 0 < n -> pool_get p = (Ok b, p') -> reserve <= b_cap b.
Proof.
  intros I Hn H. pose proof (get_inv _ _ _ _ _ I H) as I'.
  apply (inv_cap _ _ _ I' Hn). unfold all_bufs. apply in_or_app. left.
  apply (get_distinct _ _ _ _ _ I H).
Qed.

Lemma no_alloc_while_idle p r p' :
  p_idle p <> [] -> pool_get p = (r, p') ->
  p_next p' = p_next p /\ exists b, r = Ok b /\ In (b_id b) (ids (p_idle p)).
Proof.
  intros Hi H. unfold pool_get in H. destruct (p_idle p) as [|h rest]; [contradiction|].
  inversion H; subst; cbn. split; [reflexivity|]. eexists. split; [reflexivity|]. cbn. now left.
Qed.

Lemma recycle_reuses_same p id p1 :
  pool_recycle p id = (Ok tt, p1) ->
  exists b, In b (p_busy p) /\ b_id b = id /\
  exists p2, pool_get p1 = (Ok {| b_id := id; b_size := 0; b_cap := b_cap b |}, p2).
Proof.
  unfold pool_recycle. destruct (remove_id id (p_busy p)) as [[b busy']|] eqn:R; intros H; inversion H; subst.
  destruct (remove_id_spec _ _ _ _ R) as [Hid [Hin _]].
  exists b. split; [assumption|]. split; [assumption|]. unfold pool_get. cbn. rewrite Hid. eauto.
Qed.

Lemma recycle_outstanding_ok p id :
  In id (ids (p_busy p)) -> exists p', pool_recycle p id = (Ok tt, p').
Proof.
  intros Hin. destruct (remove_id_in _ _ Hin) as [b [l' R]]. unfold pool_recycle. rewrite R. eauto.
Qed.
