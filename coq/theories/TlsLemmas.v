(* TlsLemmas.v — facts about the TLS glue (TlsModel.v) for every engine script and every oracle script. *)
From SP Require Import Base ListAux Os OsLemmas WaitModel WaitLemmas SocketModel SocketLemmas Objects DriverModel TlsModel.
Local Open Scope Z_scope.

Local Notation os := (os ext).

(* ---- operations that leave the trace alone ---------------------------------------------------------------------- *)
Definition quiet {A} (m : MX A) : Prop := forall (s : os) r s', m s = (r, s') -> o_trace s' = o_trace s.

Lemma quiet_ret {A} (a : A) : quiet (ret a).
Proof. intros s r s' H. inversion H. reflexivity. Qed.
Lemma quiet_get_ext : quiet (get_ext (X:=ext)).
Proof. intros s r s' H. inversion H. reflexivity. Qed.
Lemma quiet_put_ext x : quiet (put_ext x).
Proof. intros s r s' H. inversion H. reflexivity. Qed.
Lemma quiet_bind {A B} (m : MX A) (f : A -> MX B) : quiet m -> (forall a, quiet (f a)) -> quiet (bind m f).
Proof.
  intros Hm Hf s r s' H. apply bind_inv in H. destruct H as [[a [s1 [H1 H2]]]|[r0 [H1 _]]].
  - rewrite (Hf a _ _ _ H2). apply (Hm _ _ _ H1).
  - apply (Hm _ _ _ H1).
Qed.
Lemma quiet_get_tls k : quiet (get_tls k).
Proof.
  apply quiet_bind; [apply quiet_get_ext|]. intros x. destruct (aget k (x_tls x)) as [t0|]; intros s r s' H; inversion H; reflexivity.
Qed.
Lemma quiet_put_tls k t : quiet (put_tls k t).
Proof. apply quiet_bind; [apply quiet_get_ext|]. intros x. apply quiet_put_ext. Qed.
Lemma quiet_upd_tls k f : quiet (upd_tls k f).
Proof. apply quiet_bind; [apply quiet_get_tls|]. intros t. apply quiet_put_tls. Qed.
Lemma quiet_get_sock k : quiet (get_sock k).
Proof.
  apply quiet_bind; [apply quiet_get_ext|]. intros x. destruct (aget k (x_socks x)) as [sk|]; intros s r s' H; inversion H; reflexivity.
Qed.

(* ---- outside the engine the glue only waits ------------------------------------------------------------------------ *)
Definition waits_only {A} (m : MX A) : Prop :=
  forall (s : os) r s', m s = (r, s') -> exists new, extends s s' new /\ only_wait_entries new.

Lemma waits_of_quiet {A} (m : MX A) : quiet m -> waits_only m.
Proof. intros Hq s r s' H. exists []. split; [unfold extends; now rewrite (Hq _ _ _ H)|constructor]. Qed.

Lemma waits_bind {A B} (m : MX A) (f : A -> MX B) : waits_only m -> (forall a, waits_only (f a)) -> waits_only (bind m f).
Proof.
  intros Hm Hf s r s' H. apply bind_inv in H. destruct H as [[a [s1 [H1 H2]]]|[r0 [H1 _]]].
  - destruct (Hm _ _ _ H1) as [n1 [X1 O1]]. destruct (Hf a _ _ _ H2) as [n2 [X2 O2]].
    exists (n2 ++ n1). split; [eapply extends_trans; eassumption|apply only_wait_app; split; assumption].
  - apply (Hm _ _ _ H1).
Qed.

Lemma waits_sys_now : waits_only (sys_now (X:=ext)).
Proof.
  intros s r s' H. apply sys_now_inv in H. destruct H as [[dt [sc [Hs [_ ->]]]]|[_ ->]].
  - exists [(K_NOW, [o_now s + dt])]. split; [apply upd_extends|]. constructor; [right; reflexivity|constructor].
  - exists []. split; [apply extends_refl|constructor].
Qed.

Lemma waits_dl_new t : waits_only (dl_new (X:=ext) t).
Proof. unfold dl_new. apply waits_bind; [apply waits_sys_now|]. intros a. apply waits_of_quiet, quiet_ret. Qed.
Lemma waits_dl_tick d : waits_only (dl_tick (X:=ext) d).
Proof. unfold dl_tick. apply waits_bind; [apply waits_sys_now|]. intros a. apply waits_of_quiet, quiet_ret. Qed.

Lemma waits_wait_fd fd ev T : waits_only (wait_fd (X:=ext) fd ev T).
Proof.
  intros s r s' H. destruct (wait_fd_spec _ _ _ _ _ _ H) as [new W]. exists new. split; [apply W|apply W].
Qed.

Lemma waits_under_deadline {A} k (fn : Z -> MX A) : (forall t, waits_only (fn t)) -> waits_only (under_deadline k fn).
Proof.
  intros Hf. unfold under_deadline. apply waits_bind; [apply waits_of_quiet, quiet_get_tls|]. intros t.
  destruct (t_rem t <=? 0); [apply Hf|].
  apply waits_bind; [apply waits_dl_new|]. intros d.
  apply waits_bind; [apply Hf|]. intros r.
  apply waits_bind; [apply waits_dl_tick|]. intros d'.
  apply waits_bind; [apply waits_of_quiet, quiet_upd_tls|]. intros _. apply waits_of_quiet, quiet_ret.
Qed.

Lemma waits_set_timeout k T : waits_only (tls_set_timeout k T).
Proof.
  unfold tls_set_timeout. apply waits_bind; [apply waits_of_quiet, quiet_upd_tls|]. intros _.
  destruct (0 <? T); [|apply waits_of_quiet, quiet_ret].
  apply waits_bind; [apply waits_sys_now|]. intros now. apply waits_of_quiet, quiet_upd_tls.
Qed.

Lemma waits_throw {A} e : waits_only (throw (X:=ext) (A:=A) e).
Proof. intros s r s' H. inversion H. exists []. split; [apply extends_refl|constructor]. Qed.
Lemma waits_stuck {A} u : waits_only (stuck (X:=ext) (A:=A) u).
Proof. intros s r s' H. inversion H. exists []. split; [apply extends_refl|constructor]. Qed.

Lemma handle_error_waits k err : waits_only (handle_error k err).
Proof.
  unfold handle_error. apply waits_bind; [apply waits_of_quiet, quiet_get_sock|]. intros sk.
  destruct (err =? E_NONE); [apply waits_of_quiet, quiet_ret|].
  destruct (err =? E_WANT_READ); [apply waits_under_deadline; intros t; apply waits_wait_fd|].
  destruct (err =? E_WANT_WRITE); [apply waits_under_deadline; intros t; apply waits_wait_fd|].
  destruct (err =? E_SSL); [apply waits_throw|].
  destruct (err =? E_SYSCALL); [apply waits_throw|].
  destruct (err =? E_ZERO_RETURN); [apply waits_throw|apply waits_stuck].
Qed.

Lemma handle_last_error_waits k : waits_only (handle_last_error k).
Proof.
  unfold handle_last_error. apply waits_bind; [apply waits_of_quiet, quiet_get_tls|]. intros t.
  apply waits_bind; [apply handle_error_waits|]. intros ok. destruct ok.
  - apply waits_bind; [apply waits_of_quiet, quiet_upd_tls|]. intros _. apply waits_of_quiet, quiet_ret.
  - apply waits_of_quiet, quiet_ret.
Qed.

Lemma handle_result_waits k err : waits_only (handle_result k err).
Proof.
  unfold handle_result. apply waits_bind; [apply waits_of_quiet, quiet_upd_tls|]. intros _. apply handle_last_error_waits.
Qed.

(* ---- what a completed engine call leaves in the trace --------------------------------------------------------- *)
Lemma emit_inv c a (s : os) r s' : emit c a s = (r, s') -> r = Ok tt /\ o_trace s' = (c, a) :: o_trace s.
Proof. intros H. inversion H. split; reflexivity. Qed.

Lemma engine_ok k call size (s : os) res err s' :
  engine k call size s = (Ok (res, err), s') ->
  exists init tl, o_trace s' = (K_ENG, [call; size; res; err; init]) :: tl.
Proof.
  unfold engine. intros H. apply bind_inv in H. destruct H as [[[] [s1 [_ H]]]|[r0 [_ [_ Hr]]]]; [|exfalso; exact (recast_not_ok _ _ Hr)].
  apply bind_inv in H. destruct H as [[[] [s1' [_ H]]]|[r0 [_ [_ Hr]]]]; [|exfalso; exact (recast_not_ok _ _ Hr)].
  apply bind_inv in H. destruct H as [[x [s2 [_ H]]]|[r0 [_ [_ Hr]]]]; [|exfalso; exact (recast_not_ok _ _ Hr)].
  destruct (x_eng x) as [|[c args] tl]; [inversion H|].
  destruct (c =? 8) eqn:Ec; [apply Z.eqb_eq in Ec; subst c|].
  2:{ destruct c; try (inversion H; fail). all: repeat (match goal with p : positive |- _ => destruct p; try (inversion H; fail) end). all: try discriminate. }
  destruct args as [|call' [|nbio rest]]; try (inversion H; fail).
  destruct (negb (call' =? call)); [inversion H|].
  apply bind_inv in H. destruct H as [[[] [s3 [_ H]]]|[r0 [_ [_ Hr]]]]; [|exfalso; exact (recast_not_ok _ _ Hr)].
  apply bind_inv in H. destruct H as [[st [s4 [_ H]]]|[r0 [_ [_ Hr]]]]; [|exfalso; exact (recast_not_ok _ _ Hr)].
  destruct (negb (st =? 0)).
  - apply bind_inv in H. destruct H as [[[] [s5 [H1 H2]]]|[r0 [_ [_ Hr]]]]; [|exfalso; exact (recast_not_ok _ _ Hr)].
    apply emit_inv in H1. destruct H1 as [_ Ht]. inversion H2; subst. exists (-1), (o_trace s4). exact Ht.
  - apply bind_inv in H. destruct H as [[[] [s5 [_ H]]]|[r0 [_ [_ Hr]]]]; [|exfalso; exact (recast_not_ok _ _ Hr)].
    apply bind_inv in H. destruct H as [[[] [s6 [H1 H2]]]|[r0 [_ [_ Hr]]]]; [|exfalso; exact (recast_not_ok _ _ Hr)].
    apply emit_inv in H1. destruct H1 as [_ Ht]. inversion H2; subst. eexists _, (o_trace s5). exact Ht.
Qed.

(* Read: a positive count is what the engine's SSL_read returned last — nothing is delivered that the engine did not
   hand out (in particular nothing before the engine completed the handshake, nothing from a non-TLS peer) *)
Lemma read_loop_delivers fuel k size : forall (s : os) n s',
  read_loop fuel k size s = (Ok n, s') -> 0 < n ->
  exists err init tl, o_trace s' = (K_ENG, [1; size; n; err; init]) :: tl.
Proof.
  induction fuel as [|f IH]; intros s n s' H Hn; cbn [read_loop] in H.
  - inversion H; subst. lia.
  - apply bind_inv in H. destruct H as [[[res err] [s1 [H1 H2]]]|[r0 [_ [_ Hr]]]]; [|exfalso; exact (recast_not_ok _ _ Hr)].
    destruct (0 <? res) eqn:E.
    + inversion H2; subst. destruct (engine_ok _ _ _ _ _ _ _ H1) as [init [tl Ht]]. eauto.
    + apply bind_inv in H2. destruct H2 as [[ok [s2 [H3 H4]]]|[r0 [_ [_ Hr]]]]; [|exfalso; exact (recast_not_ok _ _ Hr)].
      destruct ok; cbn [negb] in H4.
      * destruct f; [inversion H4|]. eapply IH; eassumption.
      * inversion H4; subst. lia.
Qed.

(* Write: what is reported as sent never exceeds what was offered *)
Lemma write_loop_bounds fuel k : forall hs remaining (s : os) rem' s',
  write_loop fuel hs k remaining s = (Ok rem', s') -> 0 <= remaining -> 0 <= rem' <= remaining.
Proof.
  induction fuel as [|f IH]; intros hs remaining s rem' s' H Hr; cbn [write_loop] in H.
  - inversion H.
  - destruct (remaining =? 0) eqn:E0; [inversion H; subst; lia|].
    apply bind_inv in H. destruct H as [[t [s1 [_ H]]]|[r0 [_ [_ Hx]]]]; [|exfalso; exact (recast_not_ok _ _ Hx)].
    destruct (negb ((t_pend t =? -1) || (t_pend t =? remaining))); [inversion H|].
    apply bind_inv in H. destruct H as [[[res err] [s2 [_ H]]]|[r0 [_ [_ Hx]]]]; [|exfalso; exact (recast_not_ok _ _ Hx)].
    destruct (res <=? 0) eqn:E1.
    + apply bind_inv in H. destruct H as [[[] [s3 [_ H]]]|[r0 [_ [_ Hx]]]]; [|exfalso; exact (recast_not_ok _ _ Hx)].
      apply bind_inv in H. destruct H as [[ok [s4 [_ H]]]|[r0 [_ [_ Hx]]]]; [|exfalso; exact (recast_not_ok _ _ Hx)].
      destruct ok; cbn [negb] in H.
      * destruct hs; [inversion H|]. eapply IH; eassumption.
      * inversion H; subst. lia.
    + apply Z.leb_gt in E1.
      apply bind_inv in H. destruct H as [[[] [s3 [_ H]]]|[r0 [_ [_ Hx]]]]; [|exfalso; exact (recast_not_ok _ _ Hx)].
      destruct (remaining <? res) eqn:E2; [inversion H|]. apply Z.ltb_ge in E2.
      assert (Hb : 0 <= rem' <= remaining - res) by (eapply IH; [eassumption|lia]). lia.
Qed.

Lemma tls_write_bounds k size (s : os) n s' :
  tls_write k size s = (Ok n, s') -> 0 <= size -> 0 <= n <= size.
Proof.
  unfold tls_write. intros H Hs.
  apply bind_inv in H. destruct H as [[ok [s1 [_ H]]]|[r0 [_ [_ Hx]]]]; [|exfalso; exact (recast_not_ok _ _ Hx)].
  destruct ok.
  - apply bind_inv in H. destruct H as [[x [s1' [_ H]]]|[r0 [_ [_ Hx]]]]; [|exfalso; exact (recast_not_ok _ _ Hx)].
    apply bind_inv in H. destruct H as [[rem [s2 [H1 H2]]]|[r0 [_ [_ Hx]]]]; [|exfalso; exact (recast_not_ok _ _ Hx)].
    inversion H2; subst. pose proof (write_loop_bounds _ _ _ _ _ _ _ H1 Hs). lia.
  - inversion H; subst. lia.
Qed.

(* ---- DriverQuery ------------------------------------------------------------------------------------------------ *)
Lemma has_bit_lor_self ev b : 0 < b -> has_bit (Z.lor ev b) b = true.
Proof.
  intros Hb. unfold has_bit. rewrite Z.land_lor_distr_l, Z.land_diag.
  apply negb_true_iff, Z.eqb_neq. intros H. apply Z.lor_eq_0_iff in H. lia.
Qed.

Lemma has_bit_clear ev b : has_bit (Z.land ev (Z.lnot b)) b = false.
Proof.
  unfold has_bit. rewrite <- Z.land_assoc, (Z.land_comm (Z.lnot b) b), Z.land_lnot_diag, Z.land_0_r. reflexivity.
Qed.
