(* OsLemmas.v — Hoare-style reasoning about the oracle monad. *)
From SP Require Import Base Os.
Local Open Scope Z_scope.

Section WithExt.
Context {X : Type}.
Local Notation M := (M X).
Local Notation os := (os X).

(* total-correctness triple: the monad is a total function, so this is just a relation on (s, r, s') *)
Definition hoare {A} (P : os -> Prop) (m : M A) (Q : res A -> os -> Prop) : Prop :=
  forall s r s', P s -> m s = (r, s') -> Q r s'.

(* lift a non-Ok result to another type *)
Definition recast {A B} (r : res A) : res B :=
  match r with Ok _ => Bad 0 | Exn e => Exn e | Bad w => Bad w | Stuck u => Stuck u end.

Definition is_ok {A} (r : res A) : bool := match r with Ok _ => true | _ => false end.

Lemma recast_not_ok {A B} (r : res A) (b : B) : Ok b <> recast r.
Proof. destruct r; discriminate. Qed.

Lemma bind_inv {A B} (m : M A) (f : A -> M B) s r s' :
  bind m f s = (r, s') ->
  (exists a s1, m s = (Ok a, s1) /\ f a s1 = (r, s')) \/
  (exists r0, m s = (r0, s') /\ is_ok r0 = false /\ r = recast r0).
Proof.
  unfold bind. destruct (m s) as [[a|e|w|u] s1] eqn:E; intros H.
  - left. eauto.
  - right. inversion H; subst. exists (Exn e). auto.
  - right. inversion H; subst. exists (Bad w). auto.
  - right. inversion H; subst. exists (Stuck u). auto.
Qed.

Lemma hoare_ret {A} (a : A) (P : os -> Prop) : hoare P (ret a) (fun r s => r = Ok a /\ P s).
Proof. intros s r s' HP H. inversion H; subst. auto. Qed.

Lemma hoare_bind {A B} (m : M A) (f : A -> M B) P Q R :
  hoare P m Q ->
  (forall a, hoare (fun s => Q (Ok a) s) (f a) R) ->
  (forall r0 s, is_ok r0 = false -> Q r0 s -> R (recast r0) s) ->
  hoare P (bind m f) R.
Proof.
  intros Hm Hf Hn s r s' HP H. apply bind_inv in H. destruct H as [[a [s1 [H1 H2]]]|[r0 [H1 [H2 ->]]]].
  - eapply Hf; [|exact H2]. eapply Hm; eauto.
  - apply Hn; [assumption|]. eapply Hm; eauto.
Qed.

Lemma hoare_weaken {A} (m : M A) (P P' : os -> Prop) (Q Q' : res A -> os -> Prop) :
  hoare P m Q -> (forall s, P' s -> P s) -> (forall r s, Q r s -> Q' r s) -> hoare P' m Q'.
Proof. intros H HP HQ s r s' HP' E. apply HQ. eapply H; eauto. Qed.

Lemma catch_inv {A} (m : M A) (h : exn -> M A) s r s' :
  catch m h s = (r, s') ->
  (exists e s1, m s = (Exn e, s1) /\ h e s1 = (r, s')) \/
  (m s = (r, s') /\ forall e, r <> Exn e).
Proof.
  unfold catch. destruct (m s) as [[a|e|w|u] s1] eqn:E; intros H.
  - right. inversion H; subst. split; [reflexivity|discriminate].
  - left. eauto.
  - right. inversion H; subst. split; [reflexivity|discriminate].
  - right. inversion H; subst. split; [reflexivity|discriminate].
Qed.

(* ---- inversion of the primitives -------------------------------------------------------------- *)
Definition upd (s : os) (sc : list ev) (now : Z) (entry : raw) : os :=
  {| o_ext := o_ext s; o_script := sc; o_trace := entry :: o_trace s; o_now := now;
     o_nextfd := o_nextfd s; o_nsys := o_nsys s; o_faults := o_faults s |}.

Lemma sys_now_inv s r s' : sys_now s = (r, s') ->
  (exists dt sc, o_script s = EvNow dt :: sc /\ r = Ok (o_now s + dt) /\
                 s' = upd s sc (o_now s + dt) (K_NOW, [o_now s + dt])) \/
  (r = Bad 1 /\ s' = s).
Proof.
  unfold sys_now. destruct (o_script s) as [|[dt|? ? ? ?|? ?|? ?|? ?|? ? ?|? ?] sc] eqn:E;
    intros H; inversion H; subst; auto.
  left. exists dt, sc. auto.
Qed.

Lemma sys_poll_inv fds t s r s' : sys_poll fds t s = (r, s') ->
  (exists ret_ e dt rev sc, o_script s = EvPoll ret_ e dt rev :: sc /\ r = Ok (ret_, e, rev) /\
      s' = upd s sc (o_now s + dt) (K_POLL, t :: ret_ :: dt :: flatten_fds fds)) \/
  (r = Bad 2 /\ s' = s).
Proof.
  unfold sys_poll. destruct (o_script s) as [|[dt|ret_ e dt rev|? ?|? ?|? ?|? ? ?|? ?] sc] eqn:E;
    intros H; inversion H; subst; auto.
  left. exists ret_, e, dt, rev, sc. auto.
Qed.

Lemma sys_send_inv fd len flags s r s' : sys_send fd len flags s = (r, s') ->
  (exists ret_ e sc, o_script s = EvSend ret_ e :: sc /\ r = Ok (ret_, e) /\
      s' = upd s sc (o_now s) (K_SEND, [fd; len; flags; ret_])) \/
  (r = Bad 3 /\ s' = s).
Proof.
  unfold sys_send. destruct (o_script s) as [|[dt|? ? ? ?|ret_ e|? ?|? ?|? ? ?|? ?] sc] eqn:E;
    intros H; inversion H; subst; auto.
  left. exists ret_, e, sc. auto.
Qed.

Lemma sys_recv_inv fd size s r s' : sys_recv fd size s = (r, s') ->
  (exists ret_ e sc, o_script s = EvRecv ret_ e :: sc /\ r = Ok (ret_, e) /\
      s' = upd s sc (o_now s) (K_RECV, [fd; size; ret_])) \/
  (r = Bad 4 /\ s' = s).
Proof.
  unfold sys_recv. destruct (o_script s) as [|[dt|? ? ? ?|? ?|ret_ e|? ?|? ? ?|? ?] sc] eqn:E;
    intros H; inversion H; subst; auto.
  left. exists ret_, e, sc. auto.
Qed.

Lemma sys_sendto_inv fd len dst s r s' : sys_sendto fd len dst s = (r, s') ->
  (exists ret_ e sc, o_script s = EvSendTo ret_ e :: sc /\ r = Ok (ret_, e) /\
      s' = upd s sc (o_now s) (K_SENDTO, [fd; len; dst; ret_])) \/
  (r = Bad 5 /\ s' = s).
Proof.
  unfold sys_sendto. destruct (o_script s) as [|[dt|? ? ? ?|? ?|? ?|ret_ e|? ? ?|? ?] sc] eqn:E;
    intros H; inversion H; subst; auto.
  left. exists ret_, e, sc. auto.
Qed.

Lemma sys_recvfrom_inv fd size s r s' : sys_recvfrom fd size s = (r, s') ->
  (exists ret_ e src sc, o_script s = EvRecvFrom ret_ e src :: sc /\ r = Ok (ret_, e, src) /\
      s' = upd s sc (o_now s) (K_RECVFROM, [fd; size; ret_])) \/
  (r = Bad 6 /\ s' = s).
Proof.
  unfold sys_recvfrom. destruct (o_script s) as [|[dt|? ? ? ?|? ?|? ?|? ?|ret_ e src|? ?] sc] eqn:E;
    intros H; inversion H; subst; auto.
  left. exists ret_, e, src, sc. auto.
Qed.

Lemma script_fuel_inv s r s' : script_fuel (X:=X) s = (r, s') -> r = Ok (S (length (o_script s))) /\ s' = s.
Proof. unfold script_fuel. intros H; inversion H; auto. Qed.

End WithExt.
