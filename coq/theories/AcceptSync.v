(* AcceptSync.v — replays the synchronisation trace of a real multi-threaded execution (sched harness) on the
   transition system of SyncModel: every observed lock / try-lock / unlock of stepMtx and pauseMtx, every wake-up datagram
   sent or drained, every Stop() and every entry to / return from Run() must be a transition that is ENABLED in the model.
   An accepted trace is a run of the model, so the theorems of SyncLemmas apply to it. Executable; extracted. *)
From SP Require Import SyncModel.
From Coq Require Import ZArith.

(* bookkeeping per real thread *)
Record thr := { t_user : option nat;    (* the management call in progress (a "user" of the model) *)
                t_depth : nat;          (* recursive acquisitions of stepMtx *)
                t_stop : option nat }.  (* a Stop() between setting the flag and sending the wake-up *)

Definition thr0 : thr := {| t_user := None; t_depth := 0; t_stop := None |}.

Record acc := {
  a_st : st;
  a_thr : list thr;       (* indexed by real thread id *)
  a_nuser : nat;          (* next unused user / stopper of the model *)
  a_nstop : nat
}.

Definition get_thr (a : acc) (th : nat) : thr := nth th (a_thr a) thr0.
Definition set_thr (a : acc) (th : nat) (t : thr) (s : st) (nu ns : nat) : acc :=
  {| a_st := s; a_thr := upd (a_thr a) th t; a_nuser := nu; a_nstop := ns |}.

Definition DRIVER : nat := 1.

(* result: inl new state, inr reason *)
Definition reject {A} (why : nat) : A + nat := inr why.

Definition do_step (a : acc) (th : nat) (t : thr) (nu ns : nat) (ev rr : bool) (who : tid) (why : nat) : acc + nat :=
  match step ev rr (a_st a) who with
  | Some s' => inl (set_thr a th t s' nu ns)
  | None => reject why
  end.

(* after the driver leaves pauseMtx (or enters Run) it evaluates the loop condition at once — no other thread runs in
   between under the deterministic scheduler — and either returns or heads for the next step *)
Definition driver_check (a : acc) : acc + nat :=
  match d (a_st a) with
  | Dchk => match step false false (a_st a) Drv with
            | Some s' => inl {| a_st := s'; a_thr := a_thr a; a_nuser := a_nuser a; a_nstop := a_nstop a |}
            | None => reject 90
            end
  | _ => reject 91
  end.

Definition on_event (a : acc) (code : nat) (th : nat) (arg : nat) : acc + nat :=
  let t := get_thr a th in
  let nu := a_nuser a in let ns := a_nstop a in
  let isdrv := Nat.eqb th DRIVER in
  match code with
  (* 1 try-lock stepMtx (arg = 1 ok / 0 failed) *)
  | 1 =>
      if Nat.ltb 0 (t_depth t) then
        (if Nat.eqb arg 1 then inl (set_thr a th {| t_user := t_user t; t_depth := S (t_depth t); t_stop := t_stop t |} (a_st a) nu ns)
         else reject 10)                       (* the owner's try-lock cannot fail *)
      else if isdrv && d_holds_step (d (a_st a)) then
        (if Nat.eqb arg 1 then inl (set_thr a th {| t_user := t_user t; t_depth := S (t_depth t); t_stop := t_stop t |} (a_st a) nu ns)
         else reject 11)
      else
        (* a new management call *)
        match step false false (a_st a) (Usr nu) with
        | Some s' =>
            let ok_model := step_free (a_st a) in
            if Bool.eqb ok_model (Nat.eqb arg 1)
            then inl (set_thr a th {| t_user := Some nu; t_depth := (if ok_model then 1 else 0); t_stop := t_stop t |} s' (S nu) ns)
            else reject 12                     (* try-lock result disagrees with the model's mutex state *)
        | None => reject 13
        end
  (* 2 lock stepMtx (blocking) *)
  | 2 =>
      if isdrv && Nat.eqb (t_depth t) 0 then
        match d (a_st a) with
        | D0 => do_step a th {| t_user := None; t_depth := 1; t_stop := t_stop t |} nu ns false false Drv 20
        | _ => reject 21
        end
      else match t_user t with
           | Some u => match nth_error (us (a_st a)) u with
                       | Some Uws => do_step a th {| t_user := Some u; t_depth := 1; t_stop := t_stop t |} nu ns false false (Usr u) 22
                       | _ => reject 23       (* blocking lock of stepMtx outside the hand-over protocol *)
                       end
           | None => reject 24
           end
  (* 3 unlock stepMtx *)
  | 3 =>
      match t_depth t with
      | O => reject 30
      | S (S k) => inl (set_thr a th {| t_user := t_user t; t_depth := S k; t_stop := t_stop t |} (a_st a) nu ns)
      | S O =>
          if isdrv && d_holds_step (d (a_st a)) then
            match d (a_st a) with
            | D2 => do_step a th {| t_user := None; t_depth := 0; t_stop := t_stop t |} nu ns false false Drv 31
            | D1 => (* the step ends without a poll result having been consumed (time-out / socket event) *)
                    match step true false (a_st a) Drv with
                    | Some s1 => match step false false s1 Drv with
                                 | Some s2 => inl (set_thr a th {| t_user := None; t_depth := 0; t_stop := t_stop t |} s2 nu ns)
                                 | None => reject 33
                                 end
                    | None => reject 34
                    end
            | _ => reject 35
            end
          else match t_user t with
               | Some u => match nth_error (us (a_st a)) u with
                           | Some Ucrit => do_step a th {| t_user := None; t_depth := 0; t_stop := t_stop t |} nu ns false false (Usr u) 36
                           | _ => reject 37   (* stepMtx released while still holding pauseMtx / outside a call *)
                           end
               | None => reject 38
               end
      end
  (* 4 lock pauseMtx *)
  | 4 =>
      if isdrv && Nat.eqb (t_depth t) 0 && (match t_user t with None => true | _ => false end) then
        match d (a_st a) with
        | D3 => do_step a th t nu ns false false Drv 40
        | _ => reject 41
        end
      else match t_user t with
           | Some u => match nth_error (us (a_st a)) u with
                       | Some Uwp => do_step a th t nu ns false false (Usr u) 42
                       | _ => reject 43
                       end
           | None => reject 44
           end
  (* 5 unlock pauseMtx *)
  | 5 =>
      if isdrv && (match t_user t with None => true | _ => false end) then
        match d (a_st a) with
        | D4 => match do_step a th t nu ns false false Drv 50 with
                | inl a1 => driver_check a1
                | inr w => inr w
                end
        | _ => reject 51
        end
      else match t_user t with
           | Some u => match nth_error (us (a_st a)) u with
                       | Some Uhs => do_step a th t nu ns false false (Usr u) 52
                       | _ => reject 53       (* pauseMtx released before stepMtx was obtained *)
                       end
           | None => reject 54
           end
  (* 6 wake-up datagram sent *)
  | 6 =>
      match t_stop t with
      | Some k => do_step a th {| t_user := t_user t; t_depth := t_depth t; t_stop := None |} nu ns false false (Stp k) 60
      | None =>
          match t_user t with
          | Some u => match nth_error (us (a_st a)) u with
                      | Some Uhp => do_step a th t nu ns false false (Usr u) 61
                      | _ => reject 62        (* wake-up sent without owning pauseMtx *)
                      end
          | None => reject 63
          end
      end
  (* 7 wake-up datagram drained by the driver *)
  | 7 =>
      if isdrv then
        match d (a_st a), pipe (a_st a) with
        | D1, S _ => do_step a th t nu ns false false Drv 70
        | _, _ => reject 71
        end
      else reject 72
  (* 8 Stop(): the flag is set *)
  | 8 => do_step a th {| t_user := t_user t; t_depth := t_depth t; t_stop := Some ns |} nu (S ns) false false (Stp ns) 80
  (* 9 Run() entered: the loop condition is evaluated at once *)
  | 9 => match d (a_st a) with
         | Dend => match do_step a th t nu ns false true Drv 92 with
                   | inl a1 => driver_check a1
                   | inr w => inr w
                   end
         | _ => reject 93
         end
  (* 10 Run() returned *)
  | 10 => match d (a_st a) with Dend => inl a | _ => reject 94 end
  | _ => inl a
  end.

Fixpoint replay (a : acc) (evs : list (nat * nat * nat)) (idx : nat) : nat * nat * acc :=
  match evs with
  | [] => (0, idx, a)
  | (c, th, arg) :: rest =>
      match on_event a c th arg with
      | inl a' => replay a' rest (S idx)
      | inr why => (why, idx, a)
      end
  end.

(* raw interface: events as (code, [thread; arg]) ; result (reason or 0, index of the first rejected event, final driver pc,
   final flag, final pipe) *)
Definition dpc_code (x : dpc) : Z :=
  match x with Dend => 0 | Dchk => 1 | D0 => 2 | D1 => 3 | D2 => 4 | D3 => 5 | D4 => 6 end%Z.

Definition accept_sync (nthreads nusers nstops : Z) (evs : list (Z * list Z)) : list Z :=
  let a0 := {| a_st := init (Z.to_nat nusers) (Z.to_nat nstops);
               a_thr := repeat thr0 (Z.to_nat nthreads); a_nuser := 0; a_nstop := 0 |} in
  let evs' := map (fun '(c, args) => (Z.to_nat c, Z.to_nat (nth 0 args 0%Z), Z.to_nat (nth 1 args 0%Z))) evs in
  let '(why, idx, a) := replay a0 evs' 0 in
  [Z.of_nat why; Z.of_nat idx; dpc_code (d (a_st a)); (if flag (a_st a) then 1 else 0)%Z; Z.of_nat (pipe (a_st a))].
