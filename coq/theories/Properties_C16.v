(* Properties_C16.v — signals interrupting a wait are invisible.
   For EVERY oracle script, i.e. any number and timing of EINTR results of poll(). *)
From SP Require Import Base ListAux Os OsLemmas WaitModel WaitLemmas SocketModel SocketLemmas.
Local Open Scope Z_scope.

Section C16.
Context {X : Type}.
Local Notation os := (os X).

(* Wait(fd, events, T) — the primitive under every blocking socket call — never fails with EINTR *)
Theorem wait_never_fails_with_eintr : forall fd events T (s : os) e s',
  wait_fd fd events T s = (Exn e, s') -> exists errno, e = SysErr errno /\ errno <> EINTR.
Proof.
  intros fd events T s e s' H. destruct (wait_fd_spec _ _ _ _ _ _ H) as [new Hspec].
  exact (wf_exn _ _ _ _ _ _ Hspec e eq_refl).
Qed.

(* Wait(pfds, T) — the wait inside Driver::Step / Run — never fails with EINTR *)
Theorem step_wait_never_fails_with_eintr : forall fds T (s : os) e s',
  wait_fds fds T s = (Exn e, s') -> exists errno, e = SysErr errno /\ errno <> EINTR.
Proof.
  intros fds T s e s' H. destruct (wait_fds_spec _ _ _ _ _ H) as [new Hspec].
  exact (wf_exn _ _ _ _ _ _ Hspec e eq_refl).
Qed.

(* it keeps waiting within its time-out semantics: whatever EINTR results the script contains,
   a limited wait never blocks longer than T in total and reports a time-out not before T - 1 ms *)
Theorem interrupted_wait_keeps_timeout_semantics : forall fd events T (s : os) r s',
  wait_fd fd events T s = (r, s') ->
  exists new, steps s s' new /\
    (0 <= T -> calm (o_script s) -> instant (o_script s) -> honest_up new -> o_now s' <= o_now s + T * NS_PER_MS) /\
    (0 < T <= INT_MAX -> calm (o_script s) -> honest_lo new -> r = Ok false ->
       o_now s + T * NS_PER_MS - NS_PER_MS < o_now s') /\
    (T < 0 -> poll_timeouts new (fun t => t = -1)) /\
    (T = 0 -> poll_timeouts new (fun t => t = 0)).
Proof.
  intros fd events T s r s' H. destruct (wait_fd_spec _ _ _ _ _ _ H) as [new Hspec].
  exists new. split; [apply Hspec|]. split; [apply Hspec|]. split.
  - intros HT Hc Hh Hr. exact (wf_lower _ _ _ _ _ _ Hspec HT Hc Hh false Hr eq_refl).
  - split; apply Hspec.
Qed.

(* a poll interrupted by a signal is transparent: an unlimited / zero wait gives the same result as
   without the interruption (only the log and the elapsed time record that it happened) *)
Lemma poll_unlimited_fuel : forall k1 k2 fds T (s : os),
  (length (o_script s) < k1)%nat -> (length (o_script s) < k2)%nat ->
  poll_unlimited k1 fds T s = poll_unlimited k2 fds T s.
Proof.
  induction k1 as [|k1 IH]; intros k2 fds T s H1 H2; [lia|]. destruct k2 as [|k2]; [lia|].
  cbn [poll_unlimited]. unfold bind.
  destruct (sys_poll fds (to_msec T) s) as [[x|e|w|u] s1] eqn:E; try reflexivity.
  destruct (interrupted x); [|reflexivity].
  apply sys_poll_inv in E. destruct E as [[ret_ [e [dt [rev [sc [Hs [_ ->]]]]]]]|[Hr _]]; [|discriminate].
  apply IH; cbn; rewrite Hs in *; cbn in *; lia.
Qed.

Lemma poll_unlimited_step : forall k fds T (s : os) dt rev sc,
  o_script s = EvPoll (-1) EINTR dt rev :: sc ->
  poll_unlimited (S k) fds T s =
  poll_unlimited k fds T (upd s sc (o_now s + dt) (K_POLL, to_msec T :: -1 :: dt :: flatten_fds fds)).
Proof.
  intros k fds T s dt rev sc Hs. cbn [poll_unlimited]. unfold bind, sys_poll. rewrite Hs. reflexivity.
Qed.

Lemma do_poll_unlimited : forall fds T (s : os), T <= 0 ->
  do_poll fds T s = poll_unlimited (S (length (o_script s))) fds T s.
Proof.
  intros fds T s HT. unfold do_poll, bind, script_fuel.
  assert (E : (T <=? 0) = true) by (apply Z.leb_le; lia). now rewrite E.
Qed.

Theorem eintr_transparent_unlimited : forall fds T (s : os) dt rev sc,
  T <= 0 -> o_script s = EvPoll (-1) EINTR dt rev :: sc ->
  do_poll fds T s =
  do_poll fds T (upd s sc (o_now s + dt) (K_POLL, to_msec T :: -1 :: dt :: flatten_fds fds)).
Proof.
  intros fds T s dt rev sc HT Hs. rewrite !do_poll_unlimited by assumption.
  rewrite (poll_unlimited_step _ _ _ _ _ _ _ Hs). rewrite Hs. apply poll_unlimited_fuel; cbn; lia.
Qed.

(* lifted to the blocking socket operations: none of them reports EINTR unless send()/recv() themselves
   (never blocking on sockpuppet's non-blocking descriptors) are scripted to fail with it *)
Theorem send_never_fails_from_interrupted_wait : forall fd size T (s : os) e s',
  0 <= size -> sock_send fd size T s = (Exn e, s') ->
  (exists errno, e = SysErr errno /\ errno <> EINTR) \/
  (exists new, steps s s' new /\ failed_in_send fd new).
Proof.
  intros fd size T s e s' Hs H. destruct (sock_send_spec _ _ _ _ _ _ H Hs) as [new [Hres _ _ _]].
  destruct (sr_exn _ _ _ _ _ _ Hres e eq_refl) as [Hw|Hf]; [now left|]. right. exists new. split; [apply Hres|assumption].
Qed.

Theorem receive_never_fails_from_interrupted_wait : forall fd size T (s : os) e s',
  receive fd size T s = (Exn e, s') ->
  (exists errno, e = SysErr errno /\ errno <> EINTR) \/
  (exists (s1 s1' : os), receive_now fd size s1 = (Exn e, s1')).
Proof.
  intros fd size T s e s' H.
  change (receive fd size T) with (wait_then fd POLLIN T (k <- receive_now (X:=X) fd size ;; ret (Some k)) None) in H.
  destruct (wait_then_ok _ _ _ _ _ _ _ _ (timeless_map _ _ (receive_now_timeless fd size)) H) as [new [_ Wcases _ _ _ _ _]].
  destruct Wcases as [[_ [[Hr _]|[[errno [Hr Hne]]|[w [Hr _]]]]]|[nw [no [s1 [_ [_ [_ [_ [_ Hnow]]]]]]]]]; try discriminate.
  - inversion Hr; subst. left. eauto.
  - right. apply bind_inv in Hnow. destruct Hnow as [[k [s2 [_ H2]]]|[r0 [H1 [_ Hr]]]]; [inversion H2|].
    destruct r0; try discriminate. inversion Hr; subst. eauto.
Qed.

End C16.

(* non-vacuity: three EINTRs before the event; limited wait; result "ready", never an exception *)
Example c16_nonvacuous :
  fst (wait_fd 1000 POLLIN 100
         (os_init tt [EvNow 0; EvPoll (-1) EINTR 30000000 [0]; EvNow 0; EvPoll (-1) EINTR 30000000 [0]; EvNow 0;
                      EvPoll (-1) EINTR 30000000 [0]; EvNow 0; EvPoll 1 0 5000000 [1]] [])) = Ok true
  /\ map (fun e => nthZ (snd e) 0) (filter (fun e => fst e =? K_POLL)
       (o_trace (snd (wait_fd 1000 POLLIN 100
         (os_init tt [EvNow 0; EvPoll (-1) EINTR 30000000 [0]; EvNow 0; EvPoll (-1) EINTR 30000000 [0]; EvNow 0;
                      EvPoll (-1) EINTR 30000000 [0]; EvNow 0; EvPoll 1 0 5000000 [1]] []))))) = [10; 40; 70; 100].
Proof. vm_compute. split; reflexivity. Qed.

Print Assumptions wait_never_fails_with_eintr.
Print Assumptions step_wait_never_fails_with_eintr.
Print Assumptions interrupted_wait_keeps_timeout_semantics.
Print Assumptions eintr_transparent_unlimited.
Print Assumptions send_never_fails_from_interrupted_wait.
Print Assumptions receive_never_fails_from_interrupted_wait.
