(* SyncModel.v — the hand-over protocol between the driver loop and management calls
   (src/driver_impl.cpp: StepGuard, PauseGuard, Bump/Unbump, Run, Stop) as a labelled transition system over
   one driver thread, any number of management calls (each by some user thread; consecutive calls of one thread are
   separate "users" here — a special case of the interleavings considered) and any number of Stop() calls.

   driver:  Dend --Run()--> Dchk --flag clear--> D0 --lock step--> D1 --poll (pipe / socket event)--> D2
            --unlock step--> D3 --lock pause--> D4 --unlock pause--> Dchk ;   Dchk --flag set (cleared)--> Dend
   user:    U0 --try-lock ok--> Ucrit --unlock--> Udone
            U0 --try-lock fails--> Uwp --lock pause--> Uhp --bump--> Uws --lock step--> Uhs --unlock pause--> Ucrit
   stopper: S0 --flag := true--> S1 --bump--> S2

   Executable (the acceptor of AcceptSync replays harness traces on it); no proofs in this file. *)
From Coq Require Export List Arith Lia Bool.
Export ListNotations.

Inductive upc := U0 | Uwp | Uhp | Uws | Uhs | Ucrit | Udone.
Inductive spc := S0 | S1 | S2.
Inductive dpc := Dend | Dchk | D0 | D1 | D2 | D3 | D4.

Record st := {
  d : dpc;
  us : list upc;
  ss : list spc;
  pipe : nat;          (* datagrams in the signalling pipe *)
  flag : bool;         (* shouldStop *)
  since : nat          (* driver steps completed since a user last acquired pauseMtx (ghost) *)
}.

Definition u_holds_step (u : upc) := match u with Uhs | Ucrit => true | _ => false end.
Definition u_holds_pause (u : upc) := match u with Uhp | Uws | Uhs => true | _ => false end.
Definition d_holds_step (x : dpc) := match x with D1 | D2 => true | _ => false end.
Definition d_holds_pause (x : dpc) := match x with D4 => true | _ => false end.
Definition step_free (s : st) := negb (d_holds_step (d s)) && forallb (fun u => negb (u_holds_step u)) (us s).
Definition pause_free (s : st) := negb (d_holds_pause (d s)) && forallb (fun u => negb (u_holds_pause u)) (us s).

Fixpoint upd {A} (l : list A) (i : nat) (x : A) : list A :=
  match l, i with [], _ => [] | _ :: t, O => x :: t | h :: t, S j => h :: upd t j x end.

Inductive tid := Drv | Usr (i : nat) | Stp (i : nat).

Definition set_d (s : st) (x : dpc) : st := {| d := x; us := us s; ss := ss s; pipe := pipe s; flag := flag s; since := since s |}.
Definition set_us (s : st) (l : list upc) : st := {| d := d s; us := l; ss := ss s; pipe := pipe s; flag := flag s; since := since s |}.

(* one step of thread t; None = not enabled.
   ev: the environment provides a socket event / time-out for the driver's poll; rerun: Run() is entered (again) *)
Definition step (ev rerun : bool) (s : st) (t : tid) : option st :=
  match t with
  | Drv =>
    match d s with
    | Dend => if rerun then Some (set_d s Dchk) else None
    | Dchk => if flag s
              then Some {| d := Dend; us := us s; ss := ss s; pipe := pipe s; flag := false; since := since s |}
              else Some (set_d s D0)
    | D0 => if step_free s then Some (set_d s D1) else None
    | D1 => if ev then Some (set_d s D2)          (* poll returns with a socket event or a time-out: pipe untouched *)
            else match pipe s with                 (* poll returns because the pipe is readable: one datagram is drained *)
                 | S p => Some {| d := D2; us := us s; ss := ss s; pipe := p; flag := flag s; since := since s |}
                 | O => None
                 end
    | D2 => Some {| d := D3; us := us s; ss := ss s; pipe := pipe s; flag := flag s; since := S (since s) |}
    | D3 => if pause_free s then Some (set_d s D4) else None
    | D4 => Some (set_d s Dchk)
    end
  | Usr i =>
    match nth_error (us s) i with
    | None => None
    | Some U0 => if step_free s then Some (set_us s (upd (us s) i Ucrit)) else Some (set_us s (upd (us s) i Uwp))
    | Some Uwp => if pause_free s
                  then Some {| d := d s; us := upd (us s) i Uhp; ss := ss s; pipe := pipe s; flag := flag s; since := 0 |}
                  else None
    | Some Uhp => Some {| d := d s; us := upd (us s) i Uws; ss := ss s; pipe := S (pipe s); flag := flag s; since := since s |}
    | Some Uws => if step_free s then Some (set_us s (upd (us s) i Uhs)) else None
    | Some Uhs => Some (set_us s (upd (us s) i Ucrit))
    | Some Ucrit => Some (set_us s (upd (us s) i Udone))
    | Some Udone => None
    end
  | Stp i =>
    match nth_error (ss s) i with
    | Some S0 => Some {| d := d s; us := us s; ss := upd (ss s) i S1; pipe := pipe s; flag := true; since := since s |}
    | Some S1 => Some {| d := d s; us := us s; ss := upd (ss s) i S2; pipe := S (pipe s); flag := flag s; since := since s |}
    | _ => None
    end
  end.

Definition init (n m : nat) : st :=
  {| d := Dend; us := repeat U0 n; ss := repeat S0 m; pipe := 0; flag := false; since := 0 |}.

Inductive reach (n m : nat) : st -> Prop :=
| r0 : reach n m (init n m)
| rS s ev rr t s' : reach n m s -> step ev rr s t = Some s' -> reach n m s'.
