(* TlsEmits.v — which kinds of trace entries each part of the TLS glue can produce, for every script.
   Used for: DriverPending() never asks the engine for application data (it makes SSL_do_handshake calls only). *)
From SP Require Import Base ListAux Os OsLemmas WaitModel WaitLemmas SocketModel SocketLemmas Objects DriverModel TlsModel TlsLemmas.
Local Open Scope Z_scope.

Local Notation os := (os ext).

Definition emits {A} (P : raw -> Prop) (m : MX A) : Prop :=
  forall (s : os) r s', m s = (r, s') -> exists new, extends s s' new /\ Forall P new.

Lemma emits_weaken {A} (P Q : raw -> Prop) (m : MX A) : (forall e, P e -> Q e) -> emits P m -> emits Q m.
Proof.
  intros HPQ Hm s r s' H. destruct (Hm _ _ _ H) as [new [X F]]. exists new. split; [assumption|].
  eapply Forall_impl; eassumption.
Qed.

Lemma emits_quiet {A} (P : raw -> Prop) (m : MX A) : quiet m -> emits P m.
Proof. intros Hq s r s' H. exists []. split; [unfold extends; now rewrite (Hq _ _ _ H)|constructor]. Qed.

Lemma emits_ret {A} (P : raw -> Prop) (a : A) : emits P (ret a).
Proof. apply emits_quiet, quiet_ret. Qed.
Lemma emits_throw {A} (P : raw -> Prop) e : emits P (throw (X:=ext) (A:=A) e).
Proof. intros s r s' H. inversion H. exists []. split; [apply extends_refl|constructor]. Qed.
Lemma emits_stuck {A} (P : raw -> Prop) u : emits P (stuck (X:=ext) (A:=A) u).
Proof. intros s r s' H. inversion H. exists []. split; [apply extends_refl|constructor]. Qed.
Lemma emits_bad {A} (P : raw -> Prop) w : emits P (bad (X:=ext) (A:=A) w).
Proof. intros s r s' H. inversion H. exists []. split; [apply extends_refl|constructor]. Qed.

Lemma emits_bind {A B} (P : raw -> Prop) (m : MX A) (f : A -> MX B) : emits P m -> (forall a, emits P (f a)) -> emits P (bind m f).
Proof.
  intros Hm Hf s r s' H. apply bind_inv in H. destruct H as [[a [s1 [H1 H2]]]|[r0 [H1 _]]].
  - destruct (Hm _ _ _ H1) as [n1 [X1 F1]]. destruct (Hf a _ _ _ H2) as [n2 [X2 F2]].
    exists (n2 ++ n1). split; [eapply extends_trans; eassumption|apply Forall_app; split; assumption].
  - apply (Hm _ _ _ H1).
Qed.

Lemma emits_emit (P : raw -> Prop) c a : P (c, a) -> emits P (emit (X:=ext) c a).
Proof. intros HP s r s' H. inversion H; subst. exists [(c, a)]. split; [reflexivity|repeat constructor; assumption]. Qed.

Lemma emits_catch {A} (P : raw -> Prop) (m : MX A) (h : exn -> MX A) : emits P m -> (forall e, emits P (h e)) -> emits P (catch m h).
Proof.
  intros Hm Hh s r s' H. apply catch_inv in H. destruct H as [[e [s1 [H1 H2]]]|[H1 _]].
  - destruct (Hm _ _ _ H1) as [n1 [X1 F1]]. destruct (Hh e _ _ _ H2) as [n2 [X2 F2]].
    exists (n2 ++ n1). split; [eapply extends_trans; eassumption|apply Forall_app; split; assumption].
  - apply (Hm _ _ _ H1).
Qed.

(* entries of the operating-system level: clock, poll, send, recv *)
Definition sys_entry_kind (e : raw) : Prop := fst e = K_NOW \/ fst e = K_POLL \/ fst e = K_SEND \/ fst e = K_RECV.

Lemma emits_waits_only {A} (m : MX A) : waits_only m -> emits sys_entry_kind m.
Proof.
  intros Hw s r s' H. destruct (Hw _ _ _ H) as [new [X O]]. exists new. split; [assumption|].
  eapply Forall_impl; [|exact O]. intros e [He|He]; unfold sys_entry_kind; auto.
Qed.

Lemma emits_sys_send fd len flags : emits sys_entry_kind (sys_send (X:=ext) fd len flags).
Proof.
  intros s r s' H. apply sys_send_inv in H. destruct H as [[ret_ [e [sc [_ [_ ->]]]]]|[_ ->]].
  - exists [(K_SEND, [fd; len; flags; ret_])]. split; [apply upd_extends|]. constructor; [|constructor].
    unfold sys_entry_kind. cbn. auto.
  - exists []. split; [apply extends_refl|constructor].
Qed.

Lemma emits_sys_recv fd size : emits sys_entry_kind (sys_recv (X:=ext) fd size).
Proof.
  intros s r s' H. apply sys_recv_inv in H. destruct H as [[ret_ [e [sc [_ [_ ->]]]]]|[_ ->]].
  - exists [(K_RECV, [fd; size; ret_])]. split; [apply upd_extends|]. constructor; [|constructor].
    unfold sys_entry_kind. cbn. auto.
  - exists []. split; [apply extends_refl|constructor].
Qed.

Lemma emits_send_now fd len : emits sys_entry_kind (send_now (X:=ext) fd len).
Proof.
  unfold send_now. apply emits_bind; [apply emits_sys_send|]. intros [sent err].
  destruct (sent <? 0); [apply emits_throw|]. destruct ((sent =? 0) && (0 <? len)); [apply emits_throw|].
  destruct (len <? sent); [apply emits_stuck|apply emits_ret].
Qed.

Lemma emits_receive_now fd size : emits sys_entry_kind (receive_now (X:=ext) fd size).
Proof.
  unfold receive_now. apply emits_bind; [apply emits_sys_recv|]. intros [n err].
  destruct (n <? 0); [apply emits_throw|]. destruct (n =? 0); [apply emits_throw|].
  destruct (size <? n); [apply emits_stuck|apply emits_ret].
Qed.

Lemma emits_wait_fd fd ev T : emits sys_entry_kind (wait_fd (X:=ext) fd ev T).
Proof. apply emits_waits_only, waits_wait_fd. Qed.

Lemma emits_receive fd size T : emits sys_entry_kind (receive (X:=ext) fd size T).
Proof.
  unfold receive. apply emits_bind; [apply emits_wait_fd|]. intros ready.
  destruct ready; [|apply emits_ret]. apply emits_bind; [apply emits_receive_now|]. intros n. apply emits_ret.
Qed.

Lemma emits_script_fuel (P : raw -> Prop) : emits P (script_fuel (X:=ext)).
Proof. intros s r s' H. inversion H; subst. exists []. split; [apply extends_refl|constructor]. Qed.

Lemma emits_send_all_loop fuel fd : forall remaining, emits sys_entry_kind (send_all_loop (X:=ext) fuel fd remaining).
Proof.
  induction fuel as [|f IH]; intros remaining; cbn [send_all_loop]; [apply emits_bad|].
  apply emits_bind; [apply emits_wait_fd|]. intros _.
  apply emits_bind; [apply emits_send_now|]. intros sent.
  destruct (remaining - sent =? 0); [apply emits_ret|apply IH].
Qed.

Lemma emits_send_all fd size : emits sys_entry_kind (send_all (X:=ext) fd size).
Proof.
  unfold send_all. apply emits_bind; [apply emits_script_fuel|]. intros fuel.
  apply emits_bind; [apply emits_send_all_loop|]. intros _. apply emits_ret.
Qed.

Lemma emits_send_try fd size : emits sys_entry_kind (send_try (X:=ext) fd size).
Proof.
  unfold send_try. apply emits_bind; [apply emits_wait_fd|]. intros ready.
  destruct ready; [apply emits_send_now|apply emits_ret].
Qed.

Lemma emits_dl_new t : emits sys_entry_kind (dl_new (X:=ext) t).
Proof. apply emits_waits_only, waits_dl_new. Qed.
Lemma emits_dl_tick d : emits sys_entry_kind (dl_tick (X:=ext) d).
Proof. apply emits_waits_only, waits_dl_tick. Qed.

Lemma emits_send_some_loop fuel fd : forall remaining d, emits sys_entry_kind (send_some_loop (X:=ext) fuel fd remaining d).
Proof.
  induction fuel as [|f IH]; intros remaining d; cbn [send_some_loop]; [apply emits_bad|].
  apply emits_bind; [apply emits_wait_fd|]. intros ready.
  destruct (negb ready); [apply emits_ret|].
  apply emits_bind; [apply emits_dl_tick|]. intros d'.
  apply emits_bind; [apply emits_send_now|]. intros sent.
  destruct (negb (remaining - sent =? 0) && dl_time_left d'); [apply IH|apply emits_ret].
Qed.

Lemma emits_send_some fd size d : emits sys_entry_kind (send_some (X:=ext) fd size d).
Proof.
  unfold send_some. apply emits_bind; [apply emits_script_fuel|]. intros fuel.
  apply emits_bind; [apply emits_send_some_loop|]. intros [remaining d']. apply emits_ret.
Qed.

Lemma emits_get_tls (P : raw -> Prop) k : emits P (get_tls k).
Proof. apply emits_quiet, quiet_get_tls. Qed.
Lemma emits_put_tls (P : raw -> Prop) k t : emits P (put_tls k t).
Proof. apply emits_quiet, quiet_put_tls. Qed.
Lemma emits_upd_tls (P : raw -> Prop) k f : emits P (upd_tls k f).
Proof. apply emits_quiet, quiet_upd_tls. Qed.
Lemma emits_get_sock (P : raw -> Prop) k : emits P (get_sock k).
Proof. apply emits_quiet, quiet_get_sock. Qed.

Lemma emits_under_deadline {A} k (fn : Z -> MX A) : (forall t, emits sys_entry_kind (fn t)) -> emits sys_entry_kind (under_deadline k fn).
Proof.
  intros Hf. unfold under_deadline. apply emits_bind; [apply emits_get_tls|]. intros t.
  destruct (t_rem t <=? 0); [apply Hf|].
  apply emits_bind; [apply emits_dl_new|]. intros d.
  apply emits_bind; [apply Hf|]. intros r.
  apply emits_bind; [apply emits_dl_tick|]. intros d'.
  apply emits_bind; [apply emits_upd_tls|]. intros _. apply emits_ret.
Qed.

Lemma emits_bio_read k size : emits sys_entry_kind (bio_read k size).
Proof.
  unfold bio_read. apply emits_bind; [apply emits_get_sock|]. intros sk.
  apply emits_bind; [apply emits_get_tls|]. intros t. destruct (t_isr t).
  - apply emits_bind; [apply emits_put_tls|]. intros _. apply emits_receive_now.
  - apply emits_bind; [apply emits_under_deadline; intros tm; apply emits_receive|]. intros r. apply emits_ret.
Qed.

Lemma emits_bio_write k size : emits sys_entry_kind (bio_write k size).
Proof.
  unfold bio_write. apply emits_bind; [apply emits_get_sock|]. intros sk.
  apply emits_bind; [apply emits_get_tls|]. intros t. destruct (t_isw t).
  - apply emits_bind; [apply emits_put_tls|]. intros _. apply emits_send_now.
  - destruct (t_rem t <? 0); [apply emits_send_all|]. destruct (t_rem t =? 0); [apply emits_send_try|].
    apply emits_bind; [apply emits_dl_new|]. intros d.
    apply emits_bind; [apply emits_send_some|]. intros [sent d'].
    apply emits_bind; [apply emits_upd_tls|]. intros _. apply emits_ret.
Qed.

(* inside one engine call: system-level entries and the BIO records *)
Definition inner_kind (e : raw) : Prop := sys_entry_kind e \/ fst e = K_BIO.

Lemma emits_bio_read_all fuel k : forall size, emits inner_kind (bio_read_all fuel k size).
Proof.
  induction fuel as [|f IH]; intros size; cbn [bio_read_all]; [apply emits_bad|].
  apply emits_bind; [eapply emits_weaken; [|apply emits_bio_read]; intros e He; left; exact He|]. intros r.
  apply emits_bind; [apply emits_emit; right; reflexivity|]. intros _.
  destruct (r =? 0); [apply emits_ret|]. destruct (size <=? r); [apply emits_ret|apply IH].
Qed.

Lemma emits_run_bios k n : forall args, emits inner_kind (run_bios k n args).
Proof.
  induction n as [|n IH]; intros args; cbn [run_bios]; [apply emits_ret|].
  destruct (nthZ args 0 =? 1).
  - apply emits_bind; [apply emits_script_fuel|]. intros fuel.
    apply emits_bind; [apply emits_bio_read_all|]. intros ok. destruct (negb ok); [apply emits_ret|apply IH].
  - apply emits_bind; [eapply emits_weaken; [|apply emits_bio_write]; intros e He; left; exact He|]. intros w.
    apply emits_bind; [apply emits_emit; right; reflexivity|]. intros _.
    destruct (negb (w =? nthZ args 1)); [apply emits_ret|apply IH].
Qed.

(* one engine call of kind [call]: its K_ENGCALL entry names that kind *)
Definition engine_kind (call : Z) (e : raw) : Prop :=
  inner_kind e \/ fst e = K_ENG \/ (fst e = K_ENGCALL /\ nthZ (snd e) 0 = call).

Lemma emits_engine k call size : emits (engine_kind call) (engine k call size).
Proof.
  unfold engine.
  apply emits_bind; [apply emits_emit; right; right; split; reflexivity|]. intros _.
  apply emits_bind; [apply emits_upd_tls|]. intros _.
  apply emits_bind; [apply emits_quiet, quiet_get_ext|]. intros x.
  destruct (x_eng x) as [|[c args] tl]; [apply emits_bad|].
  destruct (c =? 8) eqn:Ec.
  2:{ destruct c; try apply emits_bad. all: repeat (match goal with p : positive |- _ => destruct p; try apply emits_bad end). all: try discriminate. }
  apply Z.eqb_eq in Ec. subst c.
  destruct args as [|call' [|nbio rest]]; try apply emits_bad.
  destruct (negb (call' =? call)); [apply emits_bad|].
  apply emits_bind; [apply emits_quiet, quiet_put_ext|]. intros _.
  apply emits_bind; [eapply emits_weaken; [|apply emits_run_bios]; intros e He; left; exact He|]. intros st.
  destruct (negb (st =? 0)).
  - apply emits_bind; [apply emits_emit; right; left; reflexivity|]. intros _. apply emits_ret.
  - apply emits_bind; [apply emits_upd_tls|]. intros _.
    apply emits_bind; [apply emits_emit; right; left; reflexivity|]. intros _. apply emits_ret.
Qed.

Lemma emits_handle_result call k err : emits (engine_kind call) (handle_result k err).
Proof.
  eapply emits_weaken; [|apply emits_waits_only, handle_result_waits]. intros e He. left. left. exact He.
Qed.
Lemma emits_handle_last_error call k : emits (engine_kind call) (handle_last_error k).
Proof.
  eapply emits_weaken; [|apply emits_waits_only, handle_last_error_waits]. intros e He. left. left. exact He.
Qed.

Lemma emits_set_timeout call k T : emits (engine_kind call) (tls_set_timeout k T).
Proof.
  eapply emits_weaken; [|apply emits_waits_only, waits_set_timeout]. intros e He. left. left. exact He.
Qed.

Lemma emits_handshake_loop fuel k : emits (engine_kind 4) (handshake_loop fuel k).
Proof.
  induction fuel as [|f IH]; cbn [handshake_loop]; [apply emits_ret|].
  apply emits_bind; [apply emits_engine|]. intros r.
  destruct (0 <? fst r); [apply emits_ret|].
  apply emits_bind; [apply emits_handle_result|]. intros ok.
  destruct (negb ok); [apply emits_ret|]. destruct f; [apply emits_stuck|exact IH].
Qed.

(* DriverPending(): every engine call it makes is SSL_do_handshake — it cannot take application data out of the engine *)
Theorem pending_only_advances_the_handshake : forall k,
  emits (engine_kind 4) (tls_pending k).
Proof.
  intros k. unfold tls_pending. apply emits_bind; [apply emits_get_tls|]. intros t.
  destruct (t_init t); [apply emits_ret|].
  apply emits_bind; [apply emits_put_tls|]. intros _.
  apply emits_bind; [apply emits_handle_last_error|]. intros ok.
  destruct ok; [apply emits_handshake_loop|apply emits_ret].
Qed.

Lemma emits_read_loop fuel k size : emits (engine_kind 1) (read_loop fuel k size).
Proof.
  induction fuel as [|f IH]; cbn [read_loop]; [apply emits_ret|].
  apply emits_bind; [apply emits_engine|]. intros [res err].
  destruct (0 <? res); [apply emits_ret|].
  apply emits_bind; [apply emits_handle_result|]. intros ok.
  destruct (negb ok); [apply emits_ret|]. destruct f; [apply emits_stuck|exact IH].
Qed.

Lemma emits_write_loop fuel k : forall hs remaining, emits (engine_kind 2) (write_loop fuel hs k remaining).
Proof.
  induction fuel as [|f IH]; intros hs remaining; cbn [write_loop]; [apply emits_bad|].
  destruct (remaining =? 0); [apply emits_ret|].
  apply emits_bind; [apply emits_get_tls|]. intros t.
  destruct (negb ((t_pend t =? -1) || (t_pend t =? remaining))); [apply emits_stuck|].
  apply emits_bind; [apply emits_engine|]. intros [res err].
  destruct (res <=? 0).
  - apply emits_bind; [apply emits_upd_tls|]. intros _.
    apply emits_bind; [apply emits_handle_result|]. intros ok.
    destruct (negb ok); [apply emits_ret|]. destruct hs; [apply emits_stuck|apply IH].
  - apply emits_bind; [apply emits_upd_tls|]. intros _.
    destruct (remaining <? res); [apply emits_stuck|]. apply IH.
Qed.

(* Send / SendSome make SSL_write_ex calls only: they never take application data out of the engine;
   Receive makes SSL_read calls only *)
Theorem send_only_writes : forall k size T, emits (engine_kind 2) (tls_send k size T).
Proof.
  intros k size T. unfold tls_send. apply emits_bind; [apply emits_set_timeout|]. intros _.
  unfold tls_write. apply emits_bind; [apply emits_handle_last_error|]. intros ok.
  destruct ok; [|apply emits_ret]. apply emits_bind; [apply emits_quiet, quiet_get_ext|]. intros x.
  apply emits_bind; [apply emits_write_loop|]. intros rem. apply emits_ret.
Qed.

Theorem receive_only_reads : forall k size T, emits (engine_kind 1) (tls_receive k size T).
Proof.
  intros k size T. unfold tls_receive. apply emits_bind; [apply emits_set_timeout|]. intros _.
  apply emits_bind.
  - unfold tls_read. apply emits_bind; [apply emits_handle_last_error|]. intros ok.
    destruct ok; [apply emits_read_loop|apply emits_ret].
  - intros n. destruct (0 <? n); [apply emits_ret|]. destruct (T <? 0); [apply emits_stuck|apply emits_ret].
Qed.
