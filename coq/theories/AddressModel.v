(* AddressModel.v — src/address_impl.cpp: dissecting URIs and host/service pairs before getaddrinfo, composing
   to_string, comparing and hashing socket addresses. Strings are lists of bytes (0..255).
   The three regular expressions are characterised by hand (ECMAScript backtracking semantics of std::regex);
   the characterisation is validated against the real library by the correspondence check on every run. *)
From SP Require Export Base.
Local Open Scope Z_scope.

Definition str := list Z.

(* ---- character classes (C locale) -------------------------------------------------------------------------- *)
Definition in_range (lo hi c : Z) : bool := (lo <=? c) && (c <=? hi).
Definition is_digit (c : Z) : bool := in_range 48 57 c.
Definition is_word (c : Z) : bool := in_range 97 122 c || in_range 65 90 c || is_digit c || (c =? 95).
Definition is_newline (c : Z) : bool := (c =? 10) || (c =? 13).
Definition is_space (c : Z) : bool := (c =? 32) || in_range 9 13 c.
Definition SLASH := 47. Definition COLON := 58. Definition LBRACK := 91. Definition RBRACK := 93.
Definition PLUS := 43. Definition MINUS := 45.

(* ---- list helpers -------------------------------------------------------------------------------------------- *)
Fixpoint take_while (p : Z -> bool) (l : str) : str :=
  match l with [] => [] | c :: t => if p c then c :: take_while p t else [] end.
Fixpoint drop_while (p : Z -> bool) (l : str) : str :=
  match l with [] => [] | c :: t => if p c then drop_while p t else l end.

(* position of the first element satisfying p at index >= from, if any *)
Fixpoint find_first (p : Z -> bool) (l : str) (idx : nat) : option nat :=
  match l with
  | [] => None
  | c :: t => if p c then Some idx else find_first p t (S idx)
  end.
Definition find_from (p : Z -> bool) (l : str) (from idx : nat) : option nat :=
  find_first p (skipn from l) (from + idx).

Definition c_str (s : str) : str := take_while (fun c => negb (c =? 0)) s.

Definition starts_with (pre l : str) : bool :=
  (Nat.leb (length pre) (length l)) && forallb (fun '(a, b) => a =? b) (combine pre (firstn (length pre) l)).

Definition sub (l : str) (from len : nat) : str := firstn len (skipn from l).

(* ---- numeric services ------------------------------------------------------------------------------------------ *)
Fixpoint digits_value (acc : Z) (l : str) : Z :=
  match l with [] => acc | c :: t => digits_value (acc * 10 + (c - 48)) t end.

(* the syntax strtoul / stoll accept in full: blanks, optional sign, at least one digit, nothing else *)
Definition numeric_value (s : str) : option Z :=
  let s1 := drop_while is_space s in
  let '(neg, s2) := match s1 with
                    | c :: t => if c =? MINUS then (true, t) else if c =? PLUS then (false, t) else (false, s1)
                    | [] => (false, s1)
                    end in
  match s2 with
  | [] => None
  | _ => if forallb is_digit s2 then Some (if neg then - digits_value 0 s2 else digits_value 0 s2) else None
  end.

(* IsServiceNumeric: blanks, optional sign, digits — on the C string that getaddrinfo will see *)
Definition is_service_numeric (serv : str) : bool :=
  match numeric_value (c_str serv) with Some _ => true | None => false end.

(* CheckServiceNumericOutOfRange: std::stoll + range check *)
Definition check_service_range (serv : str) : option exn :=
  match numeric_value (c_str serv) with
  | Some v => if (v <? - 9223372036854775808) || (9223372036854775807 <? v) then Some OutOfRange   (* std::stoll overflows *)
              else if (v <? 0) || (65535 <? v) then Some (RuntimeErr 1) else None              (* "numeric service ... out of range" *)
  | None => Some (InvalidArg 9)      (* std::stoll: no conversion — unreachable after IsServiceNumeric *)
  end.

(* ---- TrimPath ------------------------------------------------------------------------------------------------- *)
Definition SERV_MAX : nat := 32.              (* NI_MAXSERV *)
Definition HOST_MAX : nat := 1025.            (* NI_MAXHOST *)
Definition AUTHORITY_MAX : nat := SERV_MAX + 3 + HOST_MAX + 3 + SERV_MAX.

Definition is_slash (c : Z) : bool := c =? SLASH.

Definition trim_path (uri : str) : str :=
  match find_from is_slash uri 0 0 with
  | None => uri
  | Some pos =>
      let skip := (Nat.ltb 0 pos) && (nth (pos - 1) uri 0 =? COLON) && starts_with [SLASH; SLASH] (skipn pos uri) in
      if skip then
        match find_from is_slash uri (pos + 2) 0 with
        | None => uri
        | Some p2 => firstn p2 uri
        end
      else firstn pos uri
  end.

(* ---- the three regular expressions ----------------------------------------------------------------------------- *)
(* tail of reServ (authority, optional slash, anything up to the end) tried at position p: the authority is the maximal slash-free run, and what follows
   must be free of line terminators ('.' does not match them) *)
Definition re_tail (u : str) (p : nat) : option (nat * nat) :=
  let rest := skipn p u in
  match rest with
  | [] => None
  | c :: _ =>
      if is_slash c then None else
      let au := take_while (fun c => negb (is_slash c)) rest in
      let after := skipn (length au) rest in
      if forallb (fun c => negb (is_newline c)) after then Some (p, length au) else None
  end.

(* reServ: optional [word-characters] + '://', then the authority, then an optional path  ->  (scheme if any, authority) *)
Definition re_serv (u : str) : option (str * str) :=
  let k := length (take_while is_word u) in
  let with_scheme :=
    if starts_with [COLON; SLASH; SLASH] (skipn k u) then
      match re_tail u (k + 3) with
      | Some (p, n) => Some (firstn k u, sub u p n)
      | None => None
      end
    else None in
  match with_scheme with
  | Some r => Some r
  | None => match re_tail u 0 with
            | Some (p, n) => Some ([], sub u p n)
            | None => None
            end
  end.

(* start of the maximal trailing run of digits *)
Definition digit_suffix_start (au : str) : nat := length au - length (take_while is_digit (rev au)).

(* rePortBracket (bracketed host, colon, digits to the end) and rePort (colon-free host, colon, digits to the end)
   ->  (host, port digits) *)
Definition re_port (au : str) : option (str * str) :=
  let j := digit_suffix_start au in
  let n := length au in
  if Nat.ltb j n then
    let bracket :=
      (Nat.leb 4 n) && (Nat.leb 3 j) && (nth 0 au 0 =? LBRACK) && (nth (j - 1) au 0 =? COLON) && (nth (j - 2) au 0 =? RBRACK)
      && forallb (fun c => negb (is_newline c)) (sub au 1 (j - 3)) in
    if bracket then Some (sub au 1 (j - 3), skipn j au)
    else if (Nat.leb 2 j) && (nth (j - 1) au 0 =? COLON) && forallb (fun c => negb (c =? COLON)) (firstn (j - 1) au)
         then Some (firstn (j - 1) au, skipn j au)
         else None
  else None.

(* ---- UriDissect / ParseUri / ParseHostServ: what is handed to getaddrinfo ---------------------------------------- *)
Inductive dissected :=
| DOk (host serv : str) (numericserv : bool)      (* getaddrinfo(host.c_str(), serv.c_str(), flags) is called *)
| DExn (e : exn).                                  (* thrown before any resolution *)

(* the texts the recursive regex matcher is run on, in order (for the stack bound of C11) *)
Definition regex_subjects_uri (uri : str) : list str :=
  let t := trim_path uri in
  if Nat.ltb AUTHORITY_MAX (length t) then [] else
  match re_serv t with
  | None => [t]
  | Some (scheme, au) =>
      match re_port au with
      | Some _ => [t; au; au]
      | None => [t; au; au; c_str scheme]
      end
  end.

Definition uri_dissect (uri : str) : dissected :=
  match uri with
  | [] => DExn (InvalidArg 1)                        (* "empty uri" *)
  | _ =>
    let t := trim_path uri in
    if Nat.ltb AUTHORITY_MAX (length t) then DExn (InvalidArg 5) else    (* "uri too long" *)
    match re_serv t with
    | None => DExn (LogicErr 10)                     (* "unexpected regex non-match" *)
    | Some (scheme, au) =>
        match re_port au with
        | Some (host, port) =>
            match check_service_range port with
            | Some e => DExn e
            | None => DOk host port true
            end
        | None =>
            if is_service_numeric scheme then
              match check_service_range scheme with
              | Some e => DExn e
              | None => DOk au scheme false
              end
            else DOk au scheme false
        end
    end
  end.

Definition hostserv_dissect (host serv : str) : dissected :=
  match host, serv with
  | [], _ => DExn (InvalidArg 2)                     (* "empty host" *)
  | _, [] => DExn (InvalidArg 3)                     (* "empty service" *)
  | _, _ =>
      if Nat.ltb SERV_MAX (length serv) then DExn (InvalidArg 4) else     (* "service too long" *)
      if is_service_numeric serv then
        match check_service_range serv with
        | Some e => DExn e
        | None => DOk host serv false
        end
      else DOk host serv false
  end.

Definition regex_subjects_hostserv (host serv : str) : list str :=
  match host, serv with
  | [], _ | _, [] => []
  | _, _ => if Nat.ltb SERV_MAX (length serv) then [] else [c_str serv]
  end.

(* ---- to_string(SockAddrView): the in-place composition of "[host]:serv" ------------------------------------------- *)
(* getnameinfo writes host and serv as C strings into the zero-filled buffer at the given offsets *)
Fixpoint write_at (buf : str) (off : nat) (s : str) : str :=
  match off, buf with
  | O, _ => s ++ skipn (length s) buf
  | S k, c :: t => c :: write_at t k s
  | S k, [] => []
  end.

Definition find_nul (buf : str) (from : nat) : nat :=
  match find_from (fun c => c =? 0) buf from 0 with Some p => p | None => length buf end.

Definition erase_from (buf : str) (pos : nat) : str := firstn pos buf.
Definition erase_range (buf : str) (pos n : nat) : str := firstn pos buf ++ skipn (pos + n) buf.
Fixpoint set_at (buf : str) (pos : nat) (c : Z) : str :=
  match pos, buf with
  | O, _ :: t => c :: t
  | S k, h :: t => h :: set_at t k c
  | _, [] => []
  end.

Definition to_string_model (is_v6 : bool) (host serv : str) : str :=
  let buf0 := repeat 0 (HOST_MAX + SERV_MAX + 3) in
  let hoff := if is_v6 then 1%nat else 0%nat in
  let soff := ((HOST_MAX + 1) + (if is_v6 then 2 else 0))%nat in
  let buf1 := if is_v6 then set_at buf0 0 LBRACK else buf0 in
  let buf2 := write_at (write_at buf1 hoff host) soff serv in
  let buf3 := erase_from buf2 (find_nul buf2 soff) in
  let soff1 := (soff - 1)%nat in
  let buf4 := set_at buf3 soff1 COLON in
  let '(buf5, soff2) := if is_v6 then (set_at buf4 (soff1 - 1) RBRACK, (soff1 - 1)%nat) else (buf4, soff1) in
  let hend := find_nul buf5 hoff in
  erase_range buf5 hend (soff2 - hend).

(* ---- comparison and hash of socket addresses (SockAddrView) --------------------------------------------------------- *)
(* a view is (addrLen, the first addrLen bytes) *)
Fixpoint bytes_lt (a b : str) : bool :=       (* memcmp(a, b, n) < 0 for equally long a, b *)
  match a, b with
  | x :: a', y :: b' => if x <? y then true else if y <? x then false else bytes_lt a' b'
  | _, _ => false
  end.

Fixpoint bytes_eq (a b : str) : bool :=
  match a, b with
  | [], [] => true
  | x :: a', y :: b' => (x =? y) && bytes_eq a' b'
  | _, _ => false
  end.

Definition view_lt (a b : str) : bool :=
  if Nat.ltb (length a) (length b) then true
  else if Nat.ltb (length b) (length a) then false
  else bytes_lt a b.

Definition view_eq (a b : str) : bool := Nat.eqb (length a) (length b) && bytes_eq a b.

(* Linux sockaddr_in / sockaddr_in6 *)
Definition be16 (p : Z) : str := [p / 256; p mod 256].
Definition le32 (x : Z) : str := [x mod 256; (x / 256) mod 256; (x / 65536) mod 256; (x / 16777216) mod 256].
Definition encode4 (ip : str) (port : Z) : str := [2; 0] ++ be16 port ++ ip ++ repeat 0 8.
Definition encode6 (ip : str) (port : Z) (flow : str) (scope : Z) : str := [10; 0] ++ be16 port ++ flow ++ ip ++ le32 scope.

(* Port(): bytes 2..3 in network order *)
Definition port_of (v : str) : Z := nth 2 v 0 * 256 + nth 3 v 0.
