(* WaitLemmas.v — facts about DoPoll / Wait (src/wait.cpp) for every oracle script:
   EINTR is invisible (C16) and the time-out calculus (C07). *)
From SP Require Import Base ListAux Os OsLemmas WaitModel.
Local Open Scope Z_scope.

Section WithExt.
Context {X : Type}.
Local Notation M := (M X).
Local Notation os := (os X).

(* ---- vocabulary ------------------------------------------------------------------------------- *)
Definition extends (s s' : os) (new : list raw) : Prop := o_trace s' = new ++ o_trace s.

Definition frame (s s' : os) : Prop :=
  o_ext s' = o_ext s /\ o_nextfd s' = o_nextfd s /\ o_nsys s' = o_nsys s /\ o_faults s' = o_faults s.

Definition suffix (s s' : os) : Prop := exists used, o_script s = used ++ o_script s'.

(* script hygiene: time never runs backwards *)
Definition ev_calm (e : ev) : Prop :=
  match e with EvNow dt => 0 <= dt | EvPoll _ _ dt _ => 0 <= dt | _ => True end.
Definition calm (sc : list ev) : Prop := Forall ev_calm sc.
(* idealisation used for the crisp bounds: computation between system calls takes no time *)
Definition ev_instant (e : ev) : Prop := match e with EvNow dt => dt = 0 | _ => True end.
Definition instant (sc : list ev) : Prop := Forall ev_instant sc.

(* a poll entry of the trace: [timeout; ret; dt; fds...] *)
Definition poll_entry (e : raw) : option (Z * Z * Z) :=
  if fst e =? K_POLL then Some (nthZ (snd e) 0, nthZ (snd e) 1, nthZ (snd e) 2) else None.

(* the kernel never overstays a non-negative time-out ... *)
Definition honest_up (tr : list raw) : Prop :=
  forall e t r dt, In e tr -> poll_entry e = Some (t, r, dt) -> 0 <= t -> dt <= t * NS_PER_MS.
(* ... and reports "timed out" (0) only after the time-out has really passed *)
Definition honest_lo (tr : list raw) : Prop :=
  forall e t r dt, In e tr -> poll_entry e = Some (t, r, dt) -> 0 <= t -> r = 0 -> t * NS_PER_MS <= dt.

Definition only_wait_entries (tr : list raw) : Prop :=
  Forall (fun e => fst e = K_POLL \/ fst e = K_NOW) tr.

Definition poll_timeouts (tr : list raw) (P : Z -> Prop) : Prop :=
  forall e t r dt, In e tr -> poll_entry e = Some (t, r, dt) -> P t.

Lemma extends_refl s : extends s s [].
Proof. reflexivity. Qed.

Lemma extends_trans s s1 s2 n1 n2 : extends s s1 n1 -> extends s1 s2 n2 -> extends s s2 (n2 ++ n1).
Proof. unfold extends. intros H1 H2. rewrite H2, H1. now rewrite app_assoc. Qed.

Lemma frame_refl s : frame s s.
Proof. repeat split. Qed.

Lemma frame_trans s s1 s2 : frame s s1 -> frame s1 s2 -> frame s s2.
Proof. unfold frame. intros [a [b [c d]]] [a' [b' [c' d']]]. repeat split; congruence. Qed.

Lemma suffix_refl s : suffix s s.
Proof. exists []. reflexivity. Qed.

Lemma suffix_trans s s1 s2 : suffix s s1 -> suffix s1 s2 -> suffix s s2.
Proof. intros [u1 H1] [u2 H2]. exists (u1 ++ u2). rewrite H1, H2. now rewrite app_assoc. Qed.

Lemma suffix_forall (P : ev -> Prop) s s' : suffix s s' -> Forall P (o_script s) -> Forall P (o_script s').
Proof. intros [u H] F. rewrite H in F. apply Forall_app in F. tauto. Qed.

Lemma suffix_length s s' : suffix s s' -> (length (o_script s') <= length (o_script s))%nat.
Proof. intros [u H]. rewrite H, app_length. lia. Qed.

Lemma upd_extends (s : os) sc now e : extends s (upd s sc now e) [e].
Proof. reflexivity. Qed.
Lemma upd_frame (s : os) sc now e : frame s (upd s sc now e).
Proof. repeat split. Qed.
Lemma upd_suffix (s : os) x sc now e : o_script s = x :: sc -> suffix s (upd s sc now e).
Proof. intros H. exists [x]. exact H. Qed.

(* ---- to_msec ---------------------------------------------------------------------------------- *)
Lemma to_msec_id t : 0 <= t <= INT_MAX -> to_msec t = t.
Proof.
  intros H. unfold to_msec. destruct (INT_MAX <? t) eqn:E; [apply Z.ltb_lt in E; lia|].
  destruct (t <? 0) eqn:E2; [apply Z.ltb_lt in E2; lia|reflexivity].
Qed.

Lemma to_msec_neg t : t < 0 -> to_msec t = -1.
Proof.
  intros H. unfold to_msec, INT_MAX. destruct (2147483647 <? t) eqn:E; [apply Z.ltb_lt in E; lia|].
  destruct (t <? 0) eqn:E2; [reflexivity|apply Z.ltb_ge in E2; lia].
Qed.

(* never turns a non-negative budget into "unlimited", never exceeds what poll can take *)
Lemma to_msec_range t : 0 <= t -> 0 <= to_msec t <= INT_MAX /\ to_msec t <= t.
Proof.
  intros H. unfold to_msec. destruct (INT_MAX <? t) eqn:E.
  - apply Z.ltb_lt in E. unfold INT_MAX in *. lia.
  - destruct (t <? 0) eqn:E2; [apply Z.ltb_lt in E2; lia|].
    apply Z.ltb_ge in E. unfold INT_MAX in *. lia.
Qed.

(* ---- deadlines -------------------------------------------------------------------------------- *)
Lemma dl_remaining_nonneg d : 0 <= dl_remaining d.
Proof. unfold dl_remaining. destruct (_ <? 0) eqn:E; [lia|apply Z.ltb_ge in E; exact E]. Qed.

Lemma quot_bounds a : 0 <= a -> Z.quot a NS_PER_MS * NS_PER_MS <= a < Z.quot a NS_PER_MS * NS_PER_MS + NS_PER_MS.
Proof.
  intros H. rewrite Z.quot_div_nonneg by (unfold NS_PER_MS; lia).
  pose proof (Z.div_mod a NS_PER_MS ltac:(unfold NS_PER_MS; lia)) as Hd.
  pose proof (Z.mod_pos_bound a NS_PER_MS ltac:(unfold NS_PER_MS; lia)) as Hm. unfold NS_PER_MS in *. lia.
Qed.

(* Remaining() never exceeds what is left, and misses it by less than 1 ms *)
Lemma dl_remaining_spec d :
  (d_now d <= d_deadline d ->
     dl_remaining d * NS_PER_MS <= d_deadline d - d_now d < dl_remaining d * NS_PER_MS + NS_PER_MS) /\
  (d_deadline d <= d_now d -> dl_remaining d = 0).
Proof.
  unfold dl_remaining. split; intros H.
  - pose proof (quot_bounds (d_deadline d - d_now d) ltac:(lia)) as Q.
    unfold NS_PER_MS in *. destruct (_ <? 0) eqn:E; [apply Z.ltb_lt in E|]; lia.
  - destruct (_ <? 0) eqn:E; [reflexivity|]. apply Z.ltb_ge in E.
    assert (Hq : Z.quot (d_deadline d - d_now d) NS_PER_MS <= Z.quot 0 NS_PER_MS).
    { apply Z.quot_le_mono; unfold NS_PER_MS; lia. }
    rewrite Z.quot_0_l in Hq by (unfold NS_PER_MS; lia). lia.
Qed.

(* ---- the poll loops ---------------------------------------------------------------------------- *)
Record steps (s s' : os) (new : list raw) : Prop := {
  st_extends : extends s s' new;
  st_frame : frame s s';
  st_suffix : suffix s s'
}.

Lemma steps_refl s : steps s s [].
Proof. constructor; [apply extends_refl|apply frame_refl|apply suffix_refl]. Qed.

Lemma steps_trans s s1 s2 n1 n2 : steps s s1 n1 -> steps s1 s2 n2 -> steps s s2 (n2 ++ n1).
Proof.
  intros [a b c] [a' b' c']. constructor;
    [eapply extends_trans|eapply frame_trans|eapply suffix_trans]; eassumption.
Qed.

Lemma steps_upd (s : os) x sc now e : o_script s = x :: sc -> steps s (upd s sc now e) [e].
Proof. intros H. constructor; [apply upd_extends|apply upd_frame|eapply upd_suffix; exact H]. Qed.

Lemma steps_calm s s' new : steps s s' new -> calm (o_script s) -> calm (o_script s').
Proof. intros [_ _ H]. now apply suffix_forall. Qed.

Lemma steps_instant s s' new : steps s s' new -> instant (o_script s) -> instant (o_script s').
Proof. intros [_ _ H]. now apply suffix_forall. Qed.

Lemma steps_fuel s s' new fuel : steps s s' new -> (length (o_script s) < fuel)%nat -> (length (o_script s') < fuel)%nat.
Proof. intros [_ _ H] Hf. apply suffix_length in H. lia. Qed.

Definition not_interrupted (r : res (Z * Z * list Z)) : Prop :=
  forall x, r = Ok x -> interrupted x = false.

Lemma interrupted_false_err ret_ err rev :
  interrupted (ret_, err, rev) = false -> ret_ < 0 -> err <> EINTR.
Proof.
  unfold interrupted. intros H Hn He. subst err.
  assert (Hlt : ret_ <? 0 = true) by (apply Z.ltb_lt; lia). rewrite Hlt in H. cbn in H. discriminate.
Qed.

Lemma honest_up_app a b : honest_up (a ++ b) <-> honest_up a /\ honest_up b.
Proof.
  unfold honest_up. split.
  - intros H. split; intros e t r dt Hin; apply H; apply in_or_app; tauto.
  - intros [Ha Hb] e t r dt Hin. apply in_app_or in Hin. destruct Hin; [now apply Ha|now apply Hb].
Qed.

Lemma honest_lo_app a b : honest_lo (a ++ b) <-> honest_lo a /\ honest_lo b.
Proof.
  unfold honest_lo. split.
  - intros H. split; intros e t r dt Hin; apply H; apply in_or_app; tauto.
  - intros [Ha Hb] e t r dt Hin. apply in_app_or in Hin. destruct Hin; [now apply Ha|now apply Hb].
Qed.

Lemma poll_timeouts_app a b P : poll_timeouts (a ++ b) P <-> poll_timeouts a P /\ poll_timeouts b P.
Proof.
  unfold poll_timeouts. split.
  - intros H. split; intros e t r dt Hin; apply H; apply in_or_app; tauto.
  - intros [Ha Hb] e t r dt Hin. apply in_app_or in Hin. destruct Hin; [now eapply Ha|now eapply Hb].
Qed.

Lemma poll_timeouts_nil P : poll_timeouts [] P.
Proof. intros e t r dt []. Qed.

Lemma poll_timeouts_weaken tr (P Q : Z -> Prop) : (forall t, P t -> Q t) -> poll_timeouts tr P -> poll_timeouts tr Q.
Proof. intros H HP e t r dt Hin Hp. apply H. eapply HP; eassumption. Qed.

Lemma only_wait_app a b : only_wait_entries (a ++ b) <-> only_wait_entries a /\ only_wait_entries b.
Proof. unfold only_wait_entries. apply Forall_app. Qed.

(* a poll returning "time-out" (0): what the last poll of a segment reported *)
Definition poll_result_of (x : Z * Z * list Z) : Z := fst (fst x).

(* the most recent trace entry is the poll that produced the result *)
Definition last_poll (new : list raw) (r : res (Z * Z * list Z)) : Prop :=
  forall x, r = Ok x -> exists e rest t dt, new = e :: rest /\ poll_entry e = Some (t, poll_result_of x, dt).

Lemma last_poll_app new more r : last_poll new r -> last_poll (new ++ more) r.
Proof.
  intros H x Hx. destruct (H x Hx) as [e [rest [t [dt [-> Hp]]]]].
  exists e, (rest ++ more), t, dt. split; [reflexivity|assumption].
Qed.

Lemma last_poll_not_ok new (r : res (Z * Z * list Z)) : (forall x, r <> Ok x) -> last_poll new r.
Proof. intros H x Hx. exfalso. exact (H x Hx). Qed.

(* unlimited / zero time-out: poll again with the same argument until not interrupted *)
Record unl_spec (T : Z) (s s' : os) (r : res (Z * Z * list Z)) (new : list raw) : Prop := {
  us_steps : steps s s' new;
  us_only : only_wait_entries new;
  us_nintr : not_interrupted r;
  us_fuel : r <> Bad 10;
  us_tmo : poll_timeouts new (fun t => t = to_msec T);
  us_mono : calm (o_script s) -> o_now s <= o_now s';
  us_zero : T = 0 -> calm (o_script s) -> honest_up new -> o_now s' = o_now s;
  us_last : last_poll new r
}.

Lemma poll_unlimited_spec fuel fds T : forall s r s',
  poll_unlimited fuel fds T s = (r, s') ->
  (length (o_script s) < fuel)%nat ->
  exists new, unl_spec T s s' r new.
Proof.
  induction fuel as [|k IH]; intros s r s' H Hf; [lia|].
  cbn [poll_unlimited] in H. apply bind_inv in H.
  destruct H as [[x [s1 [H1 H2]]]|[r0 [H1 [H2 ->]]]].
  - apply sys_poll_inv in H1. destruct H1 as [[ret_ [e [dt [rev [sc [Hs [Hr ->]]]]]]]|[Hr _]]; [|discriminate].
    inversion Hr; subst x. clear Hr.
    set (entry := (K_POLL, to_msec T :: ret_ :: dt :: flatten_fds fds)) in *.
    set (s1 := upd s sc (o_now s + dt) entry) in *.
    assert (Hpe : poll_entry entry = Some (to_msec T, ret_, dt)) by reflexivity.
    assert (Hst : steps s s1 [entry]) by (eapply steps_upd; exact Hs).
    assert (Hcalm : calm (o_script s) -> 0 <= dt /\ calm sc).
    { intros Hc. rewrite Hs in Hc. inversion Hc; subst. cbn in *. tauto. }
    destruct (interrupted (ret_, e, rev)) eqn:Ei.
    + destruct (IH s1 r s' H2) as [new [Hsteps Honly Hni Hb Hpt Hmono Hz Hlast]].
      { unfold s1. cbn. rewrite Hs in Hf. cbn in Hf. lia. }
      exists (new ++ [entry]). constructor.
      * eapply steps_trans; eassumption.
      * apply only_wait_app. split; [assumption|]. constructor; [now left|constructor].
      * assumption.
      * assumption.
      * apply poll_timeouts_app. split; [assumption|].
        intros x t r1 dt1 [<-|[]] Hp. rewrite Hpe in Hp. now inversion Hp.
      * intros Hc. destruct (Hcalm Hc) as [Hdt Hc2]. specialize (Hmono Hc2). cbn in Hmono. lia.
      * intros HT Hc Hh. destruct (Hcalm Hc) as [Hdt Hc2]. apply honest_up_app in Hh. destruct Hh as [Hh1 Hh2].
        assert (Hle : dt <= to_msec T * NS_PER_MS).
        { apply (Hh2 entry (to_msec T) ret_ dt); [now left|exact Hpe|subst T; cbn; lia]. }
        subst T. cbn in Hle. rewrite (Hz eq_refl Hc2 Hh1). cbn. lia.
      * now apply last_poll_app.
    + inversion H2; subst. exists [entry]. constructor.
      * exact Hst.
      * constructor; [now left|constructor].
      * intros x Hx. inversion Hx; subst. exact Ei.
      * discriminate.
      * intros x t r1 dt1 [<-|[]] Hp. rewrite Hpe in Hp. now inversion Hp.
      * intros Hc. destruct (Hcalm Hc) as [Hdt _]. cbn. lia.
      * intros HT Hc Hh. destruct (Hcalm Hc) as [Hdt _].
        assert (Hle : dt <= to_msec T * NS_PER_MS).
        { apply (Hh entry (to_msec T) ret_ dt); [now left|exact Hpe|subst T; cbn; lia]. }
        subst T. cbn in *. lia.
      * intros x Hx. inversion Hx; subst x. exists entry, [], (to_msec T), dt. split; [reflexivity|exact Hpe].
  - apply sys_poll_inv in H1. destruct H1 as [[ret_ [e [dt [rev [sc [Hs [Hr ->]]]]]]]|[Hr ->]].
    + subst r0. discriminate.
    + subst r0. exists []. constructor.
      * apply steps_refl.
      * constructor.
      * intros x Hx. discriminate.
      * discriminate.
      * apply poll_timeouts_nil.
      * lia.
      * reflexivity.
      * apply last_poll_not_ok. discriminate.
Qed.

(* limited time-out: poll with the remaining budget; after an interruption re-read the clock *)
Record lim_spec (D : Z) (s s' : os) (r : res (Z * Z * list Z)) (new : list raw) : Prop := {
  ls_steps : steps s s' new;
  ls_only : only_wait_entries new;
  ls_nintr : not_interrupted r;
  ls_fuel : r <> Bad 11;
  ls_tmo : poll_timeouts new (fun t => 0 <= t <= INT_MAX);
  ls_tmo_bound : calm (o_script s) -> poll_timeouts new (fun t => t * NS_PER_MS <= Z.max 0 (D - o_now s));
  ls_mono : calm (o_script s) -> o_now s <= o_now s';
  (* never blocks beyond the deadline *)
  ls_upper : calm (o_script s) -> instant (o_script s) -> honest_up new -> o_now s' <= Z.max (o_now s) D;
  (* reports a time-out only when (to the millisecond) the deadline has come *)
  ls_lower : calm (o_script s) -> honest_lo new -> D - o_now s <= INT_MAX * NS_PER_MS ->
             forall x, r = Ok x -> poll_result_of x = 0 -> D - NS_PER_MS < o_now s';
  ls_last : last_poll new r
}.

Lemma poll_limited_spec fuel fds : forall d s r s',
  poll_limited fuel fds d s = (r, s') ->
  (length (o_script s) < fuel)%nat ->
  d_now d = o_now s ->
  exists new, lim_spec (d_deadline d) s s' r new.
Proof.
  induction fuel as [|k IH]; intros d s r s' H Hf Hnow; [lia|].
  cbn [poll_limited] in H. apply bind_inv in H.
  pose proof (dl_remaining_nonneg d) as Hr0.
  pose proof (dl_remaining_spec d) as [Hrs1 Hrs2].
  pose proof (to_msec_range (dl_remaining d) Hr0) as [Htm1 Htm2].
  set (t0 := to_msec (dl_remaining d)) in *.
  set (D := d_deadline d) in *.
  (* the time-out handed to poll never reaches beyond the deadline *)
  assert (Ht0 : t0 * NS_PER_MS <= Z.max 0 (D - o_now s)).
  { destruct (Z_le_gt_dec (d_now d) D) as [Hle|Hgt].
    - specialize (Hrs1 Hle). unfold NS_PER_MS in *. lia.
    - rewrite Hrs2 in Htm2 by lia. unfold NS_PER_MS in *. lia. }
  destruct H as [[x [s1 [H1 H2]]]|[r0 [H1 [H2 ->]]]].
  - apply sys_poll_inv in H1. destruct H1 as [[ret_ [e [dt [rev [sc [Hs [Hr ->]]]]]]]|[Hr _]]; [|discriminate].
    inversion Hr; subst x. clear Hr.
    set (entry := (K_POLL, t0 :: ret_ :: dt :: flatten_fds fds)) in *.
    set (s1 := upd s sc (o_now s + dt) entry) in *.
    assert (Hpe : poll_entry entry = Some (t0, ret_, dt)) by reflexivity.
    assert (Hst : steps s s1 [entry]) by (eapply steps_upd; exact Hs).
    assert (Hcalm : calm (o_script s) -> 0 <= dt /\ calm sc).
    { intros Hc. rewrite Hs in Hc. inversion Hc; subst. cbn in *. tauto. }
    assert (Hinst : instant (o_script s) -> instant sc).
    { intros Hc. rewrite Hs in Hc. inversion Hc; subst. assumption. }
    assert (Hentry_tmo : poll_timeouts [entry] (fun t => 0 <= t <= INT_MAX)).
    { intros x t r1 dt1 [<-|[]] Hp. rewrite Hpe in Hp. inversion Hp; subst. lia. }
    assert (Hentry_bound : poll_timeouts [entry] (fun t => t * NS_PER_MS <= Z.max 0 (D - o_now s))).
    { intros x t r1 dt1 [<-|[]] Hp. rewrite Hpe in Hp. inversion Hp; subst. exact Ht0. }
    assert (Hup1 : honest_up [entry] -> dt <= Z.max 0 (D - o_now s)).
    { intros Hh. assert (Hle : dt <= t0 * NS_PER_MS).
      { apply (Hh entry t0 ret_ dt); [now left|exact Hpe|lia]. }
      lia. }
    destruct (interrupted (ret_, e, rev)) eqn:Ei.
    + (* tick, then again *)
      apply bind_inv in H2. destruct H2 as [[d' [s2 [H21 H22]]]|[r0 [H21 [H22 ->]]]].
      * unfold dl_tick in H21. apply bind_inv in H21.
        destruct H21 as [[now2 [s2' [Hn1 Hn2]]]|[r0 [Hn1 [Hn2 Hn3]]]]; [|exfalso; exact (recast_not_ok _ _ Hn3)].
        inversion Hn2; subst s2' d'. clear Hn2.
        apply sys_now_inv in Hn1. destruct Hn1 as [[dt2 [sc2 [Hs2 [Hr2 ->]]]]|[Hr2 _]]; [|discriminate].
        inversion Hr2; subst now2. clear Hr2.
        set (entry2 := (K_NOW, [o_now s1 + dt2])) in *.
        set (s2 := upd s1 sc2 (o_now s1 + dt2) entry2) in *.
        assert (Hst2 : steps s1 s2 [entry2]) by (eapply steps_upd; exact Hs2).
        assert (Hsc2 : sc = EvNow dt2 :: sc2) by exact Hs2.
        destruct (IH {| d_now := o_now s1 + dt2; d_deadline := D |} s2 r s' H22) as [new [Hsteps Honly Hni Hb Hpt Hptb Hmono Hup Hlo Hlast]].
        { unfold s2. cbn. rewrite Hs in Hf. rewrite Hsc2 in Hf. cbn in Hf. lia. }
        { reflexivity. }
        cbn [d_deadline] in *.
        assert (Hcalm2 : calm (o_script s) -> 0 <= dt2 /\ calm sc2).
        { intros Hc. destruct (Hcalm Hc) as [_ Hc']. rewrite Hsc2 in Hc'. inversion Hc'; subst. cbn in *. tauto. }
        assert (Hnow2 : o_now s2 = o_now s + dt + dt2) by reflexivity.
        exists (new ++ [entry2] ++ [entry]). constructor.
        -- eapply steps_trans; [|exact Hsteps]. eapply steps_trans; eassumption.
        -- apply only_wait_app. split; [assumption|]. constructor; [now right|]. constructor; [now left|constructor].
        -- assumption.
        -- assumption.
        -- apply poll_timeouts_app. split; [assumption|]. apply poll_timeouts_app. split; [|assumption].
           intros x t r1 dt1 [<-|[]] Hp. discriminate.
        -- intros Hc. destruct (Hcalm Hc) as [Hdt Hc1]. destruct (Hcalm2 Hc) as [Hdt2 Hc2].
           apply poll_timeouts_app. split.
           ++ eapply poll_timeouts_weaken; [|apply Hptb; exact Hc2]. intros t Ht. cbn beta in Ht. lia.
           ++ apply poll_timeouts_app. split; [|assumption]. intros x t r1 dt1 [<-|[]] Hp. discriminate.
        -- intros Hc. destruct (Hcalm Hc) as [Hdt Hc1]. destruct (Hcalm2 Hc) as [Hdt2 Hc2].
           specialize (Hmono Hc2). lia.
        -- intros Hc Hi Hh. destruct (Hcalm Hc) as [Hdt Hc1]. destruct (Hcalm2 Hc) as [Hdt2 Hc2].
           apply honest_up_app in Hh. destruct Hh as [Hh1 Hh2]. apply honest_up_app in Hh2. destruct Hh2 as [_ Hh3].
           specialize (Hup1 Hh3).
           assert (Hi2 : instant sc2 /\ dt2 = 0).
           { specialize (Hinst Hi). rewrite Hsc2 in Hinst. inversion Hinst; subst. cbn in *. tauto. }
           destruct Hi2 as [Hi2 ->].
           specialize (Hup Hc2 Hi2 Hh1). lia.
        -- intros Hc Hh Hrange x Hx Hz. destruct (Hcalm Hc) as [Hdt Hc1]. destruct (Hcalm2 Hc) as [Hdt2 Hc2].
           apply honest_lo_app in Hh. destruct Hh as [Hh1 _].
           apply (Hlo Hc2 Hh1) with (x := x); [lia|assumption|assumption].
        -- now apply last_poll_app.
      * (* the clock read itself has no event: script does not fit *)
        unfold dl_tick in H21. apply bind_inv in H21.
        destruct H21 as [[now2 [s2' [Hn1 Hn2]]]|[r1 [Hn1 [Hn2 Hn3]]]]; [inversion Hn2; subst; discriminate|].
        apply sys_now_inv in Hn1. destruct Hn1 as [[dt2 [sc2 [Hs2 [Hr2 ->]]]]|[Hr2 ->]]; [subst r1; discriminate|].
        subst r1 r0. cbn [recast]. exists [entry]. constructor.
        -- exact Hst.
        -- constructor; [now left|constructor].
        -- intros x Hx. discriminate.
        -- discriminate.
        -- exact Hentry_tmo.
        -- intros _. exact Hentry_bound.
        -- intros Hc. destruct (Hcalm Hc) as [Hdt _]. cbn. lia.
        -- intros Hc Hi Hh. specialize (Hup1 Hh). cbn. lia.
        -- intros _ _ _ x Hx. discriminate.
        -- apply last_poll_not_ok. discriminate.
    + inversion H2; subst. exists [entry]. constructor.
      * exact Hst.
      * constructor; [now left|constructor].
      * intros x Hx. inversion Hx; subst. exact Ei.
      * discriminate.
      * exact Hentry_tmo.
      * intros _. exact Hentry_bound.
      * intros Hc. destruct (Hcalm Hc) as [Hdt _]. cbn. lia.
      * intros Hc Hi Hh. specialize (Hup1 Hh). cbn. lia.
      * intros Hc Hh Hrange x Hx Hz. inversion Hx; subst x. cbn in Hz. subst ret_.
        destruct (Hcalm Hc) as [Hdt _].
        assert (Hle : t0 * NS_PER_MS <= dt).
        { apply (Hh entry t0 0 dt); [now left|exact Hpe|lia|reflexivity]. }
        cbn [o_now s1 upd].
        destruct (Z_le_gt_dec (d_now d) D) as [Hle'|Hgt].
        -- specialize (Hrs1 Hle').
           (* the remaining time fits an int, so ToMsec is the identity here *)
           assert (Hrem : dl_remaining d <= INT_MAX).
           { unfold NS_PER_MS, INT_MAX in *. lia. }
           assert (Ht0eq : t0 = dl_remaining d) by (unfold t0; apply to_msec_id; lia).
           rewrite Ht0eq in Hle. unfold NS_PER_MS in *. lia.
        -- unfold NS_PER_MS in *. lia.
      * intros x Hx. inversion Hx; subst x. exists entry, [], t0, dt. split; [reflexivity|exact Hpe].
  - apply sys_poll_inv in H1. destruct H1 as [[ret_ [e [dt [rev [sc [Hs [Hr ->]]]]]]]|[Hr ->]].
    + subst r0. discriminate.
    + subst r0. exists []. constructor.
      * apply steps_refl.
      * constructor.
      * intros x Hx. discriminate.
      * discriminate.
      * apply poll_timeouts_nil.
      * intros _. apply poll_timeouts_nil.
      * lia.
      * intros. lia.
      * intros _ _ _ x Hx. discriminate.
      * apply last_poll_not_ok. discriminate.
Qed.

Lemma poll_unlimited_bad fuel fds T : forall (s : os) w s',
  poll_unlimited fuel fds T s = (Bad w, s') -> w = 10 \/ w = 2.
Proof.
  induction fuel as [|k IH]; intros s w s' H; cbn in H; [inversion H; now left|].
  apply bind_inv in H. destruct H as [[x [s1 [H1 H2]]]|[r0 [H1 [H2 H3]]]].
  - destruct (interrupted x); [eapply IH; eassumption|inversion H2].
  - apply sys_poll_inv in H1. destruct H1 as [[ret_ [e [dt [rev [sc [Hs [Hr _]]]]]]]|[Hr _]].
    + subst r0. discriminate.
    + subst r0. cbn in H3. inversion H3. now right.
Qed.

Lemma poll_limited_bad fuel fds : forall d (s : os) w s',
  poll_limited fuel fds d s = (Bad w, s') -> w = 11 \/ w = 1 \/ w = 2.
Proof.
  induction fuel as [|k IH]; intros d s w s' H; cbn in H; [inversion H; now left|].
  apply bind_inv in H. destruct H as [[x [s2 [H1 H2]]]|[r0 [H1 [H2 H3]]]].
  - destruct (interrupted x).
    + apply bind_inv in H2. destruct H2 as [[d' [s3 [H21 H22]]]|[r0 [H21 [H22 H23]]]].
      * eapply IH; eassumption.
      * unfold dl_tick in H21. apply bind_inv in H21.
        destruct H21 as [[now2 [s2' [Hn1 Hn2]]]|[r1 [Hn1 [Hn2 Hn3]]]]; [inversion Hn2; subst; discriminate|].
        apply sys_now_inv in Hn1. destruct Hn1 as [[dt2 [sc2 [Hs2 [Hr2 _]]]]|[Hr2 _]]; [subst r1; discriminate|].
        subst r1 r0. cbn in H23. inversion H23. right. now left.
    + inversion H2.
  - apply sys_poll_inv in H1. destruct H1 as [[ret_ [e [dt [rev [sc [Hs [Hr _]]]]]]]|[Hr _]].
    + subst r0. discriminate.
    + subst r0. cbn in H3. inversion H3. right. now right.
Qed.

(* ---- DoPoll(pfds, count, Duration) ------------------------------------------------------------- *)
Record wait_spec (T : Z) (s s' : os) (r : res (Z * Z * list Z)) (new : list raw) : Prop := {
  ws_steps : steps s s' new;
  ws_only : only_wait_entries new;
  ws_nintr : not_interrupted r;
  ws_fuel : forall w, r = Bad w -> w = 1 \/ w = 2;            (* only: the script does not fit *)
  ws_neg : T < 0 -> poll_timeouts new (fun t => t = -1);
  ws_zero : T = 0 -> poll_timeouts new (fun t => t = 0);
  ws_pos : 0 < T -> poll_timeouts new (fun t => 0 <= t <= INT_MAX) /\
                    (calm (o_script s) -> poll_timeouts new (fun t => t <= T));
  ws_mono : calm (o_script s) -> o_now s <= o_now s';
  ws_upper : 0 <= T -> calm (o_script s) -> instant (o_script s) -> honest_up new ->
             o_now s' <= o_now s + T * NS_PER_MS;
  ws_lower : 0 < T <= INT_MAX -> calm (o_script s) -> honest_lo new ->
             forall x, r = Ok x -> poll_result_of x = 0 -> o_now s + T * NS_PER_MS - NS_PER_MS < o_now s';
  ws_last : last_poll new r
}.

Lemma do_poll_spec fds T s r s' :
  do_poll fds T s = (r, s') -> exists new, wait_spec T s s' r new.
Proof.
  unfold do_poll. intros H. apply bind_inv in H.
  destruct H as [[fuel [s0 [H1 H2]]]|[r0 [H1 [H2 _]]]].
  2:{ apply script_fuel_inv in H1. destruct H1 as [-> _]. discriminate. }
  apply script_fuel_inv in H1. destruct H1 as [Hfu ->]. inversion Hfu; subst fuel. clear Hfu.
  destruct (T <=? 0) eqn:ET.
  - apply Z.leb_le in ET.
    destruct (poll_unlimited_spec _ fds T s r s' H2 ltac:(lia)) as [new [Hst Honly Hni Hb Hpt Hmono Hz Hlast]].
    exists new. constructor; try assumption.
    + intros w Hw. subst r. destruct (poll_unlimited_bad _ _ _ _ _ _ H2) as [-> | ->]; [contradiction|now right].
    + intros HT. eapply poll_timeouts_weaken; [|exact Hpt]. intros t ->. now apply to_msec_neg.
    + intros HT. eapply poll_timeouts_weaken; [|exact Hpt]. intros t ->. subst T. reflexivity.
    + intros HT. lia.
    + intros HT Hc Hi Hh. assert (T = 0) by lia. subst T. rewrite (Hz eq_refl Hc Hh). lia.
    + intros HT. lia.
  - apply Z.leb_gt in ET. apply bind_inv in H2.
    destruct H2 as [[d [s1 [Hd H3]]]|[r0 [Hd [Hn ->]]]].
    + unfold dl_new in Hd. apply bind_inv in Hd.
      destruct Hd as [[now1 [s1' [Hn1 Hn2]]]|[r0 [Hn1 [Hn2 Hn3]]]]; [|exfalso; exact (recast_not_ok _ _ Hn3)].
      inversion Hn2; subst s1' d. clear Hn2.
      apply sys_now_inv in Hn1. destruct Hn1 as [[dt0 [sc [Hs [Hr ->]]]]|[Hr _]]; [|discriminate].
      inversion Hr; subst now1. clear Hr.
      set (entry := (K_NOW, [o_now s + dt0])) in *.
      set (s1 := upd s sc (o_now s + dt0) entry) in *.
      assert (Hst1 : steps s s1 [entry]) by (eapply steps_upd; exact Hs).
      assert (Hcalm : calm (o_script s) -> 0 <= dt0 /\ calm sc).
      { intros Hc. rewrite Hs in Hc. inversion Hc; subst. cbn in *. tauto. }
      assert (Hinst : instant (o_script s) -> dt0 = 0 /\ instant sc).
      { intros Hc. rewrite Hs in Hc. inversion Hc; subst. cbn in *. tauto. }
      destruct (poll_limited_spec _ fds _ s1 r s' H3) as [new [Hsteps Honly Hni Hb Hpt Hptb Hmono Hup Hlo Hlast]].
      { unfold s1. cbn. rewrite Hs. cbn. lia. }
      { reflexivity. }
      cbn [d_deadline d_now] in *.
      exists (new ++ [entry]). constructor.
      * eapply steps_trans; eassumption.
      * apply only_wait_app. split; [assumption|]. constructor; [now right|constructor].
      * assumption.
      * intros w Hw. subst r. destruct (poll_limited_bad _ _ _ _ _ _ H3) as [-> | [-> | ->]]; [contradiction|now left|now right].
      * intros HT. lia.
      * intros HT. lia.
      * intros _. split.
        -- apply poll_timeouts_app. split; [assumption|]. intros x t r1 dt1 [<-|[]] Hp. discriminate.
        -- intros Hc. destruct (Hcalm Hc) as [Hdt0 Hc1]. apply poll_timeouts_app. split.
           ++ eapply poll_timeouts_weaken; [|apply Hptb; exact Hc1]. intros t Ht. cbn beta in Ht. cbn [o_now s1 upd] in Ht.
              unfold NS_PER_MS in *. lia.
           ++ intros x t r1 dt1 [<-|[]] Hp. discriminate.
      * intros Hc. destruct (Hcalm Hc) as [Hdt0 Hc1]. specialize (Hmono Hc1). cbn [o_now s1 upd] in Hmono. lia.
      * intros HT Hc Hi Hh. destruct (Hcalm Hc) as [Hdt0 Hc1]. destruct (Hinst Hi) as [-> Hi1].
        apply honest_up_app in Hh. destruct Hh as [Hh1 _].
        specialize (Hup Hc1 Hi1 Hh1). cbn [o_now s1 upd] in Hup. unfold NS_PER_MS in *. lia.
      * intros HT Hc Hh x Hx Hz. destruct (Hcalm Hc) as [Hdt0 Hc1].
        apply honest_lo_app in Hh. destruct Hh as [Hh1 _].
        assert (Hl := Hlo Hc1 Hh1). cbn [o_now s1 upd] in Hl.
        specialize (Hl ltac:(unfold NS_PER_MS, INT_MAX in *; lia) x Hx Hz). unfold NS_PER_MS in *. lia.
      * now apply last_poll_app.
    + (* the first clock read finds no event *)
      unfold dl_new in Hd. apply bind_inv in Hd.
      destruct Hd as [[now1 [s1' [Hn1 Hn2]]]|[r1 [Hn1 [Hn2 Hn3]]]]; [inversion Hn2; subst; discriminate|].
      apply sys_now_inv in Hn1. destruct Hn1 as [[dt0 [sc [Hs [Hr _]]]]|[Hr ->]]; [subst r1; discriminate|].
      subst r1 r0. cbn [recast]. exists []. constructor.
      * apply steps_refl.
      * constructor.
      * intros x Hx. discriminate.
      * intros w Hw. inversion Hw. now left.
      * intros _. apply poll_timeouts_nil.
      * intros _. apply poll_timeouts_nil.
      * intros _. split; [apply poll_timeouts_nil|intros _; apply poll_timeouts_nil].
      * lia.
      * intros. unfold NS_PER_MS. lia.
      * intros _ _ _ x Hx. discriminate.
      * apply last_poll_not_ok. discriminate.
Qed.

(* DoPoll itself neither throws nor has undefined behaviour *)
Definition abnormal {A} (r : res A) : Prop := (exists e, r = Exn e) \/ (exists u, r = Stuck u).

Lemma poll_unlimited_normal k : forall fds T (s : os) r s',
  poll_unlimited k fds T s = (r, s') -> ~ abnormal r.
Proof.
  induction k as [|k IH]; intros fds T s r s' H; cbn in H.
  - inversion H; subst. intros [[e He]|[u Hu]]; discriminate.
  - apply bind_inv in H. destruct H as [[x [s1 [Ha Hb]]]|[r0 [Ha [Hb Hc]]]].
    + destruct (interrupted x); [eapply IH; eassumption|]. inversion Hb; subst. intros [[e He]|[u Hu]]; discriminate.
    + apply sys_poll_inv in Ha. destruct Ha as [[? [? [? [? [? [_ [Hr _]]]]]]]|[Hr _]]; subst r0 r.
      * discriminate.
      * intros [[e He]|[u Hu]]; discriminate.
Qed.

Lemma poll_limited_normal k : forall fds d (s : os) r s',
  poll_limited k fds d s = (r, s') -> ~ abnormal r.
Proof.
  induction k as [|k IH]; intros fds d s r s' H; cbn in H.
  - inversion H; subst. intros [[e He]|[u Hu]]; discriminate.
  - apply bind_inv in H. destruct H as [[x [s1 [Ha Hb]]]|[r0 [Ha [Hb Hc]]]].
    + destruct (interrupted x).
      * apply bind_inv in Hb. destruct Hb as [[d' [s3 [Hb1 Hb2]]]|[r0 [Hb1 [Hb2 Hb3]]]].
        -- eapply IH; eassumption.
        -- unfold dl_tick in Hb1. apply bind_inv in Hb1.
           destruct Hb1 as [[now2 [s2' [Hn1 Hn2]]]|[r1 [Hn1 [Hn2 Hn3]]]]; [inversion Hn2; subst; discriminate|].
           apply sys_now_inv in Hn1. destruct Hn1 as [[? [? [_ [Hr2 _]]]]|[Hr2 _]]; subst r1 r0 r; [discriminate|].
           intros [[e He]|[u Hu]]; discriminate.
      * inversion Hb; subst. intros [[e He]|[u Hu]]; discriminate.
    + apply sys_poll_inv in Ha. destruct Ha as [[? [? [? [? [? [_ [Hr _]]]]]]]|[Hr _]]; subst r0 r.
      * discriminate.
      * intros [[e He]|[u Hu]]; discriminate.
Qed.

Lemma do_poll_normal fds T (s : os) r s' : do_poll fds T s = (r, s') -> ~ abnormal r.
Proof.
  unfold do_poll. intros H. apply bind_inv in H. destruct H as [[fuel [s0 [H1 H2]]]|[r0 [H1 [H2 H3]]]].
  2:{ apply script_fuel_inv in H1. destruct H1 as [-> _]. discriminate. }
  destruct (T <=? 0).
  - eapply poll_unlimited_normal; eassumption.
  - apply bind_inv in H2. destruct H2 as [[d [s1 [Hd H3]]]|[r0 [Hd [Hn Hr]]]].
    + eapply poll_limited_normal; eassumption.
    + unfold dl_new in Hd. apply bind_inv in Hd.
      destruct Hd as [[now1 [s1' [Hn1 Hn2]]]|[r1 [Hn1 [Hn2 Hn3]]]]; [inversion Hn2; subst; discriminate|].
      apply sys_now_inv in Hn1. destruct Hn1 as [[? [? [_ [Hr2 _]]]]|[Hr2 _]]; subst r1 r0 r; [discriminate|].
      intros [[e He]|[u Hu]]; discriminate.
Qed.

(* ---- Wait(fd, events, timeout) and Wait(pfds, timeout) ----------------------------------------- *)
Definition poll_status (x : Z * Z * list Z) : Z := poll_result_of x.

Record waitfd_spec {A} (T : Z) (nothing : A -> bool) (s s' : os) (r : res A) (new : list raw) : Prop := {
  wf_steps : steps s s' new;
  wf_only : only_wait_entries new;
  (* a failing wait is reported with the errno of poll — which is never EINTR *)
  wf_exn : forall e, r = Exn e -> exists errno, e = SysErr errno /\ errno <> EINTR;
  wf_bad : forall w, r = Bad w -> w = 1 \/ w = 2;
  wf_stuck : forall u, r <> Stuck u;
  (* "time-out exceeded" is reported exactly when the last poll returned 0 *)
  wf_nothing : forall a, r = Ok a -> nothing a = true ->
               exists e rest t dt, new = e :: rest /\ poll_entry e = Some (t, 0, dt);
  wf_ready : forall a, r = Ok a -> nothing a = false ->
             exists e rest t k dt, new = e :: rest /\ poll_entry e = Some (t, k, dt) /\ 0 < k;
  wf_neg : T < 0 -> poll_timeouts new (fun t => t = -1);
  wf_zero : T = 0 -> poll_timeouts new (fun t => t = 0);
  wf_pos : 0 < T -> poll_timeouts new (fun t => 0 <= t <= INT_MAX) /\
                    (calm (o_script s) -> poll_timeouts new (fun t => t <= T));
  wf_mono : calm (o_script s) -> o_now s <= o_now s';
  wf_upper : 0 <= T -> calm (o_script s) -> instant (o_script s) -> honest_up new ->
             o_now s' <= o_now s + T * NS_PER_MS;
  wf_lower : 0 < T <= INT_MAX -> calm (o_script s) -> honest_lo new ->
             forall a, r = Ok a -> nothing a = true -> o_now s + T * NS_PER_MS - NS_PER_MS < o_now s'
}.

Lemma wait_fd_spec fd events T s r s' :
  wait_fd fd events T s = (r, s') -> exists new, waitfd_spec T negb s s' r new.
Proof.
  unfold wait_fd. intros H. apply bind_inv in H.
  destruct H as [[[[ret_ err] rev] [s1 [H1 H2]]]|[r0 [H1 [H2 ->]]]].
  - destruct (do_poll_spec _ _ _ _ _ H1) as [new [Hst Honly Hni Hfu Hneg Hzero Hpos Hmono Hup Hlo Hlast]].
    specialize (Hni _ eq_refl).
    destruct (Hlast _ eq_refl) as [e [rest [t [dt [Hnew Hpe]]]]]. cbn in Hpe.
    destruct (ret_ <? 0) eqn:En.
    + apply Z.ltb_lt in En. inversion H2; subst. exists (e :: rest). constructor; try assumption; try discriminate.
      * intros e0 He. inversion He; subst. exists err. split; [reflexivity|].
        eapply interrupted_false_err; eassumption.
    + apply Z.ltb_ge in En. inversion H2; subst. exists (e :: rest). constructor; try assumption; try discriminate.
      * intros a Ha Hn. inversion Ha; subst a. rewrite negb_involutive in Hn. apply Z.eqb_eq in Hn. subst ret_.
        exists e, rest, t, dt. split; [reflexivity|assumption].
      * intros a Ha Hn. inversion Ha; subst a. rewrite negb_involutive in Hn. apply Z.eqb_neq in Hn.
        exists e, rest, t, ret_, dt. split; [reflexivity|]. split; [assumption|lia].
      * intros HT Hc Hh a Ha Hn. inversion Ha; subst a. rewrite negb_involutive in Hn. apply Z.eqb_eq in Hn. subst ret_.
        apply (Hlo HT Hc Hh _ eq_refl). reflexivity.
  - destruct (do_poll_spec _ _ _ _ _ H1) as [new [Hst Honly Hni Hfu Hneg Hzero Hpos Hmono Hup Hlo Hlast]].
    exists new. destruct r0 as [x|e|w|u]; [discriminate| | |]; cbn [recast].
    + exfalso. apply (do_poll_normal _ _ _ _ _ H1). left. eauto.
    + constructor; try assumption; try discriminate.
      intros w0 Hw. inversion Hw; subst. apply Hfu. reflexivity.
    + exfalso. apply (do_poll_normal _ _ _ _ _ H1). right. eauto.
Qed.


Definition is_none {A} (o : option A) : bool := match o with None => true | Some _ => false end.

Lemma wait_fds_spec fds T s r s' :
  wait_fds fds T s = (r, s') -> exists new, waitfd_spec T is_none s s' r new.
Proof.
  unfold wait_fds. intros H. apply bind_inv in H.
  destruct H as [[[[ret_ err] rev] [s1 [H1 H2]]]|[r0 [H1 [H2 ->]]]].
  - destruct (do_poll_spec _ _ _ _ _ H1) as [new [Hst Honly Hni Hfu Hneg Hzero Hpos Hmono Hup Hlo Hlast]].
    specialize (Hni _ eq_refl).
    destruct (Hlast _ eq_refl) as [e [rest [t [dt [Hnew Hpe]]]]]. cbn in Hpe.
    destruct (ret_ <? 0) eqn:En.
    + apply Z.ltb_lt in En. inversion H2; subst. exists (e :: rest). constructor; try assumption; try discriminate.
      intros e0 He. inversion He; subst. exists err. split; [reflexivity|].
      eapply interrupted_false_err; eassumption.
    + apply Z.ltb_ge in En. destruct (ret_ =? 0) eqn:Ez.
      * apply Z.eqb_eq in Ez. subst ret_. inversion H2; subst. exists (e :: rest).
        constructor; try assumption; try discriminate.
        -- intros a Ha Hn. exists e, rest, t, dt. split; [reflexivity|assumption].
        -- intros a Ha Hn. inversion Ha; subst a. discriminate.
        -- intros HT Hc Hh a Ha Hn. apply (Hlo HT Hc Hh _ eq_refl). reflexivity.
      * apply Z.eqb_neq in Ez. inversion H2; subst. exists (e :: rest).
        constructor; try assumption; try discriminate.
        -- intros a Ha Hn. inversion Ha; subst a. discriminate.
        -- intros a Ha Hn. exists e, rest, t, ret_, dt. split; [reflexivity|]. split; [assumption|lia].
        -- intros HT Hc Hh a Ha Hn. inversion Ha; subst a. discriminate.
  - destruct (do_poll_spec _ _ _ _ _ H1) as [new [Hst Honly Hni Hfu Hneg Hzero Hpos Hmono Hup Hlo Hlast]].
    exists new. destruct r0 as [x|e|w|u]; [discriminate| | |]; cbn [recast].
    + exfalso. apply (do_poll_normal _ _ _ _ _ H1). left. eauto.
    + constructor; try assumption; try discriminate.
      intros w0 Hw. inversion Hw; subst. apply Hfu. reflexivity.
    + exfalso. apply (do_poll_normal _ _ _ _ _ H1). right. eauto.
Qed.

End WithExt.
