(* ListAux.v — small list facts missing from the Coq 8.16 standard library. *)
From Coq Require Import List Lia.
Import ListNotations.

Lemma NoDup_app_iff {A} (l1 l2 : list A) :
  NoDup (l1 ++ l2) <-> NoDup l1 /\ NoDup l2 /\ (forall x, In x l1 -> ~ In x l2).
Proof.
  induction l1 as [|a l IH]; cbn.
  - split; [intros H; repeat split; [constructor|assumption|tauto]|tauto].
  - split.
    + intros H. inversion H as [|? ? Hn Hd]; subst. apply IH in Hd. destruct Hd as [H1 [H2 H3]].
      split; [constructor; [intro Hc; apply Hn; apply in_or_app; now left|assumption]|].
      split; [assumption|]. intros x [<-|Hx]; [intro Hc; apply Hn; apply in_or_app; now right|now apply H3].
    + intros [H1 [H2 H3]]. inversion H1 as [|? ? Hn Hd]; subst. constructor.
      * intro Hc. apply in_app_or in Hc. destruct Hc as [Hc|Hc]; [contradiction|]. apply (H3 a); [now left|assumption].
      * apply IH. split; [assumption|]. split; [assumption|]. intros x Hx. apply H3. now right.
Qed.
