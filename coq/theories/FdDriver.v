(* FdDriver.v — descriptor ledger of Driver::Driver() (two UDP sockets for the signalling pipe) for every fault overlay. *)
From SP Require Import Base ListAux Os OsLemmas WaitLemmas SocketModel FdLemmas Objects DriverModel.
From Coq Require Import Permutation.
Local Open Scope Z_scope.
Local Notation os := (os ext).

(* a run of set-up calls on possibly different descriptors: stops at the first failure *)
Fixpoint setup_seq2 (ws : list (Z * Z)) : MX unit :=
  match ws with
  | [] => ret tt
  | (w, fd) :: t => match t with
                    | [] => check_setup w fd
                    | _ => bind (check_setup w fd) (fun _ => setup_seq2 t)
                    end
  end.

Lemma setup_seq2_spec ws : Forall (fun p => plain (fst p)) ws -> forall (s : os) r s',
  setup_seq2 ws s = (r, s') -> exists new, seq_spec s s' r new.
Proof.
  induction ws as [|[w fd] t IH]; intros Hp s r s' H.
  - inversion H; subst. exists []. constructor; [apply extends_refl|reflexivity|reflexivity|reflexivity|left; auto].
  - inversion Hp as [|? ? [Hw1 Hw2] Ht]; subst. cbn [setup_seq2] in H. destruct t as [|p2 t2].
    { destruct (check_setup_spec _ _ _ _ _ H) as [err [Hx [Hfd [[He Hr]|[He Hr]]]]]; subst r.
      - subst err. exists [sys_entry w fd 0]. constructor; [assumption|assumption|now apply opened_sys|now apply closed_sys|].
        left. split; [reflexivity|]. rewrite failures_sys by assumption. reflexivity.
      - exists [sys_entry w fd err]. constructor; [assumption|assumption|now apply opened_sys|now apply closed_sys|].
        right. exists err. split; [assumption|]. split; [reflexivity|]. rewrite failures_sys by assumption.
        apply Z.eqb_neq in He. rewrite He. reflexivity. }
    apply bind_inv in H.
    destruct H as [[[] [s1 [H1 H2]]]|[r0 [H1 [H2 ->]]]].
    + destruct (check_setup_spec _ _ _ _ _ H1) as [err [Hx [Hfd [[He _]|[_ Hr]]]]]; [|discriminate]. subst err.
      destruct (IH Ht _ _ _ H2) as [new [qe qf qo qc qr]]. exists (new ++ [sys_entry w fd 0]).
      constructor.
      * eapply extends_trans; eassumption.
      * congruence.
      * rewrite opened_app, opened_sys, qo by assumption. reflexivity.
      * rewrite closed_app, closed_sys, qc by assumption. reflexivity.
      * rewrite failures_app, failures_sys by assumption. cbn. exact qr.
    + destruct (check_setup_spec _ _ _ _ _ H1) as [err [Hx [Hfd [[_ Hr]|[He Hr]]]]]; subst r0; [discriminate|].
      exists [sys_entry w fd err]. constructor; [assumption|assumption|now apply opened_sys|now apply closed_sys|].
      right. exists err. split; [assumption|]. split; [reflexivity|]. rewrite failures_sys by assumption.
      apply Z.eqb_neq in He. rewrite He. reflexivity.
Qed.

Lemma driver_new_shape :
  driver_new =
  (a <- socket_new ;;
   b <- catch socket_new (fun e => sys_close a ;;; throw e) ;;
   catch (setup_seq2 [(S_BIND, b); (S_GETSOCKNAME, b); (S_BIND, a)])
         (fun e => sys_close b ;;; sys_close a ;;; throw e) ;;;
   put_driver {| d_alive := true; d_from := a; d_to := b; d_todos := []; d_socks := []; d_pfds := [(b, POLLIN)]; d_stop := false |}).
Proof. reflexivity. Qed.

Record drv_spec (s s' : os) (r : res unit) (new : list raw) : Prop := {
  dv_ext : extends s s' new;
  dv_result :
    (r = Ok tt /\ failures new = [] /\ opened new = [o_nextfd s; o_nextfd s + 1] /\ closed new = [] /\ o_nextfd s' = o_nextfd s + 2)
    \/ (exists e, e <> 0 /\ r = Exn (SysErr e) /\ failures new = [e] /\ Permutation (opened new) (closed new) /\ NoDup (closed new))
}.

Lemma quiet_put_driver d (s : os) r s' : put_driver d s = (r, s') -> r = Ok tt /\ o_trace s' = o_trace s /\ o_nextfd s' = o_nextfd s.
Proof. unfold put_driver, bind, get_ext, put_ext. intros H. inversion H; subst. auto. Qed.

Theorem driver_new_ledger : forall (s : os) r s', 0 <= o_nextfd s -> driver_new s = (r, s') -> exists new, drv_spec s s' r new.
Proof.
  intros s r s' Hnn H. rewrite driver_new_shape in H.
  apply bind_inv in H. destruct H as [[a [s1 [Ha H]]]|[r0 [Ha [Hn ->]]]].
  2:{ destruct (socket_new_spec _ _ _ Hnn Ha) as [err [Hx [[_ [Hr _]]|[He [Hr Hfd]]]]]; subst r0; [discriminate|].
      exists [sys_entry S_SOCKET (o_nextfd s) err]. constructor; [assumption|]. right. exists err.
      split; [assumption|]. split; [reflexivity|]. rewrite opened_socket_failed by assumption.
      unfold failures, failed_by, closed. cbn. unfold nthZ. cbn. apply Z.eqb_neq in He. rewrite He. cbn.
      repeat split; constructor. }
  destruct (socket_new_spec _ _ _ Hnn Ha) as [err [Xa [[-> [Hra Fa]]|[_ [Hra _]]]]]; [|discriminate].
  inversion Hra; subst a. clear Hra.
  set (A := o_nextfd s) in *.
  apply bind_inv in H. destruct H as [[b [s2 [Hb H]]]|[r0 [Hb [Hn ->]]]].
  - (* second socket obtained *)
    apply catch_inv in Hb. destruct Hb as [[e [s1' [Hb1 Hb2]]]|[Hb1 _]].
    { apply bind_inv in Hb2. destruct Hb2 as [[[] [sx [_ Hthrow]]]|[rr [Hc [Hnn2 Hrec]]]]; [inversion Hthrow|].
      destruct (sys_close_spec _ _ _ _ Hc) as [ce [-> _]]. discriminate. }
    assert (Hnn1 : 0 <= o_nextfd s1) by lia.
    destruct (socket_new_spec _ _ _ Hnn1 Hb1) as [errb [Xb [[-> [Hrb Fb]]|[_ [Hrb _]]]]]; [|discriminate].
    inversion Hrb; subst b. clear Hrb.
    replace (o_nextfd s1) with (A + 1) in * by lia.
    apply bind_inv in H. destruct H as [[[] [s3 [Hc H]]]|[r0 [Hc [Hn ->]]]].
    + (* set-up calls all succeeded *)
      apply catch_inv in Hc. destruct Hc as [[e [s2' [Hc1 Hc2]]]|[Hc1 _]].
      { apply bind_inv in Hc2. destruct Hc2 as [[[] [sx [_ Hc3]]]|[rr [Hcl [Hno _]]]].
        - apply bind_inv in Hc3. destruct Hc3 as [[[] [sy [_ Hthrow]]]|[rr [Hcl [Hno _]]]]; [inversion Hthrow|].
          destruct (sys_close_spec _ _ _ _ Hcl) as [ce [-> _]]. discriminate.
        - destruct (sys_close_spec _ _ _ _ Hcl) as [ce [-> _]]. discriminate. }
      assert (Hp : Forall (fun p : Z * Z => plain (fst p)) [(S_BIND, A + 1); (S_GETSOCKNAME, A + 1); (S_BIND, A)])
        by (repeat constructor; discriminate).
      destruct (setup_seq2_spec _ Hp _ _ _ Hc1) as [n3 [qe qf qo qc qr]].
      destruct qr as [[_ Hf]|[e0 [_ [Hr _]]]]; [|discriminate].
      destruct (quiet_put_driver _ _ _ _ H) as [-> [Tq Fq]].
      exists (n3 ++ [sys_entry S_SOCKET (A + 1) 0] ++ [sys_entry S_SOCKET A 0]). constructor.
      * unfold extends in *. rewrite Tq, qe, Xb, Xa. rewrite <- !app_assoc. reflexivity.
      * left. split; [reflexivity|].
        rewrite !failures_app, !opened_app, !closed_app, Hf, qo, qc, !opened_socket. cbn.
        repeat split; try reflexivity. lia.
    + (* a set-up call failed: both sockets are closed again *)
      apply catch_inv in Hc. destruct Hc as [[e [s2' [Hc1 Hc2]]]|[Hc1 Hne]].
      * assert (Hp : Forall (fun p : Z * Z => plain (fst p)) [(S_BIND, A + 1); (S_GETSOCKNAME, A + 1); (S_BIND, A)])
          by (repeat constructor; discriminate).
        destruct (setup_seq2_spec _ Hp _ _ _ Hc1) as [n3 [qe qf qo qc qr]].
        destruct qr as [[Hr _]|[e0 [He0 [Hr Hf]]]]; [discriminate|]. inversion Hr; subst e.
        apply bind_inv in Hc2. destruct Hc2 as [[[] [sx [Hcb Hc3]]]|[rr [Hcl [Hno _]]]].
        2:{ destruct (sys_close_spec _ _ _ _ Hcl) as [ce [-> _]]. discriminate. }
        apply bind_inv in Hc3. destruct Hc3 as [[[] [sy [Hca Hthrow]]]|[rr [Hcl [Hno _]]]].
        2:{ destruct (sys_close_spec _ _ _ _ Hcl) as [ce [-> _]]. discriminate. }
        inversion Hthrow; subst. 
        destruct (sys_close_spec _ _ _ _ Hcb) as [cb [_ [Xcb _]]]. destruct (sys_close_spec _ _ _ _ Hca) as [ca [_ [Xca _]]].
        exists ([sys_entry S_CLOSE A ca] ++ [sys_entry S_CLOSE (A + 1) cb] ++ n3 ++ [sys_entry S_SOCKET (A + 1) 0] ++ [sys_entry S_SOCKET A 0]).
        constructor.
        -- unfold extends in *. rewrite Xca, Xcb, qe, Xb, Xa. cbn. rewrite <- !app_assoc. reflexivity.
        -- right. exists e0. split; [assumption|]. split; [reflexivity|].
           rewrite !failures_app, !opened_app, !closed_app, Hf, qo, qc, !opened_socket, !opened_close, !closed_close, !failures_close. cbn.
           split; [reflexivity|]. split; [apply perm_swap|].
           constructor; [intros [E|[]]; lia|constructor; [intros []|constructor]].
      * assert (Hp : Forall (fun p : Z * Z => plain (fst p)) [(S_BIND, A + 1); (S_GETSOCKNAME, A + 1); (S_BIND, A)])
          by (repeat constructor; discriminate).
        destruct (setup_seq2_spec _ Hp _ _ _ Hc1) as [n3 [qe qf qo qc qr]].
        destruct qr as [[-> _]|[e0 [_ [-> _]]]]; [discriminate|]. exfalso. eapply Hne. reflexivity.
  - (* the second socket() failed: the first is closed *)
    apply catch_inv in Hb. destruct Hb as [[e [s1' [Hb1 Hb2]]]|[Hb1 Hne]].
    + assert (Hnn1 : 0 <= o_nextfd s1) by lia.
      destruct (socket_new_spec _ _ _ Hnn1 Hb1) as [errb [Xb [[_ [Hrb _]]|[Heb [Hrb Fb]]]]]; [discriminate|].
      inversion Hrb; subst e.
      apply bind_inv in Hb2. destruct Hb2 as [[[] [sx [Hcl Hthrow]]]|[rr [Hcl [Hno _]]]].
      2:{ destruct (sys_close_spec _ _ _ _ Hcl) as [ce [-> _]]. discriminate. }
      inversion Hthrow; subst. destruct (sys_close_spec _ _ _ _ Hcl) as [ca [_ [Xca _]]].
      exists ([sys_entry S_CLOSE A ca] ++ [sys_entry S_SOCKET (o_nextfd s1) errb] ++ [sys_entry S_SOCKET A 0]). constructor.
      * unfold extends in *. rewrite Xca, Xb, Xa. reflexivity.
      * right. exists errb. split; [assumption|]. split; [reflexivity|].
        rewrite !failures_app, !opened_app, !closed_app, opened_socket, opened_close, closed_close, failures_close.
        rewrite (opened_socket_failed _ _ Heb).
        unfold failures at 1 2, failed_by, closed at 1 2 3 4. cbn. unfold nthZ. cbn.
        apply Z.eqb_neq in Heb. rewrite Heb. cbn.
        repeat split; try reflexivity. constructor; [intros []|constructor].
    + assert (Hnn1 : 0 <= o_nextfd s1) by lia.
      destruct (socket_new_spec _ _ _ Hnn1 Hb1) as [errb [Xb [[_ [Hrb _]]|[_ [Hrb _]]]]]; subst r0; [discriminate|].
      exfalso. eapply Hne. reflexivity.
Qed.
