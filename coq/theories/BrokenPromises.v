(* BrokenPromises.v — destroying an asynchronous socket releases the future of every send still queued as a broken promise
   (state 3): none is left pending, none is resolved twice, other futures are untouched (C17, last clause). *)
From SP Require Import Base ListAux Os OsLemmas WaitLemmas SocketModel SocketLemmas PoolModel BufferedModel Objects DriverModel DriverLemmas SendLink TlsModel Sim.
Local Open Scope Z_scope.
Local Notation os := (os ext).

Definition futs_of (s : os) := x_futs (o_ext s).
Definition qfut (e : Z * Z * Z * Z) : Z := fst (fst (fst e)).

Lemma precycle_futs o i (s : os) r s' : precycle o i s = (r, s') -> futs_of s' = futs_of s.
Proof.
  unfold precycle, pool_recycle_m, bind, get_ext, futs_of. cbn.
  destruct (pool_recycle (owner_pool (o_ext s) o) i) as [[[]|e|w|u] p']; cbn; intros H; inversion H; subst; cbn; try reflexivity.
  unfold set_owner_pool. destruct (o <? 1000); [reflexivity|].
  destruct (aget (o - 1000) (x_socks (o_ext s))); reflexivity.
Qed.

Lemma resolve_inv f state code (s : os) s' : resolve f state code s = (Ok tt, s') ->
  exists ft, aget f (futs_of s) = Some ft /\ f_state ft = 0 /\
             futs_of s' = aset f (ft <| f_state := state |> <| f_code := code |>) (futs_of s).
Proof.
  unfold resolve, bind, get_ext, futs_of. cbn. destruct (aget f (x_futs (o_ext s))) as [ft|] eqn:E; [|intros H; inversion H].
  destruct (f_state ft =? 0) eqn:E0; intros H; inversion H; subst. exists ft. apply Z.eqb_eq in E0. cbn. auto.
Qed.

Definition fstate (s : os) (f : Z) : Z := fut_state (o_ext s) f.

Lemma drop_sendq_breaks : forall q (s s' : os), drop_sendq q s = (Ok tt, s') ->
  (forall f, In f (map qfut q) -> fstate s' f = 3) /\
  (forall g, ~ In g (map qfut q) -> fstate s' g = fstate s g) /\
  (forall f, In f (map qfut q) -> fstate s f = 0) /\ NoDup (map qfut q).
Proof.
  induction q as [|[[[f o] i] d] t IH]; intros s s' H; cbn [drop_sendq] in H.
  - inversion H; subst. repeat split; try (intros ? []). constructor.
  - apply bind_inv in H. destruct H as [[[] [s1 [H1 H]]]|[r0 [_ [_ Hx]]]]; [|exfalso; exact (recast_not_ok _ _ Hx)].
    apply bind_inv in H. destruct H as [[[] [s2 [H2 H]]]|[r0 [_ [_ Hx]]]]; [|exfalso; exact (recast_not_ok _ _ Hx)].
    destruct (resolve_inv _ _ _ _ _ H1) as [ft [Hf [Hp Hs1]]].
    pose proof (precycle_futs _ _ _ _ _ H2) as Hs2.
    destruct (IH _ _ H) as [Ha [Hb [Hc Hd]]].
    assert (F1 : fstate s2 f = 3).
    { unfold fstate, fut_state. fold (futs_of s2). rewrite Hs2, Hs1, aget_aset_same. reflexivity. }
    assert (Fo : forall g, g <> f -> fstate s2 g = fstate s g).
    { intros g Hg. unfold fstate, fut_state. fold (futs_of s2) (futs_of s). rewrite Hs2, Hs1. now rewrite aget_aset_other. }
    assert (Hnf : ~ In f (map qfut t)).
    { intros Hin. specialize (Hc f Hin). rewrite F1 in Hc. discriminate. }
    cbn [map qfut fst]. repeat split.
    + intros g [<-|Hin]; [rewrite (Hb _ Hnf); exact F1|exact (Ha _ Hin)].
    + intros g Hg. rewrite Hb; [apply Fo|]; intros E; apply Hg; [left; congruence|right; exact E].
    + intros g [<-|Hin].
      * unfold fstate, fut_state. fold (futs_of s). rewrite Hf. exact Hp.
      * rewrite <- Fo; [exact (Hc _ Hin)|]. intros ->. contradiction.
    + constructor; assumption.
Qed.

(* frames of the remaining destructor steps *)
Lemma async_unregister_futs k fd (s : os) r s' : async_unregister k fd s = (r, s') -> futs_of s' = futs_of s.
Proof.
  unfold async_unregister, bind, get_driver, bind, get_ext, put_driver, bind, get_ext, put_ext, futs_of. cbn.
  destruct (d_alive (x_driver (o_ext s))); intros H; inversion H; reflexivity.
Qed.

Lemma sys_close_ext fd (s : os) r s' : sys_close fd s = (r, s') -> o_ext s' = o_ext s.
Proof.
  unfold sys_close, bind, sys_setup. intros H. cbn in H. inversion H; reflexivity.
Qed.

(* the TLS table is not touched by unregistration and by the destruction of the send queue *)
Definition tls_of (s : os) := x_tls (o_ext s).
Lemma resolve_tls f st code (s : os) r s' : resolve f st code s = (r, s') -> tls_of s' = tls_of s.
Proof.
  unfold resolve, bind, get_ext, tls_of. cbn. destruct (aget f (x_futs (o_ext s))) as [ft|]; [|intros H; inversion H; reflexivity].
  destruct (f_state ft =? 0); intros H; inversion H; reflexivity.
Qed.
Lemma precycle_tls o i (s : os) r s' : precycle o i s = (r, s') -> tls_of s' = tls_of s.
Proof.
  unfold precycle, pool_recycle_m, bind, get_ext, tls_of. cbn.
  destruct (pool_recycle (owner_pool (o_ext s) o) i) as [[[]|e|w|u] p']; cbn; intros H; inversion H; subst; cbn; try reflexivity.
  unfold set_owner_pool. destruct (o <? 1000); [reflexivity|].
  destruct (aget (o - 1000) (x_socks (o_ext s))); reflexivity.
Qed.
Lemma drop_sendq_tls : forall q (s : os) r s', drop_sendq q s = (r, s') -> tls_of s' = tls_of s.
Proof.
  induction q as [|[[[f o] i] d] t IH]; intros s r s' H; cbn [drop_sendq] in H; [inversion H; reflexivity|].
  apply bind_inv in H. destruct H as [[[] [s1 [H1 H]]]|[r0 [H1 _]]]; [|exact (resolve_tls _ _ _ _ _ _ H1)].
  apply bind_inv in H. destruct H as [[[] [s2 [H2 H]]]|[r0 [H2 _]]].
  - rewrite (IH _ _ _ H), (precycle_tls _ _ _ _ _ H2). exact (resolve_tls _ _ _ _ _ _ H1).
  - rewrite (precycle_tls _ _ _ _ _ H2). exact (resolve_tls _ _ _ _ _ _ H1).
Qed.
Lemma async_unregister_tls k fd (s : os) r s' : async_unregister k fd s = (r, s') -> tls_of s' = tls_of s.
Proof.
  unfold async_unregister, bind, get_driver, bind, get_ext, put_driver, bind, get_ext, put_ext, tls_of. cbn.
  destruct (d_alive (x_driver (o_ext s))); intros H; inversion H; reflexivity.
Qed.

(* the destructor of an asynchronous, non-TLS socket with sends pending *)
Theorem destroy_breaks_every_pending_send : forall k (s s' : os) sk,
  aget k (x_socks (o_ext s)) = Some sk -> s_open sk = true -> s_async sk = true -> aget k (x_tls (o_ext s)) = None ->
  destroy_sock k s = (Ok tt, s') ->
  (forall f, In f (map qfut (s_sendq sk)) -> fstate s f = 0 /\ fstate s' f = 3) /\
  (forall g, ~ In g (map qfut (s_sendq sk)) -> fstate s' g = fstate s g) /\
  (exists sk', aget k (x_socks (o_ext s')) = Some sk' /\ s_sendq sk' = [] /\ s_open sk' = false).
Proof.
  intros k s s' sk Hk Hopen Hasync Hnotls H. unfold destroy_sock in H.
  unfold bind at 1, get_sock, bind at 1, get_ext in H. rewrite Hk in H. cbn [ret] in H. rewrite Hopen, Hasync in H. cbn [negb] in H.
  apply bind_inv in H. destruct H as [[[] [s1 [Hd H]]]|[r0 [_ [_ Hx]]]]; [|exfalso; exact (recast_not_ok _ _ Hx)].
  apply bind_inv in Hd. destruct Hd as [[[] [s0 [Hu Hd]]]|[r0 [_ [_ Hx]]]]; [|exfalso; exact (recast_not_ok _ _ Hx)].
  destruct (drop_sendq_breaks _ _ _ Hd) as [Ha [Hb [Hc _]]].
  pose proof (async_unregister_futs _ _ _ _ _ Hu) as Hf0.
  assert (Htls1 : tls_of s1 = tls_of s).
  { rewrite (drop_sendq_tls _ _ _ _ Hd). exact (async_unregister_tls _ _ _ _ _ Hu). }
  apply bind_inv in H. destruct H as [[tl [s2 [Ht H]]]|[r0 [_ [_ Hx]]]]; [|exfalso; exact (recast_not_ok _ _ Hx)].
  unfold is_tls, bind, get_ext in Ht. inversion Ht; subst tl s2. clear Ht.
  fold (tls_of s1) in H. rewrite Htls1 in H. unfold tls_of in H. rewrite Hnotls in H. cbn [andb] in H.
  apply bind_inv in H. destruct H as [[[] [s2 [Hr H]]]|[r0 [_ [_ Hx]]]]; [|exfalso; exact (recast_not_ok _ _ Hx)].
  inversion Hr; subst s2. clear Hr.
  apply bind_inv in H. destruct H as [[[] [s3 [Hc3 H]]]|[r0 [_ [_ Hx]]]]; [|exfalso; exact (recast_not_ok _ _ Hx)].
  pose proof (sys_close_ext _ _ _ _ Hc3) as He3.
  unfold upd_sock, bind, get_sock, bind, get_ext in H.
  destruct (aget k (x_socks (o_ext s3))) as [sk3|] eqn:Ek3; [|inversion H].
  cbn in H. inversion H; subst s'. clear H.
  assert (Hfs : forall g, fstate (snd (put_ext (o_ext s3 <| x_socks := aset k (sk3 <| s_open := false |> <| s_sendq := [] |>) (x_socks (o_ext s3)) |>) s3)) g = fstate s1 g).
  { intros g. unfold fstate, fut_state. cbn. rewrite He3. reflexivity. }
  assert (Hf01 : forall g, fstate s0 g = fstate s g).
  { intros g. unfold fstate, fut_state. fold (futs_of s0) (futs_of s). now rewrite Hf0. }
  repeat split.
  - rewrite <- Hf01. exact (Hc _ H).
  - rewrite Hfs. exact (Ha _ H).
  - intros g Hg. rewrite Hfs, (Hb _ Hg). apply Hf01.
  - eexists. cbn. rewrite aget_aset_same. split; [reflexivity|split; reflexivity].
Qed.
