(* Properties_C04.v — managing sockets and ToDos against a running driver: exclusion and quiescence.
   Handlers and tasks run only inside the driver's step-critical section (DriverModel: they are invoked from step only),
   every management entry point runs under a PauseGuard, i.e. inside a user critical section of SyncModel. *)
From SP Require Import SyncModel SyncLemmas AcceptSync AcceptLemmas.

(* at most one thread is inside a step-critical section: the driver's step (where handlers and tasks run) and the bodies
   of management calls exclude each other, for any number of threads and every interleaving *)
Theorem mutual_exclusion : forall n m s, reach n m s ->
  b2n (d_holds_step (d s)) + cnt u_holds_step (us s) <= 1.
Proof. exact SyncLemmas.mutual_exclusion. Qed.

(* quiescence: while a management call (a socket destructor unregistering, a Cancel removing a ToDo) is in its body,
   the driver is not inside a step — no handler or task is executing; since the body removes the socket / task from the
   lists the step reads, none can start later (Properties_C03.unregister_removes_both, Properties_C06.cancel_prevents) *)
Theorem quiescent_during_management : forall n m s, reach n m s ->
  cnt u_holds_step (us s) >= 1 -> d_holds_step (d s) = false /\ cnt u_holds_step (us s) = 1.
Proof.
  intros n m s R H. pose proof (SyncLemmas.mutual_exclusion _ _ _ R) as M.
  destruct (d_holds_step (d s)); cbn in M; split; try reflexivity; lia.
Qed.

(* handlers never overlap each other: they all run on the one driver thread, inside its step *)
Theorem handlers_serial : forall n m s, reach n m s -> d_holds_step (d s) = true -> cnt u_holds_step (us s) = 0.
Proof.
  intros n m s R H. pose proof (SyncLemmas.mutual_exclusion _ _ _ R) as M. rewrite H in M. cbn in M. lia.
Qed.

(* a management call never gives up pauseMtx before it owns stepMtx, and two calls never hold pauseMtx together *)
Theorem pause_exclusive : forall n m s, reach n m s ->
  b2n (d_holds_pause (d s)) + cnt u_holds_pause (us s) <= 1.
Proof. intros n m s R. destruct (inv_reach _ _ _ R) as (_ & I2 & _). exact I2. Qed.

Print Assumptions mutual_exclusion.
Print Assumptions quiescent_during_management.
Print Assumptions handlers_serial.
Print Assumptions pause_exclusive.
