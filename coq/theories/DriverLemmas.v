(* DriverLemmas.v — facts about the driver's bookkeeping (src/driver_impl.cpp, src/socket_async_impl.cpp):
   registration lists, POLLOUT arming, the choice of the socket served by a step, the asynchronous send queue. *)
From SP Require Import Base ListAux Os OsLemmas Objects DriverModel.
Local Open Scope Z_scope.

(* ---- registration: sockets and pfds stay aligned ------------------------------------------------------ *)
(* the registered sockets as (key, fd) pairs; pfds = pipe entry :: one entry per registered socket *)
Definition aligned (regs : list (Z * Z)) (pfds : list (Z * Z)) : Prop :=
  exists pipe rest, pfds = pipe :: rest /\ map snd regs = map fst rest.

Fixpoint reg_del (k fd : Z) (regs : list (Z * Z)) : list (Z * Z) :=
  match regs with [] => [] | (k', f') :: t => if k' =? k then t else (k', f') :: reg_del k fd t end.

Lemma remove_first_fd_absent fd l : ~ In fd (map fst l) -> remove_first_fd fd l = l.
Proof.
  induction l as [|[f e] t IH]; cbn; intros H; [reflexivity|].
  destruct (f =? fd) eqn:E; [apply Z.eqb_eq in E; subst; tauto|]. f_equal. apply IH. tauto.
Qed.

Lemma remove_first_key_absent k l : ~ In k l -> remove_first_key k l = l.
Proof.
  induction l as [|h t IH]; cbn; intros H; [reflexivity|].
  destruct (h =? k) eqn:E; [apply Z.eqb_eq in E; subst; tauto|]. f_equal. apply IH. tauto.
Qed.

(* AsyncRegister appends to both lists *)
Lemma register_aligned regs pfds k fd : aligned regs pfds -> aligned (regs ++ [(k, fd)]) (pfds ++ [(fd, POLLIN)]).
Proof.
  intros [pipe [rest [-> H]]]. exists pipe, (rest ++ [(fd, POLLIN)]). split; [reflexivity|].
  rewrite !map_app, H. reflexivity.
Qed.

(* AsyncUnregister(fd) removes the socket and its pollfd — the entries at the same position — when keys and
   descriptors are unique and the pipe's descriptor is not a socket's *)
Lemma unregister_aligned regs pipe rest k fd :
  map snd regs = map fst rest -> NoDup (map fst regs) -> NoDup (map snd regs) ->
  In (k, fd) regs -> fst pipe <> fd ->
  map snd (reg_del k fd regs) = map fst (remove_first_fd fd rest) /\
  remove_first_fd fd (pipe :: rest) = pipe :: remove_first_fd fd rest.
Proof.
  intros H Hk Hf Hin Hp. split.
  - revert rest H. induction regs as [|[k' f'] t IH]; intros rest H; [contradiction|].
    destruct rest as [|[f e] r]; [discriminate|]. cbn in H. inversion H; subst f.
    cbn in Hk, Hf. inversion Hk; subst. inversion Hf; subst. cbn.
    destruct Hin as [Heq|Hin].
    + inversion Heq; subst. rewrite !Z.eqb_refl. assumption.
    + assert (k' <> k). { intro; subst. apply H3. change k with (fst (k, fd)). now apply in_map. }
      assert (f' <> fd). { intro; subst. apply H5. change fd with (snd (k, fd)). now apply in_map. }
      destruct (k' =? k) eqn:E1; [apply Z.eqb_eq in E1; contradiction|].
      destruct (f' =? fd) eqn:E2; [apply Z.eqb_eq in E2; contradiction|].
      cbn. f_equal. now apply IH.
  - destruct pipe as [pf pe]. cbn in *. destruct (pf =? fd) eqn:E; [apply Z.eqb_eq in E; contradiction|reflexivity].
Qed.

(* ... and tolerates a socket that was already removed (second unregistration from the destructor) *)
Lemma unregister_absent k fd socks pfds :
  ~ In k socks -> ~ In fd (map fst pfds) ->
  remove_first_key k socks = socks /\ remove_first_fd fd pfds = pfds.
Proof. intros H1 H2. split; [now apply remove_first_key_absent|now apply remove_first_fd_absent]. Qed.

(* ---- POLLOUT arming -------------------------------------------------------------------------------------- *)
(* AsyncWantSend on a descriptor that is not listed any more changes nothing (and reads nothing out of bounds) *)
Lemma arm_absent fd bit l : ~ In fd (map fst l) -> arm_fd fd bit l = l.
Proof.
  induction l as [|[f e] t IH]; cbn; intros H; [reflexivity|].
  destruct (f =? fd) eqn:E; [apply Z.eqb_eq in E; subst; tauto|]. f_equal. apply IH. tauto.
Qed.

Lemma arm_present fd bit l : In fd (map fst l) -> NoDup (map fst l) ->
  map fst (arm_fd fd bit l) = map fst l /\
  forall f e, In (f, e) (arm_fd fd bit l) ->
    (f = fd /\ exists e0, In (fd, e0) l /\ e = Z.lor e0 bit) \/ (f <> fd /\ In (f, e) l).
Proof.
  induction l as [|[f0 e0] t IH]; cbn; intros Hin Hn; [contradiction|].
  inversion Hn; subst. destruct (f0 =? fd) eqn:E.
  - apply Z.eqb_eq in E. subst f0. split; [reflexivity|]. intros f e [Heq|Ht].
    + inversion Heq; subst. left. split; [reflexivity|]. exists e0. split; [now left|reflexivity].
    + right. split; [|now right]. intro; subst. apply H1. change fd with (fst (fd, e)). now apply in_map.
  - apply Z.eqb_neq in E. destruct Hin as [Heq|Hin]; [contradiction|]. destruct (IH Hin H2) as [Ha Hb].
    split; [cbn; now rewrite Ha|]. intros f e [Heq|Ht].
    + inversion Heq; subst. right. split; [assumption|now left].
    + destruct (Hb f e Ht) as [[-> [e1 [Hi He]]]|[Hne Hi]].
      * left. split; [reflexivity|]. exists e1. split; [now right|assumption].
      * right. split; [assumption|now right].
Qed.

(* ---- which socket does a step serve ------------------------------------------------------------------------ *)
Inductive action := ARead | AWrite | AError.

Definition classify (rv : Z) : option action :=
  if has_bit rv POLLIN then Some ARead
  else if has_bit rv POLLOUT then Some AWrite
  else if has_bit rv (Z.lor POLLHUP POLLERR) then Some AError
  else None.

(* first registered socket (in registration order) with any event; readable before writable before hang-up/error *)
Fixpoint select (i : nat) (socks : list Z) (revs : list Z) : option (nat * Z * action) :=
  match socks with
  | [] => None
  | k :: rest => match classify (nthZ revs 0) with
                 | Some a => Some (i, k, a)
                 | None => select (S i) rest (tl revs)
                 end
  end.

Section Dispatch.
Variable run_block : Z -> MX unit.

Definition dispatch (sel : option (nat * Z * action)) : MX unit :=
  match sel with
  | None => throw (LogicErr 4)
  | Some (_, k, ARead) => driver_on_readable run_block k
  | Some (i, k, AWrite) =>
      emptied <- driver_on_writable k ;;
      if emptied then upd_driver (fun d => d <| d_pfds := disarm_at i POLLOUT (d_pfds d) |>) else ret tt
  | Some (_, k, AError) => driver_on_error run_block k
  end.

Lemma do_one_socket_task_select : forall socks i revs,
  do_one_socket_task run_block i socks revs = dispatch (select i socks revs).
Proof.
  induction socks as [|k rest IH]; intros i revs; cbn [do_one_socket_task select]; [reflexivity|].
  unfold classify. destruct (has_bit (nthZ revs 0) POLLIN); [reflexivity|].
  destruct (has_bit (nthZ revs 0) POLLOUT); [reflexivity|].
  destruct (has_bit (nthZ revs 0) (Z.lor POLLHUP POLLERR)); [reflexivity|]. apply IH.
Qed.
End Dispatch.

(* the selected socket is the first with an event: every socket before it has none *)
Lemma select_first : forall socks i revs j k a,
  select i socks revs = Some (j, k, a) ->
  exists n, j = (i + n)%nat /\ nth_error socks n = Some k /\ classify (nthZ revs n) = Some a /\
            forall m, (m < n)%nat -> classify (nthZ revs m) = None.
Proof.
  induction socks as [|k0 rest IH]; intros i revs j k a H; cbn in H; [discriminate|].
  destruct (classify (nthZ revs 0)) eqn:E.
  - inversion H; subst. exists 0%nat. split; [lia|]. split; [reflexivity|]. split; [assumption|]. intros m Hm. lia.
  - destruct (IH (S i) (tl revs) j k a H) as [n [Hj [Hn [Hc Hb]]]].
    exists (S n). split; [lia|]. split; [assumption|].
    assert (Hnth : forall m, nthZ revs (S m) = nthZ (tl revs) m).
    { intros m. unfold nthZ. destruct revs; [now destruct m|reflexivity]. }
    split; [now rewrite Hnth|]. intros m Hm. destruct m; [assumption|]. rewrite Hnth. apply Hb. lia.
Qed.

(* readable wins over writable wins over hang-up on the same socket: data is delivered before the disconnect *)
Lemma classify_priority rv :
  (has_bit rv POLLIN = true -> classify rv = Some ARead) /\
  (has_bit rv POLLIN = false -> has_bit rv POLLOUT = true -> classify rv = Some AWrite) /\
  (classify rv = Some AError -> has_bit rv POLLIN = false /\ has_bit rv POLLOUT = false).
Proof.
  unfold classify. destruct (has_bit rv POLLIN), (has_bit rv POLLOUT), (has_bit rv (Z.lor POLLHUP POLLERR));
    repeat split; intros; try discriminate; reflexivity.
Qed.

(* ---- the asynchronous send queue (DriverSend), as a pure machine -------------------------------------------- *)
(* queue element: (future, bytes still to send); what one send() result does to the queue *)
Inductive sq_event := SqValue (f : Z) | SqFailed (f : Z) | SqNone.

Definition sq_step (q : list (Z * Z)) (ret_ : Z) : list (Z * Z) * sq_event :=
  match q with
  | [] => ([], SqNone)
  | (f, rem) :: rest =>
      if ret_ <? 0 then (rest, SqFailed f)
      else if ret_ =? rem then (rest, SqValue f)
      else ((f, rem - ret_) :: rest, SqNone)
  end.

(* bytes accepted per future, in wire order *)
Definition wire := list (Z * Z).     (* (future, count) chunks in the order the OS accepted them *)

Definition sq_wire (q : list (Z * Z)) (ret_ : Z) : wire :=
  match q with (f, _) :: _ => if 0 <? ret_ then [(f, ret_)] else [] | [] => [] end.

Fixpoint sq_run (q : list (Z * Z)) (rets : list Z) : list (Z * Z) * wire * list sq_event :=
  match rets with
  | [] => (q, [], [])
  | r :: t => let '(q1, ev) := sq_step q r in
              let '(q2, w, evs) := sq_run q1 t in (q2, sq_wire q r ++ w, ev :: evs)
  end.

Fixpoint wire_of (f : Z) (w : wire) : Z :=
  match w with [] => 0 | (g, n) :: t => (if g =? f then n else 0) + wire_of f t end.

(* kernel contract: a send() takes at most what it is offered, and something if anything is offered *)
Fixpoint rets_ok (q : list (Z * Z)) (rets : list Z) : Prop :=
  match rets with
  | [] => True
  | r :: t => match q with
              | (f, rem) :: _ => r <= rem /\ (0 < rem -> r <> 0)
              | [] => True
              end /\ rets_ok (fst (sq_step q r)) t
  end.

(* FIFO, whole buffers: the futures of the chunks on the wire follow the queue order — a buffer's bytes are
   contiguous and never come after bytes of a later buffer *)
Inductive follows : list Z -> list Z -> Prop :=
| fo_nil o : follows o []
| fo_same f o t : follows (f :: o) t -> follows (f :: o) (f :: t)
| fo_skip f o t : follows o t -> follows (f :: o) t.

Lemma sq_fifo : forall rets q w, snd (fst (sq_run q rets)) = w -> follows (map fst q) (map fst w).
Proof.
  induction rets as [|r t IH]; intros q w H; cbn in H.
  - subst. constructor.
  - destruct (sq_step q r) as [q1 ev] eqn:E1. destruct (sq_run q1 t) as [[q2 w'] evs] eqn:E2. cbn in H. subst w.
    specialize (IH q1 w'). rewrite E2 in IH. specialize (IH eq_refl).
    destruct q as [|[f rem] rest]; cbn in *.
    + inversion E1; subst. cbn in IH. exact IH.
    + assert (Hf : follows (f :: map fst rest) (map fst w')).
      { destruct (r <? 0); [inversion E1; subst; now constructor|].
        destruct (r =? rem); inversion E1; subst; [now constructor|exact IH]. }
      destruct (0 <? r); cbn; [now constructor|assumption].
Qed.

Lemma sq_step_sub q r : forall x, In x (map fst (fst (sq_step q r))) -> In x (map fst q).
Proof.
  destruct q as [|[f rem] rest]; cbn; [tauto|]. intros x.
  destruct (r <? 0); cbn; [tauto|]. destruct (r =? rem); cbn; tauto.
Qed.

Lemma sq_run_mentions : forall rets q q2 w evs, sq_run q rets = (q2, w, evs) ->
  (forall x, wire_of x w <> 0 -> In x (map fst q)) /\ (forall x, In (SqValue x) evs -> In x (map fst q)).
Proof.
  induction rets as [|r t IH]; intros q q2 w evs H; cbn in H.
  - inversion H; subst. split; [intros x Hx; now cbn in Hx|intros x []].
  - destruct (sq_step q r) as [q1 ev] eqn:E1. destruct (sq_run q1 t) as [[q2' w'] evs'] eqn:E2. inversion H; subst.
    destruct (IH _ _ _ _ E2) as [Ha Hb].
    assert (Hsub := sq_step_sub q r). rewrite E1 in Hsub. cbn in Hsub. split.
    + intros x Hx. destruct q as [|[f rem] rest]; cbn in *.
      * inversion E1; subst. exact (Ha x Hx).
      * destruct (0 <? r); cbn in Hx.
        -- destruct (f =? x) eqn:Ef; [apply Z.eqb_eq in Ef; now left|]. apply Hsub, Ha. lia.
        -- apply Hsub, Ha. exact Hx.
    + intros x [Hx|Hx]; [|now apply Hsub, Hb].
      rewrite Hx in E1. destruct q as [|[f rem] rest]; cbn in E1; [inversion E1|].
      destruct (r <? 0); [inversion E1|].
      destruct (r =? rem); inversion E1; subst. now left.
Qed.

(* a future gets a value only after every byte of its buffer was accepted by the OS *)
Lemma sq_value_complete : forall rets q q2 w evs f size,
  sq_run q rets = (q2, w, evs) -> NoDup (map fst q) -> rets_ok q rets ->
  In (f, size) q -> In (SqValue f) evs -> wire_of f w = size.
Proof.
  induction rets as [|r t IH]; intros q q2 w evs f size H Hn Hok Hin Hv; cbn in H.
  - inversion H; subst. contradiction.
  - destruct (sq_step q r) as [q1 ev] eqn:E1. destruct (sq_run q1 t) as [[q2' w'] evs'] eqn:E2. inversion H; subst. clear H.
    destruct q as [|[g rem] rest]; [contradiction|].
    cbn [rets_ok] in Hok. destruct Hok as [[Hle Hnz] Hok']. rewrite E1 in Hok'. cbn [fst] in Hok'.
    cbn in Hn. inversion Hn as [|? ? Hg Hrest]; subst.
    destruct (sq_run_mentions _ _ _ _ _ E2) as [Hw' He'].
    cbn in E1. cbn [sq_wire].
    destruct (r <? 0) eqn:Eneg.
    + (* failed: popped, nothing on the wire *)
      inversion E1; subst q1 ev. apply Z.ltb_lt in Eneg.
      assert (E0 : (0 <? r) = false) by (apply Z.ltb_ge; lia). rewrite E0. cbn [app].
      destruct Hv as [Hv|Hv]; [discriminate|].
      assert (Hfr : In f (map fst rest)) by now apply He'.
      destruct Hin as [Heq|Hin]; [inversion Heq; subst; contradiction|].
      now apply (IH rest q2 w' evs' f size).
    + apply Z.ltb_ge in Eneg. destruct (r =? rem) eqn:Eeq.
      * (* complete: value *)
        apply Z.eqb_eq in Eeq. subst r. inversion E1; subst q1 ev.
        destruct (Z.eq_dec f g) as [->|Hne].
        -- assert (size = rem).
           { destruct Hin as [Heq|Hin]; [now inversion Heq|]. exfalso. apply Hg. change g with (fst (g, size)). now apply in_map. }
           subst size.
           assert (Hz : wire_of g w' = 0).
           { destruct (Z.eq_dec (wire_of g w') 0); [assumption|]. exfalso. apply Hg. now apply Hw'. }
           destruct (0 <? rem) eqn:Ep; cbn; [rewrite Z.eqb_refl; lia|apply Z.ltb_ge in Ep; lia].
        -- destruct Hv as [Hv|Hv]; [inversion Hv; subst; contradiction|].
           destruct Hin as [Heq|Hin]; [inversion Heq; subst; contradiction|].
           assert (Hr := IH rest q2 w' evs' f size E2 Hrest Hok' Hin Hv).
           destruct (0 <? rem); cbn; [|assumption].
           destruct (g =? f) eqn:Egf; [apply Z.eqb_eq in Egf; subst; contradiction|]. lia.
      * (* partial: stays at the front with the rest *)
        apply Z.eqb_neq in Eeq. inversion E1; subst q1 ev.
        destruct Hv as [Hv|Hv]; [discriminate|].
        destruct (Z.eq_dec f g) as [->|Hne].
        -- assert (size = rem).
           { destruct Hin as [Heq|Hin]; [now inversion Heq|]. exfalso. apply Hg. change g with (fst (g, size)). now apply in_map. }
           subst size.
           assert (Hr := IH ((g, rem - r) :: rest) q2 w' evs' g (rem - r) E2 ltac:(cbn; now constructor) Hok' ltac:(now left) Hv).
           destruct (0 <? r) eqn:Ep; cbn; [rewrite Z.eqb_refl; lia|apply Z.ltb_ge in Ep; lia].
        -- destruct Hin as [Heq|Hin]; [inversion Heq; subst; contradiction|].
           assert (Hr := IH ((g, rem - r) :: rest) q2 w' evs' f size E2 ltac:(cbn; now constructor) Hok' ltac:(now right) Hv).
           destruct (0 <? r); cbn; [|assumption].
           destruct (g =? f) eqn:Egf; [apply Z.eqb_eq in Egf; subst; contradiction|]. lia.
Qed.

(* a partial write keeps the buffer at the front with exactly the unsent rest *)
Lemma sq_partial_keeps_front f rem rest r : 0 <= r -> r <> rem ->
  sq_step ((f, rem) :: rest) r = ((f, rem - r) :: rest, SqNone).
Proof.
  intros H0 Hne. cbn. assert (E : (r <? 0) = false) by (apply Z.ltb_ge; lia). rewrite E.
  assert (E2 : (r =? rem) = false) by (now apply Z.eqb_neq). now rewrite E2.
Qed.

(* each send() result resolves at most one future, and only the one at the front *)
Lemma sq_resolves_front q r q' ev : sq_step q r = (q', ev) ->
  match ev with
  | SqValue f | SqFailed f => exists rem rest, q = (f, rem) :: rest /\ q' = rest
  | SqNone => True
  end.
Proof.
  destruct q as [|[f rem] rest]; cbn; intros H; [inversion H; exact I|].
  destruct (r <? 0); [inversion H; subst; eauto|]. destruct (r =? rem); inversion H; subst; eauto.
Qed.
