(* Os.v — the outside world as an oracle script, and the monad in which the library model talks to it.
   Everything the code cannot control (results of poll/send/recv/..., readings of the steady clock,
   failures of any system call) is an input: the script. The model emits a trace of the calls it makes. *)
From SP Require Export Base.
Local Open Scope Z_scope.

(* ---- what the outside answers ---------------------------------------------------------------- *)
Inductive ev :=
| EvNow (dt : Z)                                   (* steady clock read; dt ns passed since the last time event *)
| EvPoll (ret err dt : Z) (revents : list Z)       (* poll(): result, errno if ret<0, ns it lasted, revents per fd *)
| EvSend (ret err : Z)                             (* send() *)
| EvRecv (ret err : Z)                             (* recv() *)
| EvSendTo (ret err : Z)                           (* sendto() *)
| EvRecvFrom (ret err src : Z)                     (* recvfrom(): src = symbolic sender address *)
| EvAccept (err peer : Z).                         (* accept(): err = 0 -> fresh descriptor, peer = symbolic address *)

Definition ev_decode (r : raw) : option ev :=
  let '(c, a) := r in
  match c with
  | 1 => Some (EvNow (nthZ a 0))
  | 2 => Some (EvPoll (nthZ a 0) (nthZ a 1) (nthZ a 2) (skipn 3 a))
  | 3 => Some (EvSend (nthZ a 0) (nthZ a 1))
  | 4 => Some (EvRecv (nthZ a 0) (nthZ a 1))
  | 5 => Some (EvSendTo (nthZ a 0) (nthZ a 1))
  | 6 => Some (EvRecvFrom (nthZ a 0) (nthZ a 1) (nthZ a 2))
  | 7 => Some (EvAccept (nthZ a 0) (nthZ a 1))
  | _ => None
  end.

(* ---- what the code asks: trace entries (code, args) ------------------------------------------ *)
(* system calls *)
Definition K_NOW := 1.        (* [t]                         steady clock read -> t *)
Definition K_POLL := 2.       (* [timeout; ret; dt; fd1; ev1; ...]  poll *)
Definition K_SEND := 3.       (* [fd; len; flags; ret]       send *)
Definition K_RECV := 4.       (* [fd; size; ret] *)
Definition K_SENDTO := 5.     (* [fd; len; dst; ret] *)
Definition K_RECVFROM := 6.   (* [fd; size; ret] *)
Definition K_ACCEPT := 7.     (* [fd; newfd] *)
Definition K_SYS := 8.        (* [which; fd; errno]          set-up call: socket/bind/... see S_* *)
(* results seen through the public API, handler invocations, ... : codes >= 20, defined by the users *)

(* set-up system calls (never scripted; fail only through the fault overlay) *)
Definition S_SOCKET := 1. Definition S_BIND := 2. Definition S_LISTEN := 3. Definition S_CONNECT := 4.
Definition S_FCNTL_GET := 5. Definition S_FCNTL_SET := 6. Definition S_SETSOCKOPT := 7.
Definition S_GETSOCKOPT := 8. Definition S_GETSOCKNAME := 9. Definition S_GETPEERNAME := 10.
Definition S_CLOSE := 11.

Definition MSG_NOSIGNAL := 16384.

Section WithExt.
Context {X : Type}.     (* state of the library objects (pools, sockets, driver, ...), opaque here *)

Record os := {
  o_ext    : X;
  o_script : list ev;
  o_trace  : list raw;          (* most recent first *)
  o_now    : Z;                 (* virtual steady clock, ns *)
  o_nextfd : Z;                 (* next descriptor socket()/accept() hands out *)
  o_nsys   : Z;                 (* number of set-up calls so far (index for the fault overlay) *)
  o_faults : list (Z * Z)       (* (index of set-up call, errno): that call fails *)
}.

Definition os_init (x : X) (script : list ev) (faults : list (Z * Z)) : os :=
  {| o_ext := x; o_script := script; o_trace := []; o_now := 0; o_nextfd := 1000; o_nsys := 0; o_faults := faults |}.

Definition M (A : Type) := os -> res A * os.

Definition ret {A} (a : A) : M A := fun s => (Ok a, s).
Definition throw {A} (e : exn) : M A := fun s => (Exn e, s).
Definition bad {A} (why : Z) : M A := fun s => (Bad why, s).
Definition stuck {A} (ub : Z) : M A := fun s => (Stuck ub, s).
Definition bind {A B} (m : M A) (f : A -> M B) : M B :=
  fun s => match m s with
           | (Ok a, s') => f a s'
           | (Exn e, s') => (Exn e, s')
           | (Bad w, s') => (Bad w, s')
           | (Stuck u, s') => (Stuck u, s')
           end.
(* try { m } catch(...) { h e }  — h decides which exceptions it handles by re-throwing the others *)
Definition catch {A} (m : M A) (h : exn -> M A) : M A :=
  fun s => match m s with
           | (Exn e, s') => h e s'
           | r => r
           end.
(* run m, then always run the cleanup c (RAII destructor), keeping m's outcome *)
Definition finally {A} (m : M A) (c : M unit) : M A :=
  fun s => match m s with
           | (Ok a, s') => match c s' with (Ok _, s'') => (Ok a, s'') | (Exn e, s'') => (Exn e, s'')
                                       | (Bad w, s'') => (Bad w, s'') | (Stuck u, s'') => (Stuck u, s'') end
           | (Exn e, s') => match c s' with (Bad w, s'') => (Bad w, s'') | (Stuck u, s'') => (Stuck u, s'')
                                        | (_, s'') => (Exn e, s'') end
           | r => r
           end.

Definition get_ext : M X := fun s => (Ok (o_ext s), s).
Definition put_ext (x : X) : M unit :=
  fun s => (Ok tt, {| o_ext := x; o_script := o_script s; o_trace := o_trace s; o_now := o_now s;
                      o_nextfd := o_nextfd s; o_nsys := o_nsys s; o_faults := o_faults s |}).

Local Notation "x <- m ;; f" := (bind m (fun x => f)) (at level 61, m at next level, right associativity).
Local Notation "m ;;; f" := (bind m (fun _ => f)) (at level 61, right associativity).

Definition emit (c : Z) (args : list Z) : M unit :=
  fun s => (Ok tt, {| o_ext := o_ext s; o_script := o_script s; o_trace := (c, args) :: o_trace s; o_now := o_now s;
                      o_nextfd := o_nextfd s; o_nsys := o_nsys s; o_faults := o_faults s |}).

Definition set_script (s : os) (sc : list ev) (now : Z) : os :=
  {| o_ext := o_ext s; o_script := sc; o_trace := o_trace s; o_now := now;
     o_nextfd := o_nextfd s; o_nsys := o_nsys s; o_faults := o_faults s |}.

(* fuel for loops whose every iteration consumes at least one script event *)
Definition script_fuel : M nat := fun s => (Ok (S (length (o_script s))), s).

(* ---- scripted system calls -------------------------------------------------------------------- *)
Definition sys_now : M Z :=
  fun s => match o_script s with
           | EvNow dt :: sc => let t := o_now s + dt in
                               let '(_, s') := emit K_NOW [t] (set_script s sc t) in (Ok t, s')
           | _ => (Bad 1, s)
           end.

Fixpoint flatten_fds (fds : list (Z * Z)) : list Z :=
  match fds with [] => [] | (fd, e) :: t => fd :: e :: flatten_fds t end.

(* poll: returns (ret, errno, revents); logged: time-out, result, ns it lasted, then the (fd, events) pairs *)
Definition sys_poll (fds : list (Z * Z)) (timeout_ms : Z) : M (Z * Z * list Z) :=
  fun s => match o_script s with
           | EvPoll r e dt rev :: sc =>
               let '(_, s') := emit K_POLL (timeout_ms :: r :: dt :: flatten_fds fds) (set_script s sc (o_now s + dt)) in
               (Ok (r, e, rev), s')
           | _ => (Bad 2, s)
           end.

Definition sys_send (fd len flags : Z) : M (Z * Z) :=
  fun s => match o_script s with
           | EvSend r e :: sc => let '(_, s') := emit K_SEND [fd; len; flags; r] (set_script s sc (o_now s)) in (Ok (r, e), s')
           | _ => (Bad 3, s)
           end.

Definition sys_recv (fd size : Z) : M (Z * Z) :=
  fun s => match o_script s with
           | EvRecv r e :: sc => let '(_, s') := emit K_RECV [fd; size; r] (set_script s sc (o_now s)) in (Ok (r, e), s')
           | _ => (Bad 4, s)
           end.

Definition sys_sendto (fd len dst : Z) : M (Z * Z) :=
  fun s => match o_script s with
           | EvSendTo r e :: sc => let '(_, s') := emit K_SENDTO [fd; len; dst; r] (set_script s sc (o_now s)) in (Ok (r, e), s')
           | _ => (Bad 5, s)
           end.

Definition sys_recvfrom (fd size : Z) : M (Z * Z * Z) :=
  fun s => match o_script s with
           | EvRecvFrom r e src :: sc =>
               let '(_, s') := emit K_RECVFROM [fd; size; r] (set_script s sc (o_now s)) in (Ok (r, e, src), s')
           | _ => (Bad 6, s)
           end.

Definition alloc_fd (s : os) : os :=
  {| o_ext := o_ext s; o_script := o_script s; o_trace := o_trace s; o_now := o_now s;
     o_nextfd := o_nextfd s + 1; o_nsys := o_nsys s; o_faults := o_faults s |}.

(* accept: returns (fd or -1, errno, peer) *)
Definition sys_accept (fd : Z) : M (Z * Z * Z) :=
  fun s => match o_script s with
           | EvAccept e peer :: sc =>
               let nfd := if e =? 0 then o_nextfd s else -1 in
               let '(_, s') := emit K_ACCEPT [fd; nfd] (set_script s sc (o_now s)) in
               if e =? 0 then (Ok (nfd, 0, peer), alloc_fd s') else (Ok (-1, e, peer), s')
           | _ => (Bad 7, s)
           end.

(* ---- set-up system calls: succeed unless the fault overlay says otherwise --------------------- *)
Fixpoint lookup (k : Z) (l : list (Z * Z)) : option Z :=
  match l with [] => None | (k', v) :: t => if k' =? k then Some v else lookup k t end.

Definition bump_nsys (s : os) : os :=
  {| o_ext := o_ext s; o_script := o_script s; o_trace := o_trace s; o_now := o_now s;
     o_nextfd := o_nextfd s; o_nsys := o_nsys s + 1; o_faults := o_faults s |}.

(* rules (negative keys -(100 * from + which)): every set-up call of kind [which] with index >= from fails — the kernel's
   state-dependent answers (getpeername on a reset connection: ENOTCONN); the first rule in file order wins *)
Fixpoint rule_err (which nsys : Z) (l : list (Z * Z)) : option Z :=
  match l with
  | [] => None
  | (k, v) :: t => if (k <? 0) && ((- k) mod 100 =? which) && ((- k) / 100 <=? nsys) then Some v else rule_err which nsys t
  end.

Definition fault_of (s : os) (which : Z) : Z :=
  match lookup (o_nsys s) (o_faults s) with
  | Some e => e
  | None => match rule_err which (o_nsys s) (o_faults s) with Some e => e | None => 0 end
  end.

(* returns 0 on success, else the errno (> 0) *)
Definition sys_setup (which fd : Z) : M Z :=
  fun s => let err := fault_of s which in
           let '(_, s1) := emit K_SYS [which; fd; err] s in
           (Ok err, bump_nsys s1).

(* socket(): returns (fd or -1, errno) *)
Definition sys_socket : M (Z * Z) :=
  fun s => let err := fault_of s S_SOCKET in
           let '(_, s1) := emit K_SYS [S_SOCKET; o_nextfd s; err] s in
           let s2 := bump_nsys s1 in
           if err =? 0 then (Ok (o_nextfd s2, 0), alloc_fd s2) else (Ok (-1, err), s2).

(* close() result is ignored by the library *)
Definition sys_close (fd : Z) : M unit := _ <- sys_setup S_CLOSE fd ;; ret tt.

End WithExt.
Arguments os : clear implicits.
Arguments M : clear implicits.

Notation "x <- m ;; f" := (bind m (fun x => f)) (at level 61, m at next level, right associativity).
Notation "m ;;; f" := (bind m (fun _ => f)) (at level 61, right associativity).
