(* TlsDrain.v — finding F14: in driver mode the rest of a decrypted record that did not fit into the receive buffer causes no
   further poll event (it has left the kernel). DriverReceive therefore goes on handing over buffers while the engine reports
   pending plaintext: when it returns normally, either the engine holds nothing more for this socket, or the last read
   produced no application data (handshake traffic only). *)
From SP Require Import Base ListAux Os OsLemmas WaitModel WaitLemmas SocketModel Objects DriverModel TlsModel TlsLemmas TlsInterest.
Local Open Scope Z_scope.
Local Notation os := (os ext).

Section Drain.
Variable run_block : Z -> MX unit.

Definition drained (k : Z) (s : os) : Prop := exists t, aget k (x_tls (o_ext s)) = Some t /\ t_more t = false.

Lemma receive_loop_drains fuel k sk : forall (s : os) s',
  tdriver_receive_loop run_block fuel k sk s = (Ok tt, s') ->
  drained k s' \/
  (exists s0 id s1, tls_buffered_receive_now k (s_rxsize sk) s0 = (Ok (id, 0), s1) /\ precycle (1000 + k) id s1 = (Ok tt, s')).
Proof.
  induction fuel as [|f IH]; intros s s' H; cbn [tdriver_receive_loop] in H; [inversion H|].
  apply bind_inv in H. destruct H as [[[id n] [s1 [Hr H]]]|[r0 [_ [_ Hx]]]]; [|exfalso; exact (recast_not_ok _ _ Hx)].
  destruct (n =? 0) eqn:E0.
  - apply Z.eqb_eq in E0. subst n. right. exists s, id, s1. split; [exact Hr|]. destruct (precycle (1000 + k) id s1) as [[[]|e|w|u] s2] eqn:Hp; inversion H; subst. reflexivity.
  - apply bind_inv in H. destruct H as [[nm [s2 [_ H]]]|[r0 [_ [_ Hx]]]]; [|exfalso; exact (recast_not_ok _ _ Hx)].
    apply bind_inv in H. destruct H as [[[] [s3 [_ H]]]|[r0 [_ [_ Hx]]]]; [|exfalso; exact (recast_not_ok _ _ Hx)].
    apply bind_inv in H. destruct H as [[[] [s4 [_ H]]]|[r0 [_ [_ Hx]]]]; [|exfalso; exact (recast_not_ok _ _ Hx)].
    apply bind_inv in H. destruct H as [[t [s5 [Hg H]]]|[r0 [_ [_ Hx]]]]; [|exfalso; exact (recast_not_ok _ _ Hx)].
    destruct (get_tls_ok _ _ _ _ Hg) as [-> Ht].
    destruct (t_more t) eqn:Em.
    + exact (IH _ _ H).
    + inversion H; subst. left. exists t. split; assumption.
Qed.
End Drain.
