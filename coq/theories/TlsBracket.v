(* TlsBracket.v — no cleartext by construction of the glue, as a statement about whole operations: in the trace of a TLS
   Send / Receive / SendSome / Receive(driver) / DriverPending / Shutdown, EVERY send() and recv() on the connection lies
   inside an engine call (between a K_ENGCALL entry and the matching K_ENG entry, or after a K_ENGCALL whose call was
   left by an exception). The glue itself only polls and reads the clock. For every engine script and every OS script. *)
From SP Require Import Base ListAux Os OsLemmas WaitModel WaitLemmas SocketModel SocketLemmas Objects DriverModel TlsModel TlsLemmas TlsEmits.
Local Open Scope Z_scope.

Local Notation os := (os ext).

Definition is_io (e : raw) : bool := (fst e =? K_SEND) || (fst e =? K_RECV).

(* scan a trace segment in chronological order; d = number of engine calls we are inside; None = an I/O entry outside *)
Fixpoint scan (d : nat) (chron : list raw) : option nat :=
  match chron with
  | [] => Some d
  | e :: t => if fst e =? K_ENGCALL then scan (S d) t
              else if fst e =? K_ENG then scan (pred d) t
              else if is_io e then (match d with O => None | _ => scan d t end)
              else scan d t
  end.

Lemma scan_app d a b : scan d (a ++ b) = match scan d a with Some d1 => scan d1 b | None => None end.
Proof.
  revert d. induction a as [|e t IH]; intros d; cbn; [reflexivity|].
  destruct (fst e =? K_ENGCALL); [apply IH|]. destruct (fst e =? K_ENG); [apply IH|].
  destruct (is_io e); [destruct d; [reflexivity|apply IH]|apply IH].
Qed.

Lemma scan_inner l : Forall inner_kind l -> forall d, (0 < d)%nat -> scan d l = Some d.
Proof.
  induction 1 as [|e t He _ IH]; intros d Hd; cbn; [reflexivity|].
  assert (H1 : (fst e =? K_ENGCALL) = false).
  { destruct He as [[H|[H|[H|H]]]|H]; rewrite H; reflexivity. }
  assert (H2 : (fst e =? K_ENG) = false).
  { destruct He as [[H|[H|[H|H]]]|H]; rewrite H; reflexivity. }
  rewrite H1, H2. destruct (is_io e); [destruct d; [lia|now apply IH]|now apply IH].
Qed.

Lemma scan_waits l : Forall (fun e => fst e = K_POLL \/ fst e = K_NOW) l -> forall d, scan d l = Some d.
Proof.
  induction 1 as [|e t He _ IH]; intros d; cbn; [reflexivity|].
  assert (H1 : (fst e =? K_ENGCALL) = false) by (destruct He as [H|H]; rewrite H; reflexivity).
  assert (H2 : (fst e =? K_ENG) = false) by (destruct He as [H|H]; rewrite H; reflexivity).
  assert (H3 : is_io e = false) by (unfold is_io; destruct He as [H|H]; rewrite H; reflexivity).
  rewrite H1, H2, H3. apply IH.
Qed.

Definition okres {A} (r : res A) : bool := match r with Ok _ => true | _ => false end.

(* the glue-level contract: all I/O inside engine calls; the nesting depth is restored on a normal return *)
Definition bracketed {A} (m : MX A) : Prop :=
  forall (s : os) r s', m s = (r, s') ->
  exists new, extends s s' new /\
    forall d, exists d', scan d (rev new) = Some d' /\ (d <= d')%nat /\ (okres r = true -> d' = d).

Lemma br_of_waits {A} (m : MX A) : waits_only m -> bracketed m.
Proof.
  intros Hw s r s' H. destruct (Hw _ _ _ H) as [new [X O]]. exists new. split; [assumption|].
  intros d. exists d. split; [|split; [lia|reflexivity]]. apply scan_waits. apply Forall_rev. exact O.
Qed.

Lemma br_quiet {A} (m : MX A) : quiet m -> bracketed m.
Proof. intros Hq. apply br_of_waits, waits_of_quiet, Hq. Qed.

Lemma br_ret {A} (a : A) : bracketed (ret a).
Proof. apply br_quiet, quiet_ret. Qed.
Lemma br_throw {A} e : bracketed (throw (X:=ext) (A:=A) e).
Proof. apply br_of_waits, waits_throw. Qed.
Lemma br_stuck {A} u : bracketed (stuck (X:=ext) (A:=A) u).
Proof. apply br_of_waits, waits_stuck. Qed.

Lemma br_bind {A B} (m : MX A) (f : A -> MX B) : bracketed m -> (forall a, bracketed (f a)) -> bracketed (bind m f).
Proof.
  intros Hm Hf s r s' H. apply bind_inv in H. destruct H as [[a [s1 [H1 H2]]]|[r0 [H1 [Hn ->]]]].
  - destruct (Hm _ _ _ H1) as [n1 [X1 S1]]. destruct (Hf a _ _ _ H2) as [n2 [X2 S2]].
    exists (n2 ++ n1). split; [eapply extends_trans; eassumption|].
    intros d. destruct (S1 d) as [d1 [E1 [L1 K1]]]. specialize (K1 eq_refl). subst d1.
    destruct (S2 d) as [d2 [E2 [L2 K2]]]. exists d2. rewrite rev_app_distr, scan_app, E1. auto.
  - destruct (Hm _ _ _ H1) as [n1 [X1 S1]]. exists n1. split; [assumption|].
    intros d. destruct (S1 d) as [d1 [E1 [L1 _]]]. exists d1. split; [assumption|]. split; [assumption|].
    destruct r0; cbn in *; discriminate.
Qed.

(* a handler that runs after an exception starts at whatever depth the body was left at: monotone in the depth *)
Lemma scan_mono l : forall d d' x, scan d l = Some x -> (d <= d')%nat -> exists x', scan d' l = Some x' /\ (x <= x')%nat.
Proof.
  induction l as [|e t IH]; intros d d' x H L; cbn in *; [inversion H; subst; eauto|].
  destruct (fst e =? K_ENGCALL); [eapply IH; [eassumption|lia]|].
  destruct (fst e =? K_ENG); [eapply IH; [eassumption|lia]|].
  destruct (is_io e).
  - destruct d; [discriminate|]. destruct d'; [lia|]. eapply IH; [eassumption|lia].
  - eapply IH; eassumption.
Qed.

Lemma bind_emit {B} c a (f : unit -> MX B) (s : os) : bind (emit c a) f s = f tt (snd (emit c a s)).
Proof. reflexivity. Qed.
Lemma bind_get_ext {B} (f : ext -> MX B) (s : os) : bind get_ext f s = f (o_ext s) s.
Proof. reflexivity. Qed.
Lemma bind_put_ext {B} x (f : unit -> MX B) (s : os) : bind (put_ext x) f s = f tt (snd (put_ext x s)).
Proof. reflexivity. Qed.
Lemma trace_emit c a (s : os) : o_trace (snd (emit c a s)) = (c, a) :: o_trace s.
Proof. reflexivity. Qed.
Lemma trace_put_ext x (s : os) : o_trace (snd (put_ext x s)) = o_trace s.
Proof. reflexivity. Qed.

Lemma br_engine k call size : bracketed (engine k call size).
Proof.
  intros s r s' H. unfold engine in H. rewrite bind_emit in H.
  set (s1 := snd (emit K_ENGCALL [call; size; k] s)) in *.
  assert (T0 : o_trace s1 = (K_ENGCALL, [call; size; k]) :: o_trace s) by reflexivity.
  assert (Hstart : forall n (sx : os), extends s1 sx n -> extends s sx (n ++ [(K_ENGCALL, [call; size; k])])).
  { intros n sx X. unfold extends in *. rewrite X, T0, <- app_assoc. reflexivity. }
  assert (Hin : forall n, Forall inner_kind n -> forall d, scan d (rev (n ++ [(K_ENGCALL, [call; size; k])])) = Some (S d)).
  { intros n F d. rewrite rev_app_distr. cbn [rev app]. cbn [scan fst]. rewrite Z.eqb_refl.
    apply scan_inner; [now apply Forall_rev|lia]. }
  (* leaving the engine call abnormally after the inner entries n *)
  assert (Habn : forall n, Forall inner_kind n -> extends s1 s' n -> okres r = false ->
     exists new, extends s s' new /\ forall d, exists d', scan d (rev new) = Some d' /\ (d <= d')%nat /\ (okres r = true -> d' = d)).
  { intros n F X Hr. exists (n ++ [(K_ENGCALL, [call; size; k])]). split; [now apply Hstart|].
    intros d. exists (S d). split; [now apply Hin|]. split; [lia|]. rewrite Hr. discriminate. }
  apply bind_inv in H. destruct H as [[[] [s2 [Hq H]]]|[r0 [Hq [Hn ->]]]].
  2:{ apply (Habn [] (Forall_nil _)); [unfold extends; now rewrite (quiet_upd_tls _ _ _ _ _ Hq)|destruct r0; cbn in *; congruence]. }
  assert (Q2 : o_trace s2 = o_trace s1) by apply (quiet_upd_tls _ _ _ _ _ Hq).
  rewrite bind_get_ext in H.
  assert (Hbad : forall w, (Bad w : res (Z * Z), s2) = (r, s') ->
     exists new, extends s s' new /\ forall d, exists d', scan d (rev new) = Some d' /\ (d <= d')%nat /\ (okres r = true -> d' = d)).
  { intros w E. inversion E; subst. apply (Habn [] (Forall_nil _)); [unfold extends; now rewrite Q2|reflexivity]. }
  destruct (x_eng (o_ext s2)) as [|[c args] tl]; [apply (Hbad 8 H)|].
  destruct (c =? 8) eqn:Ec.
  2:{ destruct c; try (apply (Hbad 8 H)). all: repeat (match goal with p : positive |- _ => destruct p; try (apply (Hbad 8 H)) end). all: try discriminate. }
  apply Z.eqb_eq in Ec. subst c.
  destruct args as [|call' [|nbio rest]]; try (apply (Hbad 8 H)).
  destruct (negb (call' =? call)); [apply (Hbad 8 H)|].
  rewrite bind_put_ext in H.
  set (s3 := snd (put_ext _ s2)) in *.
  assert (Q3 : o_trace s3 = o_trace s1) by (unfold s3; rewrite trace_put_ext; exact Q2).
  apply bind_inv in H. destruct H as [[st [s4 [Hb H]]]|[r0 [Hb [Hn ->]]]].
  - destruct (emits_run_bios _ _ _ _ _ _ Hb) as [ni [Xi Fi]].
    assert (X4 : extends s1 s4 ni) by (unfold extends in *; rewrite Xi, Q3; reflexivity).
    assert (Hfin : forall (sa : os) e3 e4 e5 rr, o_trace sa = o_trace s4 ->
              (Ok rr : res (Z * Z), snd (emit K_ENG [call; size; e3; e4; e5] sa)) = (r, s') ->
              exists new, extends s s' new /\ forall d, exists d', scan d (rev new) = Some d' /\ (d <= d')%nat /\ (okres r = true -> d' = d)).
    { intros sa e3 e4 e5 rr Qa E. injection E as Er Es. subst r s'.
      exists ((K_ENG, [call; size; e3; e4; e5]) :: ni ++ [(K_ENGCALL, [call; size; k])]). split.
      - unfold extends in *. cbn [o_trace]. rewrite Qa, X4, T0. cbn. rewrite <- app_assoc. reflexivity.
      - intros d. exists d. split; [|split; [lia|reflexivity]].
        change ((K_ENG, [call; size; e3; e4; e5]) :: ni ++ [(K_ENGCALL, [call; size; k])]) with ([(K_ENG, [call; size; e3; e4; e5])] ++ (ni ++ [(K_ENGCALL, [call; size; k])])).
        rewrite rev_app_distr, scan_app. pose proof (Hin ni Fi d) as Hd. unfold raw in *. rewrite Hd. cbn. reflexivity. }
    destruct (negb (st =? 0)).
    + rewrite bind_emit in H. eapply (Hfin s4); [reflexivity|exact H].
    + apply bind_inv in H. destruct H as [[[] [s5 [Hu H]]]|[r0 [Hu [Hn ->]]]].
      * rewrite bind_emit in H. eapply (Hfin s5); [apply (quiet_upd_tls _ _ _ _ _ Hu)|exact H].
      * apply (Habn ni Fi); [unfold extends in *; rewrite (quiet_upd_tls _ _ _ _ _ Hu); exact X4|destruct r0; cbn in *; congruence].
  - destruct (emits_run_bios _ _ _ _ _ _ Hb) as [ni [Xi Fi]].
    apply (Habn ni Fi); [unfold extends in *; rewrite Xi, Q3; reflexivity|destruct r0; cbn in *; congruence].
Qed.

Lemma br_handle_result k err : bracketed (handle_result k err).
Proof. apply br_of_waits, handle_result_waits. Qed.
Lemma br_handle_last_error k : bracketed (handle_last_error k).
Proof. apply br_of_waits, handle_last_error_waits. Qed.
Lemma br_get_tls k : bracketed (get_tls k).
Proof. apply br_quiet, quiet_get_tls. Qed.
Lemma br_put_tls k t : bracketed (put_tls k t).
Proof. apply br_quiet, quiet_put_tls. Qed.
Lemma br_upd_tls k f : bracketed (upd_tls k f).
Proof. apply br_quiet, quiet_upd_tls. Qed.

Lemma br_read_loop fuel k size : bracketed (read_loop fuel k size).
Proof.
  induction fuel as [|f IH]; cbn [read_loop]; [apply br_ret|].
  apply br_bind; [apply br_engine|]. intros [res err].
  destruct (0 <? res); [apply br_ret|].
  apply br_bind; [apply br_handle_result|]. intros ok.
  destruct (negb ok); [apply br_ret|]. destruct f; [apply br_stuck|exact IH].
Qed.

Lemma br_tls_read k size : bracketed (tls_read k size).
Proof.
  unfold tls_read. apply br_bind; [apply br_handle_last_error|]. intros ok.
  destruct ok; [apply br_read_loop|apply br_ret].
Qed.

Lemma br_bad {A} w : bracketed (bad (X:=ext) (A:=A) w).
Proof. apply br_of_waits. intros s r s' H. inversion H. exists []. split; [apply extends_refl|constructor]. Qed.

Lemma br_write_loop fuel k : forall hs remaining, bracketed (write_loop fuel hs k remaining).
Proof.
  induction fuel as [|f IH]; intros hs remaining; cbn [write_loop]; [apply br_bad|].
  destruct (remaining =? 0); [apply br_ret|].
  apply br_bind; [apply br_get_tls|]. intros t.
  destruct (negb ((t_pend t =? -1) || (t_pend t =? remaining))); [apply br_stuck|].
  apply br_bind; [apply br_engine|]. intros [res err].
  destruct (res <=? 0).
  - apply br_bind; [apply br_upd_tls|]. intros _.
    apply br_bind; [apply br_handle_result|]. intros ok.
    destruct (negb ok); [apply br_ret|]. destruct hs; [apply br_stuck|apply IH].
  - apply br_bind; [apply br_upd_tls|]. intros _.
    destruct (remaining <? res); [apply br_stuck|]. apply IH.
Qed.

Lemma br_tls_write k size : bracketed (tls_write k size).
Proof.
  unfold tls_write. apply br_bind; [apply br_handle_last_error|]. intros ok.
  destruct ok; [|apply br_ret]. apply br_bind; [apply br_quiet, quiet_get_ext|]. intros x.
  apply br_bind; [apply br_write_loop|]. intros rem. apply br_ret.
Qed.

Lemma br_handshake_loop fuel k : bracketed (handshake_loop fuel k).
Proof.
  induction fuel as [|f IH]; cbn [handshake_loop]; [apply br_ret|].
  apply br_bind; [apply br_engine|]. intros r.
  destruct (0 <? fst r); [apply br_ret|].
  apply br_bind; [apply br_handle_result|]. intros ok.
  destruct (negb ok); [apply br_ret|]. destruct f; [apply br_stuck|exact IH].
Qed.

(* the five entry points of the socket interface and the driver hook *)
Theorem send_io_inside_engine : forall k size T, bracketed (tls_send k size T).
Proof. intros. unfold tls_send. apply br_bind; [apply br_of_waits, waits_set_timeout|]. intros _. apply br_tls_write. Qed.

Theorem send_some_io_inside_engine : forall k size, bracketed (tls_send_some k size).
Proof. intros. unfold tls_send_some. apply br_bind; [apply br_upd_tls|]. intros _. apply br_tls_write. Qed.

Theorem receive_io_inside_engine : forall k size T, bracketed (tls_receive k size T).
Proof.
  intros. unfold tls_receive. apply br_bind; [apply br_of_waits, waits_set_timeout|]. intros _.
  apply br_bind; [apply br_tls_read|]. intros n.
  destruct (0 <? n); [apply br_ret|]. destruct (T <? 0); [apply br_stuck|apply br_ret].
Qed.

Theorem receive_now_io_inside_engine : forall k size, bracketed (tls_receive_now k size).
Proof.
  intros. unfold tls_receive_now. apply br_bind; [apply br_upd_tls|]. intros _.
  apply br_bind; [apply br_tls_read|]. intros n.
  apply br_bind; [apply br_get_tls|]. intros t.
  apply br_bind; [destruct ((n =? 0) && t_init t); [apply br_put_tls|apply br_ret]|]. intros _. apply br_ret.
Qed.

Theorem pending_io_inside_engine : forall k, bracketed (tls_pending k).
Proof.
  intros. unfold tls_pending. apply br_bind; [apply br_get_tls|]. intros t.
  destruct (t_init t); [apply br_ret|].
  apply br_bind; [apply br_put_tls|]. intros _.
  apply br_bind; [apply br_handle_last_error|]. intros ok.
  destruct ok; [apply br_handshake_loop|apply br_ret].
Qed.

Lemma br_shutdown_loop fuel k : bracketed (shutdown_loop fuel k).
Proof.
  induction fuel as [|f IH]; cbn [shutdown_loop]; [apply br_ret|].
  apply br_bind; [apply br_engine|]. intros [res err].
  destruct (res <? 0).
  - apply br_bind; [apply br_handle_result|]. intros ok. destruct ok; [exact IH|apply br_ret].
  - destruct (res =? 0); [apply br_ret|exact IH].
Qed.

Theorem shutdown_io_inside_engine : forall k, bracketed (tls_shutdown k).
Proof.
  intros. unfold tls_shutdown. apply br_bind; [apply br_upd_tls|]. intros _.
  apply br_bind; [apply br_of_waits, waits_set_timeout|]. intros _.
  apply br_bind; [apply br_engine|]. intros r.
  destruct (fst r <=? 0); [|apply br_ret].
  apply br_bind; [apply br_shutdown_loop|]. intros _.
  apply br_bind; [apply br_engine|]. intros _. apply br_ret.
Qed.

(* read at depth 0: no send() / recv() of the operation lies outside an engine call *)
Corollary no_io_outside_the_engine {A} (m : MX A) : bracketed m ->
  forall (s : os) r s', m s = (r, s') -> exists new, extends s s' new /\ scan 0 (rev new) <> None.
Proof.
  intros Hb s r s' H. destruct (Hb _ _ _ H) as [new [X S]]. exists new. split; [assumption|].
  destruct (S 0%nat) as [d' [E _]]. rewrite E. discriminate.
Qed.
