(* Properties_C01.v — TCP byte-stream integrity and exact send accounting (plain sockets).
   Statements quantify over EVERY oracle script: every way the OS splits a write into short writes,
   every readiness pattern, every error, every clock behaviour. *)
From SP Require Import Base ListAux Os OsLemmas WaitModel WaitLemmas SocketModel SocketLemmas.
Local Open Scope Z_scope.

Section C01.
Context {X : Type}.
Local Notation os := (os X).

(* Send(data, size, T): at the libc boundary every send() is offered exactly the still-unsent remainder
   (acct), and the returned count is exactly the number of bytes the OS accepted — for every timeout mode *)
Theorem send_accounting : forall fd size T (s : os) r s',
  0 <= size -> sock_send fd size T s = (r, s') ->
  exists new, steps s s' new /\
    ((forall u, r <> Stuck u) -> acct size (sends_of fd new)) /\
    (forall n, r = Ok n -> n = accepted (sends_of fd new) /\ 0 <= n <= size).
Proof.
  intros fd size T s r s' Hs H. destruct (sock_send_spec _ _ _ _ _ _ H Hs) as [new [Hres _ _ _]].
  exists new. split; [apply Hres|]. split; [apply Hres|].
  intros n Hn. split; [now apply Hres|]. eapply send_result_bounds; eassumption.
Qed.

(* unlimited timeout: returns only after all bytes were accepted *)
Theorem send_unlimited_complete : forall fd size T (s : os) n s',
  0 <= size -> T < 0 -> sock_send fd size T s = (Ok n, s') -> n = size.
Proof.
  intros fd size T s n s' Hs HT H. destruct (sock_send_spec _ _ _ _ _ _ H Hs) as [new [_ Hneg _ _]].
  now apply (proj1 (Hneg HT)).
Qed.

(* when Send throws, what the OS accepted so far is still a prefix of the data (never more than offered) *)
Theorem send_prefix_on_failure : forall fd size T (s : os) e s',
  0 <= size -> sock_send fd size T s = (Exn e, s') ->
  exists new, steps s s' new /\ acct size (sends_of fd new) /\ 0 <= accepted (sends_of fd new) <= size.
Proof.
  intros fd size T s e s' Hs H. destruct (sock_send_spec _ _ _ _ _ _ H Hs) as [new [Hres _ _ _]].
  assert (Ha : acct size (sends_of fd new)) by (apply Hres; discriminate).
  exists new. split; [apply Hres|]. split; [assumption|]. now apply acct_bounds.
Qed.

(* from lengths to content: which bytes of the caller's buffer reached the wire *)
Section Content.
Context {A : Type}.
(* send() number i is handed the suffix of data of length len_i and the OS takes its first r_i elements *)
Fixpoint on_wire (data : list A) (l : list (Z * Z)) : list A :=
  match l with
  | [] => []
  | (len, r) :: t =>
      firstn (Z.to_nat (Z.max 0 r)) (skipn (length data - Z.to_nat len) data) ++ on_wire data t
  end.

Lemma on_wire_acct : forall l (data : list A) (done : nat),
  acct (Z.of_nat (length data - done)) l -> (done <= length data)%nat ->
  on_wire data l = firstn (Z.to_nat (accepted l)) (skipn done data).
Proof.
  induction l as [|[len r] t IH]; intros data done Ha Hd; cbn [on_wire accepted].
  - reflexivity.
  - cbn [acct] in Ha. destruct Ha as [-> [Hle [Hz Ha]]].
    replace (length data - Z.to_nat (Z.of_nat (length data - done)))%nat with done by lia.
    destruct (Z_le_gt_dec r 0) as [H0|H0].
    + rewrite (Hz H0). cbn. replace (Z.max 0 r) with 0 by lia. cbn. reflexivity.
    + replace (Z.max 0 r) with r in * by lia.
      assert (Hr : (Z.to_nat r <= length data - done)%nat) by lia.
      specialize (IH data (done + Z.to_nat r)%nat).
      rewrite IH.
      * pose proof (acct_bounds t _ Ha ltac:(lia)) as Hb.
        rewrite Z2Nat.inj_add by lia.
        rewrite <- (firstn_skipn (Z.to_nat r) (skipn done data)) at 2.
        rewrite firstn_app, firstn_length, skipn_length.
        replace (Nat.min (Z.to_nat r) (length data - done)) with (Z.to_nat r) by lia.
        replace (Z.to_nat r + Z.to_nat (accepted t) - Z.to_nat r)%nat with (Z.to_nat (accepted t)) by lia.
        rewrite firstn_firstn. replace (Nat.min (Z.to_nat r + Z.to_nat (accepted t)) (Z.to_nat r)) with (Z.to_nat r) by lia.
        f_equal. f_equal.
        (* skipn (done + r) = skipn r . skipn done *)
        clear. revert data. induction done as [|d IHd]; intros data; cbn; [reflexivity|].
        destruct data; [now rewrite !skipn_nil|]. apply IHd.
      * replace (Z.of_nat (length data - (done + Z.to_nat r))) with (Z.of_nat (length data - done) - r) by lia. exact Ha.
      * lia.
Qed.
End Content.

(* nothing lost, duplicated, reordered or invented: the bytes accepted by the OS during a Send call that
   returned n are exactly the first n bytes of the caller's data, in order *)
Theorem bytes_on_wire : forall {A} (data : list A) fd T (s : os) n s',
  sock_send fd (Z.of_nat (length data)) T s = (Ok n, s') ->
  exists new, steps s s' new /\ on_wire data (sends_of fd new) = firstn (Z.to_nat n) data.
Proof.
  intros A data fd T s n s' H.
  destruct (sock_send_spec _ _ _ _ _ _ H ltac:(lia)) as [new [Hres _ _ _]].
  exists new. split; [apply Hres|].
  assert (Ha : acct (Z.of_nat (length data)) (sends_of fd new)) by (apply Hres; discriminate).
  rewrite (on_wire_acct (sends_of fd new) data 0%nat).
  - cbn [skipn]. f_equal. f_equal. symmetry. now apply Hres.
  - now rewrite Nat.sub_0_r.
  - lia.
Qed.

(* Receive reports between 1 and the offered buffer size bytes, never 0 *)
Theorem recv_bounds : forall fd size T (s : os) n s',
  receive fd size T s = (Ok (Some n), s') -> 1 <= n <= size.
Proof.
  intros fd size T s n s' H.
  change (receive fd size T) with (wait_then fd POLLIN T (k <- receive_now (X:=X) fd size ;; ret (Some k)) None) in H.
  destruct (wait_then_ok _ _ _ _ _ _ _ _ (timeless_map _ _ (receive_now_timeless fd size)) H) as [new [_ Wcases _ _ _ _ _]].
  destruct Wcases as [[_ [[Hr _]|[[errno [Hr _]]|[w [Hr _]]]]]|[nw [no [s1 [_ [_ [_ [_ [_ Hnow]]]]]]]]]; try discriminate.
  apply bind_inv in Hnow. destruct Hnow as [[k [s2 [H1 H2]]]|[r0 [_ [_ Hr]]]]; [|exfalso; exact (recast_not_ok _ _ Hr)].
  inversion H2; subst k s2. destruct (receive_now_spec _ _ _ _ _ H1) as [ns [_ _ _ Sone]].
  destruct (Sone ltac:(discriminate)) as [ret_ [_ [_ Hb]]]. exact Hb.
Qed.

(* a recv() result of 0 (orderly close by the peer, after all data was delivered) is reported by throwing *)
Theorem recv_zero_is_closed : forall fd size (s : os) err sc r s',
  o_script s = EvRecv 0 err :: sc -> receive_now fd size s = (r, s') -> r = Exn ConnClosed.
Proof.
  intros fd size s err sc r s' Hs H. unfold receive_now, bind, sys_recv in H. rewrite Hs in H. cbn in H.
  inversion H. reflexivity.
Qed.

(* the kernel never reports "timed out" for an unlimited poll *)
Definition honest_inf (tr : list raw) : Prop :=
  forall e t r dt, In e tr -> poll_entry e = Some (t, r, dt) -> t < 0 -> r <> 0.

(* Receive returns "nothing" only with a limited timeout *)
Theorem recv_nothing_only_limited : forall fd size T (s : os) s',
  receive fd size T s = (Ok None, s') ->
  exists new, steps s s' new /\ (honest_inf new -> 0 <= T).
Proof.
  intros fd size T s s' H.
  change (receive fd size T) with (wait_then fd POLLIN T (k <- receive_now (X:=X) fd size ;; ret (Some k)) None) in H.
  destruct (wait_then_ok _ _ _ _ _ _ _ _ (timeless_map _ _ (receive_now_timeless fd size)) H) as [new [Wst Wcases Wneg _ _ _ _]].
  exists new. split; [assumption|]. intros Hh.
  destruct (Z_lt_ge_dec T 0) as [HT|HT]; [|lia]. exfalso.
  destruct Wcases as [[_ [[_ [_ [e [rest [t [dt [-> Hp]]]]]]]|[[errno [Hr _]]|[w [Hr _]]]]]|[nw [no [s1 [_ [_ [_ [_ [_ Hnow]]]]]]]]]; try discriminate.
  - assert (t = -1) by (apply (Wneg HT e t 0 dt); [now left|assumption]). subst t.
    apply (Hh e (-1) 0 dt); [now left|assumption|lia|reflexivity].
  - apply bind_inv in Hnow. destruct Hnow as [[k [s2 [_ H2]]]|[r0 [_ [Hn Hr]]]]; [inversion H2|].
    destruct r0; try discriminate.
Qed.

End C01.

(* non-vacuity: a concrete script with two short writes and a concrete receive *)
Example c01_nonvacuous :
  let s := os_init tt [EvPoll 1 0 0 [4]; EvSend 4 0; EvPoll 1 0 7 [4]; EvSend 6 0] [] in
  fst (sock_send 1000 10 (-1) s) = Ok 10 /\
  sends_of 1000 (o_trace (snd (sock_send 1000 10 (-1) s))) = [(10, 4); (6, 6)] /\
  on_wire [1;2;3;4;5;6;7;8;9;10] [(10, 4); (6, 6)] = [1;2;3;4;5;6;7;8;9;10].
Proof. vm_compute. repeat split; reflexivity. Qed.

Print Assumptions send_accounting.
Print Assumptions send_unlimited_complete.
Print Assumptions send_prefix_on_failure.
Print Assumptions bytes_on_wire.
Print Assumptions recv_bounds.
Print Assumptions recv_zero_is_closed.
Print Assumptions recv_nothing_only_limited.
