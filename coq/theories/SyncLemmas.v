(* SyncLemmas.v — inductive invariant of the hand-over protocol for ANY number of management calls and Stop() calls,
   and what follows from it: mutual exclusion, no lost wake-up / no deadlock, bounded yield, Stop is never lost. *)
From SP Require Import SyncModel.

Definition cnt {A} (f : A -> bool) (l : list A) := length (filter f l).
Definition b2n (b : bool) := if b then 1 else 0.

Definition is_ws (u : upc) := match u with Uws => true | _ => false end.
Definition is_hpws (u : upc) := match u with Uhp | Uws => true | _ => false end.
Definition is_s1 (x : spc) := match x with S1 => true | _ => false end.
Definition d_past_poll (x : dpc) := match x with D2 | D3 | D4 | Dchk | Dend => true | _ => false end.

Definition Inv (s : st) : Prop :=
  b2n (d_holds_step (d s)) + cnt u_holds_step (us s) <= 1 /\
  b2n (d_holds_pause (d s)) + cnt u_holds_pause (us s) <= 1 /\
  (* a call that has sent its wake-up and waits for stepMtx: the wake-up is not lost *)
  (cnt is_ws (us s) >= 1 -> pipe s >= 1 \/ d s = D2 \/ d s = D3) /\
  (* while a call holds pauseMtx the driver completes at most one more step and then parks before pauseMtx *)
  (cnt is_hpws (us s) >= 1 -> since s = 0 \/ (since s = 1 /\ d s = D3)) /\
  (* a Stop() whose flag is set: its wake-up is still to come, or in the pipe, or the driver is already on its way to the check *)
  (flag s = true -> cnt is_s1 (ss s) >= 1 \/ pipe s >= 1 \/ d_past_poll (d s) = true).

Lemma cnt_upd {A} (f : A -> bool) l i y x : nth_error l i = Some y ->
  cnt f (upd l i x) + b2n (f y) = cnt f l + b2n (f x).
Proof.
  revert i; induction l as [|h t IH]; intros [|j] H; simpl in *; try discriminate.
  - inversion H; subst. unfold cnt; simpl. destruct (f x), (f y); simpl; lia.
  - specialize (IH j H). unfold cnt in *; simpl. destruct (f h); simpl; lia.
Qed.

Lemma free_cnt {A} (f : A -> bool) l : forallb (fun u => negb (f u)) l = true <-> cnt f l = 0.
Proof.
  unfold cnt; induction l as [|h t IH]; simpl; [tauto|].
  destruct (f h); simpl; [split; [discriminate|lia] | exact IH].
Qed.

Lemma cnt_repeat {A} (f : A -> bool) x n : f x = false -> cnt f (repeat x n) = 0.
Proof. intros H; unfold cnt; induction n; simpl; [reflexivity|]. rewrite H; exact IHn. Qed.

Lemma inv_init n m : Inv (init n m).
Proof.
  unfold Inv, init; simpl. rewrite !cnt_repeat by reflexivity. repeat split; try lia; intros; try discriminate.
Qed.

Lemma le_ws_pause l : cnt is_ws l <= cnt u_holds_pause l.
Proof. unfold cnt. induction l as [|h t IH]; simpl; [lia|]. destruct h; simpl; lia. Qed.
Lemma le_hpws_pause l : cnt is_hpws l <= cnt u_holds_pause l.
Proof. unfold cnt. induction l as [|h t IH]; simpl; [lia|]. destruct h; simpl; lia. Qed.

Ltac cu H :=
  repeat match goal with
  | |- context [cnt ?f (upd ?l ?i ?x)] =>
      let E := fresh "E" in pose proof (cnt_upd f l i _ x H) as E; simpl in E;
      generalize dependent (cnt f (upd l i x)); intros
  end.

Ltac fin :=
  repeat split; try lia; intros; try discriminate;
  repeat match goal with
  | H : ?P -> _ \/ _ |- _ => first [ (let X := fresh in assert (X : P) by (first [lia|reflexivity|assumption]); specialize (H X); clear X) | clear H ]
  end; intuition (try lia; try congruence; try discriminate).

Lemma inv_step ev rr s t s' : Inv s -> step ev rr s t = Some s' -> Inv s'.
Proof.
  intros (I1 & I2 & I3 & I4 & I5) Hs. destruct s as [dd uu sl pp fl sn]; simpl in *.
  pose proof (le_ws_pause uu) as L1. pose proof (le_hpws_pause uu) as L2.
  destruct t as [|i|i]; simpl in Hs.
  - destruct dd; simpl in *.
    + destruct rr; inversion Hs; subst; clear Hs. unfold Inv; simpl. fin.
    + destruct fl; inversion Hs; subst; clear Hs; unfold Inv; simpl; fin.
    + destruct (step_free _) eqn:F; inversion Hs; subst; clear Hs. unfold step_free in F; simpl in F. apply free_cnt in F.
      unfold Inv; simpl. fin.
    + destruct ev; [|destruct pp as [|p]]; inversion Hs; subst; clear Hs; unfold Inv; simpl; fin.
    + inversion Hs; subst; clear Hs. unfold Inv; simpl. fin.
    + destruct (pause_free _) eqn:F; inversion Hs; subst; clear Hs. unfold pause_free in F; simpl in F.
      apply free_cnt in F. unfold Inv; simpl. fin.
    + inversion Hs; subst; clear Hs. unfold Inv; simpl. fin.
  - destruct (nth_error uu i) as [y|] eqn:N; [|discriminate].
    destruct y.
    + destruct (step_free _) eqn:F; inversion Hs; subst; clear Hs; unfold Inv; simpl.
      * unfold step_free in F; simpl in F. apply andb_prop in F as [Fd F]. apply free_cnt in F.
        cu N. destruct dd; simpl in *; try discriminate; fin.
      * cu N. fin.
    + destruct (pause_free _) eqn:F; inversion Hs; subst; clear Hs; unfold Inv; simpl.
      unfold pause_free in F; simpl in F. apply andb_prop in F as [Fd F]. apply free_cnt in F.
      cu N. destruct dd; simpl in *; try discriminate; fin.
    + inversion Hs; subst; clear Hs; unfold Inv; simpl. cu N. fin.
    + destruct (step_free _) eqn:F; inversion Hs; subst; clear Hs; unfold Inv; simpl.
      unfold step_free in F; simpl in F. apply andb_prop in F as [Fd F]. apply free_cnt in F.
      pose proof (le_ws_pause (upd uu i Uhs)) as M1. pose proof (le_hpws_pause (upd uu i Uhs)) as M2.
      revert M1 M2. cu N. intros. destruct dd; simpl in *; try discriminate; fin.
    + inversion Hs; subst; clear Hs; unfold Inv; simpl.
      pose proof (le_ws_pause (upd uu i Ucrit)) as M1. pose proof (le_hpws_pause (upd uu i Ucrit)) as M2.
      revert M1 M2. cu N. intros. fin.
    + inversion Hs; subst; clear Hs; unfold Inv; simpl. cu N. fin.
    + discriminate.
  - destruct (nth_error sl i) as [y|] eqn:N; [|discriminate].
    destruct y; inversion Hs; subst; clear Hs; unfold Inv; simpl.
    + cu N. fin.
    + cu N. fin.
Qed.

Theorem inv_reach n m s : reach n m s -> Inv s.
Proof. induction 1; [apply inv_init | eapply inv_step; eauto]. Qed.

Lemma cnt_pos_ex {A} (f : A -> bool) l : cnt f l >= 1 -> exists i y, nth_error l i = Some y /\ f y = true.
Proof.
  unfold cnt. induction l as [|h t IH]; simpl; [lia|]. destruct (f h) eqn:E.
  - intros _. exists 0, h. auto.
  - intros H. destruct (IH H) as (i & y & ? & ?). exists (S i), y. auto.
Qed.

Definition busy (u : upc) := match u with U0 | Uhp | Uhs | Ucrit => true | _ => false end.
Definition is_wp (u : upc) := match u with Uwp => true | _ => false end.
Definition unfinished (u : upc) := match u with Udone => false | _ => true end.

Lemma quiet_counts l : cnt busy l = 0 ->
  cnt u_holds_step l = 0 /\ cnt u_holds_pause l = cnt is_ws l /\ cnt unfinished l = cnt is_ws l + cnt is_wp l.
Proof.
  unfold cnt. induction l as [|h t IH]; simpl; [lia|]. destruct h; simpl; intros H; try lia;
  destruct (IH ltac:(lia)) as (? & ? & ?); lia.
Qed.

(* no deadlock, no lost wake-up: while some management call is unfinished, the driver or a call can move —
   without any socket event, and whether Run() is in progress or not *)
Theorem no_deadlock n m s : reach n m s -> cnt unfinished (us s) >= 1 ->
  exists t s', (t = Drv \/ exists i, t = Usr i) /\ step false false s t = Some s'.
Proof.
  intros R U. pose proof (inv_reach _ _ _ R) as (I1 & I2 & I3 & I4 & I5).
  destruct s as [dd uu sl pp fl sn]; simpl in *.
  destruct (Nat.eq_dec (cnt busy uu) 0) as [B|B].
  2:{ destruct (cnt_pos_ex busy uu ltac:(lia)) as (i & y & N & Y). exists (Usr i). simpl. rewrite N.
      destruct y; try discriminate; try (destruct (step_free _)); eexists; (split; [right; eauto|reflexivity]). }
  destruct (quiet_counts _ B) as (Q1 & Q2 & Q3).
  assert (SF : forall d0, d_holds_step d0 = false ->
             step_free {| d := d0; us := uu; ss := sl; pipe := pp; flag := fl; since := sn |} = true).
  { intros d0 H. unfold step_free; simpl. rewrite H. simpl. apply free_cnt. exact Q1. }
  assert (PF : forall d0, d_holds_pause d0 = false -> cnt is_ws uu = 0 ->
             pause_free {| d := d0; us := uu; ss := sl; pipe := pp; flag := fl; since := sn |} = true).
  { intros d0 H W. unfold pause_free; simpl. rewrite H. simpl. apply free_cnt. lia. }
  destruct (Nat.eq_dec (cnt is_ws uu) 0) as [W|W].
  - (* nobody has sent its wake-up yet: some call waits for pauseMtx *)
    destruct (cnt_pos_ex is_wp uu ltac:(lia)) as (i & y & N & Y). destruct y; try discriminate.
    destruct dd.
    + exists (Usr i). simpl. rewrite N, (PF Dend eq_refl W). eexists; split; [right; eauto|reflexivity].
    + exists Drv. simpl. destruct fl; eexists; split; eauto.
    + exists Drv. simpl. rewrite (SF D0 eq_refl). eexists; split; eauto.
    + exists (Usr i). simpl. rewrite N, (PF D1 eq_refl W). eexists; split; [right; eauto|reflexivity].
    + exists Drv. simpl. eexists; split; eauto.
    + exists Drv. simpl. rewrite (PF D3 eq_refl W). eexists; split; eauto.
    + exists Drv. simpl. eexists; split; eauto.
  - destruct (cnt_pos_ex is_ws uu ltac:(lia)) as (i & y & N & Y). destruct y; try discriminate.
    destruct dd.
    + exists (Usr i). simpl. rewrite N, (SF Dend eq_refl). eexists; split; [right; eauto|reflexivity].
    + exists Drv. simpl. destruct fl; eexists; split; eauto.
    + exists Drv. simpl. rewrite (SF D0 eq_refl). eexists; split; eauto.
    + (* the driver owns stepMtx and sits in poll: the wake-up cannot have been lost *)
      destruct (I3 ltac:(lia)) as [P|[P|P]]; try discriminate.
      exists Drv. simpl. destruct pp; [lia|]. eexists; split; eauto.
    + exists Drv. simpl. eexists; split; eauto.
    + exists (Usr i). simpl. rewrite N, (SF D3 eq_refl). eexists; split; [right; eauto|reflexivity].
    + exists Drv. simpl. eexists; split; eauto.
Qed.

(* bounded yield: while a call holds pauseMtx the driver finishes at most one more step *)
Theorem bounded_yield n m s : reach n m s -> cnt is_hpws (us s) >= 1 -> since s <= 1.
Proof. intros R H. destruct (inv_reach _ _ _ R) as (_ & _ & _ & I4 & _). destruct (I4 H) as [?|[? _]]; lia. Qed.

Theorem mutual_exclusion n m s : reach n m s ->
  b2n (d_holds_step (d s)) + cnt u_holds_step (us s) <= 1.
Proof. intros R. apply (inv_reach _ _ _ R). Qed.

(* Stop is never lost: once a Stop() has returned (flag set, wake-up sent) the driver cannot block in poll —
   the poll is enabled by the pipe alone, so the step in progress ends and the loop condition sees the flag *)
Theorem stop_wakes_poll n m s : reach n m s -> flag s = true -> cnt is_s1 (ss s) = 0 -> d s = D1 ->
  exists s', step false false s Drv = Some s'.
Proof.
  intros R F C D. destruct (inv_reach _ _ _ R) as (_ & _ & _ & _ & I5).
  destruct (I5 F) as [H|[H|H]]; [lia| |rewrite D in H; discriminate].
  destruct s as [dd uu sl pp fl sn]; simpl in *. subst dd. destruct pp; [lia|]. eauto.
Qed.

(* Run() returns exactly by consuming a stop request: never without one, and at once if one is pending on entry *)
Theorem run_returns_iff_flag ev rr s s' : d s = Dchk -> step ev rr s Drv = Some s' ->
  (flag s = true -> d s' = Dend /\ flag s' = false) /\ (flag s = false -> d s' = D0 /\ flag s' = false).
Proof.
  intros D H. destruct s as [dd uu sl pp fl sn]; simpl in *. subst dd. simpl in H.
  destruct fl; inversion H; subst; simpl; split; intros; try discriminate; auto.
Qed.

Theorem run_ends_only_from_check ev rr s s' : step ev rr s Drv = Some s' -> d s' = Dend -> d s = Dchk /\ flag s = true.
Proof.
  destruct s as [dd uu sl pp fl sn]; simpl. destruct dd; simpl; intros H E.
  - destruct rr; inversion H; subst; discriminate.
  - destruct fl; inversion H; subst; [auto|discriminate].
  - destruct (step_free _); inversion H; subst; discriminate.
  - destruct ev; [|destruct pp]; inversion H; subst; discriminate.
  - inversion H; subst; discriminate.
  - destruct (pause_free _); inversion H; subst; discriminate.
  - inversion H; subst; discriminate.
Qed.
