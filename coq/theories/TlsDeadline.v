(* TlsDeadline.v — the lower half of C07 for the waits of the TLS glue (finding F15): when HandleError's wait under a limited
   budget says "not yet", the operation's deadline (fixed by SetTimeout) is at most two milliseconds away — one for the
   truncation of the remaining time to milliseconds, one for poll's own granularity — however many steps came before. *)
From SP Require Import Base ListAux Os OsLemmas WaitModel WaitLemmas SocketModel Objects DriverModel TlsModel TlsLemmas TlsInterest TlsBudget TlsComplete.
Local Open Scope Z_scope.
Local Notation os := (os ext).

(* the budget invariant: the remaining time is what was left until the operation's deadline at some earlier clock reading *)
Definition budget_ok (s : os) (t : tlsst) : Prop :=
  exists now_r, now_r <= o_now s /\ t_rem t = dl_remaining {| d_now := now_r; d_deadline := t_end t |}.

Lemma sys_now_time (s : os) r s' : sys_now s = (r, s') -> calm (o_script s) -> o_now s <= o_now s' /\ calm (o_script s').
Proof.
  intros H Hc. apply sys_now_inv in H. destruct H as [[dt [sc [Hs [_ ->]]]]|[_ ->]]; [|split; [lia|exact Hc]].
  unfold calm in *. rewrite Hs in Hc. inversion Hc as [|e l He Hl]; subst. cbn in He. cbn. split; [lia|exact Hl].
Qed.

Lemma remaining_lower now dl_ : dl_remaining {| d_now := now; d_deadline := dl_ |} * NS_PER_MS > dl_ - now - NS_PER_MS.
Proof.
  destruct (dl_remaining_spec {| d_now := now; d_deadline := dl_ |}) as [H1 H2]. cbn in *.
  destruct (Z_le_gt_dec now dl_) as [Hle|Hgt].
  - specialize (H1 Hle). lia.
  - rewrite H2 by lia. unfold NS_PER_MS. lia.
Qed.

Theorem budgeted_wait_gives_up_near_the_deadline : forall k fd ev (s : os) t s',
  aget k (x_tls (o_ext s)) = Some t -> budget_ok s t -> t_rem t <= INT_MAX ->
  calm (o_script s) ->
  under_deadline k (fun tm => wait_fd fd ev tm) s = (Ok false, s') ->
  exists new, extends s s' new /\ (honest_lo new -> t_end t - 2 * NS_PER_MS < o_now s').
Proof.
  intros k fd ev s t s' Ht [now_r [Hnr Hrem]] Hmax Hc H. unfold under_deadline in H.
  apply bind_inv in H. destruct H as [[t0 [s1 [Hg H]]]|[r0 [_ [_ Hx]]]]; [|exfalso; exact (recast_not_ok _ _ Hx)].
  destruct (get_tls_ok _ _ _ _ Hg) as [-> Ht0]. rewrite Ht in Ht0. inversion Ht0; subst t0.
  pose proof (remaining_lower now_r (t_end t)) as Hlow. rewrite <- Hrem in Hlow.
  destruct (t_rem t <=? 0) eqn:E.
  - (* nothing left (or unlimited: then the wait cannot say "not yet" honestly, but we need no honesty here) *)
    apply Z.leb_le in E.
    destruct (wait_fd_spec _ _ _ _ _ _ H) as [new W]. exists new. split; [apply W|]. intros _.
    pose proof (wf_mono _ _ _ _ _ _ W Hc) as Hm. unfold NS_PER_MS in *. lia.
  - apply Z.leb_gt in E.
    apply bind_inv in H. destruct H as [[d [s2 [Hd H]]]|[r0 [_ [_ Hx]]]]; [|exfalso; exact (recast_not_ok _ _ Hx)].
    apply bind_inv in H. destruct H as [[r [s3 [Hw H]]]|[r0 [_ [_ Hx]]]]; [|exfalso; exact (recast_not_ok _ _ Hx)].
    apply bind_inv in H. destruct H as [[d' [s4 [Hk H]]]|[r0 [_ [_ Hx]]]]; [|exfalso; exact (recast_not_ok _ _ Hx)].
    apply bind_inv in H. destruct H as [[[] [s5 [Hu H]]]|[r0 [_ [_ Hx]]]]; [|exfalso; exact (recast_not_ok _ _ Hx)].
    inversion H; subst r s5. clear H.
    (* clock readings: monotone under a calm script *)
    unfold dl_new in Hd. apply bind_inv in Hd. destruct Hd as [[n2 [s2' [Hn2 Hd]]]|[r0 [_ [_ Hx]]]]; [|exfalso; exact (recast_not_ok _ _ Hx)].
    inversion Hd; subst d s2'. clear Hd.
    destruct (sys_now_time _ _ _ Hn2 Hc) as [M2 C2].
    destruct (waits_sys_now _ _ _ Hn2) as [e2 [X2 _]].
    destruct (wait_fd_spec _ _ _ _ _ _ Hw) as [nw W].
    pose proof (wf_steps _ _ _ _ _ _ W) as [X3 _ Sf3].
    assert (C3 : calm (o_script s3)) by (eapply steps_calm; [apply W|exact C2]).
    unfold dl_tick in Hk. apply bind_inv in Hk. destruct Hk as [[n4 [s4' [Hn4 Hk]]]|[r0 [_ [_ Hx]]]]; [|exfalso; exact (recast_not_ok _ _ Hx)].
    inversion Hk; subst d' s4'. clear Hk.
    destruct (sys_now_time _ _ _ Hn4 C3) as [M4 _].
    destruct (waits_sys_now _ _ _ Hn4) as [e4 [X4 _]].
    assert (X5 : extends s4 s' []).
    { unfold extends. cbn. unfold upd_tls, bind, get_tls, bind, get_ext, put_tls, bind, get_ext, put_ext in Hu.
      destruct (aget k (x_tls (o_ext s4))); inversion Hu; reflexivity. }
    assert (N5 : o_now s' = o_now s4).
    { unfold upd_tls, bind, get_tls, bind, get_ext, put_tls, bind, get_ext, put_ext in Hu.
      destruct (aget k (x_tls (o_ext s4))); inversion Hu; reflexivity. }
    exists ([] ++ e4 ++ nw ++ e2). split.
    { eapply extends_trans; [|exact X5]. eapply extends_trans; [|exact X4]. eapply extends_trans; [exact X2|exact X3]. }
    intros Hh. cbn [app] in Hh. apply honest_lo_app in Hh. destruct Hh as [_ Hh]. apply honest_lo_app in Hh. destruct Hh as [Hhw _].
    assert (Hpos : 0 < t_rem t <= INT_MAX) by lia.
    pose proof (wf_lower _ _ _ _ _ _ W Hpos C2 Hhw false eq_refl eq_refl) as Hl.
    rewrite N5. unfold NS_PER_MS in *. lia.
Qed.

(* SetTimeout establishes the invariant ... *)
Lemma quot_mul a : 0 <= a -> Z.quot (a * NS_PER_MS) NS_PER_MS = a.
Proof. intros H. rewrite Z.quot_mul; [reflexivity|unfold NS_PER_MS; lia]. Qed.

Theorem set_timeout_fixes_the_deadline : forall k T (s : os) s',
  0 < T -> tls_set_timeout k T s = (Ok tt, s') ->
  exists t', aget k (x_tls (o_ext s')) = Some t' /\ t_rem t' = T /\ budget_ok s' t'.
Proof.
  intros k T s s' HT H. unfold tls_set_timeout in H.
  apply bind_inv in H. destruct H as [[[] [s1 [H1 H]]]|[r0 [_ [_ Hx]]]]; [|exfalso; exact (recast_not_ok _ _ Hx)].
  assert (E : (0 <? T) = true) by (apply Z.ltb_lt; exact HT). rewrite E in H.
  apply bind_inv in H. destruct H as [[now [s2 [Hn H]]]|[r0 [_ [_ Hx]]]]; [|exfalso; exact (recast_not_ok _ _ Hx)].
  destruct (TlsBudget.upd_tls_ok _ _ _ _ H1) as [t0 [_ Ht1]].
  apply sys_now_inv in Hn. destruct Hn as [[dt [sc [Hs [Hr ->]]]]|[Hr _]]; [|discriminate].
  inversion Hr; subst now.
  destruct (TlsBudget.upd_tls_ok _ _ _ _ H) as [t2 [Ht2 Ht']]. cbn in Ht2. rewrite Ht1 in Ht2. inversion Ht2; subst t2.
  eexists. split; [exact Ht'|]. cbn. split; [reflexivity|].
  exists (o_now s1 + dt). split.
  - unfold upd_tls, bind, get_tls, bind, get_ext, put_tls, bind, get_ext, put_ext in H. cbn in H.
    destruct (aget k (x_tls (o_ext s1))); inversion H; subst; cbn; lia.
  - cbn. unfold dl_remaining. cbn.
    replace (o_now s1 + dt + T * NS_PER_MS - (o_now s1 + dt)) with (T * NS_PER_MS) by lia.
    rewrite quot_mul by lia. destruct (T <? 0) eqn:E0; [apply Z.ltb_lt in E0; lia|reflexivity].
Qed.

(* ... and every budgeted step that leaves the TLS table alone re-establishes it *)
Theorem budgeted_step_keeps_the_invariant : forall A k (fn : Z -> MX A) (s : os) t r s',
  (forall tm (s0 : os) r0 s0', fn tm s0 = (r0, s0') -> o_ext s0' = o_ext s0) ->
  aget k (x_tls (o_ext s)) = Some t -> 0 < t_rem t ->
  under_deadline k fn s = (Ok r, s') ->
  exists t', aget k (x_tls (o_ext s')) = Some t' /\ t_end t' = t_end t /\ budget_ok s' t'.
Proof.
  intros A k fn s t r s' Hfr Ht Hrem H. unfold under_deadline in H.
  apply bind_inv in H. destruct H as [[t0 [s1 [Hg H]]]|[r0 [_ [_ Hx]]]]; [|exfalso; exact (recast_not_ok _ _ Hx)].
  destruct (get_tls_ok _ _ _ _ Hg) as [-> Ht0]. rewrite Ht in Ht0. inversion Ht0; subst t0.
  assert (E : (t_rem t <=? 0) = false) by (apply Z.leb_gt; exact Hrem). rewrite E in H.
  apply bind_inv in H. destruct H as [[d [s2 [Hd H]]]|[r0 [_ [_ Hx]]]]; [|exfalso; exact (recast_not_ok _ _ Hx)].
  apply bind_inv in H. destruct H as [[r1 [s3 [Hf H]]]|[r0 [_ [_ Hx]]]]; [|exfalso; exact (recast_not_ok _ _ Hx)].
  apply bind_inv in H. destruct H as [[d' [s4 [Hk H]]]|[r0 [_ [_ Hx]]]]; [|exfalso; exact (recast_not_ok _ _ Hx)].
  apply bind_inv in H. destruct H as [[[] [s5 [Hu H]]]|[r0 [_ [_ Hx]]]]; [|exfalso; exact (recast_not_ok _ _ Hx)].
  inversion H; subst r1 s5. clear H.
  assert (E2 : o_ext s2 = o_ext s).
  { unfold dl_new in Hd. apply bind_inv in Hd. destruct Hd as [[n [s2' [Hn Hd]]]|[r0 [_ [_ Hx]]]]; [|exfalso; exact (recast_not_ok _ _ Hx)].
    inversion Hd; subst. exact (sys_now_ext _ _ _ Hn). }
  pose proof (Hfr _ _ _ _ Hf) as E3.
  unfold dl_tick in Hk. apply bind_inv in Hk. destruct Hk as [[n4 [s4' [Hn4 Hk]]]|[r0 [_ [_ Hx]]]]; [|exfalso; exact (recast_not_ok _ _ Hx)].
  inversion Hk; subst d' s4'. clear Hk.
  pose proof (sys_now_ext _ _ _ Hn4) as E4.
  assert (Ht4 : aget k (x_tls (o_ext s4)) = Some t) by (rewrite E4, E3, E2; exact Ht).
  destruct (TlsBudget.upd_tls_ok _ _ _ _ Hu) as [t4 [Ht4' Ht']]. rewrite Ht4 in Ht4'. inversion Ht4'; subst t4.
  eexists. split; [exact Ht'|]. cbn. split; [reflexivity|].
  exists n4. split.
  - apply sys_now_inv in Hn4. destruct Hn4 as [[dt [sc [_ [Hr ->]]]]|[Hr _]]; [|discriminate]. inversion Hr; subst n4.
    unfold upd_tls, bind, get_tls, bind, get_ext, put_tls, bind, get_ext, put_ext in Hu. cbn in Hu.
    destruct (aget k (x_tls (o_ext s3))) eqn:Ea; inversion Hu; subst; cbn; lia.
  - reflexivity.
Qed.
