(* DriverModel.v — src/driver_impl.cpp, src/socket_async_impl.cpp, src/socket_async.cpp (single-threaded semantics):
   Step / Run / Stop, ToDo scheduling, registration of asynchronous sockets, the driver-side receive, accept,
   send and disconnect paths. User call-backs (tasks, handlers) are blocks of operations run by `run_block`. *)
From SP Require Export Objects.
Local Open Scope Z_scope.

Section Driver.
Variable run_block : Z -> MX unit.      (* executes the operations of a block (a user task / handler) *)

(* ---- construction / destruction ------------------------------------------------------------------ *)
(* DriverImpl::DriverImpl(): two UDP sockets (pipeFrom, pipeTo), bind pipeTo, getsockname, bind pipeFrom *)
Definition driver_new : MX unit :=
  a <- socket_new ;;
  b <- catch socket_new (fun e => sys_close a ;;; throw e) ;;
  catch (check_setup S_BIND b ;;; check_setup S_GETSOCKNAME b ;;; check_setup S_BIND a)
        (fun e => sys_close b ;;; sys_close a ;;; throw e) ;;;
  put_driver {| d_alive := true; d_from := a; d_to := b; d_todos := []; d_socks := []; d_pfds := [(b, POLLIN)];
                d_stop := false |}.

(* the symbolic address of the signalling pipe's receiving end (see harness/vos.h: ports) *)
Definition pipe_dst (d : driver) : Z := d_to d - 11000.

(* Bump: pipeFrom.SendTo(&one, 1, pipeToAddr, noTimeout) *)
Definition bump : MX unit :=
  d <- get_driver ;; _ <- sock_sendto (d_from d) 1 (pipe_dst d) (-1) ;; ret tt.

(* Unbump: pipeTo.ReceiveFrom(dump, 256) *)
Definition unbump : MX unit :=
  d <- get_driver ;; _ <- recvfrom_now (d_to d) 256 ;; ret tt.

(* ---- registration ---------------------------------------------------------------------------------- *)
Fixpoint remove_first_fd (fd : Z) (l : list (Z * Z)) : list (Z * Z) :=
  match l with [] => [] | (f, e) :: t => if f =? fd then t else (f, e) :: remove_first_fd fd t end.

Fixpoint remove_first_key (k : Z) (l : list Z) : list Z :=
  match l with [] => [] | h :: t => if h =? k then t else h :: remove_first_key k t end.

Fixpoint arm_fd (fd bit : Z) (l : list (Z * Z)) : list (Z * Z) :=
  match l with [] => [] | (f, e) :: t => if f =? fd then (f, Z.lor e bit) :: t else (f, e) :: arm_fd fd bit t end.

Fixpoint disarm_at (i : nat) (bit : Z) (l : list (Z * Z)) : list (Z * Z) :=
  match l, i with
  | [], _ => []
  | (f, e) :: t, O => (f, Z.land e (Z.lnot bit)) :: t
  | h :: t, S j => h :: disarm_at j bit t
  end.

(* AsyncRegister *)
Definition async_register (k fd : Z) : MX unit :=
  upd_driver (fun d => d <| d_socks := d_socks d ++ [k] |> <| d_pfds := d_pfds d ++ [(fd, POLLIN)] |>).

(* AsyncUnregister(fd): by descriptor, tolerant of entries already removed; no-op when the driver is gone *)
Definition async_unregister (k fd : Z) : MX unit :=
  d <- get_driver ;;
  if d_alive d then put_driver (d <| d_socks := remove_first_key k (d_socks d) |> <| d_pfds := remove_first_fd fd (d_pfds d) |>)
  else ret tt.

(* AsyncWantSend(fd): arm POLLOUT if the descriptor is still listed *)
Definition async_want_send (fd : Z) : MX unit :=
  d <- get_driver ;;
  if d_alive d then put_driver (d <| d_pfds := arm_fd fd POLLOUT (d_pfds d) |>) else ret tt.

(* ---- futures ------------------------------------------------------------------------------------------ *)
Definition new_future : MX Z :=
  x <- get_ext ;;
  let f := x_nfut x in
  put_ext (x <| x_nfut := f + 1 |> <| x_futs := x_futs x ++ [(f, {| f_state := 0; f_code := []; f_reported := 0 |})] |>) ;;;
  ret f.

Definition resolve (f state : Z) (code : list Z) : MX unit :=
  x <- get_ext ;;
  match aget f (x_futs x) with
  | Some ft => if f_state ft =? 0
               then put_ext (x <| x_futs := aset f (ft <| f_state := state |> <| f_code := code |>) (x_futs x) |>)
               else stuck 20          (* promise already satisfied: std::future_error thrown inside the driver *)
  | None => bad 110
  end.

(* ---- ToDos ---------------------------------------------------------------------------------------------- *)
Definition get_todo (id : Z) : MX todo_obj :=
  x <- get_ext ;; match aget id (x_todos x) with Some t => ret t | None => bad 120 end.

Definition put_todo (id : Z) (t : todo_obj) : MX unit :=
  x <- get_ext ;; put_ext (x <| x_todos := aset id t (x_todos x) |>).

Definition todo_list_insert (id when : Z) : MX unit :=
  d <- get_driver ;;
  if d_alive d then put_driver (d <| d_todos := todo_insert id when (d_todos d) |>) else ret tt.

(* ToDo(driver, task) / ToDo(driver, task, when) / ToDo(driver, task, delay) *)
Definition todo_new (id kind value block : Z) : MX unit :=
  if kind =? 0 then put_todo id {| to_when := 0; to_block := block; to_handle := true |}
  else
    when <- (if kind =? 1 then ret value else now <- sys_now ;; ret (now + value * NS_PER_MS)) ;;
    put_todo id {| to_when := when; to_block := block; to_handle := true |} ;;;
    todo_list_insert id when.

(* ToDo::Shift(when) / Shift(delay): Move = Remove + set when + Insert (only if the driver still exists) *)
Definition todo_shift (id kind value : Z) : MX unit :=
  t <- get_todo id ;;
  when <- (if kind =? 1 then ret value else now <- sys_now ;; ret (now + value * NS_PER_MS)) ;;
  d <- get_driver ;;
  if d_alive d then
    put_todo id (t <| to_when := when |>) ;;;
    put_driver (d <| d_todos := todo_move id when (d_todos d) |>)
  else ret tt.

(* ToDo::Cancel *)
Definition todo_cancel (id : Z) : MX unit :=
  d <- get_driver ;;
  if d_alive d then put_driver (d <| d_todos := todo_remove id (d_todos d) |>) else ret tt.

(* ---- deadlines of Step (wait.h) ------------------------------------------------------------------------ *)
Inductive sdl := SUnlimited (now : Z) | SZero (now : Z) | SLimited (d : dl).

Definition sdl_now (x : sdl) : Z := match x with SUnlimited n | SZero n => n | SLimited d => d_now d end.
Definition sdl_remaining (x : sdl) : Z := match x with SUnlimited _ => -1 | SZero _ => 0 | SLimited d => dl_remaining d end.
Definition sdl_time_left (x : sdl) : bool := match x with SUnlimited _ => true | SZero _ => false | SLimited d => dl_time_left d end.
Definition sdl_tick (x : sdl) : MX sdl :=
  now <- sys_now ;;
  ret (match x with SUnlimited _ => SUnlimited now | SZero _ => SZero now
               | SLimited d => SLimited {| d_now := now; d_deadline := d_deadline d |} end).
Definition sdl_new (timeout : Z) : MX sdl :=
  now <- sys_now ;;
  ret (if timeout <? 0 then SUnlimited now else if timeout =? 0 then SZero now
       else SLimited {| d_now := now; d_deadline := now + timeout * NS_PER_MS |}).

(* MinDuration(until (ns), remaining (ms)) *)
Definition min_duration (until_ns remaining_ms : Z) : Z :=
  let u := Z.quot until_ns NS_PER_MS in
  if remaining_ms <? 0 then u else Z.min u remaining_ms.

(* the task of ToDo id runs: trace entry, then its block *)
Definition run_task (id : Z) : MX unit :=
  t <- get_todo id ;;
  emit K_HANDLER [5; id] ;;;
  run_block (to_block t).

(* StepTodos(deadline) *)
Fixpoint step_todos (fuel : nat) (dl0 : sdl) : MX Z :=
  match fuel with
  | O => bad 40
  | S k =>
      d <- get_driver ;;
      match d_todos d with
      | [] => stuck 30                         (* todos.front() of an empty deque *)
      | (id, when) :: rest =>
          let until := when - sdl_now dl0 in
          if 0 <? until then ret (min_duration until (sdl_remaining dl0)) else
          put_driver (d <| d_todos := rest |>) ;;;          (* pop before calling: the task may edit the list *)
          run_task id ;;;
          dl1 <- sdl_tick dl0 ;;
          d' <- get_driver ;;
          match d_todos d' with
          | [] => ret (sdl_remaining dl1)
          | _ => if sdl_time_left dl1 then step_todos k dl1 else ret 0
          end
      end
  end.

(* ---- driver-side socket paths ---------------------------------------------------------------------------- *)
(* run a handler that is handed a buffer: unless the handler keeps it (HOLD), the buffer goes back to its pool
   when the handler returns or throws *)
Definition with_arg (owner id : Z) (body : MX unit) : MX unit :=
  x <- get_ext ;; put_ext (x <| x_arg := Some (owner, id) |>) ;;;
  finally body
    (x' <- get_ext ;;
     match x_arg x' with
     | Some (o, i) => put_ext (x' <| x_arg := None |>) ;;; precycle o i
     | None => ret tt
     end).

(* DriverDisconnect: unregister first, then the user's handler with the cached peer address *)
Definition driver_disconnect (k : Z) : MX unit :=
  s <- get_sock k ;;
  async_unregister k (s_fd s) ;;;
  emit K_HANDLER [2; k; s_peer s] ;;;
  run_block (s_h2 s).

(* DriverReceive (TCP) *)
Definition driver_receive (k : Z) : MX unit :=
  s <- get_sock k ;;
  catch (r <- buffered_receive_now (fun x => owner_pool x (1000 + k)) (set_owner_pool (1000 + k)) (s_fd s) (s_rxsize s) ;;
         let '(id, n) := r in
         if n =? 0 then precycle (1000 + k) id
         else nm <- name_of (1000 + k) id ;;
              emit K_HANDLER [1; k; nm; n] ;;;
              with_arg (1000 + k) id (run_block (s_h1 s)))
        (fun e => if is_runtime_error e then driver_disconnect k else throw e).

(* DriverReceiveFrom (UDP): errors are silently discarded *)
Definition driver_receive_from (k : Z) : MX unit :=
  s <- get_sock k ;;
  catch (r <- buffered_recvfrom_now (fun x => owner_pool x (1000 + k)) (set_owner_pool (1000 + k)) (s_fd s) (s_rxsize s) ;;
         let '(id, n, src) := r in
         nm <- name_of (1000 + k) id ;;
         emit K_HANDLER [4; k; nm; n; src] ;;;
         with_arg (1000 + k) id (run_block (s_h1 s)))
        (fun e => if is_runtime_error e then ret tt else throw e).

(* DriverConnect (acceptor): accept, listen again, hand the socket to the user; errors silently discarded.
   The accepted socket is closed when the handler returns without adopting it. *)
Definition driver_connect (k : Z) : MX unit :=
  s <- get_sock k ;;
  catch (r <- accept_now (s_fd s) ;;
         let '(cfd, peer) := r in
         catch (check_setup S_LISTEN (s_fd s)) (fun e => sys_close cfd ;;; throw e) ;;;
         emit K_HANDLER [3; k; peer] ;;;
         x <- get_ext ;; put_ext (x <| x_acc := Some (cfd, peer) |>) ;;;
         finally (run_block (s_h1 s))
                 (x' <- get_ext ;;
                  match x_acc x' with
                  | Some (fd, _) => put_ext (x' <| x_acc := None |>) ;;; sys_close fd
                  | None => ret tt
                  end))
        (fun e => if is_runtime_error e then ret tt else throw e).

Definition driver_on_readable (k : Z) : MX unit :=
  s <- get_sock k ;;
  if s_kind s =? 1 then driver_receive k
  else if s_kind s =? 2 then driver_receive_from k
  else driver_connect k.

(* promise.set_exception(std::make_exception_ptr(e)) with e : std::runtime_error const & stores a sliced copy:
   the future rethrows a plain std::runtime_error, whatever the dynamic type was *)
Definition sliced_runtime_error : list Z := [9; 0].

(* DriverSend (TCP): one send() of the front buffer; returns true when the queue is empty afterwards *)
Definition driver_send (k : Z) : MX bool :=
  s <- get_sock k ;;
  match s_sendq s with
  | [] => ret true                           (* DriverPending(): only meaningful for TLS *)
  | (f, owner, id, _) :: rest =>
      x <- get_ext ;;
      let size := buf_size id (p_busy (owner_pool x owner)) in
      r <- catch (sent <- send_now (s_fd s) size ;; ret (inl sent))
                 (fun e => if is_runtime_error e then ret (inr e) else throw e) ;;
      match r with
      | inl sent =>
          if sent =? size then
            resolve f 1 [] ;;; upd_sock k (fun s => s <| s_sendq := rest |>) ;;; precycle owner id ;;;
            ret (match rest with [] => true | _ => false end)
          else
            presize owner id (size - sent) ;;; ret false      (* buffer->erase(0, sent): stays at the front *)
      | inr e =>
          resolve f 2 sliced_runtime_error ;;; upd_sock k (fun s => s <| s_sendq := rest |>) ;;; precycle owner id ;;;
          ret (match rest with [] => true | _ => false end)
      end
  end.

(* DriverSendTo (UDP): one element = one sendto(); popped either way *)
Definition driver_sendto (k : Z) : MX bool :=
  s <- get_sock k ;;
  match s_sendq s with
  | [] => throw (LogicErr 5)                 (* "uncalled sendto" *)
  | (f, owner, id, dst) :: rest =>
      x <- get_ext ;;
      let size := buf_size id (p_busy (owner_pool x owner)) in
      r <- catch (sent <- sendto_now (s_fd s) size dst ;; ret (inl sent))
                 (fun e => if is_runtime_error e then ret (inr e) else throw e) ;;
      (match r with
       | inl _ => resolve f 1 []
       | inr e => resolve f 2 sliced_runtime_error
       end) ;;;
      upd_sock k (fun s => s <| s_sendq := rest |>) ;;; precycle owner id ;;;
      ret (match rest with [] => true | _ => false end)
  end.

Definition driver_on_writable (k : Z) : MX bool :=
  s <- get_sock k ;;
  if s_kind s =? 2 then driver_sendto k else driver_send k.

(* DriverOnError: TCP -> disconnect; UDP and acceptor discard *)
Definition driver_on_error (k : Z) : MX unit :=
  s <- get_sock k ;;
  if s_kind s =? 1 then driver_disconnect k else ret tt.

(* DoOneSocketTask: the first registered socket with POLLIN, else POLLOUT, else HUP/ERR gets served — one per step *)
Fixpoint do_one_socket_task (i : nat) (socks : list Z) (revs : list Z) : MX unit :=
  match socks with
  | [] => throw (LogicErr 4)                 (* "unhandled poll event" *)
  | k :: rest =>
      let rv := nthZ revs 0 in
      if has_bit rv POLLIN then driver_on_readable k
      else if has_bit rv POLLOUT then
        emptied <- driver_on_writable k ;;
        if emptied then upd_driver (fun d => d <| d_pfds := disarm_at i POLLOUT (d_pfds d) |>) else ret tt
      else if has_bit rv (Z.lor POLLHUP POLLERR) then driver_on_error k
      else do_one_socket_task (S i) rest (tl revs)
  end.

(* the kernel reports only requested events plus error conditions *)
Fixpoint mask_revents (fds : list (Z * Z)) (revs : list Z) : list Z :=
  match fds with
  | [] => []
  | (_, ev) :: t => Z.land (nthZ revs 0) (Z.lor ev 56) :: mask_revents t (tl revs)
  end.

(* StepSockets(timeout) *)
Definition step_sockets (timeout : Z) : MX unit :=
  d <- get_driver ;;
  r <- wait_fds (d_pfds d) timeout ;;
  match r with
  | None => ret tt
  | Some revs0 =>
      let revs := mask_revents (d_pfds d) revs0 in
      let pipe := nthZ revs 0 in
      if has_bit pipe POLLIN then unbump
      else if negb (pipe =? 0) then throw (LogicErr 3)      (* "unexpected signalling pipe poll result" *)
      else if Nat.eqb (length (d_socks d) + 1) (length (d_pfds d))
           then do_one_socket_task 1 (d_socks d) (tl revs)
           else stuck 31                       (* sockets / pfds misaligned *)
  end.

(* Step(timeout) *)
Definition step (timeout : Z) : MX unit :=
  d <- get_driver ;;
  match d_todos d with
  | [] => step_sockets timeout
  | _ => fuel <- script_fuel ;;
         dl0 <- sdl_new timeout ;;
         remaining <- step_todos fuel dl0 ;;
         step_sockets remaining
  end.

(* Stop(): set the flag, wake the poll *)
Definition stop : MX unit :=
  upd_driver (fun d => d <| d_stop := true |>) ;;; bump.

(* Run(): while(!shouldStop.exchange(false)) Step(unlimited) *)
Fixpoint run_loop (fuel : nat) : MX unit :=
  match fuel with
  | O => bad 41
  | S k => d <- get_driver ;;
           if d_stop d then put_driver (d <| d_stop := false |>)
           else step (-1) ;;; run_loop k
  end.

Definition run : MX unit := fuel <- script_fuel ;; run_loop fuel.

End Driver.
