(* driver.ml — reads cases (integers only), runs the extracted model, prints the trace.
   Trusted glue: int <-> Z conversion, line parser, printer. *)
open Spmodel

let rec pos_of_int n = if n = 1 then XH else if n land 1 = 0 then XO (pos_of_int (n lsr 1)) else XI (pos_of_int (n lsr 1))
let z_of_int n = if n = 0 then Z0 else if n > 0 then Zpos (pos_of_int n) else Zneg (pos_of_int (-n))
let rec int_of_pos = function XH -> 1 | XO p -> 2 * int_of_pos p | XI p -> 2 * int_of_pos p + 1
let int_of_z = function Z0 -> 0 | Zpos p -> int_of_pos p | Zneg p -> - (int_of_pos p)

let ints_of_line toks = List.map int_of_string toks

let flush_case id ops evs faults =
  let raw l = List.rev_map (fun (c, a) -> (z_of_int c, List.map z_of_int a)) l in
  let fl = List.rev_map (fun (i, e) -> (z_of_int i, z_of_int e)) faults in
  let tr = run_case (raw ops) (raw evs) fl in
  Printf.printf "C %s\n" id;
  List.iter (fun (c, a) ->
    print_string "T "; print_int (int_of_z c);
    List.iter (fun x -> print_char ' '; print_int (int_of_z x)) a; print_newline ()) tr;
  print_string "X\n"

(* ---- address mode --------------------------------------------------------------------------------------- *)
let unhex h =
  if h = "-" then [] else
  let n = String.length h / 2 in
  List.init n (fun i -> z_of_int (int_of_string ("0x" ^ String.sub h (2 * i) 2)))
let hex l =
  if l = [] then "-" else String.concat "" (List.map (fun z -> Printf.sprintf "%02x" (int_of_z z)) l)
let rec nat_to_int = function O -> 0 | S n -> 1 + nat_to_int n
let maxlen subjects = List.fold_left (fun m s -> max m (List.length s)) 0 subjects

let print_dissected d =
  match d with
  | DOk (host, serv, ns) -> Printf.printf "G %s %s %d\n" (hex (c_str host)) (hex (c_str serv)) (if ns then 1 else 0)
  | DExn e -> (match exn_code e with
               | [a; b] -> Printf.printf "R exn %d %d\n" (int_of_z a) (int_of_z b)
               | _ -> print_string "R exn ? ?\n")

let addr_mode () =
  (try
    while true do
      let line = input_line stdin in
      match String.split_on_char ' ' (String.trim line) |> List.filter (fun s -> s <> "") with
      | ["U"; id; a] ->
          let u = unhex a in
          Printf.printf "C %s\n" id; print_dissected (uri_dissect u);
          Printf.printf "B %d\n" (maxlen (regex_subjects_uri u)); print_string "X\n"
      | ["P"; id; a; b] ->
          let h = unhex a and s = unhex b in
          Printf.printf "C %s\n" id; print_dissected (hostserv_dissect h s);
          Printf.printf "B %d\n" (maxlen (regex_subjects_hostserv h s)); print_string "X\n"
      | ["S"; id; v6; a; b] ->
          Printf.printf "C %s\nS %s\nX\n" id (hex (to_string_model (v6 = "1") (unhex a) (unhex b)))
      | ["V"; id; a; b] ->
          Printf.printf "C %s\nV %d %d\nX\n" id (if view_eq (unhex a) (unhex b) then 1 else 0) (if view_lt (unhex a) (unhex b) then 1 else 0)
      | [] -> ()
      | _ -> ()
    done
  with End_of_file -> ())

(* ---- sync mode: replay a synchronisation trace on the protocol model ------------------------------------- *)
let sync_mode () =
  let id = ref "" and cfg = ref (0, 0, 0) and evs = ref [] in
  (try
    while true do
      let line = input_line stdin in
      match String.split_on_char ' ' (String.trim line) |> List.filter (fun s -> s <> "") with
      | "C" :: rest -> id := String.concat " " rest; evs := []
      | ["A"; a; b; c] -> cfg := (int_of_string a, int_of_string b, int_of_string c)
      | "V" :: c :: args -> evs := (z_of_int (int_of_string c), List.map (fun x -> z_of_int (int_of_string x)) args) :: !evs
      | "X" :: _ ->
          let (a, b, c) = !cfg in
          let r = accept_sync (z_of_int a) (z_of_int b) (z_of_int c) (List.rev !evs) in
          Printf.printf "C %s\nY" !id; List.iter (fun z -> Printf.printf " %d" (int_of_z z)) r; print_string "\nX\n"
      | _ -> ()
    done
  with End_of_file -> ())

let sim_mode () =
  let id = ref "" and ops = ref [] and evs = ref [] and faults = ref [] in
  (try
    while true do
      let line = input_line stdin in
      match String.split_on_char ' ' (String.trim line) |> List.filter (fun s -> s <> "") with
      | [] -> ()
      | "C" :: rest -> id := String.concat " " rest; ops := []; evs := []; faults := []
      | "O" :: c :: a -> ops := (int_of_string c, ints_of_line a) :: !ops
      | "E" :: c :: a -> evs := (int_of_string c, ints_of_line a) :: !evs
      | "F" :: i :: e :: _ -> faults := (int_of_string i, int_of_string e) :: !faults
      | "X" :: _ -> flush_case !id !ops !evs !faults
      | "#" :: _ -> ()
      | _ -> failwith ("bad line: " ^ line)
    done
  with End_of_file -> ())

let () =
  if Array.length Sys.argv > 1 && Sys.argv.(1) = "addr" then addr_mode ()
  else if Array.length Sys.argv > 1 && Sys.argv.(1) = "sync" then sync_mode ()
  else sim_mode ()
