(* DESIGN-TIME FEASIBILITY PROTOTYPE - not part of the framework, not built by any check.
   Shows that the hand-over protocol of driver_impl.cpp:43-75 (StepGuard / PauseGuard / Bump)
   admits an inductive invariant for an arbitrary number of user threads, from which
   mutual_exclusion, no_deadlock (without relying on socket events) and bounded_yield follow.
   coqc 8.16.1: compiles in < 5 s, Print Assumptions: Closed under the global context.
   The real SyncModel.v will add programs per thread, Run/Stop, recursion from handlers,
   the driver data and labels for the correspondence check. *)
From Coq Require Import List Arith Lia Bool.
Import ListNotations.

Inductive upc := U0 | Uwp | Uhp | Uws | Uhs | Ucrit | Udone.
Inductive dpc := D0 | D1 | D2 | D3 | D4.
Record st := { d : dpc; us : list upc; pipe : nat; since : nat }.

Definition u_holds_step (u : upc) := match u with Uhs | Ucrit => true | _ => false end.
Definition u_holds_pause (u : upc) := match u with Uhp | Uws | Uhs => true | _ => false end.
Definition d_holds_step (x : dpc) := match x with D1 | D2 => true | _ => false end.
Definition d_holds_pause (x : dpc) := match x with D4 => true | _ => false end.
Definition step_free (s : st) := negb (d_holds_step (d s)) && forallb (fun u => negb (u_holds_step u)) (us s).
Definition pause_free (s : st) := negb (d_holds_pause (d s)) && forallb (fun u => negb (u_holds_pause u)) (us s).

Fixpoint upd {A} (l : list A) (i : nat) (x : A) : list A :=
  match l, i with [] , _ => [] | _ :: t, O => x :: t | h :: t, S j => h :: upd t j x end.

Inductive tid := Drv | Usr (i : nat).

(* one step of thread t; None = not enabled. ev = environment provides a socket event *)
Definition step (ev : bool) (s : st) (t : tid) : option st :=
  match t with
  | Drv =>
    match d s with
    | D0 => if step_free s then Some {| d := D1; us := us s; pipe := pipe s; since := since s |} else None
    | D1 => match pipe s with
            | S p => Some {| d := D2; us := us s; pipe := p; since := since s |}
            | O => if ev then Some {| d := D2; us := us s; pipe := 0; since := since s |} else None
            end
    | D2 => Some {| d := D3; us := us s; pipe := pipe s; since := S (since s) |}
    | D3 => if pause_free s then Some {| d := D4; us := us s; pipe := pipe s; since := since s |} else None
    | D4 => Some {| d := D0; us := us s; pipe := pipe s; since := since s |}
    end
  | Usr i =>
    match nth_error (us s) i with
    | None => None
    | Some U0 => if step_free s then Some {| d := d s; us := upd (us s) i Ucrit; pipe := pipe s; since := since s |}
                 else Some {| d := d s; us := upd (us s) i Uwp; pipe := pipe s; since := since s |}
    | Some Uwp => if pause_free s then Some {| d := d s; us := upd (us s) i Uhp; pipe := pipe s; since := 0 |} else None
    | Some Uhp => Some {| d := d s; us := upd (us s) i Uws; pipe := S (pipe s); since := since s |}
    | Some Uws => if step_free s then Some {| d := d s; us := upd (us s) i Uhs; pipe := pipe s; since := since s |} else None
    | Some Uhs => Some {| d := d s; us := upd (us s) i Ucrit; pipe := pipe s; since := since s |}
    | Some Ucrit => Some {| d := d s; us := upd (us s) i Udone; pipe := pipe s; since := since s |}
    | Some Udone => None
    end
  end.

Definition init (n : nat) : st := {| d := D0; us := repeat U0 n; pipe := 0; since := 0 |}.

Inductive reach (n : nat) : st -> Prop :=
| r0 : reach n (init n)
| rS s ev t s' : reach n s -> step ev s t = Some s' -> reach n s'.

Definition cnt (f : upc -> bool) (l : list upc) := length (filter f l).
Definition b2n (b : bool) := if b then 1 else 0.

Definition Inv (s : st) : Prop :=
  b2n (d_holds_step (d s)) + cnt u_holds_step (us s) <= 1 /\
  b2n (d_holds_pause (d s)) + cnt u_holds_pause (us s) <= 1 /\
  (cnt (fun u => match u with Uws => true | _ => false end) (us s) >= 1 -> pipe s >= 1 \/ d s = D2 \/ d s = D3) /\
  (cnt (fun u => match u with Uhp | Uws => true | _ => false end) (us s) >= 1 ->
     since s = 0 \/ (since s = 1 /\ d s = D3)).

Lemma cnt_upd f l i y x : nth_error l i = Some y ->
  cnt f (upd l i x) + b2n (f y) = cnt f l + b2n (f x).
Proof.
  revert i; induction l as [|h t IH]; intros [|j] H; simpl in *; try discriminate.
  - inversion H; subst. unfold cnt; simpl. destruct (f x), (f y); simpl; lia.
  - specialize (IH j H). unfold cnt in *; simpl. destruct (f h); simpl; lia.
Qed.

Lemma free_cnt f l : forallb (fun u => negb (f u)) l = true <-> cnt f l = 0.
Proof.
  unfold cnt; induction l as [|h t IH]; simpl; [tauto|].
  destruct (f h); simpl; [split; [discriminate|lia] | exact IH].
Qed.

Lemma cnt_repeat_U0 f n : f U0 = false -> cnt f (repeat U0 n) = 0.
Proof. intros H; unfold cnt; induction n; simpl; [reflexivity|]. rewrite H; exact IHn. Qed.

Lemma inv_init n : Inv (init n).
Proof.
  unfold Inv, init; simpl. rewrite !cnt_repeat_U0 by reflexivity. repeat split; try lia.
Qed.


Lemma le_ws_pause l : cnt (fun u => match u with Uws => true | _ => false end) l <= cnt u_holds_pause l.
Proof. unfold cnt. induction l as [|h t IH]; simpl; [lia|]. destruct h; simpl; lia. Qed.
Lemma le_hpws_pause l : cnt (fun u => match u with Uhp | Uws => true | _ => false end) l <= cnt u_holds_pause l.
Proof. unfold cnt. induction l as [|h t IH]; simpl; [lia|]. destruct h; simpl; lia. Qed.

Ltac cu H :=
  repeat match goal with
  | |- context [cnt ?f (upd ?l ?i ?x)] =>
      let E := fresh "E" in pose proof (cnt_upd f l i _ x H) as E; simpl in E;
      generalize dependent (cnt f (upd l i x)); intros
  end.

Ltac fin :=
  repeat split; try lia; intros;
  repeat match goal with
  | H : ?P -> _ \/ _ |- _ => first [ (let X := fresh in assert (X : P) by lia; specialize (H X); clear X) | clear H ]
  end; intuition (try lia; try congruence).

Lemma inv_step ev s t s' : Inv s -> step ev s t = Some s' -> Inv s'.
Proof.
  intros (I1 & I2 & I3 & I4) Hs. destruct s as [dd uu pp ss]; simpl in *.
  pose proof (le_ws_pause uu) as L1. pose proof (le_hpws_pause uu) as L2.
  destruct t as [|i]; simpl in Hs.
  - destruct dd; simpl in *.
    + destruct (step_free _) eqn:F; inversion Hs; subst; clear Hs. unfold step_free in F; simpl in F. apply free_cnt in F. unfold Inv; simpl. fin.
    + destruct pp as [|p]; [destruct ev|]; inversion Hs; subst; clear Hs; unfold Inv; simpl; fin.
    + inversion Hs; subst; clear Hs. unfold Inv; simpl. fin.
    + destruct (pause_free _) eqn:F; inversion Hs; subst; clear Hs. unfold pause_free in F; simpl in F.
      apply free_cnt in F. unfold Inv; simpl. fin.
    + inversion Hs; subst; clear Hs. unfold Inv; simpl. fin.
  - destruct (nth_error uu i) as [y|] eqn:N; [|discriminate].
    destruct y.
    + destruct (step_free _) eqn:F; inversion Hs; subst; clear Hs; unfold Inv; simpl.
      * unfold step_free in F; simpl in F. apply andb_prop in F as [Fd F]. apply free_cnt in F.
        cu N. destruct dd; simpl in *; try discriminate; fin.
      * cu N. fin.
    + destruct (pause_free _) eqn:F; inversion Hs; subst; clear Hs; unfold Inv; simpl.
      unfold pause_free in F; simpl in F. apply andb_prop in F as [Fd F]. apply free_cnt in F.
      cu N. destruct dd; simpl in *; try discriminate; fin.
    + inversion Hs; subst; clear Hs; unfold Inv; simpl. cu N. fin.
    + destruct (step_free _) eqn:F; inversion Hs; subst; clear Hs; unfold Inv; simpl.
      unfold step_free in F; simpl in F. apply andb_prop in F as [Fd F]. apply free_cnt in F.
      pose proof (le_ws_pause (upd uu i Uhs)) as M1. pose proof (le_hpws_pause (upd uu i Uhs)) as M2.
      revert M1 M2. cu N. intros. destruct dd; simpl in *; try discriminate; fin.
    + inversion Hs; subst; clear Hs; unfold Inv; simpl.
      pose proof (le_ws_pause (upd uu i Ucrit)) as M1. pose proof (le_hpws_pause (upd uu i Ucrit)) as M2.
      revert M1 M2. cu N. intros. fin.
    + inversion Hs; subst; clear Hs; unfold Inv; simpl. cu N. fin.
    + discriminate.
Qed.

Theorem inv_reach n s : reach n s -> Inv s.
Proof. induction 1; [apply inv_init | eapply inv_step; eauto]. Qed.


Lemma cnt_pos_ex f l : cnt f l >= 1 -> exists i y, nth_error l i = Some y /\ f y = true.
Proof.
  unfold cnt. induction l as [|h t IH]; simpl; [lia|]. destruct (f h) eqn:E.
  - intros _. exists 0, h. auto.
  - intros H. destruct (IH H) as (i & y & ? & ?). exists (S i), y. auto.
Qed.

Definition busy (u : upc) := match u with U0 | Uhp | Uhs | Ucrit => true | _ => false end.
Definition is_ws (u : upc) := match u with Uws => true | _ => false end.
Definition is_wp (u : upc) := match u with Uwp => true | _ => false end.
Definition unfinished (u : upc) := match u with Udone => false | _ => true end.

Lemma quiet_counts l : cnt busy l = 0 ->
  cnt u_holds_step l = 0 /\ cnt u_holds_pause l = cnt is_ws l /\ cnt unfinished l = cnt is_ws l + cnt is_wp l.
Proof.
  unfold cnt. induction l as [|h t IH]; simpl; [lia|]. destruct h; simpl; intros H; try lia;
  destruct (IH ltac:(lia)) as (? & ? & ?); lia.
Qed.

(* no deadlock without relying on socket events: if some user is unfinished, some thread can move *)
Theorem no_deadlock n s : reach n s -> cnt unfinished (us s) >= 1 ->
  exists t s', step false s t = Some s'.
Proof.
  intros R U. pose proof (inv_reach _ _ R) as (I1 & I2 & I3 & I4).
  destruct s as [dd uu pp ss]; simpl in *.
  destruct (Nat.eq_dec (cnt busy uu) 0) as [B|B].
  2:{ destruct (cnt_pos_ex busy uu ltac:(lia)) as (i & y & N & Y). exists (Usr i). simpl. rewrite N.
      destruct y; try discriminate; try (destruct (step_free _)); eauto. }
  destruct (quiet_counts _ B) as (Q1 & Q2 & Q3).
  assert (SF : forall d0, d_holds_step d0 = false -> step_free {| d := d0; us := uu; pipe := pp; since := ss |} = true).
  { intros d0 H. unfold step_free; simpl. rewrite H. simpl. apply free_cnt. exact Q1. }
  assert (PF : forall d0, d_holds_pause d0 = false -> cnt is_ws uu = 0 -> pause_free {| d := d0; us := uu; pipe := pp; since := ss |} = true).
  { intros d0 H W. unfold pause_free; simpl. rewrite H. simpl. apply free_cnt. lia. }
  destruct (Nat.eq_dec (cnt is_ws uu) 0) as [W|W].
  - (* nobody bumped-and-waiting: some user is Uwp *)
    destruct (cnt_pos_ex is_wp uu ltac:(lia)) as (i & y & N & Y). destruct y; try discriminate.
    destruct dd.
    + exists Drv. simpl. rewrite (SF D0 eq_refl). eauto.
    + exists (Usr i). simpl. rewrite N, (PF D1 eq_refl W). eauto.
    + exists Drv. simpl. eauto.
    + exists Drv. simpl. rewrite (PF D3 eq_refl W). eauto.
    + exists Drv. simpl. eauto.
  - destruct (cnt_pos_ex is_ws uu ltac:(lia)) as (i & y & N & Y). destruct y; try discriminate.
    destruct dd.
    + exists Drv. simpl. rewrite (SF D0 eq_refl). eauto.
    + (* driver owns step and is at poll: the wake-up cannot have been lost *)
      fold is_ws in I3. destruct (I3 ltac:(lia)) as [P|[P|P]]; try discriminate.
      exists Drv. simpl. destruct pp; [lia|eauto].
    + exists Drv. simpl. eauto.
    + exists (Usr i). simpl. rewrite N, (SF D3 eq_refl). eauto.
    + exists Drv. simpl. eauto.
Qed.

(* bounded yield: while a user holds pauseMtx waiting for stepMtx the driver finishes at most one step *)
Theorem bounded_yield n s : reach n s ->
  cnt (fun u => match u with Uhp | Uws => true | _ => false end) (us s) >= 1 -> since s <= 1.
Proof. intros R H. destruct (inv_reach _ _ R) as (_ & _ & _ & I4). destruct (I4 H) as [?|[? _]]; lia. Qed.

Theorem mutual_exclusion n s : reach n s ->
  b2n (d_holds_step (d s)) + cnt u_holds_step (us s) <= 1.
Proof. intros R. apply (inv_reach _ _ R). Qed.

Print Assumptions no_deadlock.
Print Assumptions bounded_yield.
