// HEAD probe: receive buffer pool exhausted -> disconnect handler although the connection is alive
#include "sockpuppet/socket_async.h"
#include <sys/socket.h>
#include <netinet/in.h>
#include <unistd.h>
#include <chrono>
#include <cstdio>
#include <memory>
#include <thread>
#include <vector>
using namespace sockpuppet;
int main()
{
  Driver driver;
  std::unique_ptr<SocketTcpAsync> conn;
  std::vector<BufferPtr> kept;
  size_t total = 0;
  AcceptorAsync acceptor(Acceptor(Address("127.0.0.1:0")), driver,
    [&](SocketTcp s, Address a) {
      printf("connect from %s\n", to_string(a).c_str());
      conn = std::make_unique<SocketTcpAsync>(SocketTcpBuffered(std::move(s), 1U, 100U), driver,
        [&](BufferPtr b) { total += b->size(); printf("receive %zu bytes '%s' (buffer kept by the handler)\n", b->size(), b->c_str()); kept.push_back(std::move(b)); },
        [&](Address a, char const *why) { printf("disconnect %s (%s)\n", to_string(a).c_str(), why); });
    });
  uint16_t port = acceptor.LocalAddress().Port();
  std::thread peer([&] {
    int fd = ::socket(AF_INET, SOCK_STREAM, 0);
    sockaddr_in sa{}; sa.sin_family = AF_INET; sa.sin_port = htons(port); sa.sin_addr.s_addr = htonl(INADDR_LOOPBACK);
    ::connect(fd, (sockaddr*)&sa, sizeof(sa));
    ::send(fd, "first", 5, 0);
    std::this_thread::sleep_for(std::chrono::milliseconds(300));
    ::send(fd, "second", 6, 0);
    printf("peer: sent 'first' and 'second', keeps the connection open\n");
    std::this_thread::sleep_for(std::chrono::seconds(1));
    char c; ssize_t r = ::recv(fd, &c, 1, MSG_DONTWAIT);
    printf("peer: connection still open on peer side (recv -> %zd)\n", r);
    ::close(fd);
  });
  auto end = std::chrono::steady_clock::now() + std::chrono::seconds(2);
  while(std::chrono::steady_clock::now() < end) driver.Step(std::chrono::milliseconds(50));
  peer.join();
  printf("total received %zu of 11\n", total);
  kept.clear();
}
