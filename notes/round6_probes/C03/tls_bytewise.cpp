// HEAD probe: one TLS record trickling in byte by byte while the Driver is reading
#include "sockpuppet/socket_async.h"
#include <openssl/ssl.h>
#include <sys/socket.h>
#include <netinet/in.h>
#include <netinet/tcp.h>
#include <unistd.h>
#include <atomic>
#include <chrono>
#include <cstdio>
#include <memory>
#include <string>
#include <thread>
using namespace sockpuppet;
using namespace std::chrono_literals;
int main(int argc, char **argv)
{
  size_t recSize = argc > 1 ? atoi(argv[1]) : 4000;
  Driver driver;
  std::unique_ptr<SocketTcpAsync> conn;
  std::atomic<size_t> total{0}; std::atomic<int> disconnects{0};
  AcceptorAsync acceptor(Acceptor(Address("127.0.0.1:0"), "test_cert.pem", "test_key.pem"), driver,
    [&](SocketTcp s, Address a) {
      conn = std::make_unique<SocketTcpAsync>(SocketTcpBuffered(std::move(s)), driver,
        [&](BufferPtr b) { total += b->size(); printf("  receive handler: %zu bytes\n", b->size()); },
        [&](Address a, char const *why) { ++disconnects; printf("  disconnect handler: %s (%s)\n", to_string(a).c_str(), why); });
    });
  uint16_t port = acceptor.LocalAddress().Port();
  std::thread drv([&] { auto end = std::chrono::steady_clock::now() + 3s; while(std::chrono::steady_clock::now() < end) driver.Step(50ms); });
  int fd = ::socket(AF_INET, SOCK_STREAM, 0);
  sockaddr_in sa{}; sa.sin_family = AF_INET; sa.sin_port = htons(port); sa.sin_addr.s_addr = htonl(INADDR_LOOPBACK);
  ::connect(fd, (sockaddr*)&sa, sizeof(sa));
  int one = 1; ::setsockopt(fd, IPPROTO_TCP, TCP_NODELAY, &one, sizeof(one));
  SSL_CTX *ctx = SSL_CTX_new(TLS_client_method());
  SSL *ssl = SSL_new(ctx);
  BIO *in = BIO_new(BIO_s_mem()), *out = BIO_new(BIO_s_mem());
  SSL_set_bio(ssl, in, out); SSL_set_connect_state(ssl);
  char buf[40000];
  while(!SSL_is_init_finished(ssl)) {
    SSL_do_handshake(ssl);
    int n = BIO_read(out, buf, sizeof(buf)); if(n > 0) ::send(fd, buf, n, 0);
    std::this_thread::sleep_for(20ms);
    ssize_t r = ::recv(fd, buf, sizeof(buf), MSG_DONTWAIT); if(r > 0) BIO_write(in, buf, r);
  }
  std::this_thread::sleep_for(200ms);
  std::string rec(recSize, 'z');
  SSL_write(ssl, rec.data(), (int)rec.size());
  int n = BIO_read(out, buf, sizeof(buf));
  printf("peer: sending one %zu byte record (%d bytes on the wire) one byte per send()\n", recSize, n);
  for(int i = 0; i < n; ++i) ::send(fd, buf + i, 1, 0);
  drv.join();
  printf("delivered %zu of %zu, disconnects %d\n", total.load(), recSize, disconnects.load());
  conn.reset(); ::close(fd);
}
