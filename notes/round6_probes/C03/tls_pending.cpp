// HEAD probe: TLS record larger than the receive buffer, kernel has nothing more
#include "sockpuppet/socket_async.h"
#include <openssl/ssl.h>
#include <sys/socket.h>
#include <netinet/in.h>
#include <arpa/inet.h>
#include <unistd.h>
#include <chrono>
#include <cstdio>
#include <memory>
#include <string>
#include <thread>
using namespace sockpuppet;
using Clock_ = std::chrono::steady_clock;
static Clock_::time_point t0;
static double now() { return std::chrono::duration<double>(Clock_::now() - t0).count(); }

int main(int argc, char **argv)
{
  size_t rxSize = argc > 1 ? atoi(argv[1]) : 1000;
  size_t recSize = argc > 2 ? atoi(argv[2]) : 5000;
  t0 = Clock_::now();
  Driver driver;
  std::unique_ptr<SocketTcpAsync> conn;
  size_t total = 0;
  AcceptorAsync acceptor(Acceptor(Address("127.0.0.1:0"), "test_cert.pem", "test_key.pem"), driver,
    [&](SocketTcp s, Address a) {
      printf("[%.3f] connect from %s\n", now(), to_string(a).c_str());
      conn = std::make_unique<SocketTcpAsync>(SocketTcpBuffered(std::move(s), 0U, rxSize), driver,
        [&](BufferPtr b) { total += b->size(); printf("[%.3f] receive %zu bytes (total %zu)\n", now(), b->size(), total); },
        [&](Address a, char const *why) { printf("[%.3f] disconnect %s (%s) total %zu\n", now(), to_string(a).c_str(), why, total); });
    });
  uint16_t port = acceptor.LocalAddress().Port();

  std::thread peer([&] {
    int fd = ::socket(AF_INET, SOCK_STREAM, 0);
    sockaddr_in sa{}; sa.sin_family = AF_INET; sa.sin_port = htons(port); sa.sin_addr.s_addr = htonl(INADDR_LOOPBACK);
    ::connect(fd, (sockaddr*)&sa, sizeof(sa));
    SSL_CTX *ctx = SSL_CTX_new(TLS_client_method());
    SSL *ssl = SSL_new(ctx);
    SSL_set_fd(ssl, fd);
    if(SSL_connect(ssl) != 1) { printf("peer: handshake failed\n"); return; }
    printf("[%.3f] peer: handshake done\n", now());
    std::this_thread::sleep_for(std::chrono::milliseconds(300));
    std::string rec(recSize, 'x');
    SSL_write(ssl, rec.data(), (int)rec.size());
    printf("[%.3f] peer: wrote one record of %zu bytes\n", now(), rec.size());
    std::this_thread::sleep_for(std::chrono::seconds(2));
    SSL_write(ssl, "y", 1);
    printf("[%.3f] peer: wrote 1 more byte\n", now());
    std::this_thread::sleep_for(std::chrono::seconds(2));
    SSL_shutdown(ssl);
    ::close(fd);
    printf("[%.3f] peer: closed\n", now());
  });

  auto end = Clock_::now() + std::chrono::seconds(6);
  while(Clock_::now() < end) driver.Step(std::chrono::milliseconds(50));
  peer.join();
  printf("total received %zu of %zu\n", total, recSize + 1);
}
