// HEAD probe: accept fails persistently (descriptor limit) -> acceptor stays readable, is served at every Step, sockets registered behind it starve
#include "sockpuppet/socket_async.h"
#include <sys/socket.h>
#include <sys/resource.h>
#include <netinet/in.h>
#include <unistd.h>
#include <chrono>
#include <cstdio>
#include <memory>
#include <vector>
using namespace sockpuppet;
static int dial(uint16_t port, int fd = -1) {
  if(fd < 0) fd = ::socket(AF_INET, SOCK_STREAM, 0);
  sockaddr_in sa{}; sa.sin_family = AF_INET; sa.sin_port = htons(port); sa.sin_addr.s_addr = htonl(INADDR_LOOPBACK);
  if(::connect(fd, (sockaddr*)&sa, sizeof(sa))) perror("connect");
  return fd;
}
int main()
{
  Driver driver;
  std::vector<std::unique_ptr<SocketTcpAsync>> conns;
  size_t received = 0;
  AcceptorAsync acceptor(Acceptor(Address("127.0.0.1:0")), driver,
    [&](SocketTcp s, Address a) {
      printf("connect from %s\n", to_string(a).c_str());
      conns.push_back(std::make_unique<SocketTcpAsync>(SocketTcpBuffered(std::move(s)), driver,
        [&](BufferPtr b) { received += b->size(); printf("receive %zu\n", b->size()); },
        [&](Address, char const *why) { printf("disconnect (%s)\n", why); }));
    });
  uint16_t port = acceptor.LocalAddress().Port();
  int fdA = dial(port);
  driver.Step(std::chrono::milliseconds(100));
  int spare = ::socket(AF_INET, SOCK_STREAM, 0); // for the second client
  std::vector<int> hog; for(;;) { int d = ::dup(0); if(d < 0) break; hog.push_back(d); }
  printf("descriptor table full (%zu dups)\n", hog.size());
  dial(port, spare);           // pending connection that cannot be accepted
  ::send(fdA, "hello", 5, 0);  // data for the established connection
  unsigned steps = 0;
  auto end = std::chrono::steady_clock::now() + std::chrono::seconds(2);
  while(std::chrono::steady_clock::now() < end) { driver.Step(std::chrono::milliseconds(500)); ++steps; }
  printf("2 s: %u Steps (each with 500 ms timeout), bytes received on the established connection: %zu of 5\n", steps, received);
  for(int d : hog) ::close(d);
  for(int i = 0; i < 3; ++i) driver.Step(std::chrono::milliseconds(100));
  printf("after freeing descriptors: received %zu of 5, connections %zu\n", received, conns.size());
}
