// HEAD probe: peer resets the connection before the acceptor gets to accept it
#include "sockpuppet/socket_async.h"
#include <sys/socket.h>
#include <netinet/in.h>
#include <unistd.h>
#include <chrono>
#include <cstdio>
#include <memory>
#include <thread>
#include <vector>
using namespace sockpuppet;
static int dial(uint16_t port) {
  int fd = ::socket(AF_INET, SOCK_STREAM, 0);
  sockaddr_in sa{}; sa.sin_family = AF_INET; sa.sin_port = htons(port); sa.sin_addr.s_addr = htonl(INADDR_LOOPBACK);
  if(::connect(fd, (sockaddr*)&sa, sizeof(sa))) perror("connect");
  return fd;
}
int main()
{
  Driver driver;
  std::vector<std::unique_ptr<SocketTcpAsync>> conns;
  int connectCalls = 0;
  AcceptorAsync acceptor(Acceptor(Address("127.0.0.1:0")), driver,
    [&](SocketTcp s, Address a) {
      ++connectCalls;
      printf("connect handler #%d from %s\n", connectCalls, to_string(a).c_str());
      try {
        conns.push_back(std::make_unique<SocketTcpAsync>(SocketTcpBuffered(std::move(s)), driver,
          [&](BufferPtr b) { printf("receive %zu\n", b->size()); },
          [&](Address, char const *why) { printf("disconnect (%s)\n", why); }));
        printf("  async socket created\n");
      } catch(std::exception const &e) {
        printf("  creating the async socket threw: %s\n", e.what());
        throw;
      }
    });
  uint16_t port = acceptor.LocalAddress().Port();
  int fd = dial(port);
  ::send(fd, "data", 4, 0);
  linger l{1, 0}; ::setsockopt(fd, SOL_SOCKET, SO_LINGER, &l, sizeof(l));
  ::close(fd); // RST
  std::this_thread::sleep_for(std::chrono::milliseconds(100));
  for(int i = 0; i < 5; ++i) driver.Step(std::chrono::milliseconds(50));
  printf("connect handler calls: %d, async sockets: %zu\n", connectCalls, conns.size());
}
