// HEAD probe (plain TCP): peer sends data, then aborts the connection (RST). What does the handler see?
#include "sockpuppet/socket_async.h"
#include <sys/socket.h>
#include <netinet/in.h>
#include <unistd.h>
#include <chrono>
#include <cstdio>
#include <memory>
#include <thread>
using namespace sockpuppet;
using namespace std::chrono_literals;
int main(int argc, char **argv)
{
  size_t rx = argc > 1 ? atoi(argv[1]) : 4;
  Driver driver;
  std::unique_ptr<SocketTcpAsync> conn;
  size_t total = 0;
  AcceptorAsync acceptor(Acceptor(Address("127.0.0.1:0")), driver,
    [&](SocketTcp s, Address a) {
      conn = std::make_unique<SocketTcpAsync>(SocketTcpBuffered(std::move(s), 0U, rx), driver,
        [&](BufferPtr b) { total += b->size(); printf("receive '%s'\n", b->c_str()); },
        [&](Address, char const *why) { printf("disconnect (%s) after %zu bytes\n", why, total); });
    });
  uint16_t port = acceptor.LocalAddress().Port();
  int fd = ::socket(AF_INET, SOCK_STREAM, 0);
  sockaddr_in sa{}; sa.sin_family = AF_INET; sa.sin_port = htons(port); sa.sin_addr.s_addr = htonl(INADDR_LOOPBACK);
  ::connect(fd, (sockaddr*)&sa, sizeof(sa));
  driver.Step(100ms); // accept
  ::send(fd, "0123456789ab", 12, 0);
  std::this_thread::sleep_for(50ms);
  linger l{1, 0}; ::setsockopt(fd, SOL_SOCKET, SO_LINGER, &l, sizeof(l));
  ::close(fd); // RST
  std::this_thread::sleep_for(50ms);
  for(int i = 0; i < 10; ++i) driver.Step(20ms);
  printf("total %zu of 12\n", total);
}
