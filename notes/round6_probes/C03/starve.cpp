// HEAD probe: a socket that is readable at every poll starves sockets registered after it
#include "sockpuppet/socket_async.h"
#include <sys/socket.h>
#include <netinet/in.h>
#include <unistd.h>
#include <atomic>
#include <chrono>
#include <cstdio>
#include <memory>
#include <thread>
#include <vector>
using namespace sockpuppet;
using Clk = std::chrono::steady_clock;
static Clk::time_point t0;
static double now() { return std::chrono::duration<double>(Clk::now() - t0).count(); }
static int dial(uint16_t port) {
  int fd = ::socket(AF_INET, SOCK_STREAM, 0);
  sockaddr_in sa{}; sa.sin_family = AF_INET; sa.sin_port = htons(port); sa.sin_addr.s_addr = htonl(INADDR_LOOPBACK);
  ::connect(fd, (sockaddr*)&sa, sizeof(sa));
  return fd;
}
int main()
{
  t0 = Clk::now();
  Driver driver;
  std::vector<std::unique_ptr<SocketTcpAsync>> conns;
  size_t bytes[2] = {0, 0};
  double firstB = -1;
  AcceptorAsync acceptor(Acceptor(Address("127.0.0.1:0")), driver,
    [&](SocketTcp s, Address a) {
      size_t idx = conns.size();
      printf("[%.3f] connect #%zu from %s\n", now(), idx, to_string(a).c_str());
      conns.push_back(std::make_unique<SocketTcpAsync>(SocketTcpBuffered(std::move(s), 1U, 64U), driver,
        [&, idx](BufferPtr b) { bytes[idx] += b->size(); if(idx == 1 && firstB < 0) { firstB = now(); printf("[%.3f] B delivered (A got %zu bytes so far)\n", firstB, bytes[0]); } },
        [&, idx](Address, char const *why) { printf("[%.3f] disconnect #%zu (%s)\n", now(), idx, why); }));
    });
  uint16_t port = acceptor.LocalAddress().Port();
  std::atomic<bool> stop{false};
  int fdA = dial(port);
  driver.Step(std::chrono::milliseconds(100)); // accept A first
  int fdB = dial(port);
  driver.Step(std::chrono::milliseconds(100)); // accept B
  std::thread flood([&] { char buf[4096] = {}; while(!stop) { if(::send(fdA, buf, sizeof(buf), MSG_NOSIGNAL) < 0) break; } });
  std::this_thread::sleep_for(std::chrono::milliseconds(100));
  double sentB = now();
  ::send(fdB, "hello", 5, 0);
  printf("[%.3f] peer B sent 5 bytes; peer A floods for 3 s\n", sentB);
  std::thread stopper([&] { std::this_thread::sleep_for(std::chrono::seconds(3)); stop = true; printf("[%.3f] peer A stops flooding\n", now()); });
  auto end = Clk::now() + std::chrono::seconds(6);
  while(Clk::now() < end && firstB < 0) driver.Step(std::chrono::milliseconds(50));
  stop = true; flood.join(); stopper.join();
  printf("B's 5 bytes were delivered %.3f s after they were sent\n", firstB - sentB);
  ::close(fdA); ::close(fdB);
}
