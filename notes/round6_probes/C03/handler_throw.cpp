// HEAD probe: a std::runtime_error thrown by the application's receive handler is taken for a connection failure
#include "sockpuppet/socket_async.h"
#include <sys/socket.h>
#include <netinet/in.h>
#include <unistd.h>
#include <chrono>
#include <cstdio>
#include <memory>
#include <stdexcept>
using namespace sockpuppet;
using namespace std::chrono_literals;
int main()
{
  Driver driver;
  std::unique_ptr<SocketTcpAsync> conn;
  AcceptorAsync acceptor(Acceptor(Address("127.0.0.1:0")), driver,
    [&](SocketTcp s, Address) {
      conn = std::make_unique<SocketTcpAsync>(SocketTcpBuffered(std::move(s)), driver,
        [&](BufferPtr b) { printf("receive '%s'\n", b->c_str()); if(*b == "bad") throw std::runtime_error("cannot parse message"); },
        [&](Address, char const *why) { printf("disconnect (%s)\n", why); });
    });
  uint16_t port = acceptor.LocalAddress().Port();
  int fd = ::socket(AF_INET, SOCK_STREAM, 0);
  sockaddr_in sa{}; sa.sin_family = AF_INET; sa.sin_port = htons(port); sa.sin_addr.s_addr = htonl(INADDR_LOOPBACK);
  ::connect(fd, (sockaddr*)&sa, sizeof(sa));
  driver.Step(100ms);
  ::send(fd, "bad", 3, 0); driver.Step(100ms);
  ::send(fd, "good", 4, 0); driver.Step(100ms); driver.Step(100ms);
  char c; printf("peer: connection still open (recv -> %zd)\n", ::recv(fd, &c, 1, MSG_DONTWAIT));
  ::close(fd);
}
