// HEAD probe: TLS 1.3 peer completes its handshake, sends a request and closes right away
// (all valid); the asynchronous server side delivers nothing and reports "failed to send"
#include "sockpuppet/socket_async.h"
#include <openssl/ssl.h>
#include <sys/socket.h>
#include <netinet/in.h>
#include <netinet/tcp.h>
#include <unistd.h>
#include <chrono>
#include <cstdio>
#include <cstring>
#include <memory>
#include <string>
#include <thread>
using namespace sockpuppet;
using namespace std::chrono_literals;
int main(int argc, char **argv)
{
  bool tls12 = argc > 1 && !strcmp(argv[1], "tls12");
  int waitMs = argc > 2 ? atoi(argv[2]) : 0;
  bool halfClose = argc > 3 && !strcmp(argv[3], "halfclose");
  Driver driver;
  std::unique_ptr<SocketTcpAsync> conn;
  size_t total = 0; int disconnects = 0;
  AcceptorAsync acceptor(Acceptor(Address("127.0.0.1:0"), "test_cert.pem", "test_key.pem"), driver,
    [&](SocketTcp s, Address a) {
      printf("  connect handler: %s\n", to_string(a).c_str());
      conn = std::make_unique<SocketTcpAsync>(SocketTcpBuffered(std::move(s)), driver,
        [&](BufferPtr b) { total += b->size(); printf("  receive handler: %zu bytes\n", b->size()); },
        [&](Address a, char const *why) { ++disconnects; printf("  disconnect handler: %s (%s)\n", to_string(a).c_str(), why); });
    });
  uint16_t port = acceptor.LocalAddress().Port();
  std::thread peer([&] {
    int fd = ::socket(AF_INET, SOCK_STREAM, 0);
    sockaddr_in sa{}; sa.sin_family = AF_INET; sa.sin_port = htons(port); sa.sin_addr.s_addr = htonl(INADDR_LOOPBACK);
    ::connect(fd, (sockaddr*)&sa, sizeof(sa));
    int one = 1; ::setsockopt(fd, IPPROTO_TCP, TCP_NODELAY, &one, sizeof(one));
    SSL_CTX *ctx = SSL_CTX_new(TLS_client_method());
    if(tls12) SSL_CTX_set_max_proto_version(ctx, TLS1_2_VERSION);
    SSL *ssl = SSL_new(ctx); SSL_set_fd(ssl, fd);
    if(SSL_connect(ssl) != 1) { printf("peer: handshake failed\n"); return; }
    if(waitMs) std::this_thread::sleep_for(std::chrono::milliseconds(waitMs));
    std::string req(100, 'r');
    int w = SSL_write(ssl, req.data(), (int)req.size());
    SSL_shutdown(ssl);
    printf("peer (%s): handshake done, wrote %d bytes, sent close_notify, %s\n", SSL_get_version(ssl), w, halfClose ? "shutdown(SHUT_WR) and keeps reading" : "close()");
    if(halfClose) {
      ::shutdown(fd, SHUT_WR); // FIN, but keep reading whatever the server still sends until it closes
      char c; while(::recv(fd, &c, 1, 0) > 0) {}
    }
    ::close(fd);
  });
  auto end = std::chrono::steady_clock::now() + 2s;
  while(std::chrono::steady_clock::now() < end && !disconnects) driver.Step(50ms);
  conn.reset();
  peer.join();
  printf("delivered %zu of 100 bytes, disconnects %d\n", total, disconnects);
}
