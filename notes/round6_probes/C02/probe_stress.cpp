// probe (HEAD): multi-producer async sends, varied sizes, peer with back-pressure; plain or TLS (-DTLS)
#include "sockpuppet/socket_async.h"
#include <atomic>
#include <chrono>
#include <cstdio>
#include <cstring>
#include <future>
#include <random>
#include <thread>
#include <vector>
using namespace sockpuppet;
using namespace std::chrono_literals;
static char Pay(unsigned t, unsigned s, size_t i) { return (char)((t * 131 + s * 31 + i * 7) & 0xff); }
struct Hdr { unsigned char magic; unsigned char t; unsigned seq; unsigned len; } __attribute__((packed));
int main(int argc, char **argv) {
  setvbuf(stdout, nullptr, _IONBF, 0);
  unsigned threads = 4, perThread = 300;
#ifdef TLS
  char const *cert = argv[1], *key = argv[2];
  Acceptor acc(Address("localhost:0"), cert, key);
#else
  Acceptor acc(Address("localhost:0"));
#endif
  auto addr = acc.LocalAddress();
  std::atomic<bool> sendersDone{false};
  auto peer = std::async(std::launch::async, [&]() -> std::string {
    auto conn = acc.Listen(5s); if(!conn) return "no connect";
    auto &s = conn->first;
    std::vector<char> stream; std::vector<char> buf(1 << 16);
    std::vector<unsigned> nextSeq(threads, 0);
    size_t parsed = 0, total = 0; int reads = 0;
    try {
      for(;;) {
        auto r = s.Receive(buf.data(), buf.size(), 3s);
        if(!r) break;
        if(++reads < 200) std::this_thread::sleep_for(5ms); // slow start -> back-pressure
        stream.insert(stream.end(), buf.data(), buf.data() + *r); total += *r;
        for(;;) {
          if(stream.size() - parsed < sizeof(Hdr)) break;
          Hdr h; memcpy(&h, stream.data() + parsed, sizeof(h));
          if(h.magic != 0xA5 || h.t >= threads) return "bad header at " + std::to_string(parsed);
          if(stream.size() - parsed < sizeof(Hdr) + h.len) break;
          if(h.seq != nextSeq[h.t]) return "thread " + std::to_string(h.t) + " order: got " + std::to_string(h.seq) + " expected " + std::to_string(nextSeq[h.t]);
          ++nextSeq[h.t];
          for(size_t i = 0; i < h.len; ++i) if(stream[parsed + sizeof(Hdr) + i] != Pay(h.t, h.seq, i)) return "payload mismatch";
          parsed += sizeof(Hdr) + h.len;
        }
        if(parsed > (1u << 20)) { stream.erase(stream.begin(), stream.begin() + parsed); parsed = 0; }
      }
    } catch(std::exception const &e) { /* connection closed */ }
    std::string res = "ok total=" + std::to_string(total);
    for(unsigned t = 0; t < threads; ++t) if(nextSeq[t] != perThread) res += " MISSING thread " + std::to_string(t) + " got " + std::to_string(nextSeq[t]);
    if(stream.size() != parsed) res += " TRAILING " + std::to_string(stream.size() - parsed);
    return res;
  });
  BufferPool pool;
  Driver driver; std::thread dt(&Driver::Run, &driver);
  std::this_thread::sleep_for(300ms);
  std::atomic<unsigned> notReady{0}, failed{0}, emptyCount{0};
  {
#ifdef TLS
    SocketTcpAsync client({SocketTcp(addr, cert, key)}, driver, [](BufferPtr){}, [](Address, char const *r){ std::printf("disconnect %s\n", r); });
#else
    SocketTcpAsync client({SocketTcp(addr)}, driver, [](BufferPtr){}, [](Address, char const *r){ std::printf("disconnect %s\n", r); });
#endif
    std::vector<std::thread> prod;
    for(unsigned t = 0; t < threads; ++t) prod.emplace_back([&, t]{
      std::mt19937 rng(t + 1); std::vector<std::future<void>> futs;
      for(unsigned s = 0; s < perThread; ++s) {
        unsigned k = rng() % 10; unsigned len = k < 4 ? rng() % 200 : k < 8 ? 15000 + rng() % 5000 : 200000 + rng() % 200000;
        auto b = pool.Get(); Hdr h{0xA5, (unsigned char)t, s, len}; b->assign((char*)&h, sizeof(h)); b->resize(sizeof(h) + len);
        for(size_t i = 0; i < len; ++i) (*b)[sizeof(h) + i] = Pay(t, s, i);
        futs.push_back(client.Send(std::move(b)));
        if(rng() % 5 == 0) { futs.push_back(client.Send(pool.Get())); ++emptyCount; } // empty buffer
        if(rng() % 50 == 0) std::this_thread::sleep_for(3ms); // let the queue run empty now and then
      }
      auto deadline = std::chrono::steady_clock::now() + 30s;
      for(auto &f : futs) { if(f.wait_until(deadline) != std::future_status::ready) ++notReady; else { try { f.get(); } catch(...) { ++failed; } } }
    });
    for(auto &p : prod) p.join();
  }
  std::printf("futures not ready %u, failed %u (empty buffers sent: %u)\n", notReady.load(), failed.load(), emptyCount.load());
  std::printf("peer: %s\n", peer.get().c_str());
  driver.Stop(); dt.join();
}
