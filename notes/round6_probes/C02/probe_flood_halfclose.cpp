// probe: (1) does a continuously readable socket starve its own sends? (2) half-close
#include "sockpuppet/socket_async.h"
#include <arpa/inet.h>
#include <netinet/in.h>
#include <sys/socket.h>
#include <unistd.h>
#include <fcntl.h>
#include <poll.h>
#include <atomic>
#include <chrono>
#include <cstdio>
#include <cstring>
#include <thread>
#include <vector>
#include <future>
using namespace sockpuppet;
using namespace std::chrono;
using namespace std::chrono_literals;

static int Listen(uint16_t &port) {
  int l = socket(AF_INET, SOCK_STREAM, 0);
  sockaddr_in a{}; a.sin_family = AF_INET; a.sin_addr.s_addr = htonl(INADDR_LOOPBACK); a.sin_port = 0;
  bind(l, (sockaddr*)&a, sizeof(a)); listen(l, 1);
  socklen_t len = sizeof(a); getsockname(l, (sockaddr*)&a, &len); port = ntohs(a.sin_port);
  return l;
}

int main(int argc, char **argv) {
  setvbuf(stdout, nullptr, _IONBF, 0);
  int mode = argc > 1 ? atoi(argv[1]) : 1;
  uint16_t port; int l = Listen(port);
  Driver driver; std::thread t(&Driver::Run, &driver);
  BufferPool pool;
  std::atomic<size_t> rx{0};
  std::atomic<bool> disc{false};
  SocketTcpAsync client({SocketTcp(Address("127.0.0.1", std::to_string(port)))}, driver,
     [&](BufferPtr b){ rx += b->size(); if(mode == 4) std::this_thread::sleep_for(1ms); },
     [&](Address, char const *r){ std::printf("disconnect: %s\n", r); disc = true; });
  int p = accept(l, nullptr, nullptr);
  auto t0 = steady_clock::now();
  auto ms = [&]{ return (long)duration_cast<milliseconds>(steady_clock::now() - t0).count(); };
  if(mode == 1 || mode == 4) {
    // peer floods for 3 seconds and concurrently reads whatever arrives
    std::atomic<bool> stop{false}; std::atomic<long> peerGotAt{-1};
    std::thread flood([&]{ std::vector<char> junk(65536, 'x');
      while(!stop) { if(send(p, junk.data(), junk.size(), MSG_NOSIGNAL) < 0) break; } });
    std::thread reader([&]{ char buf[4096];
      pollfd pf{p, POLLIN, 0};
      while(!stop) { if(poll(&pf, 1, 50) > 0) { auto n = recv(p, buf, sizeof(buf), MSG_DONTWAIT); if(n > 0 && peerGotAt < 0) peerGotAt = ms(); } } });
    std::this_thread::sleep_for(200ms);
    auto b = pool.Get(); b->assign("ping");
    long sendAt = ms();
    auto f = client.Send(std::move(b));
    auto st = f.wait_for(3s);
    long readyAt = ms();
    std::printf("send at %ld ms; future %s at %ld ms; peer got bytes at %ld ms; flooded %zu bytes so far\n",
      sendAt, st == std::future_status::ready ? "ready" : "NOT READY", readyAt, peerGotAt.load(), rx.load());
    stop = true; if(mode == 1) shutdown(p, SHUT_RDWR); flood.join(); reader.join();
    if(st != std::future_status::ready) { auto st2 = f.wait_for(5s);
      std::printf("after flood stopped: future %s at %ld ms\n", st2 == std::future_status::ready ? "ready" : "NOT READY", ms()); }
  } else if(mode == 2) {
    // peer half-closes (no more data from peer) but keeps reading
    shutdown(p, SHUT_WR);
    std::this_thread::sleep_for(200ms);
    auto b = pool.Get(); b->assign("after-half-close");
    auto f = client.Send(std::move(b));
    auto st = f.wait_for(2s);
    char buf[64]; pollfd pf{p, POLLIN, 0}; int n = -2;
    if(poll(&pf, 1, 500) > 0) n = recv(p, buf, sizeof(buf), 0);
    std::printf("half-close: disconnect handler called=%d; future %s; peer recv=%d\n", (int)disc,
      st == std::future_status::ready ? "ready" : "NOT READY (still pending after 2s)", n);
  } else if(mode == 3) {
    // sends queued under back-pressure, then the peer half-closes and reads everything it can get
    size_t const n = 24, sz = 1 << 20;
    std::vector<std::future<void>> futs;
    for(size_t i = 0; i < n; ++i) { auto b = pool.Get(); b->assign(sz, (char)('a' + i)); futs.push_back(client.Send(std::move(b))); }
    std::this_thread::sleep_for(300ms);
    size_t readyBefore = 0; for(auto &f : futs) readyBefore += (f.wait_for(0s) == std::future_status::ready);
    shutdown(p, SHUT_WR);
    size_t got = 0; std::vector<char> buf(1 << 16);
    for(;;) { pollfd pf{p, POLLIN, 0}; if(poll(&pf, 1, 1500) <= 0) break; auto r = recv(p, buf.data(), buf.size(), 0); if(r <= 0) break; got += r; }
    size_t readyAfter = 0; for(auto &f : futs) readyAfter += (f.wait_for(0s) == std::future_status::ready);
    std::printf("queued %zu x %zu bytes; futures ready before half-close %zu, after peer drained for 1.5s idle: %zu; peer got %zu of %zu bytes; disconnect handler called=%d\n",
      n, sz, readyBefore, readyAfter, got, n * sz, (int)disc);
  }
  driver.Stop(); t.join(); close(p); close(l);
}
