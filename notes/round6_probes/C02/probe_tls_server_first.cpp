// probe (TLS, HEAD): async TLS *server* sends first (from the connect handler), incl. empty and multi-record buffers
#include "sockpuppet/socket_async.h"
#include <chrono>
#include <cstdio>
#include <memory>
#include <thread>
#include <vector>
using namespace sockpuppet;
using namespace std::chrono_literals;
int main(int argc, char **argv) {
  setvbuf(stdout, nullptr, _IONBF, 0);
  char const *cert = argv[1], *key = argv[2];
  int mode = argc > 3 ? atoi(argv[3]) : 0;
  BufferPool pool;
  Driver driver;
  std::vector<std::future<void>> futs;
  std::unique_ptr<SocketTcpAsync> session;
  std::promise<void> connected;
  AcceptorAsync acc(Acceptor(Address("localhost:0"), cert, key), driver,
    [&](SocketTcp s, Address) {
      session.reset(new SocketTcpAsync({std::move(s)}, driver, [](BufferPtr){}, [](Address, char const *r){ std::printf("server: disconnect %s\n", r); }));
      if(mode == 0) {
        auto e = pool.Get(); futs.push_back(session->Send(std::move(e)));          // empty
        auto b = pool.Get(); b->assign(100000, 'B'); futs.push_back(session->Send(std::move(b))); // 7 records
        auto c = pool.Get(); c->assign("tail"); futs.push_back(session->Send(std::move(c)));
      }
      connected.set_value();
    });
  auto addr = acc.LocalAddress();
  std::thread t(&Driver::Run, &driver);
  SocketTcp client(addr, cert, key);
  connected.get_future().wait();
  if(mode == 1) {
    // server sends mid-handshake: let the client send its hello first by a zero-timeout receive, then server Send from main thread
    char tmp[16]; (void)client.Receive(tmp, sizeof(tmp), 100ms);  // client hello out, server flight consumed?, finished sent
    auto b = pool.Get(); b->assign(100000, 'B'); futs.push_back(session->Send(std::move(b)));
    auto c = pool.Get(); c->assign("tail"); futs.push_back(session->Send(std::move(c)));
  }
  size_t total = 0, expect = 100004; std::vector<char> buf(65536); std::string tail;
  while(total < expect) {
    auto r = client.Receive(buf.data(), buf.size(), 2s);
    if(!r) { std::printf("client: timeout after %zu bytes\n", total); break; }
    total += *r; tail.assign(buf.data() + (*r >= 4 ? *r - 4 : 0), buf.data() + *r);
  }
  std::printf("client received %zu bytes, last 4 = '%s'\n", total, tail.c_str());
  for(size_t i = 0; i < futs.size(); ++i) {
    auto st = futs[i].wait_for(1s);
    std::printf("future %zu: %s\n", i, st == std::future_status::ready ? "ready" : "PENDING");
    if(st == std::future_status::ready) { try { futs[i].get(); } catch(std::exception const &e) { std::printf("  exception %s\n", e.what()); } }
  }
  driver.Stop(); t.join();
  session.reset();
}
