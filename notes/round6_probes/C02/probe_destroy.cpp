// probe (HEAD): destroy socket with pending sends -> broken promises, buffers back in pool
#include "sockpuppet/socket_async.h"
#include <arpa/inet.h>
#include <netinet/in.h>
#include <sys/socket.h>
#include <unistd.h>
#include <cstdio>
#include <thread>
#include <vector>
using namespace sockpuppet; using namespace std::chrono_literals;
int main() {
  int l = socket(AF_INET, SOCK_STREAM, 0); sockaddr_in a{}; a.sin_family = AF_INET; a.sin_addr.s_addr = htonl(INADDR_LOOPBACK);
  bind(l, (sockaddr*)&a, sizeof(a)); listen(l, 2); socklen_t len = sizeof(a); getsockname(l, (sockaddr*)&a, &len);
  BufferPool pool(8, 1 << 20); Driver driver; std::thread t(&Driver::Run, &driver);
  auto client = std::make_unique<SocketTcpAsync>(SocketTcpBuffered(SocketTcp(Address("127.0.0.1", std::to_string(ntohs(a.sin_port))))), driver, [](BufferPtr){}, [](Address, char const *){});
  int p = accept(l, 0, 0);
  std::vector<std::future<void>> futs;
  for(int i = 0; i < 8; ++i) { auto b = pool.Get(); b->assign(4 << 20, 'x'); futs.push_back(client->Send(std::move(b))); }
  std::this_thread::sleep_for(300ms);
  client.reset();
  int ready = 0, broken = 0, value = 0, other = 0;
  for(auto &f : futs) { if(f.wait_for(0s) == std::future_status::ready) { ++ready; try { f.get(); ++value; } catch(std::future_error const &e) { if(e.code() == std::future_errc::broken_promise) ++broken; else ++other; } catch(...) { ++other; } } }
  int back = 0; std::vector<BufferPtr> got; try { for(;;) { got.push_back(pool.Get()); ++back; } } catch(...) {}
  std::printf("after destroy: ready %d (value %d, broken_promise %d, other %d) of 8; buffers available in pool: %d of 8\n", ready, value, broken, other, back);
  got.clear(); driver.Stop(); t.join(); close(p); close(l);
}
