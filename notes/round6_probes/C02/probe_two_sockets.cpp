// probe (HEAD): socket A (registered first) is kept readable by a flooding peer and has a slow receive handler;
// socket B (registered second, idle, writable, reading peer) sends 4 bytes.
#include "sockpuppet/socket_async.h"
#include <arpa/inet.h>
#include <netinet/in.h>
#include <sys/socket.h>
#include <unistd.h>
#include <poll.h>
#include <atomic>
#include <chrono>
#include <cstdio>
#include <thread>
#include <vector>
using namespace sockpuppet; using namespace std::chrono; using namespace std::chrono_literals;
int main(int argc, char **argv) {
  setvbuf(stdout, nullptr, _IONBF, 0);
  bool bFirst = argc > 1;
  int l = socket(AF_INET, SOCK_STREAM, 0); sockaddr_in a{}; a.sin_family = AF_INET; a.sin_addr.s_addr = htonl(INADDR_LOOPBACK);
  bind(l, (sockaddr*)&a, sizeof(a)); listen(l, 2); socklen_t len = sizeof(a); getsockname(l, (sockaddr*)&a, &len);
  Address addr("127.0.0.1", std::to_string(ntohs(a.sin_port)));
  BufferPool pool; Driver driver; std::thread t(&Driver::Run, &driver);
  auto slow = [](BufferPtr){ std::this_thread::sleep_for(1ms); };
  auto none = [](BufferPtr){};
  auto dis = [](Address, char const *){};
  std::unique_ptr<SocketTcpAsync> A, B; int pa, pb;
  if(bFirst) { B.reset(new SocketTcpAsync({SocketTcp(addr)}, driver, none, dis)); pb = accept(l, 0, 0); A.reset(new SocketTcpAsync({SocketTcp(addr)}, driver, slow, dis)); pa = accept(l, 0, 0); }
  else       { A.reset(new SocketTcpAsync({SocketTcp(addr)}, driver, slow, dis)); pa = accept(l, 0, 0); B.reset(new SocketTcpAsync({SocketTcp(addr)}, driver, none, dis)); pb = accept(l, 0, 0); }
  std::atomic<bool> stop{false};
  std::thread flood([&]{ std::vector<char> junk(65536, 'x'); while(!stop) { pollfd pf{pa, POLLOUT, 0}; if(poll(&pf, 1, 50) > 0) send(pa, junk.data(), junk.size(), MSG_DONTWAIT | MSG_NOSIGNAL); } });
  std::this_thread::sleep_for(200ms);
  auto t0 = steady_clock::now();
  auto b = pool.Get(); b->assign("ping"); auto f = B->Send(std::move(b));
  auto st = f.wait_for(3s);
  std::printf("B registered %s A: B's future %s after %ld ms of flood on A\n", bFirst ? "before" : "after",
    st == std::future_status::ready ? "ready" : "STILL PENDING", (long)duration_cast<milliseconds>(steady_clock::now() - t0).count());
  stop = true; flood.join();
  if(st != std::future_status::ready) { f.wait(); std::printf("flood stopped: B's future ready %ld ms after Send\n", (long)duration_cast<milliseconds>(steady_clock::now() - t0).count()); }
  driver.Stop(); t.join(); A.reset(); B.reset(); close(pa); close(pb); close(l);
}
