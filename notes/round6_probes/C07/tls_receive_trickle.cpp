// probe: established TLS connection, a record that arrives in many small TCP pieces
#include "sockpuppet/socket.h"
#include <arpa/inet.h>
#include <netinet/in.h>
#include <netinet/tcp.h>
#include <sys/socket.h>
#include <unistd.h>
#include <poll.h>
#include <atomic>
#include <chrono>
#include <cstdio>
#include <thread>
#include <string>
using namespace sockpuppet;
using Clk = std::chrono::steady_clock;
static double ms(Clk::duration d){ return std::chrono::duration<double,std::milli>(d).count(); }
static std::atomic<bool> dribble{false}, stop{false};
int main(int argc, char **argv)
{
  int T = argc > 1 ? atoi(argv[1]) : 100;
  int gapUs = argc > 2 ? atoi(argv[2]) : 1000;
  const char *cert = "build-tls/test_cert.pem", *key = "build-tls/test_key.pem";
  Acceptor acc(Address("127.0.0.1:0"), cert, key);
  uint16_t srvPort = acc.LocalAddress().Port();
  // proxy
  int ls = socket(AF_INET, SOCK_STREAM, 0);
  sockaddr_in a{}; a.sin_family = AF_INET; a.sin_addr.s_addr = htonl(INADDR_LOOPBACK); a.sin_port = 0;
  bind(ls, (sockaddr*)&a, sizeof a); listen(ls, 1);
  socklen_t al = sizeof a; getsockname(ls, (sockaddr*)&a, &al);
  uint16_t proxyPort = ntohs(a.sin_port);
  std::thread proxy([&]{
    int c = accept(ls, nullptr, nullptr);
    int s = socket(AF_INET, SOCK_STREAM, 0);
    sockaddr_in sa{}; sa.sin_family = AF_INET; sa.sin_addr.s_addr = htonl(INADDR_LOOPBACK); sa.sin_port = htons(srvPort);
    connect(s, (sockaddr*)&sa, sizeof sa);
    int one = 1; setsockopt(c, IPPROTO_TCP, TCP_NODELAY, &one, sizeof one);
    char buf[65536];
    while(!stop) {
      pollfd p[2] = {{c, POLLIN, 0}, {s, POLLIN, 0}};
      if(poll(p, 2, 20) <= 0) continue;
      if(p[0].revents) { auto n = recv(c, buf, sizeof buf, 0); if(n <= 0) break; send(s, buf, n, MSG_NOSIGNAL); }
      if(p[1].revents) { auto n = recv(s, buf, sizeof buf, 0); if(n <= 0) break;
        if(!dribble) send(c, buf, n, MSG_NOSIGNAL);
        else for(ssize_t i = 0; i < n; ++i) { send(c, buf + i, 1, MSG_NOSIGNAL); std::this_thread::sleep_for(std::chrono::microseconds(gapUs)); } }
    }
    close(c); close(s);
  });
  std::thread srv([&]{
    try {
      auto [s, from] = *acc.Listen(Duration(2000));
      char b[16];
      (void)s.Receive(b, sizeof b); // "go"
      s.Send("ready", 5);
      (void)s.Receive(b, sizeof b); // "now"
      std::string payload(200, 'p');
      s.Send(payload.data(), payload.size());
      (void)s.Receive(b, sizeof b, Duration(3000));
    } catch(std::exception const &e) { }
  });
  {
    SocketTcp c(Address("127.0.0.1:" + std::to_string(proxyPort)), cert, key);
    char b[1024];
    c.Send("go", 2);
    (void)c.Receive(b, sizeof b); // ready
    dribble = true;
    c.Send("now", 3);
    auto t0 = Clk::now();
    auto r = c.Receive(b, sizeof b, Duration(T));
    auto el = ms(Clk::now()-t0);
    std::printf("TLS Receive(%d) while a 200-byte record trickles in 1 byte per %d us: -> %s after %.1f ms %s\n",
      T, gapUs, r ? "data" : "nullopt", el, (!r && el < T) ? "EARLY" : "");
  }
  stop = true;
  proxy.join(); srv.join();
}
