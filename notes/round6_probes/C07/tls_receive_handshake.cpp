// probe: TLS Receive(T) with handshake happening inside, no app data
#include "sockpuppet/socket.h"
#include <chrono>
#include <cstdio>
#include <thread>
#include <cstdlib>
using namespace sockpuppet;
using Clk = std::chrono::steady_clock;
static double ms(Clk::duration d){ return std::chrono::duration<double,std::milli>(d).count(); }
int main(int argc, char **argv)
{
  int T = argc > 1 ? atoi(argv[1]) : 50;
  const char *cert = "build-tls/test_cert.pem", *key = "build-tls/test_key.pem";
  Acceptor acc(Address("localhost:0"), cert, key);
  Address addr = acc.LocalAddress();
  std::thread cl([&]{
    SocketTcp c(addr, cert, key);
    char b[16];
    auto t0 = Clk::now();
    auto r = c.Receive(b, sizeof b, Duration(T + 500));
    std::printf("client: Receive(%d) -> %s after %.3f ms\n", T+500, r ? "data" : "nullopt", ms(Clk::now()-t0));
  });
  auto [s, from] = *acc.Listen(Duration(2000));
  char b[16];
  auto t0 = Clk::now();
  auto r = s.Receive(b, sizeof b, Duration(T));
  auto el = ms(Clk::now()-t0);
  std::printf("server: Receive(%d) -> %s after %.3f ms  (%s)\n", T, r ? "data" : "nullopt", el, el < T ? "EARLY" : "ok");
  cl.join();
}
