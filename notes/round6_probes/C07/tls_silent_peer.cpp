// probe: TLS client against a silent raw TCP peer
#include "sockpuppet/socket.h"
#include <arpa/inet.h>
#include <netinet/in.h>
#include <sys/socket.h>
#include <unistd.h>
#include <chrono>
#include <cstdio>
#include <string>
#include <memory>
using namespace sockpuppet;
using Clk = std::chrono::steady_clock;
static double ms(Clk::duration d){ return std::chrono::duration<double,std::milli>(d).count(); }
int main()
{
  const char *cert = "build-tls/test_cert.pem", *key = "build-tls/test_key.pem";
  int ls = socket(AF_INET, SOCK_STREAM, 0);
  sockaddr_in a{}; a.sin_family = AF_INET; a.sin_addr.s_addr = htonl(INADDR_LOOPBACK);
  bind(ls, (sockaddr*)&a, sizeof a); listen(ls, 8);
  socklen_t al = sizeof a; getsockname(ls, (sockaddr*)&a, &al);
  Address addr("127.0.0.1:" + std::to_string(ntohs(a.sin_port)));
  char b[64];
  for(int T : {300, 0}) {
    auto c = std::make_unique<SocketTcp>(addr, cert, key);
    auto t0 = Clk::now(); auto n = c->Send("hello", 5, Duration(T));
    std::printf("Send(T=%d) to silent peer -> %zu after %.1f ms\n", T, n, ms(Clk::now()-t0));
    t0 = Clk::now(); auto r = c->Receive(b, sizeof b, Duration(T));
    std::printf("Receive(T=%d) from silent peer -> %s after %.1f ms\n", T, r ? "data":"nullopt", ms(Clk::now()-t0));
    t0 = Clk::now(); c.reset();
    std::printf("destructor after that: %.1f ms\n", ms(Clk::now()-t0));
  }
  { auto c = std::make_unique<SocketTcp>(addr, cert, key);
    auto t0 = Clk::now(); c.reset();
    std::printf("destructor of never-used TLS client (silent peer): %.1f ms\n", ms(Clk::now()-t0)); }
}
