// probe: TLS Send(T) of much data to a peer that stops reading after the handshake
#include "sockpuppet/socket.h"
#include <chrono>
#include <cstdio>
#include <thread>
#include <cstdlib>
#include <vector>
#include <atomic>
using namespace sockpuppet;
using Clk = std::chrono::steady_clock;
static double ms(Clk::duration d){ return std::chrono::duration<double,std::milli>(d).count(); }
int main(int argc, char **argv)
{
  int T = argc > 1 ? atoi(argv[1]) : 200;
  size_t N = argc > 2 ? atol(argv[2]) : (64u << 20);
  bool tls = !(argc > 3 && argv[3][0] == 'p');
  const char *cert = "build-tls/test_cert.pem", *key = "build-tls/test_key.pem";
  Acceptor acc = tls ? Acceptor(Address("localhost:0"), cert, key) : Acceptor(Address("localhost:0"));
  Address addr = acc.LocalAddress();
  std::atomic<bool> done{false};
  std::thread cl([&]{
    SocketTcp c = tls ? SocketTcp(addr, cert, key) : SocketTcp(addr);
    char b[16];
    c.Send("hello", 5); // handshake + one record
    (void)c.Receive(b, sizeof b, Duration(1000)); // get "ready"
    while(!done) std::this_thread::sleep_for(std::chrono::milliseconds(10));
  });
  auto [s, from] = *acc.Listen(Duration(2000));
  char b[16];
  (void)s.Receive(b, sizeof b);
  s.Send("ready", 5);
  std::vector<char> data(N, 'x');
  auto t0 = Clk::now();
  auto sent = s.Send(data.data(), data.size(), Duration(T));
  auto el = ms(Clk::now()-t0);
  std::printf("%s server: Send(%zu bytes, T=%d) -> %zu after %.3f ms  (%s)\n", tls?"TLS":"TCP", N, T, sent, el,
     sent < N ? (el < T ? "SHORT AND EARLY" : (el > T + 20 ? "LATE" : "ok")) : "all sent");
  done = true;
  cl.join();
}
