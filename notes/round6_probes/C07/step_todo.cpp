#include "sockpuppet/socket_async.h"
#include <chrono>
#include <cstdio>
using namespace sockpuppet;
using Clk = std::chrono::steady_clock;
static double ms(Clk::duration d){ return std::chrono::duration<double,std::milli>(d).count(); }
static int ran;
int main()
{
  for(int rep = 0; rep < 2; ++rep) {
    { Driver driver;
      auto t0 = Clk::now(); driver.Step(Duration(50));
      std::printf("Step(50), nothing pending: %.3f ms\n", ms(Clk::now()-t0)); }
    { Driver driver; ran = 0;
      ToDo todo(driver, [&]{ ran++; }, Duration(0));
      auto t0 = Clk::now(); driver.Step(Duration(50));
      std::printf("Step(50), one ToDo due now (ran=%d): %.3f ms\n", ran, ms(Clk::now()-t0)); }
    { Driver driver; ran = 0;
      ToDo todo(driver, [&]{ ran++; }, Clk::now() + std::chrono::microseconds(10900));
      auto t0 = Clk::now(); driver.Step(Duration(50));
      auto e1 = ms(Clk::now()-t0); int r1 = ran;
      driver.Step(Duration(50));
      auto e2 = ms(Clk::now()-t0); int r2 = ran;
      driver.Step(Duration(50));
      std::printf("Step(50), ToDo due at 10.9 ms: 1st Step until %.3f ms (ran=%d), 2nd until %.3f (ran=%d), 3rd until %.3f (ran=%d)\n", e1, r1, e2, r2, ms(Clk::now()-t0), ran); }
    { Driver driver; ran = 0;
      ToDo todo(driver, [&]{ ran++; }, Duration(20));
      auto t0 = Clk::now(); driver.Step(Duration(-1));
      auto e1 = ms(Clk::now()-t0);
      std::printf("Step(-1), ToDo due in 20 ms: %.3f ms ran=%d\n", e1, ran); }
    { Driver driver; ran = 0;
      ToDo todo(driver, [&]{ ran++; }, Duration(20));
      auto t0 = Clk::now(); driver.Step(Duration(0));
      auto e1 = ms(Clk::now()-t0);
      std::printf("Step(0), ToDo due in 20 ms: %.3f ms ran=%d\n", e1, ran); }
    { Driver driver; ran = 0;
      ToDo todo(driver, [&]{ ran++; }, Duration(200));
      auto t0 = Clk::now(); driver.Step(Duration(50));
      auto e1 = ms(Clk::now()-t0);
      std::printf("Step(50), ToDo due in 200 ms: %.3f ms ran=%d\n", e1, ran); }
  }
}
