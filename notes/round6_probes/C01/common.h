// probe helpers
#include "sockpuppet/socket.h"
#include "sockpuppet/socket_buffered.h"
#include <atomic>
#include <chrono>
#include <cstdio>
#include <cstring>
#include <future>
#include <iostream>
#include <string>
#include <thread>
#include <vector>
using namespace sockpuppet;
using namespace std::chrono_literals;
static const char *CERT = "/tmp/seed6/C01/build-tls/test_cert.pem";
static const char *KEY = "/tmp/seed6/C01/build-tls/test_key.pem";
inline std::string Pattern(size_t n, unsigned seed = 1) {
  std::string s(n, 0);
  unsigned x = seed;
  for(size_t i = 0; i < n; ++i) { x = x * 1664525u + 1013904223u; s[i] = char(x >> 24); }
  return s;
}
