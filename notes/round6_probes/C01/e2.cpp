#include "common.h"
// E2: after a Receive that timed out, does Send(limited) make progress? does Send(unlimited) block?
int main(int argc, char **argv) {
  bool tls = argc > 1 && std::string(argv[1]) == "tls";
  Acceptor acc = tls ? Acceptor(Address("localhost:0"), CERT, KEY) : Acceptor(Address("localhost:0"));
  auto addr = acc.LocalAddress();
  std::thread srv([&] {
    auto [s, a] = acc.Listen().value();
    char buf[65536]; size_t total = 0;
    try { for(;;) { auto r = s.Receive(buf, sizeof buf); total += *r; printf("srv: got %zu (total %zu)\n", *r, total);} }
    catch(std::exception &e) { printf("srv: closed: %s (total %zu)\n", e.what(), total); }
  });
  std::this_thread::sleep_for(300ms);
  {
    SocketTcp c = tls ? SocketTcp(addr, CERT, KEY) : SocketTcp(addr);
    char b[100];
    printf("send#1 -> %zu\n", c.Send("hello", 5));      // handshake + data
    auto r = c.Receive(b, sizeof b, 50ms);              // times out (peer never sends app data)
    printf("recv(50ms) -> %s\n", r ? "data" : "nullopt");
    r = c.Receive(b, sizeof b, 50ms);              // times out (peer never sends app data)
    printf("recv(50ms) -> %s\n", r ? "data" : "nullopt");
    for(int i = 0; i < 3; ++i) {
      auto t0 = std::chrono::steady_clock::now();
      size_t n = c.Send("world", 5, 200ms);
      printf("send(200ms) -> %zu after %lld ms\n", n, (long long)std::chrono::duration_cast<std::chrono::milliseconds>(std::chrono::steady_clock::now() - t0).count());
    }
    size_t n = c.Send("world", 5, 0ms);
    printf("send(0) -> %zu\n", n);
  }
  srv.join();
}
