#include "common.h"
#include <random>
// E6: randomized stream integrity stress on HEAD: sizes 0..300000, timeouts mix, receiver random buffer / timeouts / sleeps
int main(int argc, char **argv) {
  bool tls = argc > 1 && std::string(argv[1]) == "tls";
  unsigned seed = argc > 2 ? atoi(argv[2]) : 1;
  bool buffered = argc > 3 && std::string(argv[3]) == "buf";
  size_t total = 40 << 20;
  Acceptor acc = tls ? Acceptor(Address("localhost:0"), CERT, KEY) : Acceptor(Address("localhost:0"));
  auto addr = acc.LocalAddress();
  auto data = Pattern(total, seed);
  std::string rx; rx.reserve(total);
  int zeros = 0, over = 0;
  std::thread srv([&] {
    std::mt19937 g(seed * 7 + 1);
    auto [s0, a] = acc.Listen().value();
    try {
      if(buffered) {
        SocketTcpBuffered s(std::move(s0), 4, 1 + g() % 40000);
        for(;;) {
          Duration to = (g() % 3 == 0) ? Duration(-1) : (g() % 2 ? Duration(0) : Duration(g() % 3000000));
          auto r = s.Receive(to);
          if(r) { if((*r)->empty()) ++zeros; rx += **r; }
          if(g() % 200 == 0) std::this_thread::sleep_for(std::chrono::milliseconds(g() % 30));
        }
      } else {
        SocketTcp s(std::move(s0));
        std::vector<char> buf(70000);
        for(;;) {
          size_t bs = (g() % 4 == 0) ? 1 + g() % 8 : 1 + g() % 70000;
          Duration to = (g() % 3 == 0) ? Duration(-1) : (g() % 2 ? Duration(0) : Duration(g() % 3000000));
          auto r = s.Receive(buf.data(), bs, to);
          if(r) { if(*r == 0) ++zeros; if(*r > bs) ++over; rx.append(buf.data(), *r); }
          if(g() % 200 == 0) std::this_thread::sleep_for(std::chrono::milliseconds(g() % 30));
        }
      }
    } catch(std::exception &e) { printf("srv: closed: %s\n", e.what()); }
  });
  std::this_thread::sleep_for(300ms);
  int shortUnlimited = 0, overSend = 0;
  {
    std::mt19937 g(seed);
    SocketTcp c = tls ? SocketTcp(addr, CERT, KEY) : SocketTcp(addr);
    size_t pos = 0;
    while(pos < total) {
      size_t sz = (g() % 5 == 0) ? g() % 300000 : g() % 20000;
      sz = std::min(sz, total - pos);
      std::string_view rem(data.data() + pos, sz);
      // one logical message: retry remainder until done, each attempt with a random timeout mode
      do {
        Duration to = (g() % 3 == 0) ? Duration(-1) : (g() % 2 ? Duration(0) : Duration(g() % 2000000));
        size_t n = c.Send(rem.data(), rem.size(), to);
        if(n > rem.size()) ++overSend;
        if(to.count() < 0 && n != rem.size()) ++shortUnlimited;
        rem.remove_prefix(n);
      } while(!rem.empty());
      pos += sz;
    }
  }
  srv.join();
  bool ok = rx == data;
  printf("%s seed %u: rx %zu/%zu equal=%d zeros=%d over=%d shortUnlimited=%d overSend=%d\n", argv[1], seed, rx.size(), total, ok, zeros, over, shortUnlimited, overSend);
  return ok && !zeros && !over && !shortUnlimited && !overSend ? 0 : 1;
}
