#include "common.h"
// E2b: TLS: after a timed-out Receive, Send(unlimited) blocks until the PEER sends something
int main(int argc, char **argv) {
  bool tls = argc > 1 && std::string(argv[1]) == "tls";
  Acceptor acc = tls ? Acceptor(Address("localhost:0"), CERT, KEY) : Acceptor(Address("localhost:0"));
  auto addr = acc.LocalAddress();
  std::thread srv([&] {
    auto [s, a] = acc.Listen().value();
    char buf[100];
    auto r = s.Receive(buf, sizeof buf); printf("srv: got %zu\n", *r);
    std::this_thread::sleep_for(3s);
    printf("srv: 3 s passed, sending 1 byte\n");
    s.Send("x", 1);
    try { for(;;) { auto r = s.Receive(buf, sizeof buf); printf("srv: got %zu\n", *r);} } catch(std::exception &e) { printf("srv: %s\n", e.what()); }
  });
  std::this_thread::sleep_for(300ms);
  SocketTcp c = tls ? SocketTcp(addr, CERT, KEY) : SocketTcp(addr);
  char b[100];
  printf("send#1 -> %zu\n", c.Send("hello", 5));
  auto r = c.Receive(b, sizeof b, 50ms);
  printf("recv(50ms) -> %s\n", r ? "data" : "nullopt");
  auto t0 = std::chrono::steady_clock::now();
  size_t n = c.Send("world", 5); // unlimited
  printf("send(unlimited) -> %zu after %lld ms\n", n, (long long)std::chrono::duration_cast<std::chrono::milliseconds>(std::chrono::steady_clock::now() - t0).count());
  { SocketTcp d = std::move(c); }
  srv.join();
}
