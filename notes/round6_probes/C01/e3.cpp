#include "common.h"
// E3: A (server) answers with N bytes and closes. B (client) keeps sending after A closed; B's Send eventually throws.
// Does B still receive all N bytes afterwards?
int main(int argc, char **argv) {
  bool tls = argc > 1 && std::string(argv[1]) == "tls";
  size_t N = argc > 2 ? atoi(argv[2]) : 40000;
  Acceptor acc = tls ? Acceptor(Address("localhost:0"), CERT, KEY) : Acceptor(Address("localhost:0"));
  auto addr = acc.LocalAddress();
  auto data = Pattern(N);
  std::thread srv([&] {
    auto [s, a] = acc.Listen().value();
    char buf[100];
    auto r = s.Receive(buf, sizeof buf);
    printf("A: got request (%zu bytes)\n", *r);
    size_t n = s.Send(data.data(), data.size());
    printf("A: sent %zu, closing\n", n);
  });
  std::this_thread::sleep_for(300ms);
  std::string rx;
  {
    SocketTcp c = tls ? SocketTcp(addr, CERT, KEY) : SocketTcp(addr);
    c.Send("req1", 4);
    srv.join(); // A has closed
    std::this_thread::sleep_for(200ms);
    for(int i = 0; i < 5; ++i) {
      try { size_t n = c.Send("req2", 4, 100ms); printf("B: send -> %zu\n", n); }
      catch(std::exception &e) { printf("B: send threw: %s\n", e.what()); break; }
      std::this_thread::sleep_for(100ms);
    }
    char buf[4096];
    try { for(;;) { auto r = c.Receive(buf, sizeof buf, 1s); if(!r) { printf("B: recv timeout\n"); break; } if(*r == 0) printf("B: recv 0!\n"); rx.append(buf, *r); } }
    catch(std::exception &e) { printf("B: recv threw: %s\n", e.what()); }
  }
  printf("B received %zu of %zu; equal=%d\n", rx.size(), N, (int)(rx == data));
  return rx == data ? 0 : 1;
}
