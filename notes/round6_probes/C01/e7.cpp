#include "common.h"
// E7: TLS, zero-timeout Sends of 50000 bytes into a slow reader. After a partial count the caller
// continues the stream the way it would on plain TCP: the next Send starts at the first unsent byte
// but is again up to 50000 bytes long (= unsent remainder + following bytes).
int main(int argc, char **argv) {
  bool tls = argc > 1 && std::string(argv[1]) == "tls";
  Acceptor acc = tls ? Acceptor(Address("localhost:0"), CERT, KEY) : Acceptor(Address("localhost:0"));
  auto addr = acc.LocalAddress();
  size_t total = 20 << 20;
  auto data = Pattern(total);
  std::string rx;
  std::thread srv([&] {
    auto [s, a] = acc.Listen().value();
    std::vector<char> b(16384);
    try { for(;;) { auto r = s.Receive(b.data(), b.size()); rx.append(b.data(), *r); std::this_thread::sleep_for(1ms); } }
    catch(std::exception &e) { printf("srv: %s\n", e.what()); }
  });
  std::this_thread::sleep_for(300ms);
  {
    SocketTcp c = tls ? SocketTcp(addr, CERT, KEY) : SocketTcp(addr);
    size_t pos = 0; int partial = 0;
    while(pos < total) {
      size_t want = std::min<size_t>(50000, total - pos);
      size_t n = c.Send(data.data() + pos, want, Duration(0));
      if(n != want && n != 0 && partial++ < 5) printf("Send(%zu, 0) at offset %zu -> %zu\n", want, pos, n);
      pos += n;
    }
    printf("no abort; accounted %zu\n", pos);
  }
  srv.join();
  printf("received %zu equal=%d\n", rx.size(), (int)(rx == data));
}
