#include "common.h"
// E1: sender fills pipe with t=0 sends until 0; then destroys; receiver then drains.
int main(int argc, char **argv) {
  bool tls = argc > 1 && std::string(argv[1]) == "tls";
  Acceptor acc = tls ? Acceptor(Address("localhost:0"), CERT, KEY) : Acceptor(Address("localhost:0"));
  auto addr = acc.LocalAddress();
  std::promise<void> closed;
  std::atomic<size_t> got{0};
  std::string rx;
  std::thread srv([&] {
    auto [s, a] = acc.Listen().value();
    if(tls) { // complete the handshake: needs a receive
      char b[1]; try { auto r = s.Receive(b, 1, 2s); if(r) rx.append(b, *r);} catch(std::exception &e) { printf("srv hs exc %s\n", e.what()); }
    }
    closed.get_future().wait();
    std::this_thread::sleep_for(200ms);
    char buf[65536];
    try { for(;;) { auto r = s.Receive(buf, sizeof buf); rx.append(buf, *r); } }
    catch(std::exception &e) { printf("srv: closed: %s\n", e.what()); }
  });
  size_t acc_n = 0;
  auto data = Pattern(64 << 20);
  {
    SocketTcp c = tls ? SocketTcp(addr, CERT, KEY) : SocketTcp(addr);
    size_t pos = 0; int zeros = 0;
    size_t chunk = argc > 2 ? atoi(argv[2]) : 10000;
    while(zeros < 3) {
      size_t n = c.Send(data.data() + pos, chunk, argc > 3 ? Duration(atoi(argv[3])) : Duration(0));
      if(n == 0) { ++zeros; std::this_thread::sleep_for(50ms);} else { pos += n; }
    }
    acc_n = pos;
    printf("client: accounted %zu bytes; destroying\n", acc_n);
    auto t0 = std::chrono::steady_clock::now();
    std::thread t([&]{ std::this_thread::sleep_for(100ms); closed.set_value(); });
    { SocketTcp dead = std::move(c); }
    t.join();
    printf("client: destroyed after %lld ms\n", (long long)std::chrono::duration_cast<std::chrono::milliseconds>(std::chrono::steady_clock::now() - t0).count());
  }
  srv.join();
  printf("receiver got %zu bytes, sender accounted %zu; prefix-equal=%d\n", rx.size(), acc_n, (int)(rx.size() <= data.size() && memcmp(rx.data(), data.data(), rx.size()) == 0));
  return rx.size() == acc_n ? 0 : 1;
}
