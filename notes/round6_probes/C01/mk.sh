#!/bin/sh
# usage: mk.sh name [libdir]
LIB=${2:-/tmp/seed6/C01/build-tls} # directory holding libsockpuppet.a (cmake -DWITH_TLS=ON build)
g++ -std=c++17 -g -DSOCKPUPPET_WITH_TLS -I/tmp/seed6/C01/include $1.cpp $LIB/libsockpuppet.a -lssl -lcrypto -lpthread -o $1
