#include "common.h"
// E5: A sends N bytes (unlimited Send returns N) and closes while U bytes sent by B are still unread at A.
// B reads slowly. Does B obtain all N bytes before the closure is reported?
int main(int argc, char **argv) {
  bool tls = argc > 1 && std::string(argv[1]) == "tls";
  size_t N = argc > 2 ? atol(argv[2]) : 8 << 20;
  size_t U = argc > 3 ? atol(argv[3]) : 100;
  Acceptor acc = tls ? Acceptor(Address("localhost:0"), CERT, KEY) : Acceptor(Address("localhost:0"));
  auto addr = acc.LocalAddress();
  auto data = Pattern(N);
  std::promise<void> go;
  size_t sentA = 0;
  std::thread A([&] {
    auto [s, a] = acc.Listen().value();
    char buf[16];
    auto r = s.Receive(buf, 4);  // reads only the 4 byte request, leaves U bytes unread
    go.get_future().wait();
    sentA = s.Send(data.data(), data.size());
    printf("A: unlimited Send returned %zu; closing with unread input\n", sentA);
  });
  std::this_thread::sleep_for(300ms);
  std::string rx;
  {
    SocketTcp c = tls ? SocketTcp(addr, CERT, KEY) : SocketTcp(addr);
    c.Send("req1", 4);
    if(U) { std::string junk(U, 'u'); c.Send(junk.data(), junk.size()); }
    std::this_thread::sleep_for(200ms);
    go.set_value();
    if(getenv("BSLEEP")) std::this_thread::sleep_for(std::chrono::milliseconds(atoi(getenv("BSLEEP"))));
    std::vector<char> buf(65536);
    try { for(;;) { auto r = c.Receive(buf.data(), buf.size()); rx.append(buf.data(), *r); std::this_thread::sleep_for(2ms);} }
    catch(std::exception &e) { printf("B: recv threw: %s\n", e.what()); }
  }
  A.join();
  printf("%s N=%zu U=%zu: A accounted %zu, B received %zu, prefix-equal=%d\n", argv[1], N, U, sentA, rx.size(), (int)(memcmp(rx.data(), data.data(), rx.size()) == 0));
  return rx.size() == sentA ? 0 : 1;
}
