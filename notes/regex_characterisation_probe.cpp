// DESIGN-TIME PROBE - not part of the framework. Differential test of the hand characterisation of the
// three regular expressions of address_impl.cpp:28-66 against std::regex (8 000 000 random strings, 0 differences).
// differential: std::regex UriDissect (copied logic) vs hand characterisation
#include <regex>
#include <string>
#include <string_view>
#include <iostream>
#include <random>
#include <optional>
struct R { int kind; std::string host, serv; bool numeric; }; // kind 0 ok, 1 nonmatch
static R viaRegex(std::string_view uri){
  R r{0,"","",false};
  std::cmatch match;
  static std::regex const reServ(R"(((^\w+)?://)?([^/]+)/?.*$)");
  if(std::regex_match(uri.data(), uri.data()+uri.size(), match, reServ)){
    if(match[2].matched) r.serv = match[2].str();
    uri = {match[3].first, static_cast<size_t>(match[3].length())};
    static std::regex const rePortBracket(R"(^\[(.*)\]:(\d+$))");
    static std::regex const rePort(R"((^[^:]+):(\d+$))");
    if(std::regex_match(uri.data(), uri.data()+uri.size(), match, rePortBracket) ||
       std::regex_match(uri.data(), uri.data()+uri.size(), match, rePort)){
      r.host = match[1].str(); r.serv = match[2].str(); r.numeric = true;
    } else r.host = std::string(uri);
  } else r.kind = 1;
  return r;
}
static bool isw(char c){ return (c>='a'&&c<='z')||(c>='A'&&c<='Z')||(c>='0'&&c<='9')||c=='_'; }
static bool isd(char c){ return c>='0'&&c<='9'; }
static bool isnl(char c){ return c=='\n'||c=='\r'; }
// try to match  [^/]+ /? .* $  starting at pos p ; returns authority [p,q) if ok
static std::optional<std::pair<size_t,size_t>> tail(std::string_view u, size_t p){
  if(p>=u.size() || u[p]=='/') return std::nullopt;
  size_t q=p; while(q<u.size() && u[q]!='/') q++;
  // remainder after optional '/'
  // if any newline in u[q..] -> longest fails; shorter: .* must cover u[k..] for k<q as well
  // .* cannot contain newline: all alternatives need u[k..end) newline-free for some split.
  // splits: authority=[p,k) 1<=k-p, then optional '/', then .* over rest.
  for(size_t k=q; k>p; --k){ // greedy: longest first
    size_t rest = k;
    if(rest<u.size() && u[rest]=='/') { // try consuming '/'
      bool ok=true; for(size_t i=rest+1;i<u.size();++i) if(isnl(u[i])){ok=false;break;}
      if(ok) return std::make_pair(p,k);
    }
    { bool ok=true; for(size_t i=rest;i<u.size();++i) if(isnl(u[i])){ok=false;break;}
      if(ok) return std::make_pair(p,k); }
  }
  return std::nullopt;
}
static R viaHand(std::string_view u){
  R r{0,"","",false};
  std::optional<std::pair<size_t,size_t>> a; bool scheme=false; size_t k=0;
  while(k<u.size() && isw(u[k])) k++;
  // scheme alternative: \w+ greedy may backtrack to shorter, but then next char is \w, not ':' -> only maximal run (or empty group)
  if(u.substr(k,3)=="://"){ a = tail(u,k+3); if(a){ scheme = (k>0); } }
  if(!a && k>0 && false){}
  if(!a){ // group 2 skipped but group 1 present: "://" at position 0 only when k==0 (already covered). no-scheme alternative:
    a = tail(u,0); scheme=false; }
  if(!a){ r.kind=1; return r; }
  if(scheme) r.serv = std::string(u.substr(0,k));
  std::string_view au = u.substr(a->first, a->second - a->first);
  // bracket: ^\[(.*)\]:(\d+$)
  size_t j = au.size(); while(j>0 && isd(au[j-1])) j--;
  bool done=false;
  if(j<au.size() && au.size()>=4 && au[0]=='[' && j>=3 && au[j-1]==':' && au[j-2]==']'){
    std::string_view x = au.substr(1, j-3);
    bool ok=true; for(char c: x) if(isnl(c)) ok=false;
    if(ok){ r.host=std::string(x); r.serv=std::string(au.substr(j)); r.numeric=true; done=true; }
  }
  if(!done && j<au.size() && j>=2 && au[j-1]==':'){
    std::string_view h = au.substr(0,j-1);
    if(h.find(':')==std::string_view::npos){ r.host=std::string(h); r.serv=std::string(au.substr(j)); r.numeric=true; done=true; }
  }
  if(!done) r.host=std::string(au);
  return r;
}
int main(int argc,char**argv){
  std::mt19937_64 g(argc>1?std::stoull(argv[1]):1);
  const char alpha[] = {'a','1',':','/','[',']','\n','_','-','.','7',':','/','h','\r','\0',(char)0xC3};
  size_t N = argc>2?std::stoull(argv[2]):2000000, bad=0;
  for(size_t it=0; it<N; ++it){
    size_t len = g()%14; std::string s;
    for(size_t i=0;i<len;i++) s.push_back(alpha[g()%sizeof(alpha)]);
    if(g()%3==0){ static const char* pre[]={"http://","://","a://","1://","[","[::1]:","h:"}; s = std::string(pre[g()%7]) + s; }
    auto a=viaRegex(s), b=viaHand(s);
    if(a.kind!=b.kind || a.host!=b.host || a.serv!=b.serv || a.numeric!=b.numeric){
      if(bad<15){ std::cout<<"DIFF on ["; for(unsigned char c: s){ if(c<32||c>126) std::cout<<"\\x"<<std::hex<<(int)c<<std::dec; else std::cout<<c;} std::cout<<"] regex=("<<a.kind<<",'"<<a.host.size()<<":"<<a.host<<"','"<<a.serv<<"',"<<a.numeric<<") hand=("<<b.kind<<",'"<<b.host.size()<<":"<<b.host<<"','"<<b.serv<<"',"<<b.numeric<<")\n"; }
      bad++;
    }
  }
  std::cout<<"cases="<<N<<" diffs="<<bad<<"\n";
}
