#pragma once
#include <deque>
#include <vector>
namespace fakessl { extern std::deque<std::vector<long long>> script; }
