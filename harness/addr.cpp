// addr.cpp — harness for the Address properties (C11, C12, C13) against the REAL resolver and kernel.
//   U <hexuri>            Address(uri)                     P <hexhost> <hexserv>   Address(host, serv)
//   N <port>              Address(port)                    X                        end of input
// Each construction runs in a forked child on a thread with a small, painted stack (stack high-water mark is
// reported); getaddrinfo is interposed (logged, then forwarded to glibc) so that what the library hands to the
// resolver can be compared with the model's dissector.
//   POOL                  builds a pool of Addresses of every provenance (parsed, from port, from sockets) and prints
//                         raw bytes, ground truth and the full ==, <, hash tables (C13)
#include <arpa/inet.h>
#include <cstdio>
#include <cstring>
#include <dlfcn.h>
#include <functional>
#include <iostream>
#include <map>
#include <netdb.h>
#include <pthread.h>
#include <set>
#include <sstream>
#include <string>
#include <sys/mman.h>
#include <sys/resource.h>
#include <sys/socket.h>
#include <sys/wait.h>
#include <system_error>
#include <unistd.h>
#include <unordered_map>
#include <vector>
#include <future>
#include <optional>
#include <mutex>
#include <atomic>
#include <queue>
#include <variant>
#include <poll.h>

#define private public
#include "sockpuppet/address.h"
#include "sockpuppet/socket.h"
#include "sockpuppet/socket_buffered.h"
#include "sockpuppet/socket_async.h"
#include "address_impl.h"
#undef private

using namespace sockpuppet;

static std::string hex(std::string const &s)
{
  static char const *d = "0123456789abcdef";
  std::string r;
  for(unsigned char c : s) { r += d[c >> 4]; r += d[c & 15]; }
  return r.empty() ? "-" : r;
}
static std::string unhex(std::string const &h)
{
  if(h == "-") return {};
  std::string r;
  for(size_t i = 0; i + 1 < h.size(); i += 2) r += static_cast<char>(std::stoi(h.substr(i, 2), nullptr, 16));
  return r;
}

static bool g_log_gai = false;
static std::string g_out;

extern "C" int getaddrinfo(const char *node, const char *service, const struct addrinfo *hints, struct addrinfo **res)
{
  using Fn = int (*)(const char *, const char *, const struct addrinfo *, struct addrinfo **);
  static Fn real = reinterpret_cast<Fn>(dlsym(RTLD_NEXT, "getaddrinfo"));
  // no name service in the sandbox: anything but "localhost" is resolved as a numeric host only (no DNS time-outs)
  struct addrinfo h2;
  if(hints) h2 = *hints; else memset(&h2, 0, sizeof h2);
  if(node && strcmp(node, "localhost") != 0) h2.ai_flags |= AI_NUMERICHOST;
  int rc = real(node, service, &h2, res);
  if(g_log_gai) {
    char tmp[64];
    snprintf(tmp, sizeof tmp, " %d %d\n", (hints && (hints->ai_flags & AI_NUMERICSERV)) ? 1 : 0, rc);
    g_out += "G " + hex(node ? node : "") + " " + hex(service ? service : "") + tmp;
  }
  return rc;
}

static std::string exn_text(std::exception const &e)
{
  std::string what = e.what();
  if(auto *se = dynamic_cast<std::system_error const *>(&e)) {
    if(std::string(se->code().category().name()) == "GetAddrInfoError") return "2 " + std::to_string(se->code().value());
    return "1 " + std::to_string(se->code().value());
  }
  if(dynamic_cast<std::invalid_argument const *>(&e)) {
    int site = 0;
    if(what == "empty uri") site = 1; else if(what == "empty host") site = 2; else if(what == "empty service") site = 3;
    else if(what == "service too long") site = 4; else if(what == "uri too long") site = 5; else if(what == "stoll") site = 9;
    return "6 " + std::to_string(site);
  }
  if(dynamic_cast<std::out_of_range const *>(&e)) return "7 0";
  if(dynamic_cast<std::logic_error const *>(&e)) return std::string("4 ") + (what == "unexpected regex non-match" ? "10" : "0");
  if(dynamic_cast<std::runtime_error const *>(&e)) return "9 0";
  return "10 0";
}

struct Job { std::function<void()> fn; };
static constexpr size_t STACK = 512 * 1024;   // smallest default thread stack among mainstream platforms (macOS secondary threads)
static size_t g_stack_used = 0;

static void *thread_main(void *p) { static_cast<Job *>(p)->fn(); return nullptr; }

// run fn on a thread whose stack is STACK bytes, painted beforehand; measure how deep it got
static void on_small_stack(std::function<void()> fn)
{
  void *mem = mmap(nullptr, STACK, PROT_READ | PROT_WRITE, MAP_PRIVATE | MAP_ANONYMOUS | MAP_STACK, -1, 0);
  memset(mem, 0xA5, STACK);
  pthread_attr_t attr;
  pthread_attr_init(&attr);
  pthread_attr_setstack(&attr, mem, STACK);
  Job job{std::move(fn)};
  pthread_t th;
  pthread_create(&th, &attr, thread_main, &job);
  pthread_join(th, nullptr);
  auto *b = static_cast<unsigned char *>(mem);
  size_t i = 0;
  while(i < STACK && b[i] == 0xA5) ++i;
  g_stack_used = STACK - i;
}

static void describe(Address const &a)
{
  auto v = a.impl->ForAny();
  std::string raw(reinterpret_cast<char const *>(v.addr), static_cast<size_t>(v.addrLen));
  std::string host, serv, str;
  std::string err;
  try { host = a.Host(); serv = a.Service(); str = to_string(a); } catch(std::exception const &e) { err = exn_text(e); }
  bool reparse = false;
  if(err.empty()) { try { reparse = (Address(str) == a); } catch(std::exception const &) {} }
  g_out += "R ok " + std::to_string(a.impl->Family()) + " " + hex(raw) + " " + hex(host) + " " + hex(serv) + " " +
           std::to_string(a.Port()) + " " + (a.IsV6() ? "1" : "0") + " " + hex(str) + " " + (reparse ? "1" : "0") +
           (err.empty() ? "" : " E " + err) + "\n";
}

static void construct(char kind, std::string const &a, std::string const &b)
{
  g_log_gai = true;
  try {
    if(kind == 'U') { Address x(a); g_log_gai = false; describe(x); }
    else if(kind == 'P') { Address x(a, b); g_log_gai = false; describe(x); }
    else { Address x(static_cast<uint16_t>(std::stoul(a))); g_log_gai = false; describe(x); }
  } catch(std::exception const &e) {
    g_log_gai = false;
    g_out += "R exn " + exn_text(e) + "\n";
  }
}

static void run_isolated(std::string const &id, char kind, std::string const &a, std::string const &b)
{
  printf("C %s\n", id.c_str());
  fflush(stdout);
  pid_t pid = fork();
  if(pid == 0) {
    // a constructor that hangs burns CPU (regex backtracking): the limit is on the child's own CPU time, so that a loaded or stalled
    // machine cannot turn a trivial input into a "hang"; the wall-clock alarm is only the back-stop for a blocked system call
    struct rlimit lim{10, 12};
    setrlimit(RLIMIT_CPU, &lim);
    alarm(180);
    on_small_stack([&] { construct(kind, a, b); });
    g_out += "K " + std::to_string(g_stack_used) + "\n";
    fwrite(g_out.data(), 1, g_out.size(), stdout);
    fflush(stdout);
    _exit(0);
  }
  int status = 0;
  waitpid(pid, &status, 0);
  if(WIFSIGNALED(status)) printf("R signal %d\n", WTERMSIG(status));
  else if(WEXITSTATUS(status) != 0) printf("R exit %d\n", WEXITSTATUS(status));
  printf("X\n");
  fflush(stdout);
}

// ---- C13: pool of addresses of every provenance ---------------------------------------------------------------------
struct Entry { std::string tag; Address addr; };

static void pool()
{
  std::vector<Entry> es;
  auto add = [&](std::string tag, Address a) { es.push_back(Entry{std::move(tag), std::move(a)}); };
  std::vector<std::string> texts;
  while(true) {
    std::string line;
    if(!std::getline(std::cin, line) || line == "END") break;
    texts.push_back(line);
  }
  for(auto const &t : texts) {
    // "tag hexuri" or "tag hexhost hexserv"
    std::istringstream is(t);
    std::string tag, a, b;
    is >> tag >> a;
    try {
      if(is >> b) add(tag, Address(unhex(a), unhex(b)));
      else if(tag.rfind("port", 0) == 0) add(tag, Address(static_cast<uint16_t>(std::stoul(unhex(a)))));
      else add(tag, Address(unhex(a)));
    } catch(std::exception const &e) {
      printf("SKIP %s %s\n", tag.c_str(), e.what());
    }
  }
  // sockets: IPv4 and IPv6, bound to port 0, connected pairs, datagram sources
  for(int v6 = 0; v6 < 2; ++v6) {
    std::string any = v6 ? "[::1]:0" : "127.0.0.1:0";
    std::string fam = v6 ? "v6" : "v4";
    try {
      Acceptor acc{Address(any)};
      Address accAddr = acc.LocalAddress();
      add("acceptor_local_" + fam, accAddr);
      // connect needs a listening socket: Listen(0) once makes it listen
      (void)acc.Listen(Duration(0));
      SocketTcp client(accAddr);
      auto got = acc.Listen(Duration(1000));
      if(got) {
        add("tcp_client_local_" + fam, client.LocalAddress());
        add("tcp_client_peer_" + fam, client.PeerAddress());
        add("tcp_accept_addr_" + fam, got->second);
        add("tcp_server_local_" + fam, got->first.LocalAddress());
        add("tcp_server_peer_" + fam, got->first.PeerAddress());
        // buffered variants report the same
        SocketTcpBuffered cb(std::move(client), 1, 16);
        add("tcpbuf_client_local_" + fam, cb.LocalAddress());
        add("tcpbuf_client_peer_" + fam, cb.PeerAddress());
      }
      SocketUdp u1{Address(any)}, u2{Address(any)};
      add("udp1_local_" + fam, u1.LocalAddress());
      add("udp2_local_" + fam, u2.LocalAddress());
      char const msg[] = "x";
      u1.SendTo(msg, 1, u2.LocalAddress());
      char buf[8];
      if(auto r = u2.ReceiveFrom(buf, sizeof buf, Duration(1000))) add("udp_source_" + fam, r->second);
      // parsed spellings of the very same endpoints
      auto la = u1.LocalAddress();
      add("reparsed_udp1_" + fam, Address(to_string(la)));
      add("pair_udp1_" + fam, Address(la.Host(), la.Service()));
      add("scheme_udp1_" + fam, Address("udp://" + to_string(la) + "/some/path"));
    } catch(std::exception const &e) {
      printf("SKIP sockets_%s %s\n", fam.c_str(), e.what());
    }
  }
  size_t n = es.size();
  for(size_t i = 0; i < n; ++i) {
    auto v = es[i].addr.impl->ForAny();
    std::string raw(reinterpret_cast<char const *>(v.addr), static_cast<size_t>(v.addrLen));
    std::string host = "?";
    try { host = es[i].addr.Host(); } catch(...) {}
    printf("A %zu %s %s %d %s %u %zu\n", i, es[i].tag.c_str(), hex(raw).c_str(), es[i].addr.impl->Family(), hex(host).c_str(),
           es[i].addr.Port(), std::hash<Address>()(es[i].addr));
  }
  for(size_t i = 0; i < n; ++i) {
    std::string eq, lt, ne;
    for(size_t j = 0; j < n; ++j) {
      eq += (es[i].addr == es[j].addr) ? '1' : '0';
      ne += (es[i].addr != es[j].addr) ? '1' : '0';
      lt += (es[i].addr < es[j].addr) ? '1' : '0';
    }
    printf("E %zu %s\nN %zu %s\nL %zu %s\n", i, eq.c_str(), i, ne.c_str(), i, lt.c_str());
  }
  // containers keyed by Address
  std::map<Address, int> om;
  std::unordered_map<Address, int> um;
  for(size_t i = 0; i < n; ++i) { om.emplace(es[i].addr, static_cast<int>(i)); um.emplace(es[i].addr, static_cast<int>(i)); }
  printf("M %zu %zu\n", om.size(), um.size());
  std::string order;
  for(auto const &kv : om) order += std::to_string(kv.second) + " ";
  printf("O %s\n", order.c_str());
  printf("X\n");
}

int main()
{
  std::string line;
  long n = 0;
  while(std::getline(std::cin, line)) {
    std::istringstream is(line);
    std::string tag;
    if(!(is >> tag)) continue;
    if(tag == "POOL") { pool(); continue; }
    std::string id, a, b;
    is >> id >> a >> b;
    if(tag == "U") run_isolated(id, 'U', unhex(a), "");
    else if(tag == "P") run_isolated(id, 'P', unhex(a), unhex(b));
    else if(tag == "N") run_isolated(id, 'N', a, "");
    ++n;
  }
  return 0;
}
