#!/bin/bash
# link.sh <name> <flavour>: build harness executable <name> (harness/<name>.cpp + vos.cpp) against the library
# compiled from /repo's current tree. Prints the executable path.
set -euo pipefail
NAME="$1"; FLAVOUR="${2:-plain}"
VERIF="$(cd "$(dirname "$0")/.." && pwd)"
LIBDIR="$("$VERIF/harness/build.sh" "$FLAVOUR")"
FLAGS="$(cat "$LIBDIR/flags")"
HH=$(cat "$VERIF"/harness/*.cpp "$VERIF"/harness/*.h | sha256sum | cut -c1-12)
EXE="$LIBDIR/$NAME-$HH"
EXTRA=""
case "$NAME" in
  simtls) SRC="$VERIF/harness/sim.cpp $VERIF/harness/fakessl.cpp $VERIF/harness/vos.cpp" ;;
  sim|sched) SRC="$VERIF/harness/$NAME.cpp $VERIF/harness/vos.cpp" ;;
  *) SRC="$VERIF/harness/$NAME.cpp" ;;
esac
case "$FLAVOUR" in tls*) EXTRA="-lssl -lcrypto" ;; esac
case "$NAME" in simtls) EXTRA="" ;; esac     # the scripted engine of fakessl.cpp stands in for libssl
case "$NAME" in addr) EXTRA="$EXTRA -ldl" ;; esac
if [ ! -x "$EXE" ]; then
  exec 9>"$LIBDIR/.lock-$NAME"; flock 9
  if [ ! -x "$EXE" ]; then
    g++ $FLAGS -I"$VERIF/harness" $SRC "$LIBDIR/libsp.a" -lpthread $EXTRA -o "$EXE.tmp" >&2
    mv "$EXE.tmp" "$EXE"
  fi
fi
echo "$EXE"
