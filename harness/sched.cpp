// sched.cpp — deterministic scheduler for multi-threaded scenarios against the REAL library.
// pthread_mutex_lock/trylock/unlock, poll, sendto/recvfrom on the signalling pipe and send/recv on asynchronous sockets
// are schedule points: the calling thread parks until the schedule names it. Mutexes of managed threads are virtual
// (owner + recursion count kept here), so one thread runs at a time and an execution is a pure function of the schedule.
// A state with unfinished user threads and nothing enabled is reported as DEADLOCK.
// Operations and objects are those of sim.cpp (included); kernel answers come from a small virtual state instead of a script.
#define SIM_NO_MAIN
#include "sim.cpp"

#include <pthread.h>
#include <semaphore.h>
#include <random>

extern "C" {
int real_mutex_lock(pthread_mutex_t *);
int real_mutex_unlock(pthread_mutex_t *);
int real_mutex_trylock(pthread_mutex_t *);
__asm__(".symver real_mutex_lock,__pthread_mutex_lock@GLIBC_2.2.5");
__asm__(".symver real_mutex_unlock,__pthread_mutex_unlock@GLIBC_2.2.5");
__asm__(".symver real_mutex_trylock,__pthread_mutex_trylock@GLIBC_2.2.5");
}

namespace sch {

enum Kind { START = 0, LOCK = 1, TRYLOCK = 2, UNLOCK = 3, POLL = 4, PIPE_SEND = 5, PIPE_RECV = 6, SEND = 7, RECV = 8, YIELD = 9, OTHER_IO = 10 };

struct Pending { Kind k = START; void *m = nullptr; pollfd *fds = nullptr; unsigned long n = 0; int timeout = 0; int fd = -1; };

struct Thr {
  int id = 0;
  pthread_t th{};
  sem_t go;
  Pending pend;
  bool done = false;
  std::vector<Op> prog;
};

std::vector<std::unique_ptr<Thr>> thrs;
sem_t parked_sem;
thread_local int tl_tid = -1;
bool active = false;

struct VM { int owner = -1; int count = 0; };
std::map<void *, VM> mtx;
std::vector<void *> other_mtx;

std::map<int, int> dgrams;          // pipeTo fd -> datagrams waiting
std::map<int, long> inq;            // async socket fd -> bytes the peer sent that were not read yet
std::map<int, std::deque<long>> inq_dgram; // async UDP socket fd -> datagram sizes
std::set<int> peer_closed;
size_t send_chunk = 1u << 30;
struct FutInfo { long long key; int fd; size_t size; size_t off; int tid; };
std::map<long long, FutInfo> futinfo;

long long mutex_name(void *m)
{
  if(driver) {
    if(m == static_cast<void *>(&driver->impl->stepMtx)) return 1;
    if(m == static_cast<void *>(&driver->impl->pauseMtx)) return 2;
  }
  for(auto &kv : socks) {
    auto &s = kv.second;
    SocketAsyncImpl *impl = s.tcpa ? s.tcpa->impl.get() : (s.udpa ? s.udpa->impl.get() : (s.acca ? s.acca->impl.get() : nullptr));
    if(impl && m == static_cast<void *>(&impl->sendQMtx)) return 100 + kv.first;
    if(auto *p = s.rxpool()) if(m == static_cast<void *>(&p->m_mtx)) return 300 + kv.first;
  }
  for(auto &kv : pools) if(m == static_cast<void *>(&kv.second->m_mtx)) return 200 + kv.first;
  for(size_t i = 0; i < other_mtx.size(); ++i) if(other_mtx[i] == m) return 900 + static_cast<long long>(i);
  other_mtx.push_back(m);
  return 900 + static_cast<long long>(other_mtx.size() - 1);
}

void park(Pending p)
{
  Thr &me = *thrs[static_cast<size_t>(tl_tid)];
  me.pend = p;
  sem_post(&parked_sem);
  sem_wait(&me.go);
}

bool fd_ready(int fd, short events, short &rev)
{
  rev = 0;
  if(dgrams.count(fd)) { if((events & POLLIN) && dgrams[fd] > 0) rev |= POLLIN; return rev != 0; }
  if((events & POLLIN) && (inq[fd] > 0 || !inq_dgram[fd].empty())) rev |= POLLIN;
  if((events & POLLIN) && peer_closed.count(fd) && inq[fd] == 0) rev |= POLLIN;   // EOF is readable
  if(events & POLLOUT) rev |= POLLOUT;
  if(peer_closed.count(fd) && inq[fd] == 0) rev |= POLLHUP;
  return rev != 0;
}

bool enabled(Thr &t)
{
  Pending &p = t.pend;
  switch(p.k) {
  case LOCK: { auto &v = mtx[p.m]; return v.owner < 0 || v.owner == t.id; }
  case POLL: {
    if(p.timeout >= 0) return true;
    for(unsigned long i = 0; i < p.n; ++i) { short r; if(fd_ready(p.fds[i].fd, p.fds[i].events, r)) return true; }
    return false;
  }
  default: return true;
  }
}

// ---- hooks (run on managed threads) ------------------------------------------------------------------------
int poll_hook(pollfd *fds, unsigned long n, int timeout)
{
  if(tl_tid < 0) { for(unsigned long i = 0; i < n; ++i) fds[i].revents = 0; return 0; }
  Pending p; p.k = POLL; p.fds = fds; p.n = n; p.timeout = timeout;
  park(p);
  int cnt = 0;
  for(unsigned long i = 0; i < n; ++i) { short r; fd_ready(fds[i].fd, fds[i].events, r); fds[i].revents = r; if(r) ++cnt; }
  if(cnt == 0 && timeout > 0) S.now_ns += static_cast<long long>(timeout) * 1000000;
  vos::log(30, {tl_tid, POLL, n ? fds[0].fd : -1, cnt, timeout});
  return cnt;
}

long sendto_hook(int fd, const void *, unsigned long len, int dstport)
{
  if(tl_tid >= 0) { Pending p; p.k = PIPE_SEND; p.fd = fd; park(p); }
  int dstfd = dstport - vos::PORT_BASE_FD + vos::VFD_BASE;
  if(dgrams.count(dstfd)) {
    dgrams[dstfd]++;
    vos::log(30, {tl_tid, PIPE_SEND, dstfd, dgrams[dstfd]});
    // a second schedule point AFTER the wake-up datagram is out: whatever the caller does next (set a flag, take a mutex) can
    // be overtaken by the driver, which may already have been woken by it
    if(tl_tid >= 0) { Pending q; q.k = YIELD; park(q); }
    return static_cast<long>(len);
  }
  // asynchronous UDP datagram: accepted as a whole
  vos::log(30, {tl_tid, OTHER_IO, fd, static_cast<long long>(len), dstport - vos::PORT_BASE_SYM});
  return static_cast<long>(len);
}

long recvfrom_hook(int fd, void *buf, unsigned long len, int *srcport)
{
  if(tl_tid >= 0) { Pending p; p.k = PIPE_RECV; p.fd = fd; park(p); }
  if(dgrams.count(fd)) {
    if(dgrams[fd] <= 0) { vos::log(30, {tl_tid, PIPE_RECV, fd, -1}); errno = EAGAIN; return -1; }
    dgrams[fd]--;
    vos::log(30, {tl_tid, PIPE_RECV, fd, dgrams[fd]});
    if(len) static_cast<char *>(buf)[0] = '1';
    *srcport = 0;
    return 1;
  }
  auto &q = inq_dgram[fd];
  if(q.empty()) { errno = EAGAIN; return -1; }
  long n = q.front(); q.pop_front();
  if(static_cast<unsigned long>(n) > len) n = static_cast<long>(len);
  uint64_t k = S.dgram_in[fd]++;
  vos::fill((2ull << 20) + static_cast<uint64_t>(fd), (k << 20), static_cast<char *>(buf), static_cast<size_t>(n));
  *srcport = vos::PORT_BASE_SYM + 1;
  return n;
}

long send_hook(int fd, const void *buf, unsigned long len, int flags)
{
  if(tl_tid >= 0) { Pending p; p.k = SEND; p.fd = fd; park(p); }
  if(flags != 16384) vos::anomaly(6, fd, flags);
  unsigned long n = len < send_chunk ? len : send_chunk;
  // which buffer is this? match the position-coded content against the outstanding futures of this socket
  long long found = -1;
  for(auto &kv : futinfo) {
    auto &f = kv.second;
    if(f.fd != fd || f.off >= f.size) continue;
    if(len == f.size - f.off && vos::check((3ull << 20) + static_cast<uint64_t>(kv.first), f.off, static_cast<char const *>(buf), len)) { found = kv.first; break; }
  }
  if(found < 0) { if(len) vos::anomaly(1, fd, static_cast<long long>(len)); }
  else { futinfo[found].off += n; }
  vos::log(30, {tl_tid, SEND, fd, static_cast<long long>(len), static_cast<long long>(n), found});
  return static_cast<long>(n);
}

long recv_hook(int fd, void *buf, unsigned long len)
{
  if(tl_tid >= 0) { Pending p; p.k = RECV; p.fd = fd; park(p); }
  long avail = inq[fd];
  if(avail <= 0) {
    if(peer_closed.count(fd)) { vos::log(30, {tl_tid, RECV, fd, 0}); return 0; }
    vos::log(30, {tl_tid, RECV, fd, -1}); errno = EAGAIN; return -1;
  }
  long n = avail < static_cast<long>(len) ? avail : static_cast<long>(len);
  vos::fill(2ull * static_cast<uint64_t>(fd) + 1, S.in_pos[fd], static_cast<char *>(buf), static_cast<size_t>(n));
  S.in_pos[fd] += static_cast<uint64_t>(n);
  inq[fd] -= n;
  vos::log(30, {tl_tid, RECV, fd, n});
  return n;
}

// ---- thread programs -----------------------------------------------------------------------------------------
void run_sched_op(Op const &op)
{
  switch(op.code) {
  case 70: { // PEER_SEND s n : the peer of async socket s sends n bytes (atomic)
    auto it = socks.find(op.arg(0));
    if(it != socks.end()) { inq[it->second.fd] += op.arg(1); vos::log(20, {70, 1, op.arg(0), op.arg(1)}); }
    break;
  }
  case 71: { // PEER_CLOSE s
    auto it = socks.find(op.arg(0));
    if(it != socks.end()) { peer_closed.insert(it->second.fd); vos::log(20, {71, 1, op.arg(0)}); }
    break;
  }
  case 72: { // PEER_DGRAM s n
    auto it = socks.find(op.arg(0));
    if(it != socks.end()) { inq_dgram[it->second.fd].push_back(op.arg(1)); vos::log(20, {72, 1, op.arg(0), op.arg(1)}); }
    break;
  }
  case 96: { // YIELD : a schedule point inside user code (task, handler or program)
    if(tl_tid >= 0) { Pending p; p.k = YIELD; park(p); }
    vos::log(30, {tl_tid, YIELD, 0, 0});
    break;
  }
  case 40: case 41: case 42: case 44:
    switch(op.code) {
    case 40: api(40, [&]() -> V { int first = S.nextfd; driver = std::make_unique<Driver>(); dgrams[first + 1] = 0; S.opaque_fds.insert(first); S.opaque_fds.insert(first + 1); return {}; }); break;
    case 41: api(41, [&]() -> V { driver->Step(Duration(op.arg(0))); return {}; }); break;
    case 42: api(42, [&]() -> V { driver->Run(); return {}; }); break;
    case 44: api(44, [&]() -> V { driver.reset(); return {}; }); break;
    }
    break;
  case 43: // STOP: the flag is set right at the beginning of Stop(), before the next schedule point
    vos::log(35, {tl_tid});
    run_simple_op(op);
    break;
  default:
    run_simple_op(op);
  }
}

void *thread_main(void *arg)
{
  Thr &me = *static_cast<Thr *>(arg);
  tl_tid = me.id;
  Pending p; p.k = START;
  park(p);
  size_t i = 0;
  try {
    for(; i < me.prog.size(); ++i) {
      vos::log(31, {me.id, static_cast<long long>(i), me.prog[i].code, me.prog[i].arg(0)});
      run_sched_op(me.prog[i]);
      vos::log(32, {me.id, static_cast<long long>(i), me.prog[i].code, me.prog[i].arg(0)});
    }
  } catch(std::exception const &e) {
    auto c = exn_code(e);
    vos::log(34, {me.id, static_cast<long long>(i), c[0], c[1]});
  }
  me.done = true;
  sem_post(&parked_sem);
  return nullptr;
}

} // namespace sch

extern "C" {
int pthread_mutex_lock(pthread_mutex_t *m)
{
  using namespace sch;
  if(tl_tid < 0 || !active) return real_mutex_lock(m);
  Pending p; p.k = LOCK; p.m = m;
  park(p);
  auto &v = mtx[m];
  v.owner = tl_tid; v.count++;
  vos::log(30, {tl_tid, LOCK, mutex_name(m), v.count});
  return 0;
}
int pthread_mutex_trylock(pthread_mutex_t *m)
{
  using namespace sch;
  if(tl_tid < 0 || !active) return real_mutex_trylock(m);
  Pending p; p.k = TRYLOCK; p.m = m;
  park(p);
  auto &v = mtx[m];
  bool ok = v.owner < 0 || v.owner == tl_tid;
  if(ok) { v.owner = tl_tid; v.count++; }
  vos::log(30, {tl_tid, TRYLOCK, mutex_name(m), ok ? 1 : 0});
  return ok ? 0 : EBUSY;
}
int pthread_mutex_unlock(pthread_mutex_t *m)
{
  using namespace sch;
  if(tl_tid < 0 || !active) return real_mutex_unlock(m);
  Pending p; p.k = UNLOCK; p.m = m;
  park(p);
  auto &v = mtx[m];
  if(v.owner != tl_tid) vos::anomaly(20, tl_tid, mutex_name(m));
  else if(--v.count == 0) v.owner = -1;
  vos::log(30, {tl_tid, UNLOCK, mutex_name(m), v.count});
  // a second schedule point right AFTER the release, for application threads: what the releasing thread does next without a
  // lock (e.g. finish a constructor whose object is already registered) can be overtaken by the driver thread that was
  // waiting for this mutex. (Not for the driver thread 1: the protocol model evaluates Run's loop condition together with
  // the release of pauseMtx, see AcceptSync.driver_check.)
  // Only for the driver's stepMtx / pauseMtx: the other mutexes (pools, send queues) guard plain data with no thread waiting
  // to act on the release, and the monitors of those objects linearise at the operation's return.
  if(v.owner < 0 && tl_tid != 1) { auto nm = mutex_name(m); if(nm == 1 || nm == 2) { Pending q; q.k = YIELD; park(q); } }
  return 0;
}
}

namespace {

void run_sched_case(Case const &c, std::vector<int> const &schedule, unsigned long long seed, size_t chunk)
{
  using namespace sch;
  vos::reset();
  S.hooks.poll = [](struct pollfd *f, unsigned long n, int t) { return poll_hook(f, n, t); };
  S.hooks.send = [](int fd, const void *b, unsigned long l, int fl) { return send_hook(fd, b, l, fl); };
  S.hooks.recv = [](int fd, void *b, unsigned long l) { return recv_hook(fd, b, l); };
  S.hooks.sendto = [](int fd, const void *b, unsigned long l, int d) { return sendto_hook(fd, b, l, d); };
  S.hooks.recvfrom = [](int fd, void *b, unsigned long l, int *sp) { return recvfrom_hook(fd, b, l, sp); };
  S.hooks.clock = true;
  S.hooks.tid = []() { return sch::tl_tid; };
  send_chunk = chunk ? chunk : (1u << 30);
  S.active = true;
  g_log_handler_exit = true;
  g_op_runner = sch::run_sched_op;
  g_on_future = [](long long f, long long key, int fd, size_t size) { sch::futinfo[f] = sch::FutInfo{key, fd, size, 0, sch::tl_tid}; };
  // blocks, and programs per thread:  O 3 <tid> switches the thread that the following top-level ops belong to
  std::map<int, std::vector<Op>> progs;
  std::optional<long long> cur;
  int curtid = 0;
  for(auto const &op : c.ops) {
    if(!cur) {
      if(op.code == 1) { cur = op.arg(0); blocks[*cur].clear(); }
      else if(op.code == 3) curtid = static_cast<int>(op.arg(0));
      else progs[curtid].push_back(op);
    } else {
      if(op.code == 2) cur.reset();
      else blocks[*cur].push_back(op);
    }
  }
  sem_init(&parked_sem, 0, 0);
  int maxtid = 0;
  for(auto &kv : progs) maxtid = std::max(maxtid, kv.first);
  for(int t = 0; t <= maxtid; ++t) {
    auto th = std::make_unique<Thr>();
    th->id = t;
    th->prog = progs[t];
    sem_init(&th->go, 0, 0);
    thrs.push_back(std::move(th));
  }
  active = true;
  for(auto &t : thrs) { pthread_create(&t->th, nullptr, thread_main, t.get()); sem_wait(&parked_sem); }
  std::mt19937_64 rng(seed);
  size_t si = 0;
  long long decisions = 0;
  // thread 0 (set-up) runs alone first
  bool setup_done = thrs[0]->prog.empty();
  int result = 0;
  while(true) {
    std::vector<int> en, alive;
    for(auto &t : thrs) {
      if(t->done) continue;
      if(!setup_done && t->id != 0) continue;
      alive.push_back(t->id);
      if(enabled(*t)) en.push_back(t->id);
    }
    if(alive.empty()) break;
    if(en.empty()) {
      // nobody can move: fine if only the driver (thread 1) is left waiting for events, a deadlock otherwise
      bool only_driver = alive.size() == 1 && alive[0] == 1;
      std::vector<long long> a{only_driver ? 0 : 1};
      for(int id : alive) { a.push_back(id); a.push_back(thrs[static_cast<size_t>(id)]->pend.k); a.push_back(thrs[static_cast<size_t>(id)]->pend.m ? mutex_name(thrs[static_cast<size_t>(id)]->pend.m) : 0); }
      vos::logv(96, a);
      result = only_driver ? 0 : 1;
      break;
    }
    if(++decisions > 20000) { vos::log(96, {2}); result = 2; break; }
    int pick = -1;
    if(si < schedule.size()) {
      int want = schedule[si++];
      for(int id : en) if(id == want) pick = id;
    }
    if(pick < 0) {
      if(si >= schedule.size() && seed) pick = en[rng() % en.size()];
      else pick = en[0];
    }
    Thr &t = *thrs[static_cast<size_t>(pick)];
    sem_post(&t.go);
    sem_wait(&parked_sem);
    if(t.done && t.id == 0) setup_done = true;
  }
  active = false;
  S.active = false;
  // final state: futures, pools
  S.active = true; tl_tid = -1; report_state(); S.active = false;
  vos::log(99, {result, decisions, 0});
  fwrite(S.trace.data(), 1, S.trace.size(), stdout);
  fflush(stdout);
  _exit(0);
}

} // namespace

int main()
{
  std::string line;
  Case cur;
  std::vector<int> schedule;
  unsigned long long seed = 0;
  size_t chunk = 0;
  while(std::getline(std::cin, line)) {
    std::istringstream is(line);
    std::string tag;
    if(!(is >> tag) || tag == "#") continue;
    if(tag == "C") { cur = Case(); schedule.clear(); seed = 0; chunk = 0; std::getline(is, cur.id); if(!cur.id.empty() && cur.id[0] == ' ') cur.id.erase(0, 1); }
    else if(tag == "O") { Op o; is >> o.code; long long v; while(is >> v) o.a.push_back(v); cur.ops.push_back(o); }
    else if(tag == "S") { int v; while(is >> v) schedule.push_back(v); }
    else if(tag == "R") { is >> seed >> chunk; }
    else if(tag == "X") {
      printf("C %s\n", cur.id.c_str());
      fflush(stdout);
      pid_t pid = fork();
      if(pid == 0) {
        for(int sig : {SIGSEGV, SIGABRT, SIGALRM, SIGBUS, SIGFPE, SIGPIPE}) signal(sig, dump_on_signal);
        alarm(60);      // back-stop only: dead-locks are recognised by the scheduler itself (all threads parked)
        run_sched_case(cur, schedule, seed, chunk);
        _exit(0);
      }
      int status = 0;
      waitpid(pid, &status, 0);
      if(WIFSIGNALED(status)) printf("T 98 %d\n", WTERMSIG(status));
      else if(WEXITSTATUS(status) != 0) printf("T 98 %d\n", 1000 + WEXITSTATUS(status));
      printf("X\n");
      fflush(stdout);
    }
  }
  return 0;
}
