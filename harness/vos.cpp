// vos.cpp — see vos.h
#include "vos.h"
#include <arpa/inet.h>
#include <cerrno>
#include <cstdarg>
#include <cstdio>
#include <cstring>
#include <csignal>
#include <fcntl.h>
#include <netinet/in.h>
#include <poll.h>
#include <sys/socket.h>
#include <sys/syscall.h>
#include <time.h>
#include <unistd.h>

namespace vos {

State S;
static std::map<int, int> peer_port;  // fd -> port of its peer

void reset() { S = State(); peer_port.clear(); }

void logv(int code, std::vector<long long> const &args)
{
  char tmp[32];
  if(S.trace.size() > (4u << 20)) raise(SIGALRM);   // runaway (e.g. a task loop that never reads the clock): treat like a hang
  S.trace += "T ";
  snprintf(tmp, sizeof tmp, "%d", code); S.trace += tmp;
  for(auto a : args) { snprintf(tmp, sizeof tmp, " %lld", a); S.trace += tmp; }
  S.trace += "\n";
}
void log(int code, std::initializer_list<long long> args) { logv(code, std::vector<long long>(args)); }

uint8_t pat(uint64_t stream, uint64_t pos)
{
  uint64_t x = pos * 0x9E3779B97F4A7C15ull + stream * 0xBF58476D1CE4E5B9ull + 0x94D049BB133111EBull;
  x ^= x >> 29; x *= 0xBF58476D1CE4E5B9ull; x ^= x >> 32;
  return static_cast<uint8_t>(x);
}
void fill(uint64_t stream, uint64_t pos, char *buf, size_t n)
{ for(size_t i = 0; i < n; ++i) buf[i] = static_cast<char>(pat(stream, pos + i)); }
bool check(uint64_t stream, uint64_t pos, char const *buf, size_t n)
{ for(size_t i = 0; i < n; ++i) if(static_cast<uint8_t>(buf[i]) != pat(stream, pos + i)) return false; return true; }

void anomaly(int what, long long a, long long b) { log(90, {what, a, b}); }

// the script does not provide the event the code asks for: end of this case (the model says Bad <code>)
[[noreturn]] static void underrun(int code)
{
  S.active = false;
  log(99, {1, code, static_cast<long long>(S.script.size())});
  fwrite(S.trace.data(), 1, S.trace.size(), stdout);
  fflush(stdout);
  _exit(0);
}

// the script makes the kernel do something impossible (the model says Stuck <code>): end of this case
[[noreturn]] static void stuck(int code)
{
  S.active = false;
  log(99, {2, code, static_cast<long long>(S.script.size())});
  fwrite(S.trace.data(), 1, S.trace.size(), stdout);
  fflush(stdout);
  _exit(0);
}

static Ev pop(int code)
{
  if(S.script.empty() || S.script.front().code != code) underrun(code);
  Ev e = S.script.front();
  S.script.pop_front();
  return e;
}
static long long arg(Ev const &e, size_t i) { return i < e.a.size() ? e.a[i] : 0; }

static bool isv(int fd) { return S.active && fd >= VFD_BASE; }

// set-up call: logs, returns 0 or errno from the fault overlay
static int setup(int which, int fd)
{
  auto idx = S.nsys++;
  auto it = S.faults.find(idx);
  int err = it == S.faults.end() ? 0 : static_cast<int>(it->second);
  if(it == S.faults.end()) {
    // rules (negative keys -(100 * from + which)): every call of that kind with index >= from fails; first rule in file order wins
    for(auto const &r : S.rules)
      if((-r.first) % 100 == which && (-r.first) / 100 <= idx) { err = static_cast<int>(r.second); break; }
  }
  log(8, {which, fd, err});
  return err;
}

static void fill_addr(sockaddr *addr, socklen_t *len, int port)
{
  if(!addr || !len) return;
  sockaddr_in sin{};
  sin.sin_family = AF_INET;
  sin.sin_port = htons(static_cast<uint16_t>(port));
  sin.sin_addr.s_addr = htonl(INADDR_LOOPBACK);
  socklen_t n = *len < sizeof(sin) ? *len : static_cast<socklen_t>(sizeof(sin));
  memcpy(addr, &sin, n);
  *len = sizeof(sin);
}
static int port_of(sockaddr const *addr, socklen_t len)
{
  if(!addr || len < sizeof(sockaddr_in)) return -1;
  if(addr->sa_family == AF_INET) return ntohs(reinterpret_cast<sockaddr_in const *>(addr)->sin_port);
  if(addr->sa_family == AF_INET6) return ntohs(reinterpret_cast<sockaddr_in6 const *>(addr)->sin6_port);
  return -1;
}

} // namespace vos

using namespace vos;

extern "C" {

int clock_gettime(clockid_t id, struct timespec *ts)
{
  if(S.active && id == CLOCK_MONOTONIC) {
    if(!S.hooks.clock) {
      Ev e = pop(1);
      S.now_ns += arg(e, 0);
    }
    if(S.hooks.tid) log(1, {S.now_ns, S.hooks.tid()}); else log(1, {S.now_ns});
    // offset so that time points are comfortably positive
    long long t = S.now_ns + 1000000000000ll;
    ts->tv_sec = t / 1000000000ll;
    ts->tv_nsec = t % 1000000000ll;
    return 0;
  }
  return static_cast<int>(syscall(SYS_clock_gettime, id, ts));
}

int poll(struct pollfd *fds, nfds_t n, int timeout)
{
  bool anyv = false;
  for(nfds_t i = 0; i < n; ++i) anyv = anyv || isv(fds[i].fd);
  if(!anyv) return static_cast<int>(syscall(SYS_poll, fds, n, timeout));
  if(S.hooks.poll) return S.hooks.poll(fds, n, timeout);
  std::vector<long long> a{timeout};
  for(nfds_t i = 0; i < n; ++i) { a.push_back(fds[i].fd); a.push_back(fds[i].events); }
  Ev e = pop(2);
  a.insert(a.begin() + 1, {arg(e, 0), arg(e, 2)});
  logv(2, a);
  S.now_ns += arg(e, 2);
  // the kernel reports only requested events plus error conditions
  for(nfds_t i = 0; i < n; ++i) fds[i].revents = static_cast<short>(arg(e, 3 + i) & (fds[i].events | POLLERR | POLLHUP | POLLNVAL));
  if(arg(e, 0) < 0) { errno = static_cast<int>(arg(e, 1)); return -1; }
  return static_cast<int>(arg(e, 0));
}

ssize_t send(int fd, const void *buf, size_t len, int flags)
{
  if(!isv(fd)) return syscall(SYS_sendto, fd, buf, len, flags, nullptr, 0);
  if(S.hooks.send) return S.hooks.send(fd, buf, len, flags);
  Ev e = pop(3);
  log(3, {fd, static_cast<long long>(len), flags, arg(e, 0)});
  if(S.tls_fds.count(fd)) {
    // only the TLS engine writes to this connection (the scripted engine's output is all 'E'): anything else is cleartext
    for(size_t i = 0; i < len; ++i) if(static_cast<char const *>(buf)[i] != 'E') { anomaly(30, fd, static_cast<long long>(i)); break; }
  } else if(S.async_fds.count(fd)) {
    // asynchronous socket: the front buffer of the expected queue, from its unsent offset, all of it
    auto &q = S.aq[fd];
    if(q.empty()) anomaly(5, fd, static_cast<long long>(len));
    else {
      auto &f = q.front();
      if(len != f.size - f.off || !check((3ull << 20) + static_cast<uint64_t>(f.fut), f.off, static_cast<char const *>(buf), len))
        anomaly(1, fd, f.fut);
      if(arg(e, 0) < 0) q.pop_front();
      else if(arg(e, 0) <= static_cast<long long>(len)) { f.off += static_cast<size_t>(arg(e, 0)); if(f.off >= f.size && !(arg(e, 0) == 0 && len > 0)) q.pop_front(); }
    }
  } else if(!check(2ull * fd, S.out_pos[fd], static_cast<char const *>(buf), len)) anomaly(1, fd, static_cast<long long>(S.out_pos[fd]));
  if(arg(e, 0) < 0) {
    // a write to a connection the peer has reset raises SIGPIPE unless the caller asked for MSG_NOSIGNAL
    if(arg(e, 1) == EPIPE && !(flags & MSG_NOSIGNAL)) { fwrite(S.trace.data(), 1, S.trace.size(), stdout); fflush(stdout); signal(SIGPIPE, SIG_DFL); raise(SIGPIPE); }
    errno = static_cast<int>(arg(e, 1));
    return -1;
  }
  if(arg(e, 0) > static_cast<long long>(len)) stuck(1);
  S.out_pos[fd] += static_cast<uint64_t>(arg(e, 0));
  return arg(e, 0);
}

ssize_t recv(int fd, void *buf, size_t len, int flags)
{
  if(!isv(fd)) return syscall(SYS_recvfrom, fd, buf, len, flags, nullptr, nullptr);
  if(S.hooks.recv) return S.hooks.recv(fd, buf, len);
  Ev e = pop(4);
  log(4, {fd, static_cast<long long>(len), arg(e, 0)});
  if(arg(e, 0) < 0) { errno = static_cast<int>(arg(e, 1)); return -1; }
  size_t r = static_cast<size_t>(arg(e, 0));
  if(r > len) stuck(2);
  fill(2ull * fd + 1, S.in_pos[fd], static_cast<char *>(buf), r);
  S.in_pos[fd] += r;
  return arg(e, 0);
}

ssize_t sendto(int fd, const void *buf, size_t len, int flags, const struct sockaddr *addr, socklen_t alen)
{
  if(!isv(fd)) return syscall(SYS_sendto, fd, buf, len, flags, addr, alen);
  if(S.hooks.sendto) return S.hooks.sendto(fd, buf, len, port_of(addr, alen));
  Ev e = pop(5);
  int port = port_of(addr, alen);
  log(5, {fd, static_cast<long long>(len), port - PORT_BASE_SYM, arg(e, 0)});
  uint64_t k = S.dgram_out[fd]++;
  if(S.opaque_fds.count(fd)) {
  } else if(S.async_fds.count(fd)) {
    auto &q = S.aq[fd];
    if(q.empty()) anomaly(5, fd, static_cast<long long>(len));
    else {
      auto f = q.front();
      // a short count (impossible for a datagram) is a logic_error inside the driver: the element stays queued
      if(arg(e, 0) < 0 || arg(e, 0) == static_cast<long long>(len)) q.pop_front();
      if(len != f.size || f.dst != port - PORT_BASE_SYM || !check((3ull << 20) + static_cast<uint64_t>(f.fut), 0, static_cast<char const *>(buf), len))
        anomaly(3, fd, f.fut);
    }
  } else if(!check((1ull << 20) + fd, (k << 20), static_cast<char const *>(buf), len)) anomaly(3, fd, static_cast<long long>(k));
  if(flags != 0) anomaly(4, fd, flags);
  if(arg(e, 0) < 0) { errno = static_cast<int>(arg(e, 1)); return -1; }
  return arg(e, 0);
}

ssize_t recvfrom(int fd, void *buf, size_t len, int flags, struct sockaddr *addr, socklen_t *alen)
{
  if(!isv(fd)) return syscall(SYS_recvfrom, fd, buf, len, flags, addr, alen);
  if(S.hooks.recvfrom) { int sp = 0; long r = S.hooks.recvfrom(fd, buf, len, &sp); if(r >= 0) fill_addr(addr, alen, sp); return r; }
  Ev e = pop(6);
  log(6, {fd, static_cast<long long>(len), arg(e, 0)});
  if(arg(e, 0) < 0) { errno = static_cast<int>(arg(e, 1)); return -1; }
  size_t r = static_cast<size_t>(arg(e, 0));
  if(r > len) stuck(3);
  uint64_t k = S.dgram_in[fd]++;
  fill((2ull << 20) + fd, (k << 20), static_cast<char *>(buf), r);
  fill_addr(addr, alen, PORT_BASE_SYM + static_cast<int>(arg(e, 2)));
  return arg(e, 0);
}

int accept(int fd, struct sockaddr *addr, socklen_t *alen)
{
  if(!isv(fd)) return static_cast<int>(syscall(SYS_accept, fd, addr, alen));
  Ev e = pop(7);
  log(7, {fd, arg(e, 0) != 0 ? -1 : S.nextfd});
  if(arg(e, 0) != 0) { errno = static_cast<int>(arg(e, 0)); return -1; }
  int nfd = S.nextfd++;
  S.opened[nfd] = 0;
  peer_port[nfd] = PORT_BASE_SYM + static_cast<int>(arg(e, 1));
  fill_addr(addr, alen, peer_port[nfd]);
  return nfd;
}

int socket(int domain, int type, int protocol)
{
  if(!S.active) return static_cast<int>(syscall(SYS_socket, domain, type, protocol));
  if(int err = setup(1, S.nextfd)) { errno = err; return -1; }
  int fd = S.nextfd++;
  S.opened[fd] = 0;
  return fd;
}

int bind(int fd, const struct sockaddr *addr, socklen_t len)
{
  if(!isv(fd)) return static_cast<int>(syscall(SYS_bind, fd, addr, len));
  if(int err = setup(2, fd)) { errno = err; return -1; }
  return 0;
}

int listen(int fd, int backlog)
{
  if(!isv(fd)) return static_cast<int>(syscall(SYS_listen, fd, backlog));
  if(int err = setup(3, fd)) { errno = err; return -1; }
  return 0;
}

int connect(int fd, const struct sockaddr *addr, socklen_t len)
{
  if(!isv(fd)) return static_cast<int>(syscall(SYS_connect, fd, addr, len));
  if(int err = setup(4, fd)) { errno = err; return -1; }
  peer_port[fd] = port_of(addr, len);
  return 0;
}

static int do_fcntl(int fd, int cmd, long a)
{
  if(!isv(fd)) return static_cast<int>(syscall(SYS_fcntl, fd, cmd, a));
  if(cmd == F_GETFL) { if(int err = setup(5, fd)) { errno = err; return -1; } return O_RDWR; }
  if(cmd == F_SETFL) { if(int err = setup(6, fd)) { errno = err; return -1; } return 0; }
  return 0;
}
int fcntl(int fd, int cmd, ...) { va_list ap; va_start(ap, cmd); long a = va_arg(ap, long); va_end(ap); return do_fcntl(fd, cmd, a); }
int fcntl64(int fd, int cmd, ...) { va_list ap; va_start(ap, cmd); long a = va_arg(ap, long); va_end(ap); return do_fcntl(fd, cmd, a); }

int setsockopt(int fd, int level, int name, const void *val, socklen_t len)
{
  if(!isv(fd)) return static_cast<int>(syscall(SYS_setsockopt, fd, level, name, val, len));
  if(int err = setup(7, fd)) { errno = err; return -1; }
  return 0;
}

int getsockopt(int fd, int level, int name, void *val, socklen_t *len)
{
  if(!isv(fd)) return static_cast<int>(syscall(SYS_getsockopt, fd, level, name, val, len));
  if(int err = setup(8, fd)) { errno = err; return -1; }
  int v = RCVBUF_DEFAULT;
  if(val && len && *len >= sizeof(int)) { memcpy(val, &v, sizeof v); *len = sizeof v; }
  return 0;
}

int getsockname(int fd, struct sockaddr *addr, socklen_t *len)
{
  if(!isv(fd)) return static_cast<int>(syscall(SYS_getsockname, fd, addr, len));
  if(int err = setup(9, fd)) { errno = err; return -1; }
  fill_addr(addr, len, PORT_BASE_FD + fd - VFD_BASE);
  return 0;
}

int getpeername(int fd, struct sockaddr *addr, socklen_t *len)
{
  if(!isv(fd)) return static_cast<int>(syscall(SYS_getpeername, fd, addr, len));
  if(int err = setup(10, fd)) { errno = err; return -1; }
  fill_addr(addr, len, peer_port.count(fd) ? peer_port[fd] : 0);
  return 0;
}

int close(int fd)
{
  if(!isv(fd)) {
    if(S.active && fd >= 0 && fd < VFD_BASE && fd > 2) { S.foreign_closed.push_back(fd); anomaly(20, fd); }
    return static_cast<int>(syscall(SYS_close, fd));
  }
  int err = setup(11, fd);
  auto it = S.opened.find(fd);
  if(it == S.opened.end()) { S.foreign_closed.push_back(fd); anomaly(21, fd); }   // a descriptor the library never opened
  else if(++it->second > 1) anomaly(22, fd);                                           // closed twice
  if(err) { errno = err; return -1; }
  return 0;
}

} // extern "C"
