// vos.h — virtual operating system for the sim harness: libc entry points used by sockpuppet are
// defined in the harness executable (link-time interposition, the library is linked statically),
// answered from an oracle script and logged. Descriptors >= VFD_BASE are virtual; everything else
// is passed through to the kernel by raw syscall.
#pragma once
#include <cstdint>
#include <string>
#include <vector>
#include <deque>
#include <map>
#include <set>
struct pollfd;

namespace vos {

constexpr int VFD_BASE = 1000;
constexpr int RCVBUF_DEFAULT = 4096;
constexpr int PORT_BASE_SYM = 20000;   // symbolic address k <-> 127.0.0.1:(20000+k)
constexpr int PORT_BASE_FD = 10000;    // getsockname of virtual fd f -> 127.0.0.1:(10000 + f - 1000)

struct Ev { int code; std::vector<long long> a; };

struct State {
  bool active = false;
  std::deque<Ev> script;
  std::map<long long, long long> faults;   // set-up call index -> errno
  std::vector<std::pair<long long, long long>> rules;   // (-(100 * from + which), errno) in file order: see vos.cpp setup()
  long long nsys = 0;
  long long now_ns = 0;
  int nextfd = VFD_BASE;
  std::string trace;                        // "T code args...\n"
  // descriptor ledger
  std::map<int, int> opened;                // fd -> times closed
  std::vector<int> foreign_closed;
  // content tracking
  std::map<int, uint64_t> out_pos;          // bytes accepted by send() per fd
  std::map<int, uint64_t> in_pos;           // bytes delivered by recv() per fd
  std::map<int, uint64_t> dgram_out;        // sendto() calls per fd
  std::map<int, uint64_t> dgram_in;         // recvfrom() deliveries per fd
  // asynchronous sockets: the queue of buffers the library is expected to transmit, front first
  struct AQ { long long fut; size_t size; size_t off; long long dst; };
  std::map<int, std::deque<AQ>> aq;
  std::set<int> async_fds;
  std::set<int> opaque_fds;               // content not checked (the driver's signalling pipe)
  std::set<int> tls_fds;                  // TLS sockets: the wire carries what the (scripted) engine writes; plaintext is
  std::map<int, uint64_t> plain_out, plain_in;   // tracked at the engine boundary instead (fakessl.cpp)
  // sched mode: kernel answers come from the harness' virtual state instead of the script
  struct Hooks {
    int (*poll)(struct pollfd *, unsigned long, int) = nullptr;
    long (*send)(int, const void *, unsigned long, int) = nullptr;
    long (*recv)(int, void *, unsigned long) = nullptr;
    long (*sendto)(int, const void *, unsigned long, int dstport) = nullptr;
    long (*recvfrom)(int, void *, unsigned long, int *srcport) = nullptr;
    bool clock = false;                     // steady clock = S.now_ns without consuming events
    int (*tid)() = nullptr;                 // calling thread (logged with clock readings)
  } hooks;
  bool script_underrun = false;
  int underrun_code = 0;
};

extern State S;

void reset();
void log(int code, std::initializer_list<long long> args);
void logv(int code, std::vector<long long> const &args);
uint8_t pat(uint64_t stream, uint64_t pos);
// streams: TCP bytes sent on fd f: stream 2*f ; received on fd f: stream 2*f+1
// datagram k sent on fd f: stream (1<<20)+f, position (k<<20)+i ; received: stream (2<<20)+f
void fill(uint64_t stream, uint64_t pos, char *buf, size_t n);
bool check(uint64_t stream, uint64_t pos, char const *buf, size_t n);
void anomaly(int what, long long a = 0, long long b = 0);

} // namespace vos
