#!/bin/bash
# Build the library from /repo's CURRENT working tree into /verif/.build/<flavour>-<hash>/libsp.a
# usage: build.sh <flavour>     flavour: plain | san | tsan | tls | tlssan
# prints the directory holding libsp.a on stdout.
set -euo pipefail
FLAVOUR="${1:-plain}"
REPO="${SP_REPO:-/repo}"
VERIF="$(cd "$(dirname "$0")/.." && pwd)"
# (the tree's location is part of the key: the recorded compiler flags name its include directories)
HASH=$( (echo "$REPO"; cd "$REPO" && find src include -type f \( -name '*.cpp' -o -name '*.h' \) -print0 | sort -z | xargs -0 sha256sum) | sha256sum | cut -c1-16)
OUT="$VERIF/.build/$FLAVOUR-$HASH"
COMMON="-std=c++17 -I$REPO/include -I$REPO/src -DSOCKPUPPET_VERIF -fno-omit-frame-pointer"
case "$FLAVOUR" in
  plain)  FLAGS="-O1 -g1" ;;
  ndebug) FLAGS="-O1 -g1 -DNDEBUG" ;;
  san)    FLAGS="-O1 -g1 -fsanitize=address,undefined -fno-sanitize-recover=all -D_GLIBCXX_SANITIZE_VECTOR" ;;
  tsan)   FLAGS="-O1 -g1 -fsanitize=thread" ;;
  tls)    FLAGS="-O1 -g1 -DSOCKPUPPET_WITH_TLS" ;;
  tlssan) FLAGS="-O1 -g1 -DSOCKPUPPET_WITH_TLS -fsanitize=address,undefined -fno-sanitize-recover=all -D_GLIBCXX_SANITIZE_VECTOR" ;;
  *) echo "unknown flavour $FLAVOUR" >&2; exit 2 ;;
esac
mkdir -p "$VERIF/.build"
exec 9>"$VERIF/.build/.lock-$FLAVOUR"
flock 9
if [ ! -f "$OUT/libsp.a" ]; then
  rm -rf "$OUT.tmp"; mkdir -p "$OUT.tmp"
  ls "$REPO"/src/*.cpp | xargs -P 16 -I{} sh -c \
    "g++ $COMMON $FLAGS -c {} -o $OUT.tmp/\$(basename {} .cpp).o" >&2
  ar rcs "$OUT.tmp/libsp.a" "$OUT.tmp"/*.o
  echo "$COMMON $FLAGS" > "$OUT.tmp/flags"
  rm -rf "$OUT"; mv "$OUT.tmp" "$OUT"
  # keep only the 15 most recent builds of this flavour (several trees may be checked at the same time)
  ls -dt "$VERIF"/.build/$FLAVOUR-* 2>/dev/null | tail -n +16 | xargs -r rm -rf
fi
echo "$OUT"
