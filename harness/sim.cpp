// sim.cpp — interpreter of operation histories against the REAL library (built from /repo's working tree),
// under the virtual OS of vos.cpp. Reads cases on stdin (same format as the model runner), runs each in a
// forked child, prints the trace. Counterpart of coq/theories/Sim.v: every op code means the same thing there.
#include <chrono>
#include <cstdio>
#include <cstring>
#include <deque>
#include <functional>
#include <future>
#include <iostream>
#include <map>
#include <memory>
#include <mutex>
#include <optional>
#include <queue>
#include <sstream>
#include <stack>
#include <string>
#include <sys/time.h>
#include <sys/wait.h>
#include <system_error>
#include <type_traits>
#include <unistd.h>
#include <variant>
#include <vector>
#include <atomic>
#include <poll.h>
#include <netdb.h>
#include <csignal>

// the harness translation unit looks into the objects (pool occupancy, driver lists); the library itself is
// compiled unmodified
#define private public
#include "sockpuppet/address.h"
#include "sockpuppet/socket.h"
#include "sockpuppet/socket_buffered.h"
#include "sockpuppet/socket_async.h"
#include "driver_impl.h"
#include "socket_async_impl.h"
#include "socket_buffered_impl.h"
#include "todo_impl.h"
#ifdef SOCKPUPPET_WITH_TLS
#include "socket_tls_impl.h"
#endif
#undef private

#include "vos.h"
#ifdef SOCKPUPPET_WITH_TLS
#include "fakessl.h"
#endif

using namespace sockpuppet;
using vos::S;

namespace {

struct Op { int code; std::vector<long long> a; long long arg(size_t i) const { return i < a.size() ? a[i] : 0; } };
struct Case { std::string id; std::vector<Op> ops; std::deque<vos::Ev> script; std::map<long long, long long> faults;
              std::vector<std::pair<long long, long long>> rules; std::deque<std::vector<long long>> engine; };
using V = std::vector<long long>;

constexpr long long EPOCH_NS = 1000000000000ll;   // see vos.cpp clock_gettime

// ---- exception -> code (same numbering as Base.exn_code) ----------------------------------------
V exn_code(std::exception const &e)
{
  std::string what = e.what();
  if(auto *se = dynamic_cast<std::system_error const *>(&e)) {
    if(std::string(se->code().category().name()) == "GetAddrInfoError") return {2, se->code().value()};
    return {1, se->code().value()};
  }
  if(dynamic_cast<std::future_error const *>(&e)) return {8, 0};
  if(dynamic_cast<std::invalid_argument const *>(&e)) return {6, 0};
  if(dynamic_cast<std::out_of_range const *>(&e)) return {7, 0};
  if(dynamic_cast<std::logic_error const *>(&e)) {
    long long site = 0;
    if(what == "unexpected send result") site = 1;
    else if(what == "unexpected UDP send result") site = 2;
    else if(what == "unexpected signalling pipe poll result") site = 3;
    else if(what == "unhandled poll event") site = 4;
    else if(what == "uncalled sendto") site = 5;
    else if(what == "invalid handler") site = 6;
    else if(what == "unexpected receive buffer size") site = 7;
    else if(what == "unexpected recceive") site = 8;
    else if(what == "returned invalid buffer") site = 20;
    else if(what == "scenario") site = 99;
    return {4, site};
  }
  if(dynamic_cast<std::runtime_error const *>(&e)) {
    if(what == "connection closed") return {3, 0};
    if(what == "out of buffers") return {5, 0};
    return {9, 0};
  }
  return {10, 0};
}

// ---- objects ------------------------------------------------------------------------------------
struct Sock {
  int kind = 0; // 1 TCP 2 UDP 3 acceptor
  std::unique_ptr<SocketTcp> tcp;
  std::unique_ptr<SocketUdp> udp;
  std::unique_ptr<Acceptor> acc;
  std::unique_ptr<SocketTcpBuffered> tcpb;
  std::unique_ptr<SocketUdpBuffered> udpb;
  std::unique_ptr<SocketTcpAsync> tcpa;
  std::unique_ptr<SocketUdpAsync> udpa;
  std::unique_ptr<AcceptorAsync> acca;
  int fd = -1;
  uint64_t user_in = 0;     // bytes / datagrams the user has obtained so far
  std::deque<std::string> tls_sent;   // the buffer of the Send in progress (the previous one is freed)
  long long h1 = 0, h2 = 0;
  bool alive() const { return tcp || udp || acc || tcpb || udpb || tcpa || udpa || acca; }
  BufferPool *rxpool() const {
    if(tcpb) return tcpb->impl->pool.get();
    if(udpb) return udpb->impl->pool.get();
    if(tcpa) return tcpa->impl->buff->pool.get();
    if(udpa) return udpa->impl->buff->pool.get();
    return nullptr;
  }
};

std::map<long long, std::unique_ptr<BufferPool>> pools;
std::vector<long long> pool_order;
std::map<long long, Sock> socks;
std::vector<long long> sock_order;
std::vector<BufferPtr> held;              // by name
std::vector<void const *> names;          // buffer address by name (first appearance)
std::unique_ptr<Driver> driver;
std::map<long long, std::vector<Op>> blocks;
std::map<long long, std::unique_ptr<ToDo>> todos;
std::map<void const *, long long> todo_ids;
struct Fut { std::future<void> f; int reported = 0; };
std::vector<Fut> futs;
BufferPtr *cur_arg = nullptr;
struct Accepted { SocketTcp *sock; long long peer; };
std::optional<Accepted> cur_acc;

long long name_of(BufferPool::Buffer *b)
{
  for(size_t i = 0; i < names.size(); ++i) if(names[i] == b) return static_cast<long long>(i);
  names.push_back(b);
  held.resize(names.size());
  return static_cast<long long>(names.size() - 1);
}

Address sym_addr(long long k) { return Address("127.0.0.1:" + std::to_string(vos::PORT_BASE_SYM + k)); }
long long sym_of(Address const &a) { return static_cast<long long>(a.Port()) - vos::PORT_BASE_SYM; }

void ret_ok(int opc, V vals)
{
  V a{opc, 1};
  a.insert(a.end(), vals.begin(), vals.end());
  vos::logv(20, a);
}
void ret_exn(int opc, std::exception const &e)
{
  V a{opc, 0};
  auto c = exn_code(e);
  a.insert(a.end(), c.begin(), c.end());
  vos::logv(20, a);
}

template<typename Fn> void api(int opc, Fn &&fn)
{
  try {
    ret_ok(opc, fn());
  } catch(std::exception const &e) {
    ret_exn(opc, e);
  }
}

// lenient operations (code + 1000): a precondition that does not hold (socket missing / closed / of the wrong class, no
// driver) skips the operation instead of ending the case — fault-injection scenarios go on after a constructor threw
struct SkipOp { int why; };
static bool g_lenient = false;

[[noreturn]] void bad_case(int why)
{
  if(g_lenient && ((why >= 102 && why <= 106) || why == 120 || why == 121 || why == 130)) throw SkipOp{why};
  S.active = false;
  vos::log(99, {1, why, static_cast<long long>(S.script.size())});
  fwrite(S.trace.data(), 1, S.trace.size(), stdout);
  fflush(stdout);
  _exit(0);
}

int last_fd_created() { return S.nextfd - 1; }

void run_block(long long b);
void run_simple_op(Op const &op);
// the sched harness substitutes its own operation runner (schedule points, peer actions) and logs handler exits
void (*g_op_runner)(Op const &) = nullptr;
bool g_log_handler_exit = false;
void (*g_on_future)(long long f, long long key, int fd, size_t size) = nullptr;
struct HandlerExit { long long kind, key; ~HandlerExit() { if(g_log_handler_exit) vos::log(26, {kind, key}); } };

// access to the container under a std::stack
template<class St> typename St::container_type const &container_of(St const &st)
{
  struct H : St { static typename St::container_type const &get(St const &x) { return x.*(&H::c); } };
  return H::get(st);
}

// The pool's occupancy is read from its internals. Which members exist is detected, so that a change of the pool's
// representation is judged by its behaviour and not by a harness that no longer compiles:
// m_busy (container of outstanding buffers) | m_busyCount (counter) | neither (occupancy not reported: -1).
template<class P, class = void> struct has_busy_list : std::false_type {};
template<class P> struct has_busy_list<P, std::void_t<decltype(std::declval<P &>().m_busy.size())>> : std::true_type {};
template<class P, class = void> struct has_busy_count : std::false_type {};
template<class P> struct has_busy_count<P, std::void_t<decltype(std::declval<P &>().m_busyCount)>> : std::true_type {};
template<class P, class = void> struct has_idle_stack : std::false_type {};
template<class P> struct has_idle_stack<P, std::void_t<decltype(std::declval<P &>().m_idle)>> : std::true_type {};

template<class P> long long pool_busy(P *pool)
{
  if constexpr(has_busy_list<P>::value) return static_cast<long long>(pool->m_busy.size());
  else if constexpr(has_busy_count<P>::value) return static_cast<long long>(pool->m_busyCount);
  else return -1;
}

// buffer names are assigned by address: forget the addresses of a pool that is about to be destroyed
template<class P> void forget_pool_names_impl(P *pool)
{
  auto forget = [](void const *p) { for(auto &n : names) if(n == p) n = nullptr; };
  if constexpr(has_busy_list<P>::value) { for(auto const &b : pool->m_busy) forget(b.get()); }
  if constexpr(has_idle_stack<P>::value) { for(auto const &b : container_of(pool->m_idle)) forget(b.get()); }
  // buffers that are out (held by the scenario) when the representation keeps no list of them
  if constexpr(!has_busy_list<P>::value) { for(auto &h : held) if(h) forget(h.get()); }
}
void forget_pool_names(BufferPool *pool)
{
  if(!pool) return;
  forget_pool_names_impl(pool);
}

void destroy_objects(Sock &s)
{
  forget_pool_names(s.rxpool());
  s.tcp.reset(); s.udp.reset(); s.acc.reset(); s.tcpb.reset(); s.udpb.reset();
  s.tcpa.reset(); s.udpa.reset(); s.acca.reset();
}

// a scenario key is reused: the object it named before is destroyed first
void fresh_key(long long k)
{
  auto it = socks.find(k);
  if(it == socks.end()) return;
  auto &s = it->second;
  forget_pool_names(s.rxpool());
  s.tcp.reset(); s.udp.reset(); s.acc.reset(); s.tcpb.reset(); s.udpb.reset();
  s.tcpa.reset(); s.udpa.reset(); s.acca.reset();
}

void add_sock(long long k, Sock &&s)
{
  if(!socks.count(k)) sock_order.push_back(k);
  socks[k] = std::move(s);
}

Sock &need_sock(long long k, int kind)
{
  auto it = socks.find(k);
  if(it == socks.end()) bad_case(102);
  if(!it->second.alive() || (kind && it->second.kind != kind)) bad_case(103);
  return it->second;
}

// ---- handlers given to the library (capture only the key; copy it first: the socket, and with it the handler
// object itself, may be destroyed from inside a disconnect handler) ---------------------------------------
ReceiveHandler make_receive(long long key)
{
  return [key](BufferPtr buf) {
    long long k = key;
    Sock &s = socks[k];
    if(buf->empty() || !vos::check(2ull * s.fd + 1, s.user_in, buf->data(), buf->size())) vos::anomaly(10, k, static_cast<long long>(buf->size()));
    s.user_in += buf->size();
    auto n = name_of(buf.get());
    vos::log(21, {1, k, n, static_cast<long long>(buf->size())});
    cur_arg = &buf;
    struct Reset { ~Reset() { cur_arg = nullptr; } } reset;
    HandlerExit hx{1, k};
    run_block(s.h1);
  };
}
DisconnectHandler make_disconnect(long long key)
{
  return [key](Address addr, char const *) {
    long long k = key;
    long long h2 = socks[k].h2;
    vos::log(21, {2, k, sym_of(addr)});
    HandlerExit hx{2, k};
    run_block(h2);
  };
}
ReceiveFromHandler make_receive_from(long long key)
{
  return [key](BufferPtr buf, Address from) {
    long long k = key;
    Sock &s = socks[k];
    if(!vos::check((2ull << 20) + s.fd, (s.user_in << 20), buf->data(), buf->size())) vos::anomaly(10, k, static_cast<long long>(buf->size()));
    s.user_in += 1;
    auto n = name_of(buf.get());
    vos::log(21, {4, k, n, static_cast<long long>(buf->size()), sym_of(from)});
    cur_arg = &buf;
    struct Reset { ~Reset() { cur_arg = nullptr; } } reset;
    HandlerExit hx{4, k};
    run_block(s.h1);
  };
}
ConnectHandler make_connect(long long key)
{
  return [key](SocketTcp sock, Address from) {
    long long k = key;
    long long h1 = socks[k].h1;
    long long peer = sym_of(from);
    vos::log(21, {3, k, peer});
    cur_acc = Accepted{&sock, peer};
    struct Reset { ~Reset() { cur_acc.reset(); } } reset;
    HandlerExit hx{3, k};
    run_block(h1);
  };
}

void make_buffered(Sock &s, long long count, long long size)
{
  if(s.kind == 1) {
    auto tmp = std::move(s.tcp);
    s.tcpb = std::make_unique<SocketTcpBuffered>(std::move(*tmp), static_cast<size_t>(count), static_cast<size_t>(size));
  } else {
    auto tmp = std::move(s.udp);
    s.udpb = std::make_unique<SocketUdpBuffered>(std::move(*tmp), static_cast<size_t>(count), static_cast<size_t>(size));
  }
}

void make_async(long long k, Sock &s, long long h1, long long h2)
{
  s.h1 = h1; s.h2 = h2;
  if(s.kind == 1) {
    auto tmp = std::move(s.tcpb);
    S.async_fds.insert(s.fd);
    s.tcpa = std::make_unique<SocketTcpAsync>(std::move(*tmp), *driver, make_receive(k), make_disconnect(k));
  } else if(s.kind == 2) {
    auto tmp = std::move(s.udpb);
    S.async_fds.insert(s.fd);
    s.udpa = std::make_unique<SocketUdpAsync>(std::move(*tmp), *driver, make_receive_from(k));
  } else {
    auto tmp = std::move(s.acc);
    s.acca = std::make_unique<AcceptorAsync>(std::move(*tmp), *driver, make_connect(k));
  }
}

void run_simple_op0(Op const &op);

void run_simple_op(Op const &op)
{
  bool const saved = g_lenient;
  if(op.code < 1000) {
    g_lenient = false;
    run_simple_op0(op);
    g_lenient = saved;
    return;
  }
  Op inner = op;
  inner.code -= 1000;
  g_lenient = true;
  try {
    run_simple_op0(inner);
  } catch(SkipOp const &sk) {
    vos::log(20, {inner.code, 2, sk.why});
  }
  g_lenient = saved;
}

void run_simple_op0(Op const &op)
{
  int const opc = op.code;
  long long a0 = op.arg(0), a1 = op.arg(1), a2 = op.arg(2), a3 = op.arg(3), a4 = op.arg(4);
  switch(opc) {
  case 10: // POOL_NEW p n reserve
    if(!pools.count(a0)) pool_order.push_back(a0);
    pools[a0] = std::make_unique<BufferPool>(static_cast<size_t>(a1), static_cast<size_t>(a2));
    ret_ok(opc, {});
    break;
  case 11: // POOL_GET p reserve
    api(opc, [&]() -> V {
      auto b = pools.at(a0)->Get();
      auto n = name_of(b.get());
      V r{n, static_cast<long long>(b->size()), b->capacity() >= static_cast<size_t>(a1) ? 1 : 0};
      held[n] = std::move(b);
      return r;
    });
    break;
  case 12: // BUF_RELEASE name
    api(opc, [&]() -> V {
      if(a0 >= 0 && static_cast<size_t>(a0) < held.size()) held[a0].reset();
      return {};
    });
    break;
  case 13: // BUF_RESIZE name n
    api(opc, [&]() -> V {
      if(a0 >= 0 && static_cast<size_t>(a0) < held.size() && held[a0]) held[a0]->resize(static_cast<size_t>(a1));
      return {};
    });
    break;
  case 14: // RELEASE_ALL
    api(opc, [&]() -> V { for(auto &h : held) h.reset(); return {}; });
    break;
  case 20: // TCP_NEW s
    fresh_key(a0);
    api(opc, [&]() -> V {
      Sock s; s.kind = 1;
      s.tcp = std::make_unique<SocketTcp>(sym_addr(100 + a0));
      s.fd = last_fd_created();
      long long fd = s.fd;
      add_sock(a0, std::move(s));
      return {fd, a0};
    });
    break;
#ifdef SOCKPUPPET_WITH_TLS
  case 80: // TLS_NEW s
    fresh_key(a0);
    api(opc, [&]() -> V {
      Sock s; s.kind = 1;
      s.tcp = std::make_unique<SocketTcp>(sym_addr(100 + a0), "cert.pem", "key.pem");
      s.fd = last_fd_created();
      long long fd = s.fd;
      add_sock(a0, std::move(s));
      return {fd, a0};
    });
    break;
  case 81: // ACC_TLS_NEW s
    fresh_key(a0);
    api(opc, [&]() -> V {
      Sock s; s.kind = 3;
      s.acc = std::make_unique<Acceptor>(sym_addr(300 + a0), "cert.pem", "key.pem");
      s.fd = last_fd_created();
      long long fd = s.fd;
      add_sock(a0, std::move(s));
      return {fd, a0};
    });
    break;
#endif
  case 21: // UDP_NEW s
    fresh_key(a0);
    api(opc, [&]() -> V {
      Sock s; s.kind = 2;
      s.udp = std::make_unique<SocketUdp>(sym_addr(200 + a0));
      s.fd = last_fd_created();
      long long fd = s.fd;
      add_sock(a0, std::move(s));
      return {fd, a0};
    });
    break;
  case 22: // ACC_NEW s
    fresh_key(a0);
    api(opc, [&]() -> V {
      Sock s; s.kind = 3;
      s.acc = std::make_unique<Acceptor>(sym_addr(300 + a0));
      s.fd = last_fd_created();
      long long fd = s.fd;
      add_sock(a0, std::move(s));
      return {fd, a0};
    });
    break;
  case 23: { // TCP_SEND s size timeout
    auto &s = need_sock(a0, 1);
    if(!s.tcp && !s.tcpb) bad_case(103);
    bool const tls = S.tls_fds.count(s.fd) != 0;
#ifdef SOCKPUPPET_WITH_TLS
    if(tls) {
      // usage rule of TLS sockets: a send that did not go through is retried with the same data
      SocketImpl *impl = s.tcp ? s.tcp->impl.get() : s.tcpb->impl->sock.get();
      if(auto *t = dynamic_cast<SocketTlsImpl *>(impl)) if(!t->pendingSend.empty()) a1 = static_cast<long long>(t->pendingSend.size());
    }
#endif
    s.tls_sent.emplace_back(static_cast<size_t>(a1), '\0');
    // every Send comes from a fresh buffer and the previous one is freed: a retried TLS send holds the same BYTES at another
    // address, which the library allows (SSL_MODE_ACCEPT_MOVING_WRITE_BUFFER); it must not look at the old buffer again (F12)
    while(s.tls_sent.size() > 1u) s.tls_sent.pop_front();
    std::string &data = s.tls_sent.back();
    vos::fill(2ull * s.fd, tls ? S.plain_out[s.fd] : S.out_pos[s.fd], data.data(), data.size());
    api(opc, [&]() -> V {
      size_t n = s.tcp ? s.tcp->Send(data.data(), data.size(), Duration(a2))
                       : s.tcpb->Send(data.data(), data.size(), Duration(a2));
      return {static_cast<long long>(n)};
    });
    break;
  }
  case 24: { // TCP_RECV s size timeout
    auto &s = need_sock(a0, 1);
    if(!s.tcp) bad_case(103);
    std::string data(static_cast<size_t>(a1) + 8, '\xAA');
    api(opc, [&]() -> V {
      auto r = s.tcp->Receive(data.data(), static_cast<size_t>(a1), Duration(a2));
      if(!r) return {-1};
      if(*r > static_cast<size_t>(a1) || !vos::check(2ull * s.fd + 1, s.user_in, data.data(), *r)) vos::anomaly(10, a0, static_cast<long long>(*r));
      for(size_t i = *r > static_cast<size_t>(a1) ? data.size() : static_cast<size_t>(a1); i < data.size(); ++i)
        if(data[i] != '\xAA') { vos::anomaly(11, a0); break; }
      s.user_in += *r;
      return {static_cast<long long>(*r)};
    });
    break;
  }
  case 25: { // UDP_SENDTO s size dst timeout
    auto &s = need_sock(a0, 2);
    if(!s.udp && !s.udpb) bad_case(103);
    std::string data(static_cast<size_t>(a1), '\0');
    vos::fill((1ull << 20) + s.fd, (S.dgram_out[s.fd] << 20), data.data(), data.size());
    auto dst = sym_addr(a2);
    api(opc, [&]() -> V {
      size_t n = s.udp ? s.udp->SendTo(data.data(), data.size(), dst, Duration(a3))
                       : s.udpb->SendTo(data.data(), data.size(), dst, Duration(a3));
      return {static_cast<long long>(n)};
    });
    break;
  }
  case 26: { // UDP_RECVFROM s size timeout
    auto &s = need_sock(a0, 2);
    if(!s.udp) bad_case(103);
    std::string data(static_cast<size_t>(a1) + 8, '\xAA');
    api(opc, [&]() -> V {
      auto r = s.udp->ReceiveFrom(data.data(), static_cast<size_t>(a1), Duration(a2));
      if(!r) return {-1};
      size_t n = r->first;
      if(n > static_cast<size_t>(a1) || !vos::check((2ull << 20) + s.fd, (s.user_in << 20), data.data(), n)) vos::anomaly(10, a0, static_cast<long long>(n));
      s.user_in += 1;
      return {static_cast<long long>(n), sym_of(r->second)};
    });
    break;
  }
  case 27: { // ACC_LISTEN s timeout news
    auto &s = need_sock(a0, 3);
    if(!s.acc) bad_case(103);
    fresh_key(a2);
    api(opc, [&]() -> V {
      auto r = s.acc->Listen(Duration(a1));
      if(!r) return {0};
      Sock c; c.kind = 1;
      c.tcp = std::make_unique<SocketTcp>(std::move(r->first));
      c.fd = last_fd_created();
      long long fd = c.fd;
      add_sock(a2, std::move(c));
      return {1, sym_of(r->second), fd, a2};
    });
    break;
  }
  case 28: { // DESTROY s
    auto it = socks.find(a0);
    if(it == socks.end()) bad_case(102);
    api(opc, [&]() -> V {
      destroy_objects(it->second);
      return {a0};
    });
    break;
  }
  case 30: { // BUFFERED_NEW s count size
    auto it = socks.find(a0);
    if(it == socks.end()) bad_case(102);
    if(!it->second.tcp && !it->second.udp) bad_case(104);
    api(opc, [&]() -> V {
      make_buffered(it->second, a1, a2);
      return {a2 ? a2 : vos::RCVBUF_DEFAULT};
    });
    break;
  }
  case 32: { // BUF_RECV s timeout
    auto &s = need_sock(a0, 1);
    if(!s.tcpb) bad_case(103);
    api(opc, [&]() -> V {
      auto r = s.tcpb->Receive(Duration(a1));
      if(!r) return {-1};
      auto &b = *r;
      if(!vos::check(2ull * s.fd + 1, s.user_in, b->data(), b->size())) vos::anomaly(10, a0, static_cast<long long>(b->size()));
      s.user_in += b->size();
      auto n = name_of(b.get());
      V res{n, static_cast<long long>(b->size())};
      held[n] = std::move(b);
      return res;
    });
    break;
  }
  case 33: { // BUF_RECVFROM s timeout
    auto &s = need_sock(a0, 2);
    if(!s.udpb) bad_case(103);
    api(opc, [&]() -> V {
      auto r = s.udpb->ReceiveFrom(Duration(a1));
      if(!r) return {-1};
      auto &b = r->first;
      if(!vos::check((2ull << 20) + s.fd, (s.user_in << 20), b->data(), b->size())) vos::anomaly(10, a0, static_cast<long long>(b->size()));
      s.user_in += 1;
      auto n = name_of(b.get());
      V res{n, static_cast<long long>(b->size()), sym_of(r->second)};
      held[n] = std::move(b);
      return res;
    });
    break;
  }
  case 43: // STOP
    if(!driver) bad_case(130);
    api(opc, [&]() -> V { driver->Stop(); return {}; });
    break;
  case 50: // TODO_NEW id kind value block
    if(!driver) bad_case(130);
    if(a0 >= 0 && todos.count(a0)) bad_case(122);
    api(opc, [&]() -> V {
      static long long anonymous = 0;
      bool anon = a0 < 0;
      long long id = anon ? 1000 + anonymous++ : a0, blk = a3;
      auto task = [id, blk]() { long long i = id, b = blk; vos::log(21, {5, i}); HandlerExit hx{5, i}; run_block(b); };
      std::unique_ptr<ToDo> t;
      if(a1 == 0) t = std::make_unique<ToDo>(*driver, task);
      else if(a1 == 1) t = std::make_unique<ToDo>(*driver, task, TimePoint(std::chrono::nanoseconds(a2 + EPOCH_NS)));
      else t = std::make_unique<ToDo>(*driver, task, Duration(a2));
      todo_ids[t->impl.get()] = id;
      todos[id] = anon ? nullptr : std::move(t);
      return {id, a1, a2};
    });
    break;
  case 51: { // TODO_SHIFT id kind value
    auto it = todos.find(a0);
    if(it == todos.end()) bad_case(120);
    if(!it->second) bad_case(121);
    api(opc, [&]() -> V {
      if(a1 == 1) it->second->Shift(TimePoint(std::chrono::nanoseconds(a2 + EPOCH_NS)));
      else it->second->Shift(Duration(a2));
      return {a0, a1, a2};
    });
    break;
  }
  case 52: { // TODO_CANCEL id
    auto it = todos.find(a0);
    if(it == todos.end()) bad_case(120);
    if(!it->second) bad_case(121);
    api(opc, [&]() -> V { it->second->Cancel(); return {a0}; });
    break;
  }
  case 53: { // TODO_DROP id
    auto it = todos.find(a0);
    if(it == todos.end()) bad_case(120);
    it->second.reset();
    ret_ok(opc, {a0});
    break;
  }
  case 60: { // ASYNC_NEW s h1 h2
    auto it = socks.find(a0);
    if(it == socks.end()) bad_case(102);
    if(!driver) bad_case(130);
    auto &s = it->second;
    if(!(s.tcpb || s.udpb || s.acc)) bad_case(105);
    api(opc, [&]() -> V { make_async(a0, s, a1, a2); return {a0}; });
    break;
  }
  case 61: case 62: { // ASYNC_SEND s p size / ASYNC_SENDTO s p size dst
    auto &s = need_sock(a0, opc == 61 ? 1 : 2);
    if(!(opc == 61 ? !!s.tcpa : !!s.udpa)) bad_case(106);
    api(opc, [&]() -> V {
      auto b = pools.at(a1)->Get();
      (void)name_of(b.get());
      if(!(opc == 61 ? !!s.tcpa : !!s.udpa)) return {-1};   // destroyed by another thread meanwhile (scenario race, not a library matter)
      // reserve the future's slot first: with several producer threads the identity must be unique
      long long f = static_cast<long long>(futs.size());
      futs.emplace_back();
      b->resize(static_cast<size_t>(a2));
      vos::fill((3ull << 20) + static_cast<uint64_t>(f), 0, b->data(), b->size());
      S.aq[s.fd].push_back(vos::State::AQ{f, static_cast<size_t>(a2), 0, a3});
      if(g_on_future) g_on_future(f, a0, s.fd, static_cast<size_t>(a2));
      std::future<void> fut;
      if(opc == 61) fut = s.tcpa->Send(std::move(b));
      else fut = s.udpa->SendTo(std::move(b), sym_addr(a3));
      futs[static_cast<size_t>(f)].f = std::move(fut);
      return {f, a0, a2, opc == 61 ? 0 : a3};
    });
    break;
  }
  case 63: { // ADOPT news count size h1 h2
    if(!cur_acc) { ret_ok(opc, {0}); break; }
    auto acc = *cur_acc;
    cur_acc.reset();
    fresh_key(a0);
    Sock c; c.kind = 1;
    c.tcp = std::make_unique<SocketTcp>(std::move(*acc.sock));
    c.fd = c.tcp->impl->fd;
    add_sock(a0, std::move(c));
    api(opc, [&]() -> V {
      auto &s = socks[a0];
      make_buffered(s, a1, a2);
      make_async(a0, s, a3, a4);
      return {1, a0, s.fd};
    });
    break;
  }
  case 64: // HOLD
    if(cur_arg && *cur_arg) {
      auto n = name_of(cur_arg->get());
      held[n] = std::move(*cur_arg);
    }
    cur_arg = nullptr;
    ret_ok(opc, {});
    break;
  case 95: // THROW kind
    if(a0 == 1) throw std::system_error(std::error_code(0, std::system_category()), "scenario");
    throw std::logic_error("scenario");
  default:
    bad_case(100);
  }
}

void run_block(long long b)
{
  auto it = blocks.find(b);
  if(it == blocks.end()) return;
  auto ops = it->second; // copy: stable while running
  for(auto const &op : ops) (g_op_runner ? g_op_runner : run_simple_op)(op);
}

void report_state()
{
  // futures (polled with the virtual OS switched off: wait_for reads the clock)
  S.active = false;
  for(size_t i = 0; i < futs.size(); ++i) {
    auto &fu = futs[i];
    int state = fu.reported;
    V code;
    if(fu.reported == 0 && fu.f.valid() && fu.f.wait_for(std::chrono::seconds(0)) == std::future_status::ready) {
      try { fu.f.get(); state = 1; }
      catch(std::future_error const &) { state = 3; }
      catch(std::exception const &e) { state = 2; code = exn_code(e); }
    }
    if(state != fu.reported) {
      V a{static_cast<long long>(i), state};
      a.insert(a.end(), code.begin(), code.end());
      vos::logv(22, a);
      fu.reported = state;
    }
  }
  S.active = true;
  for(auto p : pool_order) vos::log(23, {p, pool_busy(pools[p].get())});
  for(auto k : sock_order) {
    auto &s = socks[k];
    if(auto *pool = s.rxpool()) vos::log(23, {1000 + k, pool_busy(pool)});
  }
  if(driver) {
    V a;
    for(auto const &p : driver->impl->pfds) { a.push_back(p.fd); a.push_back(p.events); }
    vos::logv(24, a);
    V t;
    for(auto const &td : driver->impl->todos) {
      auto it = todo_ids.find(td.get());
      t.push_back(it == todo_ids.end() ? -1 : it->second);
      t.push_back(std::chrono::duration_cast<std::chrono::nanoseconds>(td->when.time_since_epoch()).count() - EPOCH_NS);
    }
    vos::logv(25, t);
  }
}

void run_op(Op const &op0)
{
  Op op = op0;
  bool const lenient = op.code >= 1000;
  if(lenient) op.code -= 1000;
  g_lenient = lenient;
  try {
  switch(op.code) {
  case 40: // DRIVER_NEW
    api(40, [&]() -> V {
      int first = S.nextfd;
      driver = std::make_unique<Driver>();
      S.opaque_fds.insert(first);
      S.opaque_fds.insert(first + 1);
      return {};
    });
    break;
  case 41: // STEP timeout
    if(!driver) bad_case(130);
    g_lenient = false;
    api(41, [&]() -> V { driver->Step(Duration(op.arg(0))); return {}; });
    break;
  case 42: // RUN
    if(!driver) bad_case(130);
    g_lenient = false;
    api(42, [&]() -> V { driver->Run(); return {}; });
    break;
  case 44: // DRIVER_DESTROY
    api(44, [&]() -> V { driver.reset(); return {}; });
    break;
  default:
    run_simple_op(op0);
  }
  } catch(SkipOp const &sk) {
    vos::log(20, {op.code, 2, sk.why});
  }
  g_lenient = false;
  report_state();
}

void run_case(Case const &c)
{
  vos::reset();
  S.script = c.script;
  S.faults = c.faults;
  S.rules = c.rules;
#ifdef SOCKPUPPET_WITH_TLS
  fakessl::script = c.engine;
#endif
  // blocks
  std::vector<Op> top;
  std::optional<long long> cur;
  for(auto const &op : c.ops) {
    if(!cur) {
      if(op.code == 1) { cur = op.arg(0); blocks[*cur].clear(); }
      else top.push_back(op);
    } else {
      if(op.code == 2) cur.reset();
      else blocks[*cur].push_back(op);
    }
  }
  S.active = true;
  for(auto const &op : top) run_op(op);
  S.active = false;
  vos::log(99, {0, 0, static_cast<long long>(S.script.size())});
  fwrite(S.trace.data(), 1, S.trace.size(), stdout);
  fflush(stdout);
  _exit(0); // objects are deliberately not destroyed: destruction is an explicit op
}

void dump_on_signal(int sig)
{
  // best effort: keep what was traced before the crash, then die with the same signal
  (void)!write(1, S.trace.data(), S.trace.size());
  (void)!write(1, "\n", 1);
  signal(sig, SIG_DFL);
  raise(sig);
}

void run_isolated(Case const &c)
{
  printf("C %s\n", c.id.c_str());
  fflush(stdout);
  pid_t pid = fork();
  if(pid == 0) {
    for(int sig : {SIGSEGV, SIGABRT, SIGALRM, SIGBUS, SIGFPE, SIGPIPE}) signal(sig, dump_on_signal);
    // watchdog: 6 s of the case's own CPU time (a case runs for milliseconds; nothing in it blocks for real, a hang is a busy loop) —
    // reported as SIGALRM; wall-clock time is only the back-stop, so that a loaded or stalled machine cannot fake a hang
    signal(SIGPROF, [](int) { dump_on_signal(SIGALRM); });
    struct itimerval cpu_limit{{0, 0}, {6, 0}};
    setitimer(ITIMER_PROF, &cpu_limit, nullptr);
    alarm(120);
    run_case(c);
    _exit(0);
  }
  int status = 0;
  waitpid(pid, &status, 0);
  if(WIFSIGNALED(status)) printf("T 98 %d\n", WTERMSIG(status));       // crash / watchdog
  else if(WEXITSTATUS(status) != 0) printf("T 98 %d\n", 1000 + WEXITSTATUS(status));
  printf("X\n");
  fflush(stdout);
}

} // namespace

#ifndef SIM_NO_MAIN
int main()
{
  std::string line;
  Case cur;
  while(std::getline(std::cin, line)) {
    std::istringstream is(line);
    std::string tag;
    if(!(is >> tag) || tag == "#") continue;
    if(tag == "C") { cur = Case(); std::getline(is, cur.id); if(!cur.id.empty() && cur.id[0] == ' ') cur.id.erase(0, 1); }
    else if(tag == "O") { Op o; is >> o.code; long long v; while(is >> v) o.a.push_back(v); cur.ops.push_back(o); }
    else if(tag == "E") { vos::Ev e; is >> e.code; long long v; while(is >> v) e.a.push_back(v);
                          if(e.code == 8) cur.engine.push_back(e.a); else cur.script.push_back(e); }
    else if(tag == "F") { long long i, e; is >> i >> e; if(i < 0) cur.rules.emplace_back(i, e); else if(!cur.faults.count(i)) cur.faults[i] = e; }
    else if(tag == "X") run_isolated(cur);
  }
  return 0;
}
#endif // SIM_NO_MAIN
