// sim.cpp — interpreter of operation histories against the REAL library (built from /repo's working tree),
// under the virtual OS of vos.cpp. Reads cases on stdin (same format as the model runner), runs each in a
// forked child, prints the trace. Counterpart of coq/theories/Sim.v: every op code means the same thing there.
#include "vos.h"
#include "sockpuppet/address.h"
#include "sockpuppet/socket.h"
#include "sockpuppet/socket_buffered.h"
#include "sockpuppet/socket_async.h"

#include <cstdio>
#include <cstring>
#include <future>
#include <iostream>
#include <map>
#include <memory>
#include <optional>
#include <sstream>
#include <string>
#include <sys/wait.h>
#include <system_error>
#include <unistd.h>
#include <vector>

using namespace sockpuppet;
using vos::S;

namespace {

struct Op { int code; std::vector<long long> a; long long arg(size_t i) const { return i < a.size() ? a[i] : 0; } };
struct Case { std::string id; std::vector<Op> ops; std::deque<vos::Ev> script; std::map<long long, long long> faults; };

// ---- exception -> code (same numbering as Base.exn_code) ----------------------------------------
std::vector<long long> exn_code(std::exception const &e)
{
  std::string what = e.what();
  if(auto *se = dynamic_cast<std::system_error const *>(&e)) {
    if(std::string(se->code().category().name()) == "GetAddrInfoError") return {2, se->code().value()};
    return {1, se->code().value()};
  }
  if(auto *fe = dynamic_cast<std::future_error const *>(&e)) { (void)fe; return {8, 0}; }
  if(dynamic_cast<std::invalid_argument const *>(&e)) return {6, 0};
  if(dynamic_cast<std::out_of_range const *>(&e)) return {7, 0};
  if(dynamic_cast<std::logic_error const *>(&e)) {
    long long site = 0;
    if(what == "unexpected send result") site = 1;
    else if(what == "unexpected UDP send result") site = 2;
    else if(what == "unexpected signalling pipe poll result") site = 3;
    else if(what == "unhandled poll event") site = 4;
    else if(what == "uncalled sendto") site = 5;
    else if(what == "invalid handler") site = 6;
    else if(what == "unexpected receive buffer size") site = 7;
    else if(what == "returned invalid buffer") site = 20;
    return {4, site};
  }
  if(dynamic_cast<std::runtime_error const *>(&e)) {
    if(what == "connection closed") return {3, 0};
    if(what == "out of buffers") return {5, 0};
    if(what.find("out of range") != std::string::npos) return {7, 0};
    return {9, 0};
  }
  return {10, 0};
}

// ---- objects ------------------------------------------------------------------------------------
struct Sock {
  int kind = 0; // 1 TCP 2 UDP 3 acceptor
  std::unique_ptr<SocketTcp> tcp;
  std::unique_ptr<SocketUdp> udp;
  std::unique_ptr<Acceptor> acc;
  std::unique_ptr<SocketTcpBuffered> tcpb;
  std::unique_ptr<SocketUdpBuffered> udpb;
  int fd = -1;
  uint64_t user_in = 0;     // bytes / datagrams the user has obtained so far
};

std::map<long long, std::unique_ptr<BufferPool>> pools;
std::map<long long, Sock> socks;
std::vector<BufferPtr> held;              // by name
std::vector<void const *> names;          // buffer address by name (first appearance)

long long name_of(BufferPool::Buffer *b)
{
  for(size_t i = 0; i < names.size(); ++i) if(names[i] == b) return static_cast<long long>(i);
  names.push_back(b);
  held.resize(names.size());
  return static_cast<long long>(names.size() - 1);
}

Address sym_addr(long long k) { return Address("127.0.0.1:" + std::to_string(vos::PORT_BASE_SYM + k)); }
long long sym_of(Address const &a) { return static_cast<long long>(a.Port()) - vos::PORT_BASE_SYM; }

void ret_ok(int opc, std::vector<long long> vals)
{
  std::vector<long long> a{opc, 1};
  a.insert(a.end(), vals.begin(), vals.end());
  vos::logv(20, a);
}
void ret_exn(int opc, std::exception const &e)
{
  std::vector<long long> a{opc, 0};
  auto c = exn_code(e);
  a.insert(a.end(), c.begin(), c.end());
  vos::logv(20, a);
}

template<typename Fn> void api(int opc, Fn &&fn)
{
  try {
    ret_ok(opc, fn());
  } catch(std::exception const &e) {
    ret_exn(opc, e);
  }
}

[[noreturn]] void bad_case(int why)
{
  S.active = false;
  vos::log(99, {1, why, static_cast<long long>(S.script.size())});
  fwrite(S.trace.data(), 1, S.trace.size(), stdout);
  fflush(stdout);
  _exit(0);
}

int last_fd_created() { return S.nextfd - 1; }

void run_op(Op const &op)
{
  using V = std::vector<long long>;
  int const opc = op.code;
  long long a0 = op.arg(0), a1 = op.arg(1), a2 = op.arg(2), a3 = op.arg(3);
  switch(opc) {
  case 10: // POOL_NEW p n reserve
    pools[a0] = std::make_unique<BufferPool>(static_cast<size_t>(a1), static_cast<size_t>(a2));
    ret_ok(opc, {});
    break;
  case 11: // POOL_GET p reserve
    api(opc, [&]() -> V {
      auto b = pools.at(a0)->Get();
      auto n = name_of(b.get());
      V r{n, static_cast<long long>(b->size()), b->capacity() >= static_cast<size_t>(a1) ? 1 : 0};
      held[n] = std::move(b);
      return r;
    });
    break;
  case 12: // BUF_RELEASE name
    api(opc, [&]() -> V {
      if(a0 >= 0 && static_cast<size_t>(a0) < held.size()) held[a0].reset();
      return {};
    });
    break;
  case 13: // BUF_RESIZE name n
    api(opc, [&]() -> V {
      if(a0 < 0 || static_cast<size_t>(a0) >= held.size()) bad_case(101);
      if(held[a0]) held[a0]->resize(static_cast<size_t>(a1));
      return {};
    });
    break;
  case 20: // TCP_NEW s
    api(opc, [&]() -> V {
      Sock s; s.kind = 1;
      s.tcp = std::make_unique<SocketTcp>(sym_addr(100 + a0));
      s.fd = last_fd_created();
      socks[a0] = std::move(s);
      return {};
    });
    break;
  case 21: // UDP_NEW s
    api(opc, [&]() -> V {
      Sock s; s.kind = 2;
      s.udp = std::make_unique<SocketUdp>(sym_addr(200 + a0));
      s.fd = last_fd_created();
      socks[a0] = std::move(s);
      return {};
    });
    break;
  case 22: // ACC_NEW s
    api(opc, [&]() -> V {
      Sock s; s.kind = 3;
      s.acc = std::make_unique<Acceptor>(sym_addr(300 + a0));
      s.fd = last_fd_created();
      socks[a0] = std::move(s);
      return {};
    });
    break;
  case 23: { // TCP_SEND s size timeout
    auto it = socks.find(a0);
    if(it == socks.end() || it->second.kind != 1 || (!it->second.tcp && !it->second.tcpb)) bad_case(103);
    auto &s = it->second;
    std::string data(static_cast<size_t>(a1), '\0');
    vos::fill(2ull * s.fd, S.out_pos[s.fd], data.data(), data.size());
    api(opc, [&]() -> V {
      size_t n = s.tcp ? s.tcp->Send(data.data(), data.size(), Duration(a2))
                       : s.tcpb->Send(data.data(), data.size(), Duration(a2));
      return {static_cast<long long>(n)};
    });
    break;
  }
  case 24: { // TCP_RECV s size timeout
    auto it = socks.find(a0);
    if(it == socks.end() || it->second.kind != 1 || !it->second.tcp) bad_case(103);
    auto &s = it->second;
    std::string data(static_cast<size_t>(a1) + 8, '\xAA');
    api(opc, [&]() -> V {
      auto r = s.tcp->Receive(data.data(), static_cast<size_t>(a1), Duration(a2));
      if(!r) return {-1};
      if(*r > static_cast<size_t>(a1) || !vos::check(2ull * s.fd + 1, s.user_in, data.data(), *r)) vos::anomaly(10, a0, static_cast<long long>(*r));
      for(size_t i = *r > static_cast<size_t>(a1) ? data.size() : static_cast<size_t>(a1); i < data.size(); ++i)
        if(data[i] != '\xAA') { vos::anomaly(11, a0); break; }
      s.user_in += *r;
      return {static_cast<long long>(*r)};
    });
    break;
  }
  case 25: { // UDP_SENDTO s size dst timeout
    auto it = socks.find(a0);
    if(it == socks.end() || it->second.kind != 2 || (!it->second.udp && !it->second.udpb)) bad_case(103);
    auto &s = it->second;
    std::string data(static_cast<size_t>(a1), '\0');
    vos::fill((1ull << 20) + s.fd, (S.dgram_out[s.fd] << 20), data.data(), data.size());
    auto dst = sym_addr(a2);
    api(opc, [&]() -> V {
      size_t n = s.udp ? s.udp->SendTo(data.data(), data.size(), dst, Duration(a3))
                       : s.udpb->SendTo(data.data(), data.size(), dst, Duration(a3));
      return {static_cast<long long>(n)};
    });
    break;
  }
  case 26: { // UDP_RECVFROM s size timeout
    auto it = socks.find(a0);
    if(it == socks.end() || it->second.kind != 2 || !it->second.udp) bad_case(103);
    auto &s = it->second;
    std::string data(static_cast<size_t>(a1) + 8, '\xAA');
    api(opc, [&]() -> V {
      auto r = s.udp->ReceiveFrom(data.data(), static_cast<size_t>(a1), Duration(a2));
      if(!r) return {-1};
      size_t n = r->first;
      if(n > static_cast<size_t>(a1) || !vos::check((2ull << 20) + s.fd, (s.user_in << 20), data.data(), n)) vos::anomaly(10, a0, static_cast<long long>(n));
      s.user_in += 1;
      return {static_cast<long long>(n), sym_of(r->second)};
    });
    break;
  }
  case 27: { // ACC_LISTEN s timeout news
    auto it = socks.find(a0);
    if(it == socks.end() || it->second.kind != 3 || !it->second.acc) bad_case(103);
    auto &s = it->second;
    api(opc, [&]() -> V {
      auto r = s.acc->Listen(Duration(a1));
      if(!r) return {0};
      Sock c; c.kind = 1;
      c.tcp = std::make_unique<SocketTcp>(std::move(r->first));
      c.fd = last_fd_created();
      socks[a2] = std::move(c);
      return {1, sym_of(r->second)};
    });
    break;
  }
  case 28: { // DESTROY s
    auto it = socks.find(a0);
    if(it == socks.end()) bad_case(102);
    auto &s = it->second;
    s.tcp.reset(); s.udp.reset(); s.acc.reset(); s.tcpb.reset(); s.udpb.reset();
    ret_ok(opc, {});
    break;
  }
  case 30: { // BUFFERED_NEW s count size
    auto it = socks.find(a0);
    if(it == socks.end() || (!it->second.tcp && !it->second.udp)) bad_case(104);
    auto &s = it->second;
    api(opc, [&]() -> V {
      if(s.kind == 1) {
        auto tmp = std::move(s.tcp);
        s.tcpb = std::make_unique<SocketTcpBuffered>(std::move(*tmp), static_cast<size_t>(a1), static_cast<size_t>(a2));
      } else {
        auto tmp = std::move(s.udp);
        s.udpb = std::make_unique<SocketUdpBuffered>(std::move(*tmp), static_cast<size_t>(a1), static_cast<size_t>(a2));
      }
      return {a2 ? a2 : vos::RCVBUF_DEFAULT};
    });
    break;
  }
  case 32: { // BUF_RECV s timeout
    auto it = socks.find(a0);
    if(it == socks.end() || !it->second.tcpb) bad_case(103);
    auto &s = it->second;
    api(opc, [&]() -> V {
      auto r = s.tcpb->Receive(Duration(a1));
      if(!r) return {-1};
      auto &b = *r;
      if(!vos::check(2ull * s.fd + 1, s.user_in, b->data(), b->size())) vos::anomaly(10, a0, static_cast<long long>(b->size()));
      s.user_in += b->size();
      auto n = name_of(b.get());
      V res{n, static_cast<long long>(b->size())};
      held[n] = std::move(b);
      return res;
    });
    break;
  }
  case 33: { // BUF_RECVFROM s timeout
    auto it = socks.find(a0);
    if(it == socks.end() || !it->second.udpb) bad_case(103);
    auto &s = it->second;
    api(opc, [&]() -> V {
      auto r = s.udpb->ReceiveFrom(Duration(a1));
      if(!r) return {-1};
      auto &b = r->first;
      if(!vos::check((2ull << 20) + s.fd, (s.user_in << 20), b->data(), b->size())) vos::anomaly(10, a0, static_cast<long long>(b->size()));
      s.user_in += 1;
      auto n = name_of(b.get());
      V res{n, static_cast<long long>(b->size()), sym_of(r->second)};
      held[n] = std::move(b);
      return res;
    });
    break;
  }
  default:
    bad_case(100);
  }
}

void run_case(Case const &c)
{
  vos::reset();
  S.script = c.script;
  S.faults = c.faults;
  S.active = true;
  for(auto const &op : c.ops) run_op(op);
  S.active = false;
  vos::log(99, {0, 0, static_cast<long long>(S.script.size())});
  fwrite(S.trace.data(), 1, S.trace.size(), stdout);
  fflush(stdout);
  _exit(0); // objects are deliberately not destroyed: destruction is an explicit op
}

void run_isolated(Case const &c)
{
  printf("C %s\n", c.id.c_str());
  fflush(stdout);
  pid_t pid = fork();
  if(pid == 0) {
    alarm(20);
    run_case(c);
    _exit(0);
  }
  int status = 0;
  waitpid(pid, &status, 0);
  if(WIFSIGNALED(status)) printf("T 98 %d\n", WTERMSIG(status));       // crash / watchdog
  else if(WEXITSTATUS(status) != 0) printf("T 98 %d\n", 1000 + WEXITSTATUS(status));
  printf("X\n");
  fflush(stdout);
}

} // namespace

int main()
{
  std::string line;
  Case cur;
  while(std::getline(std::cin, line)) {
    std::istringstream is(line);
    std::string tag;
    if(!(is >> tag) || tag == "#") continue;
    if(tag == "C") { cur = Case(); std::getline(is, cur.id); if(!cur.id.empty() && cur.id[0] == ' ') cur.id.erase(0, 1); }
    else if(tag == "O") { Op o; is >> o.code; long long v; while(is >> v) o.a.push_back(v); cur.ops.push_back(o); }
    else if(tag == "E") { vos::Ev e; is >> e.code; long long v; while(is >> v) e.a.push_back(v); cur.script.push_back(e); }
    else if(tag == "F") { long long i, e; is >> i >> e; cur.faults[i] = e; }
    else if(tag == "X") run_isolated(cur);
  }
  return 0;
}
