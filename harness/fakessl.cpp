// fakessl.cpp — a SCRIPTED TLS engine with OpenSSL's API, linked into the simtls harness instead of libssl.
// Counterpart of TlsModel.engine: each SSL_read / SSL_write_ex / SSL_shutdown consumes one engine event
//     E 8 call nbio (kind size)* res err init
// performs the listed BIO calls through the library's own BIO method (so SocketTlsImpl::BioRead / BioWrite run for real),
// ends with WANT_READ / WANT_WRITE when a BIO read yields nothing / a BIO write is incomplete, else returns res with
// SSL_get_error = err and SSL_is_init_finished = init. Nothing is encrypted: what matters here is the glue.
#ifdef SOCKPUPPET_WITH_TLS
#include <openssl/ssl.h>
#include <openssl/err.h>
#include <cerrno>
#include <cstdio>
#include <unistd.h>
#include <cstring>
#include <deque>
#include <vector>

#include "socket_tls_impl.h"
#include "vos.h"
#include "fakessl.h"

using vos::S;

struct bio_method_st {
  int (*bwrite)(BIO *, const char *, int) = nullptr;
  int (*bread)(BIO *, char *, int) = nullptr;
  long (*ctrl)(BIO *, int, long, void *) = nullptr;
  int (*create)(BIO *) = nullptr;
};
struct bio_st { bio_method_st const *method = nullptr; void *data = nullptr; int init = 0; int flags = 0; };
struct ssl_method_st { int server; };
struct ssl_ctx_st { int refs = 1; long mode = 0; };
struct ssl_st { BIO *rbio = nullptr, *wbio = nullptr; int last_err = 0; bool init = false, server = false, started = false, more = false;
                long mode = 0; const void *pend_buf = nullptr; size_t pend_len = 0; };

static unsigned long g_err_queue = 0;     // see ERR_* below

namespace fakessl {
std::deque<std::vector<long long>> script;

[[noreturn]] static void underrun()
{
  S.active = false;
  vos::log(99, {1, 8, static_cast<long long>(S.script.size())});
  fwrite(S.trace.data(), 1, S.trace.size(), stdout);
  fflush(stdout);
  _exit(0);
}

static int fd_of(SSL *ssl) { return static_cast<sockpuppet::SocketTlsImpl *>(ssl->rbio->data)->fd; }

// returns (res, err)
static std::pair<long long, long long> engine(SSL *ssl, int call, char *rbuf, char const *wbuf, size_t size)
{
  (void)wbuf;
  vos::log(42, {call, static_cast<long long>(size), fd_of(ssl)});
  ssl->started = true;
  if(script.empty() || script.front().empty() || script.front()[0] != call) underrun();
  auto ev = script.front();
  script.pop_front();
  auto arg = [&](size_t i) -> long long { return i < ev.size() ? ev[i] : 0; };
  long long nbio = arg(1);
  long long st = 0;
  for(long long i = 0; i < nbio && st == 0; ++i) {
    long long kind = arg(2 + 2 * static_cast<size_t>(i)), n = arg(3 + 2 * static_cast<size_t>(i));
    std::vector<char> tmp(static_cast<size_t>(n > 0 ? n : 1), 'E');
    if(kind == 1) {
      // a record may arrive in segments: read until it is complete or nothing comes
      long long need = n;
      for(;;) {
        int r = ssl->rbio->method->bread(ssl->rbio, tmp.data(), static_cast<int>(need));
        vos::log(41, {1, need, r});
        if(r == 0) { st = SSL_ERROR_WANT_READ; break; }
        if(r >= need) break;
        need -= r;
      }
    } else {
      int w = ssl->wbio->method->bwrite(ssl->wbio, tmp.data(), static_cast<int>(n));
      vos::log(41, {2, n, w});
      if(w != n) st = SSL_ERROR_WANT_WRITE;
    }
  }
  size_t fin = 2 + 2 * static_cast<size_t>(nbio);
  if(st != 0) {
    ssl->last_err = static_cast<int>(st);
    vos::log(40, {call, static_cast<long long>(size), -1, st, -1});
    return {-1, st};
  }
  long long res = arg(fin), err = arg(fin + 1), init = arg(fin + 2);
  long long more = arg(fin + 3);                                      // SSL_pending() > 0 afterwards: rest of a decrypted record
  ssl->init = init == 1;
  ssl->more = more == 1;
  ssl->last_err = static_cast<int>(err);
  if(err == SSL_ERROR_SYSCALL) errno = EIO;
  // a fatal error leaves an entry in the thread's error queue — also a failing SSL_shutdown ("shutdown while in init"), whose
  // entry the destructor used to leave behind for the NEXT socket served by this thread (finding F16)
  if(err == SSL_ERROR_SSL) g_err_queue = 0x0A00009Cul;
  vos::log(40, {call, static_cast<long long>(size), res, err, init});
  (void)rbuf;
  return {res, err};
}
} // namespace fakessl

extern "C" {

// ---- library / error strings ----
int OPENSSL_init_ssl(uint64_t, const OPENSSL_INIT_SETTINGS *) { return 1; }
// OpenSSL's per-thread error queue, as far as the glue can observe it: a fatal SSL error leaves an entry; SSL_get_error() reports
// SSL_ERROR_SSL for ANY non-positive result while the queue is not empty; printing / fetching / clearing empties it.
const char *ERR_reason_error_string(unsigned long e) { return e > 255 ? "scripted TLS engine error" : nullptr; }
void ERR_print_errors_cb(int (*cb)(const char *, size_t, void *), void *u)
{
  if(g_err_queue && cb) { static char const msg[] = "error:0A00009C:scripted engine\n"; cb(msg, sizeof(msg) - 1, u); }
  g_err_queue = 0;
}
unsigned long ERR_peek_last_error(void) { return g_err_queue; }
unsigned long ERR_peek_error(void) { return g_err_queue; }
unsigned long ERR_get_error(void) { auto e = g_err_queue; g_err_queue = 0; return e; }
void ERR_clear_error(void) { g_err_queue = 0; }

// ---- methods and contexts ----
const SSL_METHOD *TLS_client_method(void) { static ssl_method_st m{0}; return &m; }
const SSL_METHOD *TLS_server_method(void) { static ssl_method_st m{1}; return &m; }
SSL_CTX *SSL_CTX_new(const SSL_METHOD *) { return new ssl_ctx_st; }
void SSL_CTX_free(SSL_CTX *ctx) { if(ctx && --ctx->refs == 0) delete ctx; }
long SSL_CTX_ctrl(SSL_CTX *ctx, int cmd, long larg, void *)
{
  if(cmd == SSL_CTRL_MODE) { ctx->mode |= larg; return ctx->mode; }
  return 1;
}
int SSL_CTX_use_certificate_file(SSL_CTX *, const char *, int) { return 1; }
int SSL_CTX_use_PrivateKey_file(SSL_CTX *, const char *, int) { return 1; }

// ---- BIO ----
int BIO_get_new_index(void) { static int n = 128; return n++; }
BIO_METHOD *BIO_meth_new(int, const char *) { return new bio_method_st; }
void BIO_meth_free(BIO_METHOD *m) { delete m; }
int BIO_meth_set_write(BIO_METHOD *m, int (*f)(BIO *, const char *, int)) { m->bwrite = f; return 1; }
int BIO_meth_set_read(BIO_METHOD *m, int (*f)(BIO *, char *, int)) { m->bread = f; return 1; }
int BIO_meth_set_ctrl(BIO_METHOD *m, long (*f)(BIO *, int, long, void *)) { m->ctrl = f; return 1; }
int BIO_meth_set_create(BIO_METHOD *m, int (*f)(BIO *)) { m->create = f; return 1; }
BIO *BIO_new(const BIO_METHOD *m) { auto *b = new bio_st; b->method = m; if(m->create) m->create(b); return b; }
int BIO_free(BIO *b) { delete b; return 1; }
void BIO_set_data(BIO *b, void *p) { b->data = p; }
void *BIO_get_data(BIO *b) { return b->data; }
void BIO_set_init(BIO *b, int i) { b->init = i; }
void BIO_set_flags(BIO *b, int f) { b->flags |= f; }
void BIO_clear_flags(BIO *b, int f) { b->flags &= ~f; }

// ---- SSL ----
SSL *SSL_new(SSL_CTX *ctx) { ++ctx->refs; auto *s = new ssl_st; s->mode = ctx->mode; return s; }
void SSL_free(SSL *s) { if(!s) return; delete s->rbio; if(s->wbio != s->rbio) delete s->wbio; delete s; }
void SSL_set_bio(SSL *s, BIO *r, BIO *w) { s->rbio = r; s->wbio = w; S.tls_fds.insert(fakessl::fd_of(s)); }
void SSL_set_connect_state(SSL *) {}
void SSL_set_accept_state(SSL *s) { s->server = true; }
int SSL_in_before(const SSL *s) { return s->started ? 0 : 1; }
int SSL_is_server(const SSL *s) { return s->server ? 1 : 0; }
int SSL_is_init_finished(const SSL *s) { return s->init ? 1 : 0; }
int SSL_pending(const SSL *s) { return s->more ? 1 : 0; }
int SSL_has_pending(const SSL *s) { return s->more ? 1 : 0; }
int SSL_get_error(const SSL *s, int ret) { return (ret <= 0 && g_err_queue) ? SSL_ERROR_SSL : s->last_err; }

int SSL_read(SSL *s, void *buf, int num)
{
  auto [res, err] = fakessl::engine(s, 1, static_cast<char *>(buf), nullptr, static_cast<size_t>(num));
  (void)err;
  if(res > 0) {
    if(res > num) res = num;     // a script that delivers more than asked for: clamp (the model's script generator never does)
    int fd = fakessl::fd_of(s);
    vos::fill(2ull * static_cast<uint64_t>(fd) + 1, S.plain_in[fd], static_cast<char *>(buf), static_cast<size_t>(res));
    S.plain_in[fd] += static_cast<uint64_t>(res);
  }
  return static_cast<int>(res);
}

int SSL_write_ex(SSL *s, const void *buf, size_t num, size_t *written)
{
  int fd = fakessl::fd_of(s);
  // the plaintext the library hands to the engine: for asynchronous sockets the front buffer of the queue from its
  // unsent offset (same bookkeeping as vos.cpp send() does for plain sockets)
  if(S.async_fds.count(fd)) {
    auto &q = S.aq[fd];
    if(q.empty()) vos::anomaly(5, fd, static_cast<long long>(num));
    else {
      auto &f = q.front();
      if(num != f.size - f.off || !vos::check((3ull << 20) + static_cast<uint64_t>(f.fut), f.off, static_cast<char const *>(buf), num))
        vos::anomaly(1, fd, f.fut);
    }
  } else if(!vos::check(2ull * static_cast<uint64_t>(fd), S.plain_out[fd], static_cast<char const *>(buf), num)) {
    vos::anomaly(1, fd, static_cast<long long>(S.plain_out[fd]));
  }
  // OpenSSL's write-retry rule: a write that ended with WANT_READ / WANT_WRITE must be repeated with the same arguments; the buffer may
  // only have moved if SSL_MODE_ACCEPT_MOVING_WRITE_BUFFER is set ("bad write retry" otherwise)
  if(s->pend_buf && (num < s->pend_len || (buf != s->pend_buf && !(s->mode & SSL_MODE_ACCEPT_MOVING_WRITE_BUFFER)))) {
    vos::anomaly(31, fd, static_cast<long long>(num));
    s->last_err = SSL_ERROR_SSL;
    g_err_queue = 0x0A00007Ful;
    if(S.async_fds.count(fd) && !S.aq[fd].empty()) S.aq[fd].pop_front();
    return -1;
  }
  bool threw = true;
  struct OnExit { bool &threw; int fd; ~OnExit() { if(threw && S.async_fds.count(fd) && !S.aq[fd].empty()) S.aq[fd].pop_front(); } } guard{threw, fd};
  auto [res, err] = fakessl::engine(s, 2, nullptr, static_cast<char const *>(buf), num);
  threw = false;
  if(res <= 0 && (err == SSL_ERROR_WANT_READ || err == SSL_ERROR_WANT_WRITE)) { s->pend_buf = buf; s->pend_len = num; }
  else { s->pend_buf = nullptr; s->pend_len = 0; }
  if(res > 0) {
    *written = static_cast<size_t>(res);
    if(S.async_fds.count(fd)) {
      auto &q = S.aq[fd];
      if(!q.empty()) { auto &f = q.front(); f.off += static_cast<size_t>(res); if(f.off >= f.size) q.pop_front(); }
    } else S.plain_out[fd] += static_cast<uint64_t>(res);
    return 1;
  }
  if(err == SSL_ERROR_SSL || err == SSL_ERROR_SYSCALL || err == SSL_ERROR_ZERO_RETURN) {
    if(S.async_fds.count(fd) && !S.aq[fd].empty()) S.aq[fd].pop_front();     // the library fails this future
  }
  return static_cast<int>(res);
}

int SSL_do_handshake(SSL *s)
{
  auto [res, err] = fakessl::engine(s, 4, nullptr, nullptr, 0);
  (void)err;
  return static_cast<int>(res);
}

int SSL_shutdown(SSL *s)
{
  auto [res, err] = fakessl::engine(s, 3, nullptr, nullptr, 0);
  (void)err;
  return static_cast<int>(res);
}

} // extern "C"
#endif
