"""C10 — BufferPool accounting and recycling, incl. the sockets' receive pools."""
import random
from common import *
from engine import run_sim_check
import schedcheck

MODULE = "Properties_C10"
THEOREMS = ["pool_limit", "pool_refuse_unchanged", "pool_grants_below_limit", "pool_unlimited_never_refuses",
            "get_empty_distinct_reserved", "buffers_distinct", "recycle_reuses_same", "no_alloc_while_idle",
            ]

EAGAIN, ECONNRESET, ENOMEM = 11, 104, 12


def gen_pool_case(rnd, i):
    n = rnd.choice([0, 0, 1, 1, 2, 3, 5, 8])
    # (sizes up to megabytes: the promise "pre-allocated with the reserved capacity" holds for every (N, reserve), also when
    #  N * reserve is large — e.g. the OS-determined receive size of ~200 kB times a handful of buffers)
    reserve = rnd.choice([0, 1, 15, 16, 100, 5000, 5000, 212992, 300000, 2000000])
    ops = [(10, [1, n, reserve])]
    if n == 0:
        reserve = 0      # capacity is only promised for pre-allocated pools
    held, free_stack, nnames = [], [], 0
    L = rnd.choice([3, 8, 20, 40])
    for _ in range(L):
        r = rnd.random()
        if r < 0.5 or not held:
            ops.append((11, [1, reserve]))
            # python-side guess of the name, only to aim later ops
            if n > 0 and len(held) >= n:
                pass
            else:
                if free_stack:
                    held.append(free_stack.pop())
                else:
                    held.append(nnames); nnames += 1
        elif r < 0.85:
            b = rnd.choice(held)
            ops.append((12, [b]))
            held.remove(b); free_stack.append(b)
        else:
            b = rnd.choice(held)
            ops.append((13, [b, rnd.choice([0, 1, reserve, reserve + 1, 3 * reserve + 7])]))
    if rnd.random() < 0.3 and n > 0:
        # run into the limit and beyond, then release in scrambled order and refill
        ops += [(11, [1, reserve])] * (n + 2)
        order = list(range(nnames + n + 2)); rnd.shuffle(order)
        ops += [(12, [b]) for b in order[:n + 1]]
        ops += [(11, [1, reserve])] * (n + 1)
    return Case("pool%d" % i, ops, [], [], {"kind": "pool", "n": n, "reserve": reserve})


def gen_sock_case(rnd, i):
    """buffered TCP / UDP socket with N receive buffers: successful, timed-out and failing receives"""
    udp = rnd.random() < 0.4
    n = rnd.choice([1, 1, 2, 3])
    size = rnd.choice([0, 1, 8, 100])
    rx = size if size else 4096
    ops = [(21 if udp else 20, [1]), (30, [1, n, size])]
    evs = []
    held = 0
    names = 0
    for _ in range(rnd.choice([2, 5, 12])):
        t = rnd.choice([-1, 0, 0, 5, 100])
        k = rnd.random()
        ops.append((33 if udp else 32, [1, t]))
        if k < 0.25 and t >= 0:
            # time-out
            if t > 0:
                evs.append((1, [rnd.choice([0, 1000])]))
            evs.append((2, [0, 0, t * 1000000, 0]))
        else:
            if t > 0:
                evs.append((1, [rnd.choice([0, 1000])]))
            evs.append((2, [1, 0, rnd.choice([0, 500000]), 1]))
            if k < 0.45:
                evs.append((6 if udp else 4, [-1, rnd.choice([EAGAIN, ECONNRESET, ENOMEM])] + ([0] if udp else [])))
            elif k < 0.55 and not udp:
                evs.append((4, [0, 0]))      # peer closed
            else:
                got = rnd.choice([1, rx, max(1, rx // 2)])
                evs.append((6, [got if not (udp and rnd.random() < 0.2) else 0, 0, rnd.choice([1, 2, 3])]) if udp else (4, [got, 0]))
                held += 1; names = max(names, held)
        # user releases some of what it holds
        if held and rnd.random() < 0.6:
            ops.append((12, [rnd.randrange(max(1, names))]))
            held = max(0, held - 1)
    return Case("sock%d" % i, ops, evs, [], {"kind": "sock", "n": n, "udp": udp})


def generate(rnd, tier):
    k = {"quick": 600, "thorough": 6000, "search": 1500}[tier]
    out = []
    for i in range(k):
        out.append(gen_pool_case(rnd, i) if i % 3 else gen_sock_case(rnd, i))
    return out


def project(tr):
    # results of pool / buffer / buffered-receive operations (exception kind only) and crash markers
    out = []
    for c, a in tr:
        if c == 20 and a[0] in (10, 11, 12, 13, 30, 32, 33):
            out.append((c, a[:4] if a[1] == 0 else a))
        elif c in (90, 98, 99):
            out.append((c, a[:2]))
    return out


def nontrivial_key(c, tr):
    gets = [a for k, a in tr if k == 20 and a[0] in (11, 32, 33)]
    if len(gets) < 2:
        return None
    return c.key()


def monitor_full(c, tr):
    # names are global (first appearance); map name -> owner while replaying
    owner_of = {}
    pools = {}
    def P(owner):
        return pools.setdefault(owner, {"n": None, "reserve": 0, "held": [], "stack": [], "names": set()})
    for k, a in tr:
        if k in (90, 98):
            return "anomaly/crash %s" % (a,)
    rets = [a for k, a in tr if k == 20]
    ri = 0
    for opc, oa in c.ops:
        if ri >= len(rets):
            break
        a = rets[ri]; ri += 1
        if a[0] != opc:
            return "result of op %d missing" % opc
        if opc == 10:
            p = P(oa[0]); p["n"], p["reserve"] = oa[1], oa[2]
        elif opc == 30 and a[1] == 1:
            p = P(1000 + oa[0]); p["n"], p["reserve"] = oa[1], a[2]
        elif opc in (11, 32, 33):
            owner = oa[0] if opc == 11 else 1000 + oa[0]
            p = P(owner)
            if p["n"] is None:
                continue
            if a[1] == 1:
                if opc != 11 and a[2] == -1:
                    continue
                name = a[2]
                if name in p["held"]:
                    return "Get handed out buffer %d that is still outstanding" % name
                if owner_of.get(name, owner) != owner:
                    return "buffer %d belongs to another pool" % name
                if p["n"] > 0 and len(p["held"]) >= p["n"]:
                    return "more than N=%d buffers outstanding" % p["n"]
                if opc == 11:
                    if a[3] != 0:
                        return "Get returned a non-empty buffer (size %d)" % a[3]
                    if p["n"] > 0 and a[4] != 1:
                        return "pre-allocated buffer lacks the reserved capacity"
                if p["stack"]:
                    if name != p["stack"][-1]:
                        return "released buffer %d not the one reused by the next Get (got %d)" % (p["stack"][-1], name)
                    p["stack"].pop()
                elif p["n"] > 0 and name not in p["names"] and len(p["names"]) >= p["n"]:
                    return "pool created a buffer beyond its N pre-allocated ones"
                elif name in p["names"]:
                    return "Get returned idle buffer %d out of recycling order" % name
                p["names"].add(name); p["held"].append(name); owner_of[name] = owner
            elif a[2] == 5:
                if p["n"] == 0:
                    return "unlimited pool refused"
                if len(p["held"]) < p["n"]:
                    return "refused with only %d of N=%d outstanding (receive buffer not returned?)" % (len(p["held"]), p["n"])
        elif opc == 12:
            name = oa[0]
            if name in owner_of:
                p = P(owner_of[name])
                if name in p["held"]:
                    p["held"].remove(name); p["stack"].append(name)
    return None


def distribution(cases):
    d = {"pool_cases": 0, "socket_cases": 0, "ops": 0, "N": {}}
    for c in cases:
        d["pool_cases" if c.meta.get("kind") == "pool" else "socket_cases"] += 1
        d["ops"] += len(c.ops)
        d["N"][str(c.meta.get("n"))] = d["N"].get(str(c.meta.get("n")), 0) + 1
    return d


SPEC = {
    "id": "C10", "extra": schedcheck.extra_stage(("pool",), [schedcheck.mon_pool]), "module": MODULE, "theorems": THEOREMS, "harness": "sim",
    "generate": generate, "project": project, "nontrivial_key": nontrivial_key, "monitor": monitor_full,
    "distribution": distribution,
    "rule": "random Get/release/resize histories on BufferPool(N, reserve) with N in {0,1,2,3,5,8} and reserve from 0 to 2 MB, incl. running past the limit and "
            "scrambled release order; buffered TCP/UDP sockets with N receive buffers under successful, timed-out, failing and "
            "peer-closed receives (virtual OS). A case is non-trivial if it performs >= 2 Get/receive operations; distinct = distinct case text.",
    "assumptions": ["libstdc++: clear/resize never lower std::string capacity", "single-threaded histories in the sim harness; concurrent Get/Recycle are serialised by m_mtx (every concurrent history is one of the sequential ones)"],
}


def main(tier, seed, replay=None):
    return run_sim_check(SPEC, tier, seed, replay)
