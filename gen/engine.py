"""engine.py — the verdict procedure shared by all checks built on the sim harness (DESIGN.md 2.4)."""
import os, random, sys, json
from common import *


def describe(c, ti, tm, why, names=None):
    L = ["# replay of property check; feed the case below to the harness (impl) and to ocaml/_gen/sp_model (model)",
         "# reason: %s" % why, c.text(), "# --- implementation trace", fmt_trace(ti or []), "# --- model trace", fmt_trace(tm or [])]
    return "\n".join(L) + "\n"


def run_sim_check(spec, tier, seed, replay=None):
    pid = spec["id"]
    rep = Report(pid, tier, seed)
    rep.assumptions = spec.get("assumptions", [])
    problems = proof_stage(rep, spec["module"], spec["theorems"])
    try:
        exe = harness_exe(spec.get("harness", "sim"), spec.get("flavour", "plain"))
    except RuntimeError as e:
        rep.violation("build", "the harness could not be built against /repo's current tree:\n%s\n" % e, no_input=True)
        rep.cov.setdefault("evaluations", 0); rep.cov.setdefault("distinct_nontrivial", 0)
        return rep.finish()

    if replay:
        cases = parse_cases(open(replay).read())
    else:
        cases = list(spec["corpus"]()) if "corpus" in spec else []
        cases += spec["generate"](random.Random(seed), tier)
    # unique ids
    for i, c in enumerate(cases):
        c.id = "%s-%d" % (c.id.split(" ")[0], i)
    mon = spec.get("monitor")
    diverging, failing = correspondence(rep, cases, exe, spec["project"], spec["nontrivial_key"], mon)
    rep.cov["rule"] = spec["rule"]
    rep.cov["samples"] = [c.text() for c in cases[:2]] + [c.text() for c in cases[len(cases)//2:len(cases)//2+1]]
    rep.cov["input_distribution"] = spec["distribution"](cases) if "distribution" in spec else {}

    known = known_findings(pid)

    def classify(c, ti, tm, why):
        for key, text in known:
            if spec.get("finding_key") and spec["finding_key"](c, ti, why) == key:
                msg = "%s [%s]" % (text, key)
                if msg not in rep.known:
                    rep.known.append(msg)
                return True
        return False

    reported = 0
    if "extra" in spec and not replay:
        for tag, text in spec["extra"](rep, tier, seed)[:3]:
            rep.violation("%s%d" % (tag, reported), text)
            reported += 1
    for (c, ti, tm, why) in failing:
        if classify(c, ti, tm, why):
            continue
        if reported < 3:
            rep.violation("fail%d" % reported, describe(c, ti, tm, "property monitor fails on the implementation: " + why))
        reported += 1
    # divergences explained by a listed known finding do not count (the model cannot exhibit e.g. lost bytes)
    diverging = [(c, ti, tm, why) for (c, ti, tm, why) in diverging if not classify(c, ti, tm, "divergence")]
    if reported == 0 and (diverging or problems):
        # a proof obligation or the correspondence no longer checks: search for a concrete failing input
        found = None
        if mon is not None and "generate" in spec:
            import adaptive, drivercases
            for k in range(spec.get("search_rounds", 3)):
                rnd2 = random.Random(seed * 7919 + k + 1)
                extra = spec["generate"](rnd2, "search")
                for i, c in enumerate(extra):
                    c.id = "s%d-%d" % (k, i)
                if k >= 1:
                    # scripts fitted to the model may end where the implementation now asks for something else: re-grow the
                    # oracle scripts against the IMPLEMENTATION (same operations, the chooser plays the kernel)
                    for c in extra:
                        c.evs = []
                        c.meta.pop("blocked", None)
                        c.meta.setdefault("pipe_fd", 1001)
                    # (cases whose scripts were grown adaptively in the first place come first: driver / fault / peer / TLS scenarios)
                    extra.sort(key=lambda c: 0 if c.meta.get("kind") in ("todo", "async", "hand", "walk", "enum", "peer", "tls", "seqstop") else 1)
                    extra = adaptive.grow(extra[:600], spec.get("chooser", drivercases.chooser), rnd2, exe=exe)
                impl = run_exe(exe, extra)
                rep.cov["evaluations"] += len(extra)
                for c in extra:
                    ti = impl.get(c.id)
                    why = mon(c, ti) if ti is not None else None
                    if why and not classify(c, ti, None, why):
                        found = (c, ti, why)
                        break
                if found:
                    break
        if found:
            c, ti, why = found
            rep.violation("search", describe(c, ti, None, "property monitor fails on the implementation: " + why))
        elif diverging:
            # known-finding divergences do not count
            div = [(c, ti, tm, why) for (c, ti, tm, why) in diverging if not classify(c, ti, tm, "divergence")]
            if div or problems:
                c, ti, tm, why = (div or diverging)[0]
                txt = "correspondence model<->implementation no longer checks (%d of %d cases diverge)\n" % (len(diverging), len(cases))
                if problems:
                    txt += "proof obligations that no longer check:\n" + "\n".join(problems) + "\n"
                rep.violation("diverge", txt + describe(c, ti, tm, why), no_input=True)
        else:
            rep.violation("proof", "proof obligations that no longer check:\n" + "\n".join(problems) + "\n", no_input=True)
    rep.cov["diverging_cases"] = len(diverging)
    rep.cov["monitor_failures"] = len(failing)
    return rep.finish()
