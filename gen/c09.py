"""C09 — UDP datagrams: boundaries, payload, source and destination preserved."""
from common import *
from engine import run_sim_check
import schedcheck
from sockcases import *

THEOREMS = ["sendto_all_or_nothing", "sendto_failure_reported", "recvfrom_faithful", "driver_sendto_pops_and_resolves"]


def generate(rnd, tier):
    k = {"quick": 1000, "thorough": 12000, "search": 3000}[tier]
    cases = [gen_udp_case(rnd, i, tier) for i in range(k)]
    import drivercases as dc
    k2 = {"quick": 250, "thorough": 2500, "search": 600}[tier]
    ac = [dc.gen_async_case(rnd, i, "udp") for i in range(k2)]
    for j, c in enumerate(ac):
        c.id = "%s-%d" % (c.id, j)
        c.meta["profile"] = {"timeout": 0.1, "pipe": 0.05, "sendtoerr": 0.2, "recvfromerr": 0.1}
    return cases + dc.grow(ac, dc.chooser, rnd)


def project(tr):
    out = []
    for c, a in tr:
        if c in (5, 6):
            out.append((c, a))
        elif c == 20 and a[0] in (25, 26, 33):
            out.append((c, a[:3] if a[1] == 0 else a))
        elif c in (21, 22):
            out.append((c, a))
        elif c == 20 and a[0] in (62, 41):
            out.append((c, a[:3] if a[1] == 0 else a))
        elif c in (90, 98):
            out.append((c, a))
        elif c == 99:
            out.append((c, a[:2]))
    return out


def nontrivial_key(c, tr):
    n = sum(1 for k, a in tr if k in (5, 6))
    return c.key() if n >= 1 else None


def monitor(c, tr):
    cr = crashed(tr)
    if cr:
        return cr
    segs, _ = split_by_op(c, tr)
    rf_events = [a for k, a in c.evs if k == 6]
    for (opc, oa), seg, ret in segs:
        for k, a in seg:
            if k == 90 and a[0] in (3, 4, 10):
                return "datagram content/flags check failed %s" % a
        if opc == 25:
            size, dst, T = oa[1], oa[2], oa[3]
            calls = [a for k, a in seg if k == 5]
            polls = [a for k, a in seg if k == 2]
            if len(calls) > 1:
                return "one SendTo made %d sendto() calls" % len(calls)
            for fd, ln, d, r in calls:
                if ln != size or d != dst:
                    return "sendto(len=%d,dst=%d) for SendTo(size=%d,dst=%d)" % (ln, d, size, dst)
            if ret[1] == 1:
                n = ret[2]
                if n == size and size > 0:
                    if not calls or calls[-1][3] != size:
                        return "SendTo returned the full size without the OS accepting the datagram"
                elif n == 0:
                    if calls and size > 0:
                        return "SendTo returned 0 although sendto() was called"
                    if size > 0 and (T < 0 or not (polls and polls[-1][1] == 0)):
                        return "SendTo returned 0 without a limited wait timing out"
                elif size > 0:
                    return "SendTo returned a partial count %d of %d" % (n, size)
            else:
                if calls and calls[-1][3] == size:
                    return "SendTo threw although the datagram was sent"
        elif opc in (26, 33):
            calls = [a for k, a in seg if k == 6]
            if ret[1] == 1 and ret[2] != -1:
                n, src = (ret[2], ret[3]) if opc == 26 else (ret[3], ret[4])
                if len(calls) != 1:
                    return "datagram reported with %d recvfrom() calls" % len(calls)
                if calls[0][2] != n:
                    return "reported size %d, recvfrom() returned %d" % (n, calls[0][2])
            elif ret[1] == 1 and calls:
                return "ReceiveFrom reported nothing although recvfrom() was called (datagram lost)"
    # sources: the i-th successfully reported datagram carries the source of the i-th successful recvfrom event
    got = []
    for (opc, oa), seg, ret in segs:
        if opc in (26, 33) and ret[1] == 1 and ret[2] != -1:
            got.append(ret[3] if opc == 26 else ret[4])
    exp = [a[2] for a in rf_events if a[0] >= 0]
    if got != exp[:len(got)]:
        return "reported datagram sources %s, kernel delivered %s" % (got, exp[:len(got)])
    if c.meta.get("kind") == "async":
        import drivercases as dc
        return dc.monitor_async(c, tr)
    return None


SPEC = {
    "id": "C09", "extra": schedcheck.extra_stage(("udpsend", "handlersend"), [schedcheck.mon_udp]), "module": "Properties_C09", "theorems": THEOREMS, "harness": "sim",
    "generate": generate, "project": project, "nontrivial_key": nontrivial_key, "monitor": monitor,
    "distribution": distribution,
    "rule": "SendTo/ReceiveFrom histories on basic and buffered UDP sockets: datagram sizes {0,1,100,1472,65507}, receive buffers {1,8,100,1472,65507}, "
            "all timeout modes, sendto errors (EMSGSIZE/ENOBUFS/EAGAIN) and short results, recvfrom sizes 0..buffer and errors, 3 distinct sources. "
            "Datagram payload is position-coded per datagram; the virtual kernel checks each sendto() payload and destination, the scenario each "
            "received payload and source. non-trivial: >= 1 sendto/recvfrom; distinct by case text.",
    "assumptions": ["loopback UDP is an ordered loss-free datagram queue that truncates to the receive buffer (trusted kernel model)"],
}


def main(tier, seed, replay=None):
    return run_sim_check(SPEC, tier, seed, replay)
