import schedcheck


def main(tier, seed, replay=None):
    return schedcheck.run_check("C04", tier, seed)
