"""sockcases.py — cases over the synchronous socket API (basic + buffered TCP/UDP, acceptor) for the sim harness,
and the trace helpers shared by the C01/C07/C09/C15/C16 monitors."""
from simgen import *

SIZES = [0, 1, 2, 7, 64, 1000, 65536, 300000]


def gen_tcp_case(rnd, i, tier):
    b = Builder(rnd)
    b.ops.append((20, [1]))
    buffered = rnd.random() < 0.3
    if buffered:
        n = rnd.choice([0, 1, 2, 3])
        rx = rnd.choice([1, 8, 100, 0])
        b.ops.append((30, [1, n, rx]))
        rxsize = rx if rx else 4096
    held = 0
    for _ in range(rnd.choice([1, 2, 4, 8])):
        T = pick_timeout(rnd)
        if rnd.random() < 0.55:
            b.tcp_send(1, rnd.choice(SIZES), T)
        elif buffered:
            o = b.tcp_recv(1, rxsize, T, opcode=32, args=[1, T])
            if rnd.random() < 0.5:
                b.ops.append((12, [rnd.randrange(3)]))
        else:
            b.tcp_recv(1, rnd.choice([1, 2, 64, 1000, 70000]), T)
    if rnd.random() < 0.3:
        if buffered:
            for nm in range(10):
                b.ops.append((12, [nm]))     # pools must outlive their buffers: hand everything back first
        b.ops.append((28, [1]))
    return b.case("tcp%d" % i, {"kind": "tcp", "buffered": buffered})


def gen_udp_case(rnd, i, tier):
    b = Builder(rnd)
    b.ops.append((21, [1]))
    buffered = rnd.random() < 0.3
    if buffered:
        n = rnd.choice([0, 1, 2, 3])
        rx = rnd.choice([1, 8, 100, 1472])
        b.ops.append((30, [1, n, rx]))
    for _ in range(rnd.choice([1, 2, 4, 8])):
        T = pick_timeout(rnd)
        if rnd.random() < 0.5:
            b.udp_sendto(1, rnd.choice([0, 1, 100, 1472, 65507]), rnd.choice([1, 2, 3]), T)
        elif buffered:
            b.udp_recvfrom(1, rx, T, opcode=33, args=[1, T])
            if rnd.random() < 0.5:
                b.ops.append((12, [rnd.randrange(3)]))
        else:
            b.udp_recvfrom(1, rnd.choice([1, 100, 1472, 65507]), T)
    return b.case("udp%d" % i, {"kind": "udp", "buffered": buffered})


def gen_acc_case(rnd, i, tier):
    b = Builder(rnd)
    b.ops.append((22, [1]))
    ns = 2
    for _ in range(rnd.choice([1, 2, 3])):
        T = pick_timeout(rnd)
        if b.listen(1, T, ns):
            # use the accepted socket a little
            if rnd.random() < 0.5:
                b.tcp_send(ns, rnd.choice([1, 64, 1000]), pick_timeout(rnd))
            else:
                b.tcp_recv(ns, rnd.choice([1, 64]), pick_timeout(rnd))
            ns += 1
    return b.case("acc%d" % i, {"kind": "acc"})


def generate_sync(rnd, tier, n_quick=900):
    k = {"quick": n_quick, "thorough": n_quick * 12, "search": n_quick * 3}[tier]
    out = []
    for i in range(k):
        r = i % 10
        if r < 5:
            out.append(gen_tcp_case(rnd, i, tier))
        elif r < 8:
            out.append(gen_udp_case(rnd, i, tier))
        else:
            out.append(gen_acc_case(rnd, i, tier))
    return out


# ---- trace helpers -------------------------------------------------------------------------------------
def split_by_op(c, tr):
    """-> list of (op, segment, ret) ; segment = trace entries between the previous API result and this one"""
    out, seg, oi = [], [], 0
    for k, a in tr:
        if k == 20:
            while oi < len(c.ops) and c.ops[oi][0] != a[0]:
                oi += 1
            if oi >= len(c.ops):
                break
            out.append((c.ops[oi], seg, a))
            oi += 1
            seg = []
        else:
            seg.append((k, a))
    return out, seg


def crashed(tr):
    for k, a in tr:
        if k == 98:
            return "process died (signal/exit %s)" % a
    return None


def distribution(cases):
    d = {"cases": len(cases), "ops": {}, "events": {}, "tags": {}, "timeouts": {"neg": 0, "zero": 0, "pos": 0}, "instant": 0}
    names = {20: "tcp_new", 21: "udp_new", 22: "acc_new", 23: "tcp_send", 24: "tcp_recv", 25: "udp_sendto", 26: "udp_recvfrom",
             27: "listen", 28: "destroy", 30: "buffered_new", 32: "buf_recv", 33: "buf_recvfrom", 12: "buf_release"}
    evn = {1: "now", 2: "poll", 3: "send", 4: "recv", 5: "sendto", 6: "recvfrom", 7: "accept"}
    for c in cases:
        for o, a in c.ops:
            d["ops"][names.get(o, str(o))] = d["ops"].get(names.get(o, str(o)), 0) + 1
            if o in (23, 24, 25, 26, 27, 32, 33):
                T = a[-1] if o not in (27,) else a[1]
                if o == 23 or o == 24 or o == 26: T = a[2]
                if o == 25: T = a[3]
                if o in (32, 33): T = a[1]
                d["timeouts"]["neg" if T < 0 else ("zero" if T == 0 else "pos")] += 1
        for e, a in c.evs:
            d["events"][evn.get(e, str(e))] = d["events"].get(evn.get(e, str(e)), 0) + 1
            if e in (3, 4, 5, 6) and a[0] < 0:
                d["events"]["errors"] = d["events"].get("errors", 0) + 1
        for t in c.meta.get("tags", []):
            d["tags"][t] = d["tags"].get(t, 0) + 1
        d["instant"] += 1 if c.meta.get("instant") else 0
    return d
