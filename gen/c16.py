"""C16 — signals interrupting a wait are invisible."""
from common import *
from engine import run_sim_check
from sockcases import *
import c07

THEOREMS = ["wait_never_fails_with_eintr", "step_wait_never_fails_with_eintr", "interrupted_wait_keeps_timeout_semantics",
            "eintr_transparent_unlimited", "send_never_fails_from_interrupted_wait", "receive_never_fails_from_interrupted_wait"]


class EintrBuilder(Builder):
    def eintrs(self):
        return self.rnd.choice([0, 1, 1, 2, 5])


def generate(rnd, tier):
    import sockcases, simgen
    # same case shapes, but most waits are interrupted
    old = simgen.Builder.eintrs
    simgen.Builder.eintrs = EintrBuilder.eintrs
    try:
        cases = generate_sync(rnd, tier, 900)
        try:
            import drivercases
            cases += drivercases.generate_step_eintr(rnd, tier)
        except ImportError:
            pass
    finally:
        simgen.Builder.eintrs = old
    return cases


def project(tr):
    out = []
    for c, a in tr:
        if c == 2:
            out.append((c, a[:3]))
        elif c == 20:
            out.append((c, a))
        elif c in (90, 98):
            out.append((c, a))
        elif c == 99:
            out.append((c, a[:2]))
    return out


def nontrivial_key(c, tr):
    n = sum(1 for k, a in tr if k == 2 and a[1] < 0)
    return c.key() if n >= 1 else None


def monitor(c, tr):
    cr = crashed(tr)
    if cr:
        return cr
    scripted_eintr = any(k in (3, 4, 5, 6) and a[0] < 0 and a[1] == EINTR for k, a in c.evs)
    for k, a in tr:
        if k == 20 and a[1] == 0 and a[2] == 1 and a[3] == EINTR and not scripted_eintr:
            return "operation %d failed with EINTR (Interrupted system call)" % a[0]
    # within its timeout semantics
    return c07.monitor(c, tr)


SPEC = {
    "id": "C16", "module": "Properties_C16", "theorems": THEOREMS, "harness": "sim",
    "generate": generate, "project": project, "nontrivial_key": nontrivial_key, "monitor": monitor,
    "distribution": distribution,
    "rule": "every blocking call and timeout mode with k in {0,1,2,5} EINTR results of poll() before the awaited event or the deadline, "
            "at random times within the budget (including an interruption exactly when the budget is used up). non-trivial: at least one interrupted poll.",
    "assumptions": ["EINTR is injected at the libc boundary (virtual OS); real signal delivery is exercised in the thorough tier only"],
}


def main(tier, seed, replay=None):
    return run_sim_check(SPEC, tier, seed, replay)
