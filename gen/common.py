"""common.py — shared machinery of all checks: Coq obligations gate, harness build, case running,
trace comparison, failure search, evidence and verdict. See DESIGN.md section 2.4."""
import hashlib, json, os, random, re, subprocess, sys, time

VERIF = os.path.dirname(os.path.dirname(os.path.abspath(__file__)))
REPO = os.environ.get("SP_REPO", "/repo")
BUILD = os.path.join(VERIF, ".build")

ALLOWED_AXIOMS = set()   # the development is meant to be closed under the global context

TRUSTED_BASE = [
    "Coq 8.16.1 kernel (coqc; vm_compute used for concrete examples; no native_compute)",
    "no axioms: Print Assumptions of every listed theorem must say 'Closed under the global context'",
    "extraction: ExtrOcamlBasic only (bool, option, unit, prod, list, sumbool); no Extract Constant; OCaml 4.13.1; ocaml/driver.ml (int<->Z, parser, printer)",
    "correspondence harness: harness/*.cpp (link-time libc interposition, virtual OS/clock), gen/*.py (generators, comparator)",
    "modelled, not verified: Linux socket/poll semantics as oracle scripts, glibc resolver, libstdc++ containers/regex/future, pthread mutexes, OpenSSL, the C++ compiler",
]


def sh(cmd, timeout=1800, **kw):
    return subprocess.run(cmd, shell=isinstance(cmd, str), capture_output=True, text=True, timeout=timeout, **kw)


# ---------------------------------------------------------------------------------------------
# Coq side
# ---------------------------------------------------------------------------------------------
GATE_RE = re.compile(r"\b(Admitted|admit|Axiom|Parameter|Conjecture|Abort All|bypass_check)\b|Unset Guard|Unset Positivity|Unset Universe|type-in-type|impredicative-set|Admit Obligations")


def coq_setup():
    """full .vo build (incremental), extraction, model runner. Returns (ok, log_tail)."""
    r = sh([os.path.join(VERIF, "bin", "setup")], timeout=3000)
    return r.returncode == 0, (r.stdout + r.stderr)[-3000:]


def coq_gate():
    """grep gate over the whole development. Returns list of offending lines."""
    bad = []
    d = os.path.join(VERIF, "coq")
    for root, _, files in os.walk(d):
        for f in files:
            if f.endswith(".v"):
                p = os.path.join(root, f)
                txt = open(p).read()
                # strip comments (non-nested is enough for our files; nested handled by loop)
                prev = None
                while prev != txt:
                    prev = txt
                    txt = re.sub(r"\(\*[^*(]*(?:\*(?!\))[^*(]*|\((?!\*)[^*(]*)*\*\)", " ", txt)
                for i, line in enumerate(txt.split("\n")):
                    if GATE_RE.search(line):
                        bad.append("%s:%d: %s" % (p, i + 1, line.strip()))
    for f in ("_CoqProject",):
        txt = open(os.path.join(d, f)).read()
        if GATE_RE.search(txt) or "-vos" in txt:
            bad.append("_CoqProject has forbidden flags")
    return bad


def coq_obligations(module, theorems):
    """Print Assumptions for each theorem of SP.<module>. Returns list of dicts {name, ok, assumptions}."""
    os.makedirs(BUILD, exist_ok=True)
    vo = os.path.join(VERIF, "coq", "theories", module + ".vo")
    res = []
    if not os.path.exists(vo):
        return [{"name": t, "ok": False, "assumptions": "module %s did not compile" % module} for t in theorems]
    src = os.path.join(BUILD, "Assump_%s_%d.v" % (module, os.getpid()))
    with open(src, "w") as f:
        f.write("From SP Require Import %s.\n" % module)
        for t in theorems:
            f.write('Goal True. idtac "@@ %s". exact I. Qed.\nPrint Assumptions %s.\n' % (t, t))
    r = sh(["coqc", "-Q", os.path.join(VERIF, "coq", "theories"), "SP", src], timeout=600)
    for ext in (".v", ".vo", ".vok", ".vos", ".glob"):
        try:
            os.remove(src[:-2] + ext)
        except OSError:
            pass
    try:
        os.remove(os.path.join(BUILD, ".Assump_%s_%d.aux" % (module, os.getpid())))
    except OSError:
        pass
    out = r.stdout
    chunks = out.split("@@ ")[1:]
    seen = {}
    for c in chunks:
        name, _, rest = c.partition("\n")
        seen[name.strip()] = rest.strip()
    for t in theorems:
        a = seen.get(t)
        if a is None:
            res.append({"name": t, "ok": False, "assumptions": "not found: " + (r.stderr[-300:])})
        elif a.startswith("Closed under the global context"):
            res.append({"name": t, "ok": True, "assumptions": "closed"})
        else:
            axs = [l.split(":")[0].strip() for l in a.split("\n") if ":" in l and not l.startswith(" ")]
            ok = all(x in ALLOWED_AXIOMS for x in axs) and len(axs) > 0
            res.append({"name": t, "ok": ok, "assumptions": a[:500]})
    return res


# ---------------------------------------------------------------------------------------------
# harness side
# ---------------------------------------------------------------------------------------------
def harness_exe(name, flavour="plain"):
    r = sh([os.path.join(VERIF, "harness", "link.sh"), name, flavour], timeout=900)
    if r.returncode != 0:
        raise RuntimeError("harness build failed (%s/%s):\n%s" % (name, flavour, r.stderr[-4000:]))
    return r.stdout.strip().split("\n")[-1]


def model_exe():
    return os.path.join(VERIF, "ocaml", "_gen", "sp_model")


class Case:
    __slots__ = ("id", "ops", "evs", "faults", "meta")

    def __init__(self, cid, ops, evs, faults=None, meta=None):
        self.id = cid
        self.ops = ops          # list of (code, [args])
        self.evs = evs          # list of (code, [args])
        self.faults = faults or []   # list of (idx, errno)
        self.meta = meta or {}

    def text(self):
        L = ["C %s" % self.id]
        for c, a in self.ops:
            L.append("O %d %s" % (c, " ".join(str(x) for x in a)))
        for c, a in self.evs:
            L.append("E %d %s" % (c, " ".join(str(x) for x in a)))
        for i, e in self.faults:
            L.append("F %d %d" % (i, e))
        L.append("X")
        return "\n".join(L) + "\n"

    def key(self):
        return hashlib.sha1(self.text().split("\n", 1)[1].encode()).hexdigest()


def parse_cases(txt):
    cases, cur = [], None
    for line in txt.split("\n"):
        t = line.split()
        if not t or t[0] == "#":
            continue
        if t[0] == "C":
            cur = Case(" ".join(t[1:]), [], [], [])
        elif t[0] == "O":
            cur.ops.append((int(t[1]), [int(x) for x in t[2:]]))
        elif t[0] == "E":
            cur.evs.append((int(t[1]), [int(x) for x in t[2:]]))
        elif t[0] == "F":
            cur.faults.append((int(t[1]), int(t[2])))
        elif t[0] == "X":
            cases.append(cur)
    return cases


def parse_traces(txt):
    """-> dict id -> list of (code, [args])"""
    out, cur, cid = {}, None, None
    for line in txt.split("\n"):
        t = line.split()
        if not t:
            continue
        if t[0] == "C":
            cid = " ".join(t[1:])
            cur = []
        elif t[0] == "T":
            try:
                cur.append((int(t[1]), [int(x) for x in t[2:]]))
            except (ValueError, IndexError):
                cur.append((97, []))          # garbled line (the process died while writing)
        elif t[0] == "X":
            out[cid] = cur
    return out


def run_exe(exe, cases, timeout=1200, shard=400, env=None):
    """run cases through an executable in parallel shards; returns dict id -> trace"""
    import concurrent.futures as cf
    shards = [cases[i:i + shard] for i in range(0, len(cases), shard)]

    def one(sh_cases):
        txt = "".join(c.text() for c in sh_cases)
        r = subprocess.run([exe], input=txt, capture_output=True, text=True, timeout=timeout, env=env)
        return parse_traces(r.stdout)
    res = {}
    with cf.ThreadPoolExecutor(max_workers=14) as ex:
        for d in ex.map(one, shards):
            res.update(d)
    return res


def fmt_trace(tr):
    return "\n".join("T %d %s" % (c, " ".join(str(x) for x in a)) for c, a in tr)


# ---------------------------------------------------------------------------------------------
# known findings
# ---------------------------------------------------------------------------------------------
def known_findings(pid):
    out = []
    p = os.path.join(VERIF, "known_findings.txt")
    for line in open(p):
        line = line.strip()
        m = re.match(r"known: property=(\S+) key=(\S+) (.*)", line)
        if m and m.group(1) == pid:
            out.append((m.group(2), m.group(3)))
    return out


# ---------------------------------------------------------------------------------------------
# verdict + evidence
# ---------------------------------------------------------------------------------------------
class Report:
    def __init__(self, pid, tier, seed):
        self.pid, self.tier, self.seed = pid, tier, seed
        self.t0 = time.time()
        self.violations = []        # (replay_path, suffix)
        self.known = []
        self.cov = {}
        self.assumptions = []
        self.level = "proof"
        # replays of earlier runs of this check are stale
        import glob
        for f in glob.glob(os.path.join(VERIF, "replays", "%s_%s_*" % (pid, tier))):
            try:
                os.remove(f)
            except OSError:
                pass

    def replay_path(self, tag):
        d = os.path.join(VERIF, "replays")
        os.makedirs(d, exist_ok=True)
        return os.path.join(d, "%s_%s_%s.txt" % (self.pid, self.tier, tag))

    def violation(self, tag, text, no_input=False):
        p = self.replay_path(tag)
        with open(p, "w") as f:
            f.write(text)
        self.violations.append((p, " no-failing-input-found" if no_input else ""))

    def finish(self):
        ev = {
            "property_id": self.pid, "tier": self.tier, "seed": self.seed, "level": self.level,
            "coverage": self.cov, "assumptions": self.assumptions,
            "wall_s": round(time.time() - self.t0, 2), "violations": len(self.violations),
        }
        d = os.path.join(VERIF, "evidence")
        os.makedirs(d, exist_ok=True)
        with open(os.path.join(d, "%s.json" % self.pid), "w") as f:
            json.dump(ev, f, indent=1)
        for k in self.known:
            print("KNOWN-FINDING: property=%s %s" % (self.pid, k))
        for p, suf in self.violations:
            print("VIOLATION property=%s replay=%s%s" % (self.pid, p, suf))
        sys.stdout.flush()
        return 1 if self.violations else 0


def proof_stage(rep, module, theorems):
    """make + gate + Print Assumptions. Fills coverage keys; returns list of failed obligations."""
    ok, log = coq_setup()
    gate = coq_gate()
    obs = coq_obligations(module, theorems)
    failed = [o for o in obs if not o["ok"]]
    rep.cov.update({
        "obligations": len(obs),
        "discharged": len(obs) - len(failed),
        "checker_cmd": "bin/setup (coq_makefile full .vo build of coq/_CoqProject) && coqc Print Assumptions on SP.%s" % module,
        "trusted_base": TRUSTED_BASE,
        "theorems": [o["name"] + ": " + o["assumptions"][:80] for o in obs],
        "coq_build_ok": ok, "gate_hits": gate,
    })
    problems = []
    if gate:
        problems.append("forbidden constructs in the Coq development:\n" + "\n".join(gate))
    for o in failed:
        problems.append("theorem %s of SP.%s no longer checks: %s" % (o["name"], module, o["assumptions"]))
    if not os.path.exists(model_exe()):
        problems.append("model runner could not be built:\n" + log)
    return problems


def correspondence(rep, cases, impl_exe, project, nontrivial_key, monitor=None, search=None, label="sim",
                   impl_env=None):
    """run cases on implementation and model, compare projections.
    project(trace) -> comparable object; nontrivial_key(case, trace) -> hashable or None;
    monitor(case, impl_trace) -> None if the property holds on this trace, else a string (what fails)."""
    impl = run_exe(impl_exe, cases, env=impl_env)
    model = run_exe(model_exe(), cases)
    diverging, failing, keys = [], [], set()
    malformed = 0
    for c in cases:
        ti, tm = impl.get(c.id), model.get(c.id)
        if ti is None or tm is None:
            diverging.append((c, ti or [], tm or [], "missing trace"))
            continue
        if tm and tm[-1][0] == 99 and tm[-1][1][0] == 1 and tm[-1][1][1] >= 100:
            malformed += 1
        if project(ti) != project(tm):
            diverging.append((c, ti, tm, "projection differs"))
        if monitor is not None:
            why = monitor(c, ti)
            if why:
                failing.append((c, ti, tm, why))
        k = nontrivial_key(c, tm)
        if k is not None:
            keys.add(k)
    rep.cov["evaluations"] = rep.cov.get("evaluations", 0) + len(cases)
    rep.cov["distinct_nontrivial"] = rep.cov.get("distinct_nontrivial", 0) + len(keys)
    rep.cov["traces_validated_against_impl"] = rep.cov.get("traces_validated_against_impl", 0) + len(cases) - len(diverging)
    rep.cov.setdefault("malformed_cases", 0)
    rep.cov["malformed_cases"] += malformed
    return diverging, failing


def shrink_case(c, still_bad, budget=200):
    """greedy delta-debugging on ops then events; still_bad(case) -> bool"""
    cur = c
    n = 0
    changed = True
    while changed and n < budget:
        changed = False
        for field in ("ops", "evs"):
            i = len(getattr(cur, field)) - 1
            while i >= 0 and n < budget:
                l = list(getattr(cur, field))
                del l[i]
                cand = Case(cur.id, l if field == "ops" else cur.ops, l if field == "evs" else cur.evs, cur.faults, cur.meta)
                n += 1
                if still_bad(cand):
                    cur = cand
                    changed = True
                i -= 1
    return cur
