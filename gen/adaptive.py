"""adaptive.py — model-guided script generation: the oracle script of a case is grown one event at a time.
Each round runs the extracted model on every unfinished case with a *probe* event of the kind the model asks for
appended; the trace then shows the pending system call with its arguments (poll time-out and descriptors, send length,
receive size ...), and a chooser (the 'kernel' of this scenario) decides the real answer. The scripts therefore fit the
model exactly; whether the implementation consumes the same script is what the correspondence check decides."""
import random
from common import *

PROBE = {1: (1, [0]), 2: (2, [-1, 9999, 0]), 3: (3, [-1, 9999]), 4: (4, [-1, 9999]), 5: (5, [-1, 9999]),
         6: (6, [-1, 9999, 0]), 7: (7, [9999, 0])}


def grow(cases, chooser, rnd, max_events=400, max_rounds=450, exe=None):
    """cases: list of Case with ops (evs possibly pre-filled). chooser(case, kind, call_args, trace, rnd) -> event args list
    or None (leave the call unanswered: the case ends 'script does not fit' on both sides)."""
    # exe: grow against this executable instead of the model (failure search: scripts that fit the IMPLEMENTATION's control flow)
    exe = exe or model_exe()
    active = list(cases)
    for c in active:
        c.meta.setdefault("probe", None)
    rounds = 0
    while active and rounds < max_rounds:
        rounds += 1
        probed = []
        for c in active:
            evs = list(c.evs)
            if c.meta["probe"] is not None:
                evs.append(PROBE[c.meta["probe"]])
            probed.append(Case(c.id, c.ops, evs, c.faults, c.meta))
        traces = run_exe(exe, probed, shard=250)
        nxt = []
        for c in active:
            tr = traces.get(c.id)
            if not tr:
                continue
            end = tr[-1]
            if c.meta["probe"] is not None:
                # answer the pending call that the probe revealed
                sysents = [(k, a) for k, a in tr if 1 <= k <= 7]
                idx = sum(1 for k, _ in c.evs if k != 8)
                if idx >= len(sysents):
                    continue
                k, a = sysents[idx]
                ans = chooser(c, k, a, tr, rnd)
                c.meta["probe"] = None
                if ans is None or len(c.evs) >= max_events:
                    c.meta["blocked"] = True
                    continue
                c.evs.append((k, ans))
                nxt.append(c)     # validate + look for the next need in the following round
                continue
            if end[0] == 99 and end[1][0] == 1 and 1 <= end[1][1] <= 7 and end[1][2] == 0:
                c.meta["probe"] = end[1][1]
                nxt.append(c)
            elif end[0] == 99 and end[1][0] == 1 and end[1][1] == 8:
                # the scripted TLS engine is asked for its next call (announced by the K_ENGCALL entry just before)
                call = next((a for k, a in reversed(tr) if k == 42), None)
                ans = chooser(c, 8, call, tr, rnd) if call else None
                if ans is None or len(c.evs) >= max_events:
                    c.meta["blocked"] = True
                    continue
                c.evs.append((8, ans))
                nxt.append(c)
            # else: finished (completed, malformed, stuck)
        active = nxt
    for c in cases:
        c.meta.pop("probe", None)
    return cases
