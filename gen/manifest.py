#!/usr/bin/env python3
"""writes MANIFEST.json from the table below (run: python3 gen/manifest.py)"""
import json, os
VERIF = os.path.dirname(os.path.dirname(os.path.abspath(__file__)))
props = [json.loads(l) for l in open(os.path.join(VERIF, "properties.jsonl"))]

TB = ("Trusted: Coq 8.16.1 kernel (no axioms; Print Assumptions of every listed theorem is checked to be 'Closed under the global context' on every run; "
      "no native_compute), extraction with ExtrOcamlBasic only + ocaml/driver.ml, the correspondence harness (harness/*.cpp link-time libc interposition "
      "with a virtual OS and clock, gen/*.py generators/comparator/monitors). Modelled, not verified: Linux socket/poll behaviour (oracle scripts), glibc "
      "resolver, libstdc++, pthread, OpenSSL, the C++ compiler. ")

CLAIMED = {
 "C01": ("proof", "Theorems over every oracle script (send_accounting, send_unlimited_complete, send_prefix_on_failure, bytes_on_wire, recv_bounds, recv_zero_is_closed, "
         "recv_nothing_only_limited) about the Gallina model of SendAll/SendTry/SendSome/Receive; model tied to /repo by running model and real library on the same "
         "generated scripts under a virtual kernel that verifies every byte offered to send() and delivered by Receive.", "5 C01",
         TB + "Kernel TCP = reliable FIFO byte stream is trusted. TLS path is covered by C18's check, not here.",
         "Coq proof (induction over the send loops, for all oracle scripts) + model/implementation trace correspondence under a scripted virtual OS"),
 "C07": ("proof", "Theorems timeout_semantics (unlimited never nothing / zero never blocks / not early / total bound) for Receive, ReceiveFrom, SendTo, Send and the "
         "Wait primitive, for every script incl. EINTR and partial sends, on a virtual clock; correspondence compares the time-out argument, result and duration of every "
         "poll and every clock reading of the real library with the model.", "5 C07",
         TB + "Time is virtual (the script says how long each poll lasted); kernel honesty (a poll never overstays its time-out) is a hypothesis stated on the trace. "
         "TLS operations: C18.",
         "Coq proof (deadline calculus invariants for all scripts) + poll/clock trace correspondence under a virtual clock"),
 "C08": ("proof", "Theorems stop_wakes_poll, run_returns_iff_flag, run_needs_stop, stop_before_entry, stop_request_visible over the protocol LTS with stoppers as independent agents (any thread, "
         "task/handler, signal handler) and Run() entered any number of times. Correspondence: Stop() before thread start-up reaches Run(), at the flag check, inside poll, at step exit, from tasks, "
         "repeated Run; traces replayed on the extracted model (the flag set at the very beginning of Stop() and the loop check right after leaving pauseMtx are atomic under the scheduler).", "5 C08",
         TB + "A signal handler interrupting the driver thread is modelled as an independent stopper; the EINTR side is C16.",
         "Coq proof (stop-flag invariant for arbitrary interleavings) + deterministic-scheduler exploration replayed on the extracted model"),
 "C09": ("proof", "Theorems sendto_all_or_nothing, sendto_failure_reported, recvfrom_faithful for every script; correspondence on basic/buffered UDP sockets with "
         "position-coded datagrams, destinations and sources checked at the libc boundary and at the API.", "5 C09",
         TB + "Loopback UDP as an ordered, loss-free, truncating datagram queue is trusted.",
         "Coq proof + model/implementation correspondence under a scripted virtual OS"),
 "C10": ("proof", "Invariant-based theorems for every Get/release/resize history and every (N, reserve): pool_limit, pool_refuse_unchanged, pool_grants_below_limit, "
         "pool_unlimited_never_refuses, get_empty_distinct_reserved, buffers_distinct, recycle_reuses_same, no_alloc_while_idle; correspondence on random histories of the "
         "real BufferPool and of buffered sockets' receive paths (timeout, error, peer close).", "5 C10",
         TB + "libstdc++ never lowers std::string capacity on clear/resize. Concurrent Get/Recycle are serialised by m_mtx, so concurrent histories are sequential ones "
         "(not separately model-checked here).",
         "Coq proof (inductive invariant over operation histories) + differential execution of model and real BufferPool"),
 "C02": ("proof", "Theorems about the send-queue machine (DriverSend reduced to its effect on the queue) for every sequence of send() results: driver_send_fifo, "
         "future_value_means_all_accepted, partial_write_keeps_front, resolves_only_front, arm_only_that_descriptor, sends_use_nosignal; driver_send_refines_queue_machine ties the machine to the model of DriverSend (one send() result has on futures, queue and front-buffer size exactly the effect sq_step computes). Correspondence: sequential "
         "histories on async TCP sockets under the scripted kernel (every partial-write pattern, failures, refills from handlers, destruction with sends pending); "
         "compared: send() calls with per-buffer position-coded content checked by the virtual kernel, future states, pool occupancy, POLLOUT bits.", "5 C02",
         TB + "Sequential histories only in this check: producer/driver interleavings are covered by C04/C05's model and harness. Liveness ('does not stay pending') "
         "needs kernel/driver fairness, stated not proved. The refinement lemma covers buffers from user pools (what the asynchronous API is handed) whose future is pending; sizes of the other queue elements are untouched by pool invariants (C10), not restated there.",
         "Coq proof (queue machine, all send-result sequences) + trace correspondence under a scripted virtual OS"),
 "C03": ("proof", "Theorems one_socket_per_step, socket_task_first_ready, socket_task_priority (data before disconnect), unregister_removes_both, "
         "receive_delivers_what_recv_returned, disconnect_unregisters_first, disconnected_socket_is_never_dispatched_again (exactly one disconnect: once unregistered, no readiness vector makes the driver dispatch to that socket again) for every readiness vector; correspondence on async TCP sockets and acceptors with scripted "
         "readiness orders, stream segmentations, closes/errors at any point; handler events (kind, socket, payload checked byte-wise, peer address) compared and monitored.", "5 C03",
         TB + "Kernel readiness semantics trusted. 'Handlers run on the stepping thread' is structural in the model (handlers are invoked from step only).",
         "Coq proof (selection function, list alignment) + handler-event correspondence under a scripted virtual OS"),
 "C04": ("proof", "Theorems over the hand-over protocol LTS (SyncModel: one driver, ANY number of management calls and Stop() calls, every interleaving at the granularity of lock operations "
         "and system calls): mutual_exclusion, quiescent_during_management, handlers_serial, pause_exclusive, from an inductive invariant. Tie to the code: the library runs under a deterministic "
         "scheduler (virtual mutexes, schedule point before every mutex op / poll / pipe I/O / send / recv); each execution's synchronisation trace is replayed on the extracted model "
         "(AcceptSync) and must be a run of it (accepted_trace_is_model_run). Handlers stamp enter/exit with schedule points inside; overlap and use-after-return are monitored; ASan+UBSan build.", "5 C04",
         TB + "Partial: that every access to shared state lies inside the critical sections is visible only through the lock operations of each entry point and the sanitizer build, not proved about the C++. "
         "One thread runs at a time under the scheduler, so data races below lock granularity are not explored.",
         "Coq proof (inductive invariant of the lock protocol for arbitrary N) + replay of real executions under a deterministic scheduler on the extracted model"),
 "C05": ("proof", "Theorems no_deadlock (lost-wake-up freedom, without any socket event), bounded_yield (at most one further driver step once the caller owns pauseMtx), wakeup_not_lost, "
         "accepted_trace_is_model_run over the same LTS. Correspondence: multi-threaded scenarios (ToDo management, Send from several producers and from handlers, destruction, Stop) under random, "
         "bursty, driver-heavy and users-first schedules; DEADLOCK = nothing enabled with unfinished users; every trace replayed on the extracted model.", "5 C05",
         TB + "'The call returns' additionally needs the OS mutex to grant a contended lock eventually (fairness, stated). change_in_effect is covered by the sim checks (poll list / time-out recomputed every step: C02, C06, C07).",
         "Coq proof (invariant => no deadlock for arbitrary N) + deterministic-scheduler exploration replayed on the extracted model"),
 "C06": ("proof", "Theorems over every history of Insert/Remove/Move/pop-when-due on the driver's list: insert_sorted, insert_stable (ties keep scheduling order), remove_sorted, "
         "move_single_entry, cancel_prevents, exactly_once, todos_invariant_all_histories, front_is_minimum (due and earliest), never_early, refines_pending. Correspondence: ToDo "
         "histories incl. operations from inside tasks, under a virtual clock with model-guided adaptive scripts; compared: task executions, clock readings, poll time-outs, the list itself.", "5 C06",
         TB + "Single driving thread here (cross-thread Shift/Cancel are serialised by the step mutex: C04). 'Promptly' = a Step entered with the front due runs it; Step(0) runs one due task per step (documented).",
         "Coq proof (sorted-list invariants over all operation histories) + trace correspondence under a virtual clock"),
 "C17": ("proof", "Theorems want_send_on_unlisted_is_noop, unregister_tolerates_absent, remove_tolerates_absent, pfds_aligned_invariant (every register/unregister history), "
         "promises_resolved_at_most_once_guard; the model marks every place where the C++ has undefined behaviour as Stuck and the correspondence (bounded-exhaustive enumeration of every history of <= 3 (thorough: 4) operations over {Send, Step, destroy socket, destroy driver, Cancel, Shift, Stop+Run} under three kernels, plus random walks over create/send/step/"
         "peer-action/destroy/cancel/shift, each in an isolated process under ASan+UBSan with _GLIBCXX_SANITIZE_VECTOR and asserts enabled) checks that model and library agree and never get there.", "5 C17",
         TB + "Partial by nature: the theorems are about logic-level validity of lookups, indices and lifetimes; memory safety of the compiled code is evidenced by the sanitizer runs on the same histories, not proved.",
         "Coq proof (bookkeeping invariants) + sanitizer-instrumented correspondence on random legal histories"),
 "C11": ("proof", "Theorems ctor_outcome_total (the dissector is a total function whose outcomes are values or std::exception-derived exceptions), regex_input_bounded_uri / "
         "regex_input_bounded_pair (whatever the input length, at most 1095 / 32 bytes reach the recursive regex matcher), trim_path_is_prefix. Correspondence: the real constructors run on "
         "hostile and megabyte-long inputs, each in its own process on a thread with a painted 512 KiB stack; what is handed to getaddrinfo (interposed) or thrown before must equal the model's "
         "dissector; outcome must be value/exception, stack high-water mark is bounded (measured <= ~305 kB = 272 B/char x 1095 + base).", "5 C11",
         TB + "Partial: stack consumption is runtime behaviour of libstdc++'s regex executor; the theorem bounds what is handed to it, the harness measures the stack. The hand characterisation of the "
         "three regular expressions is validated by the correspondence, not proved against std::regex.",
         "Coq proof (length bound of regex subjects for all inputs) + isolated-process differential execution with stack measurement"),
 "C12": ("proof", "Theorems no_silent_wrap_uri / no_silent_wrap_pair (for EVERY byte string accepted, a service text that is numeric in strtoul's syntax has a value in 0..65535 — after the colon, as "
         "scheme, as pair argument with sign/blanks), pair_service_unchanged, uri_host_port_is_pair / uri_bracket_port_is_pair (spelling equivalence: 'host:port' and '[h]:port' hand the same host and service to the resolver as the pair constructor, for every plain host and in-range port text), uri_scheme_host_is_pair ('name://host'), text_round_trip_v4 / text_round_trip_v6 (to_string's in-place composition yields 'host:serv' / '[host]:serv' and parsing it gives host and service back), port_of_encode4/6. Correspondence against the real resolver: literals x ports in every documented spelling, out-of-range "
         "numerics in every position; getaddrinfo arguments and to_string composition compared with the model; accessors, canonical host text, re-parse equality monitored.", "5 C12",
         TB + "glibc's numeric-service rule (strtoul syntax, value mod 2^16) and canonical host text are trusted/observed. Spelling-equivalence is validated by the correspondence (model dissector == real "
         "constructor on every generated spelling), further spellings (schemes, service names) and the text round-trip through glibc's canonical form are validated by the correspondence only.",
         "Coq proof (range check covers every service position, all inputs) + differential execution against the real resolver"),
 "C13": ("proof", "Theorems eq_equivalence, lt_irrefl, lt_trans, lt_trichotomy, hash_respects_eq (every hash function), encode4_injective, encode6_injective, families_never_equal. Correspondence: a pool "
         "of Addresses of every provenance (parsed spellings, Address(port), local/peer/accept/datagram-source addresses of real IPv4 and IPv6 loopback sockets, single-bit neighbours); raw sockaddr bytes "
         "run through the model's view_eq/view_lt and compared with ==, < for all pairs; laws, hash, std::map/unordered_map and endpoint agreement monitored on all pairs and triples.", "5 C13",
         TB + "Provenance independence rests on kernel and glibc producing the canonical encoding (zero padding / flowinfo): validated on every run, not proved. v4-mapped peers of dual-stack listeners differ in family (documented).",
         "Coq proof (order/equivalence laws, injectivity of sockaddr encodings) + all-pairs differential execution on real sockets"),
 "C16": ("proof", "Theorems wait_never_fails_with_eintr, step_wait_never_fails_with_eintr, interrupted_wait_keeps_timeout_semantics, eintr_transparent_unlimited and the "
         "lifts to Send/Receive for every script (any number and timing of EINTR); correspondence with 0-5 injected EINTR results per wait.", "5 C16",
         TB + "EINTR injected at the libc boundary by the virtual OS.",
         "Coq proof (poll retry loop, for all scripts) + correspondence with injected EINTR"),
 "C14": ("proof", "Theorems for EVERY fault overlay and script: tcp/udp/acceptor/driver_constructor_ledger and accept_ledger (success only if no set-up call failed; on failure the FIRST failing call's errno is "
         "thrown as std::system_error, nothing is attempted after it, and what had been opened is closed exactly once), first_failure_is_thrown; ledger_balanced_all_programs / everything_destroyed_nothing_leaked (EVERY program over the synchronous constructors, accept and destruction that catches what is thrown: opened = closed + held as multisets, held descriptors distinct); silent_drop_refuted: the driver-side clause is false for AcceptorAsync / "
         "SocketUdpAsync (witness, recorded as known finding). Correspondence + monitor: fault enumeration - every position of the system-call trace of a scenario set covering every public constructor and "
         "operation failed in turn with each plausible errno (set-up calls through an overlay, scripted calls through the script; pairs sampled); compared with the model entry by entry; monitored on the "
         "implementation: failure reported (exception / disconnect handler / failed future / exception out of Step), descriptor ledger (none leaked, none closed twice, none foreign), no crash under ASan+UBSan.", "5 C14",
         TB + "Partial: the ledger theorem covers every program over the synchronous constructors, accept and destruction; for buffered / asynchronous / driver objects the ledger and 'remains usable' are decided on the enumerated scenarios (model-checked against the implementation). "
         "getaddrinfo/getnameinfo failures are exercised by C12's check. TLS set-up failures: C18.",
         "Coq proof (constructor/accept ledger for all fault overlays) + exhaustive single-fault enumeration with model correspondence and descriptor ledger"),
 "C15": ("proof", "Theorems for every size, errno and script continuation: unlimited_send_on_dead_peer_throws / try_send_on_dead_peer_throws / limited_send_on_dead_peer_throws (one poll, one send, then std::system_error - no blocking, no retry, in every time-out mode), "
         "receive_on_reset_throws, receive_after_close_throws_closed, delivered_is_what_recv_returned, failing_send_leaves_a_prefix, every_send_uses_nosignal, data_before_disconnect (POLLIN wins over POLLHUP/POLLERR). "
         "Correspondence + monitor: bidirectional transfers on basic / buffered / accepted / asynchronous TCP sockets in every timeout mode against a scripted TCP endpoint whose peer closes, half-closes or resets at "
         "a random byte offset of either direction (inside a Send, with unread data, reset keeping or discarding unread data, getpeername failing with ENOTCONN after a reset); the virtual kernel raises SIGPIPE "
         "for an EPIPE send without MSG_NOSIGNAL; monitored on the implementation: no signal/crash/hang, operations on the dead connection throw, disconnect handler exactly once, no future left pending, "
         "delivered bytes = prefix of the peer's stream (complete for an orderly close).", "5 C15",
         TB + "Partial: the scripted endpoint's post-mortem answers follow Linux TCP (assumed); TLS variants belong to C18.",
         "Coq proof (dead-peer scripts, all sizes/errnos) + correspondence against a scripted TCP endpoint with peer close/half-close/reset at every offset"),
 "C18": ("proof", "Theorems about the TLS glue over an ARBITRARY scripted engine (OpenSSL is an oracle like the OS): send_io_inside_engine / receive_io_inside_engine / driver_paths_io_inside_engine (in the trace of a whole TLS Send, Receive, SendSome, driver Receive, DriverPending or Shutdown every send() and recv() lies inside an engine call - the glue never touches the connection itself), outside_the_engine_the_glue_only_waits (between engine calls the glue issues polls and clock "
         "readings only - every byte to or from the connection passes through the engine's BIO callbacks), delivery_needs_engine_data (a Receive reporting n bytes returns what the engine's SSL_read returned: "
         "nothing before the engine finished the handshake, nothing from a non-TLS peer), fatal_engine_errors_throw, write_accounting, query_requests_write_only_for_handshake, suppressed_write_poll_is_restored, idle_client_requests_write, pending_only_advances_the_handshake (DriverPending makes SSL_do_handshake calls only: it cannot take application data out of the engine), send_only_writes, receive_only_reads, unlimited_receive_never_nothing. "
         "Correspondence: the real glue (socket_tls_impl.cpp, driver TLS hooks, built WITH_TLS) runs against harness/fakessl.cpp, a scripted engine with OpenSSL's API, the model against TlsModel.engine, on scripts "
         "produced by a virtual TLS-1.3 endpoint and peer (client/server role, basic/buffered/async, every timeout mode, segmentation, back pressure, short writes, non-TLS peer, close_notify, injected fatal errors); "
         "monitored: no engine-foreign byte on the wire, delivery only after init, non-TLS peer => exception, write interest never lost while the handshake owes a flight, wait budget of limited calls, byte-exact plaintext streams.", "5 C18",
         TB + "Partial: OpenSSL is replaced by the scripted engine on both sides - that real OpenSSL encrypts, delivers records only after the handshake and signals WANT_READ/WANT_WRITE as the retry flags say is assumed. "
         "Handshake liveness in driver mode is decided by the monitor on generated cases, not by a theorem. One TLS socket per case.",
         "Coq proof (glue over an arbitrary engine oracle) + correspondence of the real glue against a scripted OpenSSL stand-in driven by a virtual TLS endpoint"),
}

checks = []
for pid, (cat, text, ref, note, tech) in sorted(CLAIMED.items()):
    checks.append({
        "property_id": pid,
        "quick_cmd": "bin/check %s --tier quick" % pid,
        "thorough_cmd": "bin/check %s --tier thorough" % pid,
        "evidence_file": "/verif/evidence/%s.json" % pid,
        "replay_cmd_template": "bin/check %s --replay {path}" % pid,
        "engine": "coq+sim",
        "level_claimed": {"category": cat, "text": text, "design_ref": ref},
        "level_note": note,
        "technique": tech,
    })

m = {
 "version": 1,
 "setup_cmd": "bin/setup",
 "hooks": {"guard": "SOCKPUPPET_VERIF",
           "enable": "harness/build.sh compiles /repo/src/*.cpp with -DSOCKPUPPET_VERIF; no hook code exists in /repo (link-time libc interposition + internal headers suffice)",
           "baseline_off_cmd": "cmake --build /repo/_build && ctest --test-dir /repo/_build/test -j8 --timeout 900",
           "source_commits": [], "add_only": True},
 "engines": [{"name": "coq+sim", "path": "coq/ ocaml/ harness/ gen/", "serves_properties": sorted(CLAIMED),
              "kind_free_text": "Coq 8.16 models+proofs, extracted OCaml model runner, C++ harness linking /repo's sources under a virtual OS, python generators/monitors"}],
 "checks": checks,
 "not_applicable": [{"property_id": p["id"], "reason": "check not built yet (framework under construction; see DESIGN.md section 10)"}
                    for p in props if p["id"] not in CLAIMED],
 "notes": "fix: commits in /repo (see known_findings.txt): fb5c17a de31ff3 76d1b2d fc32a01 d76eda8 3d49b84 1f1eb9b 6287df8 3278173 81868e9 47aa33b d3d6b7b 1c7ee20",
}
json.dump(m, open(os.path.join(VERIF, "MANIFEST.json"), "w"), indent=1)
print("claimed:", sorted(CLAIMED))
