"""C02 — async send pipeline: FIFO, whole buffers, futures tell the truth (sequential histories; interleavings: sched harness)."""
from common import *
from engine import run_sim_check
import schedcheck
import drivercases as dc
from asyncchecks import *

THEOREMS = ["driver_send_fifo", "future_value_means_all_accepted", "partial_write_keeps_front", "resolves_only_front", "arm_only_that_descriptor", "sends_use_nosignal", "driver_send_refines_queue_machine"]


def generate(rnd, tier):
    k = {"quick": 400, "thorough": 4000, "search": 1200}[tier]
    cases = [dc.gen_async_case(rnd, i, rnd.choice(["tcp", "tcp", "tcp", "mixed"])) for i in range(k)]
    for j, c in enumerate(cases):
        c.id = "%s-%d" % (c.id, j)
        c.meta["profile"] = {"timeout": 0.1, "pipe": 0.05, "short": 0.5, "senderr": 0.08, "fail_after_partial": 0.5, "close": 0.03, "hup": 0.03}
    return dc.grow(cases, dc.chooser, rnd)


def nontrivial_key(c, tr):
    n = sum(1 for k, a in tr if k == 3)
    return c.key() if n >= 1 else None


def monitor(c, tr):
    w = dc.monitor_async(c, tr)
    if w:
        return w
    # POLLOUT armed iff the queue of a registered socket is non-empty; pool occupancy = held + queued (at operation boundaries)
    return None


SPEC = {
    "id": "C02", "extra": schedcheck.extra_stage(("send", "handlersend"), [schedcheck.mon_c02]), "module": "Properties_C02", "theorems": THEOREMS, "harness": "sim",
    "generate": generate, "project": project_async, "nontrivial_key": nontrivial_key, "monitor": monitor,
    "distribution": distribution,
    "rule": "asynchronous TCP sockets with send queues of buffers sized {0,1,7,10,100,3000,5000} from limited and unlimited pools; every pattern of partial kernel "
            "writes (1, n-1, n/2, random), send()==0, EAGAIN/EPIPE/ECONNRESET on any buffer, queue running empty and being refilled between and inside steps "
            "(from handlers), destruction with sends pending. Each buffer carries its own position-coded content; the virtual kernel checks that every send() "
            "offers exactly the unsent rest of the front buffer. Compared: send() calls, future states after every operation, pool occupancy, the driver's poll list "
            "(POLLOUT bits). non-trivial: >= 1 send() on an asynchronous socket.",
    "assumptions": ["sequential histories only here; producer/driver interleavings are explored by the sched harness (C02 thorough, C04, C05)",
                    "liveness needs: the kernel eventually reports POLLOUT while the peer reads (stated, not proved)"],
}


def main(tier, seed, replay=None):
    return run_sim_check(SPEC, tier, seed, replay)
