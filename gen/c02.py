"""C02 — async send pipeline: FIFO, whole buffers, futures tell the truth (sequential histories; interleavings: sched harness)."""
from common import *
from engine import run_sim_check
import schedcheck
import drivercases as dc
from asyncchecks import *

THEOREMS = ["driver_send_fifo", "future_value_means_all_accepted", "partial_write_keeps_front", "resolves_only_front", "arm_only_that_descriptor", "sends_use_nosignal", "driver_send_refines_queue_machine"]


def generate(rnd, tier):
    k = {"quick": 400, "thorough": 4000, "search": 1200}[tier]
    cases = [dc.gen_async_case(rnd, i, rnd.choice(["tcp", "tcp", "tcp", "mixed"])) for i in range(k)]
    for j, c in enumerate(cases):
        c.id = "%s-%d" % (c.id, j)
        c.meta["profile"] = {"timeout": 0.1, "pipe": 0.05, "short": 0.5, "senderr": 0.08, "fail_after_partial": 0.5, "close": 0.03, "hup": 0.03}
    return dc.grow(cases, dc.chooser, rnd)


def nontrivial_key(c, tr):
    n = sum(1 for k, a in tr if k == 3)
    return c.key() if n >= 1 else None


def monitor(c, tr):
    w = dc.monitor_async(c, tr)
    if w:
        return w
    # pool occupancy at operation boundaries = buffers the scenario holds + buffers of sends whose future is still pending: a buffer
    # goes back to its pool no later than the end of the driver step in which its future resolves (last clause of C02)
    pending, held, group = set(), 0, None
    for k, a in tr:
        if k == 23:
            if a[0] < 1000:
                group = (group or 0) + a[1]
            continue
        if group is not None:
            if group > held + len(pending):
                return ("%d buffer(s) of the user pools are outstanding although the scenario holds %d and only %d queued send(s) have a pending future: "
                        "a sent buffer was not back in its pool at the end of the step in which its future resolved" % (group, held, len(pending)))
            group = None
        if k == 20 and a[1] == 1:
            if a[0] in (61, 62):
                pending.add(a[2])
            elif a[0] == 11:
                held += 1
            elif a[0] == 12:
                held = max(0, held - 1)
            elif a[0] == 14:
                held = 0
        elif k == 22 and a[1] != 0:
            pending.discard(a[0])
    return None


SPEC = {
    "id": "C02", "extra": schedcheck.extra_stage(("send", "handlersend"), [schedcheck.mon_c02]), "module": "Properties_C02", "theorems": THEOREMS, "harness": "sim",
    "generate": generate, "project": project_async, "nontrivial_key": nontrivial_key, "monitor": monitor,
    "distribution": distribution,
    "rule": "asynchronous TCP sockets with send queues of buffers sized {0,1,7,10,100,3000,5000} from limited and unlimited pools; every pattern of partial kernel "
            "writes (1, n-1, n/2, random), send()==0, EAGAIN/EPIPE/ECONNRESET on any buffer, queue running empty and being refilled between and inside steps "
            "(from handlers), destruction with sends pending. Each buffer carries its own position-coded content; the virtual kernel checks that every send() "
            "offers exactly the unsent rest of the front buffer. Compared: send() calls, future states after every operation, pool occupancy, the driver's poll list "
            "(POLLOUT bits). non-trivial: >= 1 send() on an asynchronous socket.",
    "assumptions": ["sequential histories only here; producer/driver interleavings are explored by the sched harness (C02 thorough, C04, C05)",
                    "liveness needs: the kernel eventually reports POLLOUT while the peer reads (stated, not proved)"],
}


def main(tier, seed, replay=None):
    return run_sim_check(SPEC, tier, seed, replay)
