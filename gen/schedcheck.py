"""schedcheck.py — checks on multi-threaded executions under the deterministic scheduler (harness/sched.cpp):
C04 (exclusion, quiescence), C05 (no deadlock, no lost wake-up, bounded yield), C08 (Stop ends Run) and the interleaving part of C02.
Every execution's synchronisation trace is replayed on the Coq protocol model (AcceptSync.accept_sync, extracted): each observed
lock/try-lock/unlock of stepMtx/pauseMtx, wake-up datagram, Stop() and Run() entry/return must be an enabled model transition."""
import random, subprocess
from common import *

MS = 1000000


def sched_case(cid, blocks, progs, schedule, seed=0, chunk=0, meta=None):
    """progs: dict tid -> list of ops; returns text"""
    L = ["C %s" % cid]
    for b, ops in blocks.items():
        L.append("O 1 %d" % b)
        for c, a in ops:
            L.append("O %d %s" % (c, " ".join(str(x) for x in a)))
        L.append("O 2")
    for tid in sorted(progs):
        L.append("O 3 %d" % tid)
        for c, a in progs[tid]:
            L.append("O %d %s" % (c, " ".join(str(x) for x in a)))
    L.append("S " + " ".join(str(x) for x in schedule))
    L.append("R %d %d" % (seed, chunk))
    L.append("X")
    return "\n".join(L) + "\n"


def rand_schedule(rnd, nthreads, n=80):
    mode = rnd.random()
    if mode < 0.35:
        return [rnd.randrange(1, nthreads) for _ in range(n)]
    if mode < 0.6:
        # bursts: one thread runs for a while
        out = []
        while len(out) < n:
            out += [rnd.randrange(1, nthreads)] * rnd.choice([1, 2, 3, 5, 9])
        return out[:n]
    if mode < 0.8:
        # driver-heavy
        return [1 if rnd.random() < 0.6 else rnd.randrange(2, max(3, nthreads)) for _ in range(n)]
    # users first, then the driver
    k = rnd.randrange(1, 30)
    return [rnd.randrange(2, max(3, nthreads)) for _ in range(k)] + [1] * 10 + [rnd.randrange(1, nthreads) for _ in range(n)]


def gen_todo_scn(rnd, i):
    blocks = {7: [(96, [])] * rnd.choice([0, 1, 2]), 8: [(96, []), (43, [])] if rnd.random() < 0.3 else [(96, [])]}
    progs = {0: [(40, [])], 1: [(42, [])] * rnd.choice([1, 1, 2])}
    nusers = rnd.choice([1, 2, 2, 3])
    tid_next = [1]
    for u in range(nusers):
        ops = []
        for _ in range(rnd.choice([1, 2, 3, 4])):
            r = rnd.random()
            t = 10 * (u + 1) + len(ops)
            if r < 0.5:
                ops.append((50, [t, rnd.choice([1, 2]), 0, rnd.choice([7, 8, 0])]))
                if rnd.random() < 0.5:
                    ops.append((rnd.choice([52, 51]), [t] if ops[-1][0] == 52 else [t, 2, 0]))
                    if ops[-1][0] == 51 and len(ops[-1][1]) == 1:
                        ops[-1] = (51, [t, 2, 0])
            elif r < 0.65:
                ops.append((96, []))
            elif r < 0.8:
                ops.append((43, []))
            else:
                ops.append((50, [-1, 2, 0, rnd.choice([7, 8])]))
        progs[2 + u] = ops
    # somebody stops the driver in the end (often)
    if rnd.random() < 0.8:
        progs[2 + rnd.randrange(nusers)].append((43, []))
    return blocks, progs, {"kind": "todo", "users": nusers}


def fix_todo_ops(progs):
    for tid, ops in progs.items():
        for k, (c, a) in enumerate(ops):
            if c == 52 and len(a) != 1:
                ops[k] = (52, [a[0]])
            if c == 51 and len(a) != 3:
                ops[k] = (51, [a[0], 2, 0])
    return progs


def gen_send_scn(rnd, i):
    """several producers Send on one asynchronous TCP socket while the driver drains it"""
    blocks = {5: [(96, [])] if rnd.random() < 0.5 else [], 6: []}
    if rnd.random() < 0.3:
        blocks[5] = blocks[5] + [(61, [1, 1, 9])]          # the receive handler sends, too
    progs = {0: [(40, []), (10, [1, 0, 0]), (20, [1]), (30, [1, rnd.choice([0, 2]), 16]), (60, [1, 5, 6])], 1: [(42, [])]}
    nusers = rnd.choice([1, 2, 2, 3])
    for u in range(nusers):
        ops = []
        for _ in range(rnd.choice([1, 2, 3])):
            ops.append((61, [1, 1, rnd.choice([8, 9, 16, 40])]))
            if rnd.random() < 0.3:
                ops.append((96, []))
        if rnd.random() < 0.3:
            ops.append((70, [1, rnd.choice([1, 5, 20])]))
        progs[2 + u] = ops
    return blocks, progs, {"kind": "send", "users": nusers, "chunk": rnd.choice([0, 0, 3, 5, 8])}


def gen_destroy_scn(rnd, i):
    """a socket is destroyed / a ToDo cancelled from a user thread while its handler / task may be running"""
    blocks = {5: [(96, []), (96, [])], 6: [(96, [])], 7: [(96, []), (96, [])]}
    progs = {0: [(40, []), (10, [1, 0, 0]), (20, [1]), (30, [1, 0, 16]), (60, [1, 5, 6])], 1: [(42, [])]}
    a = [(70, [1, rnd.choice([3, 10])])]
    if rnd.random() < 0.5:
        a.append((96, []))
    a += [(14, []), (28, [1])]
    b = [(50, [21, 2, 0, 7])]
    if rnd.random() < 0.6:
        b.append((96, []))
    b.append((52, [21]))
    progs[2] = a
    progs[3] = b
    if rnd.random() < 0.5:
        progs[2].append((43, []))
    return blocks, progs, {"kind": "destroy", "users": 2}


def gen_create_scn(rnd, i):
    """asynchronous sockets are CREATED (registered) from user threads while the driver thread is inside Run, with peer data already
    waiting: the driver may dispatch the new socket's handlers as soon as the registration releases the step lock"""
    blocks = {5: [(96, [])] * rnd.choice([0, 1]), 6: [(96, [])], 7: [(96, [])]}
    progs = {0: [(40, []), (10, [1, 0, 0])], 1: [(42, [])]}
    nusers = rnd.choice([1, 2])
    for u in range(nusers):
        key = 2 + u
        udp = rnd.random() < 0.3
        ops = [(21 if udp else 20, [key]), (30, [key, 0, 16])]
        if rnd.random() < 0.8:
            ops.append((72 if udp else 70, [key, rnd.choice([3, 10])]))          # data is waiting before the socket is registered
        ops.append((60, [key, 5, 0 if udp else 6]))
        if rnd.random() < 0.5:
            ops.append((72 if udp else 70, [key, 4]))
        if rnd.random() < 0.5:
            ops.append((96, []))
        if rnd.random() < 0.5:
            ops.append((50, [20 + u, 2, 0, 7]))
        ops += [(14, []), (28, [key])]
        progs[2 + u] = ops
    progs[2 + rnd.randrange(nusers)].append((43, []))
    return blocks, progs, {"kind": "create", "users": nusers}


def gen_handlersend_scn(rnd, i):
    """the receive handler (driver thread) and application threads send on the same socket in the same step"""
    udp = rnd.random() < 0.4
    if udp:
        blocks = {5: [(96, []), (62, [1, 1, 9, 2]), (96, [])], 6: []}
        progs = {0: [(40, []), (10, [1, 0, 0]), (21, [1]), (30, [1, 0, 64]), (60, [1, 5, 0])], 1: [(42, [])]}
        progs[2] = [(72, [1, 5]), (96, []), (62, [1, 1, 8, 1])]
        progs[3] = [(62, [1, 1, 12, 3]), (72, [1, 7])]
    else:
        blocks = {5: [(96, []), (61, [1, 1, 9]), (96, [])], 6: []}
        progs = {0: [(40, []), (10, [1, 0, 0]), (20, [1]), (30, [1, 0, 16]), (60, [1, 5, 6])], 1: [(42, [])]}
        progs[2] = [(70, [1, 5]), (96, []), (61, [1, 1, 8])]
        progs[3] = [(61, [1, 1, 12]), (70, [1, 7])]
    return blocks, progs, {"kind": "handlersend", "users": 2, "udp": udp}


def gen_udpsend_scn(rnd, i):
    """several producers SendTo on one asynchronous UDP socket"""
    blocks = {5: [], 6: []}
    progs = {0: [(40, []), (10, [1, 0, 0]), (21, [1]), (30, [1, 0, 64]), (60, [1, 5, 0])], 1: [(42, [])]}
    nusers = rnd.choice([2, 2, 3])
    for u in range(nusers):
        ops = []
        for _ in range(rnd.choice([1, 2, 3])):
            ops.append((62, [1, 1, rnd.choice([8, 9, 16, 40]), rnd.choice([1, 2, 3])]))
            if rnd.random() < 0.3:
                ops.append((96, []))
        progs[2 + u] = ops
    return blocks, progs, {"kind": "udpsend", "users": nusers}


def gen_pool_scn(rnd, i):
    """Get / release on one BufferPool from several threads: thread 0 obtains all N buffers first; each of them is then
    released by exactly one user thread (a buffer has one owner) while other threads call Get"""
    n = rnd.choice([1, 2, 2, 3])
    progs = {0: [(10, [1, n, 64])] + [(11, [1, 64])] * n, 1: []}
    k = rnd.choice([2, 3])
    rel = {u: [] for u in range(k)}
    for name in range(n):
        rel[rnd.randrange(k)].append(name)
    for u in range(k):
        ops = [(12, [name]) for name in rel[u]] + [(11, [1, 64])] * rnd.choice([1, 2, 3])
        rnd.shuffle(ops)
        progs[2 + u] = ops
    return {}, progs, {"kind": "pool", "users": k, "n": n}


def gen_shift_scn(rnd, i):
    """ToDos due far in the future are shifted / cancelled from other threads while the driver executes tasks"""
    blocks = {7: [(96, []), (96, [])], 8: [(96, [])]}
    progs = {0: [(40, [])], 1: [(42, [])]}
    progs[2] = [(50, [11, 2, 0, 7]), (50, [12, 2, 5000, 8]), (96, []), (51, [12, 2, 0])]
    progs[3] = [(50, [13, 2, 7000, 8]), (96, []), (51, [13, 1, 0]), (52, [12])]
    if rnd.random() < 0.5:
        progs[3].append((43, []))
    return blocks, progs, {"kind": "shift", "users": 2}


def gen_stop_scn(rnd, i):
    blocks = {7: [(43, [])], 8: [(96, [])]}
    progs = {0: [(40, [])], 1: [(42, [])] * rnd.choice([1, 2, 3])}
    k = rnd.choice([1, 2, 3])
    for u in range(k):
        ops = [(43, [])] * rnd.choice([1, 1, 2])
        if rnd.random() < 0.4:
            ops.insert(0, (50, [10 + u, 2, 0, 7]))
        if rnd.random() < 0.3:
            ops.insert(0, (96, []))
        progs[2 + u] = ops
    return blocks, progs, {"kind": "stop", "users": k}


def generate(rnd, tier, kinds=("todo", "send", "destroy", "stop")):
    n = {"quick": 600, "thorough": 4000, "search": 900}[tier]
    cases = []
    for i in range(n):
        kind = kinds[i % len(kinds)]
        g = {"todo": gen_todo_scn, "send": gen_send_scn, "destroy": gen_destroy_scn, "stop": gen_stop_scn, "handlersend": gen_handlersend_scn,
             "udpsend": gen_udpsend_scn, "pool": gen_pool_scn, "shift": gen_shift_scn, "create": gen_create_scn}[kind]
        blocks, progs, meta = g(rnd, i)
        progs = fix_todo_ops(progs)
        nthreads = max(progs) + 1
        sched = rand_schedule(rnd, nthreads)
        if kind == "stop" and rnd.random() < 0.4:
            sched = [2] * 12 + sched           # Stop() before the driver thread reaches Run()
        seed = rnd.randrange(1, 1 << 30) if rnd.random() < 0.7 else 0
        meta["id"] = "%s%d" % (kind, i)
        meta["nthreads"] = nthreads
        cases.append((sched_case(meta["id"], blocks, progs, sched, seed, meta.get("chunk", 0)), meta, progs, blocks))
    return cases


def run_sched(cases, flavour="plain"):
    import concurrent.futures as cf
    exe = harness_exe("sched", flavour)
    shards = [cases[i:i + 25] for i in range(0, len(cases), 25)]

    def one(sh):
        txt = "".join(c[0] for c in sh)
        r = subprocess.run([exe], input=txt, capture_output=True, text=True, timeout=900)
        return parse_traces(r.stdout)
    out = {}
    with cf.ThreadPoolExecutor(max_workers=14) as ex:
        for d in ex.map(one, shards):
            out.update(d)
    return out


def to_sync_events(tr):
    """harness trace -> acceptor events (code, thread, arg)"""
    evs = []
    for k, a in tr:
        if k == 30:
            tid, kind, mid = a[0], a[1], a[2]
            res = a[3] if len(a) > 3 else 0
            if kind == 1 and mid == 1:
                evs.append((2, tid, 0))
            elif kind == 1 and mid == 2:
                evs.append((4, tid, 0))
            elif kind == 2 and mid == 1:
                evs.append((1, tid, res))
            elif kind == 2 and mid == 2:
                evs.append((99, tid, 0))      # nobody try-locks pauseMtx
            elif kind == 3 and mid == 1:
                evs.append((3, tid, 0))
            elif kind == 3 and mid == 2:
                evs.append((5, tid, 0))
            elif kind == 5:
                evs.append((6, tid, 0))
            elif kind == 6 and res >= 0:
                evs.append((7, tid, 0))
        elif k == 35:
            evs.append((8, a[0], 0))
        elif k == 31 and a[0] == 1 and a[2] == 42:
            evs.append((9, 1, 0))
        elif k == 32 and a[0] == 1 and a[2] == 42:
            evs.append((10, 1, 0))
    return evs


def accept_all(cases, traces):
    L = []
    for txt, meta, progs, blocks in cases:
        tr = traces.get(meta["id"])
        if tr is None:
            continue
        evs = to_sync_events(tr)
        L.append("C %s" % meta["id"])
        L.append("A %d %d %d" % (meta["nthreads"] + 1, len(evs) + 2, len(evs) + 2))
        for c, th, arg in evs:
            L.append("V %d %d %d" % (c, th, arg))
        L.append("X")
    r = subprocess.run([model_exe(), "sync"], input="\n".join(L) + "\n", capture_output=True, text=True, timeout=900)
    out = {}
    cid = None
    for line in r.stdout.split("\n"):
        t = line.split()
        if not t:
            continue
        if t[0] == "C":
            cid = t[1]
        elif t[0] == "Y":
            out[cid] = [int(x) for x in t[1:]]
    return out


# ---------------------------------------------------------------------------------------------------------
# monitors
# ---------------------------------------------------------------------------------------------------------
def mon_common(tr):
    for k, a in tr:
        if k == 98:
            return "process died (signal/exit %s)" % a
        if k == 90:
            return "anomaly at the libc boundary / in a handler: %s" % a
        if k == 97:
            return "garbled trace (the process died while writing)"
    return None


def mon_c05(meta, tr):
    w = mon_common(tr)
    if w:
        return w
    for k, a in tr:
        if k == 96 and a[0] == 1:
            return "DEADLOCK: no thread can move; blocked (thread, pending op, mutex): %s" % (a[1:],)
        if k == 96 and a[0] == 2:
            return "no termination within 20000 scheduling decisions (livelock)"
    # bounded yield: between a user's lock(pause) and its lock(step) the driver unlocks stepMtx (ends a step) at most once
    holder = None
    ends = 0
    for k, a in tr:
        if k != 30:
            continue
        tid, kind, mid = a[0], a[1], a[2]
        if tid != 1 and kind == 1 and mid == 2:
            holder, ends = tid, 0
        elif tid == holder and kind == 1 and mid == 1:
            holder = None
        elif tid == 1 and kind == 3 and mid == 1 and a[3] == 0 and holder is not None:
            ends += 1
            if ends > 1:
                return "the driver completed %d steps while thread %d held pauseMtx waiting for stepMtx" % (ends, holder)
    return None


def mon_c08(meta, tr):
    w = mon_common(tr)
    if w:
        return w
    # a Stop() takes effect when it sets the flag (logged as 35 at its very beginning); it belongs to the Run() in progress at
    # that moment or, if none is, to the next one. A Run() return consumes every Stop whose flag was set before it.
    pending = {}        # thread -> number of its Stop() calls whose flag is set and that no Run() return has consumed yet
    completed = 0       # of those, how many have returned
    in_stop = {}        # thread -> Stop() calls in progress (flag set, not returned)
    in_run = False
    any_stop = False
    cur_thread = []
    for k, a in tr:
        if k == 35:
            any_stop = True
            pending[a[0]] = pending.get(a[0], 0) + 1
            in_stop[a[0]] = in_stop.get(a[0], 0) + 1
        elif k == 20 and a[0] == 43 and a[1] == 1:
            # the thread that returns from Stop(): the one with a Stop in progress whose wake-up was the last one sent
            pass
        elif k == 30 and a[1] == 5:
            # wake-up datagram sent; if by a stopper, its Stop() returns right after (no further schedule point)
            if in_stop.get(a[0], 0) > 0:
                in_stop[a[0]] -= 1
                completed += 1
        elif k == 31 and a[0] == 1 and a[2] == 42:
            in_run = True
        elif k == 32 and a[0] == 1 and a[2] == 42:
            in_run = False
            if not any_stop:
                return "Run() returned without any Stop()"
            pending = {}
            completed = 0
            # Stops still in progress (flag consumed by this return, wake-up yet to come) are satisfied by this return
            in_stop = {}
        elif k == 96 and a[0] == 0 and in_run and completed > 0:
            return "Run() is still blocked in poll although %d Stop() call(s) have returned" % completed
        elif k == 96 and a[0] == 1:
            return "DEADLOCK %s" % (a[1:],)
    return None


def mon_c04(meta, tr, progs):
    w = mon_common(tr)
    if w:
        return w
    active = {}          # (kind, key) -> depth
    sched_open, cancel_open, sched_overlap = {}, set(), {}
    destroyed = set()
    cancelled = {}       # todo id -> still cancelled (not re-scheduled)
    for idx, (k, a) in enumerate(tr):
        if k == 21:
            key = (a[0], a[1])
            if a[0] in (1, 2, 4) and a[1] in destroyed:
                return "handler (kind %d) of socket %d started after its destructor had returned on another thread" % (a[0], a[1])
            if a[0] == 5 and cancelled.get(a[1]):
                return "task of ToDo %d started after Cancel() had returned on another thread" % a[1]
            if any(v > 0 for kk, v in active.items()):
                return "handler/task %s started while %s was still running" % (key, [kk for kk, v in active.items() if v > 0])
            active[key] = active.get(key, 0) + 1
        elif k == 26:
            key = (a[0], a[1])
            active[key] = max(0, active.get(key, 0) - 1)
        elif k == 31 and a[0] != 1 and a[2] in (50, 51):
            cancelled[a[3]] = False          # a (re)scheduling call has begun: the task may run before that call returns
            sched_open[a[3]] = sched_open.get(a[3], 0) + 1
            if a[3] in cancel_open:
                sched_overlap[a[3]] = True
        elif k == 31 and a[0] != 1 and a[2] == 52:
            cancel_open.add(a[3])
            if sched_open.get(a[3], 0) > 0:
                sched_overlap[a[3]] = True   # a scheduling call of the same ToDo is in flight: either may take effect last
        elif k == 32 and a[0] != 1 and a[2] in (50, 51):
            sched_open[a[3]] = max(0, sched_open.get(a[3], 0) - 1)
            cancelled[a[3]] = False
        elif k == 32 and a[0] != 1:
            opc, arg = a[2], a[3]
            if opc == 28:
                for (hk, key), v in active.items():
                    if key == arg and hk in (1, 2, 4) and v > 0:
                        return "destructor of socket %d returned on thread %d while its handler (kind %d) is still running" % (arg, a[0], hk)
                destroyed.add(arg)
            elif opc == 52:
                if active.get((5, arg), 0) > 0:
                    return "Cancel() of ToDo %d returned on thread %d while its task is still running" % (arg, a[0])
                cancelled[arg] = not sched_overlap.pop(arg, False)
                cancel_open.discard(arg)
            elif opc in (50, 51):
                cancelled[arg] = False
        elif (k == 34 and a[0] == 1) or (k == 20 and a[0] in (41, 42) and a[1] == 0):
            return "exception %s escaped from Run()/Step() on the driver thread (a handler or task was dispatched in a state no management call may expose)" % a[2:]
        elif k == 20 and a[0] in (60, 63) and a[1] == 1:
            destroyed.discard(a[2] if a[0] == 60 else a[3])
        elif k == 20 and a[0] == 51 and a[1] == 1:
            cancelled[a[2]] = False
    return None


def mon_c02(meta, tr):
    w = mon_common(tr)
    if w:
        return w
    # wire: (fd -> list of (future, n)); creator thread per future
    creator, fut_sock, fut_size = {}, {}, {}
    cur_thread_of_ret = None
    last31 = {}
    wire = {}
    reported = {}
    destroyed = set()
    # which thread issued an op: the K_RET of a top-level op is between its 31 and 32 markers; ops in blocks run on the driver
    stack = []
    for k, a in tr:
        if k == 31:
            stack.append(a[0])
        elif k == 32:
            if stack:
                stack.pop()
        elif k == 20 and a[0] == 61 and a[1] == 1:
            f, key, size = a[2], a[3], a[4]
            fut_sock[f], fut_size[f] = key, size
        elif k == 30 and a[1] == 7:
            fd, ln, n, f = a[2], a[3], a[4], a[5]
            wire.setdefault(fd, []).append((f, ln, n))
        elif k == 22:
            if a[0] in reported:
                return "future %d became ready twice" % a[0]
            reported[a[0]] = a[1]
        elif k == 20 and a[0] == 28 and a[1] == 1:
            destroyed.add(a[2])
    for fd, chunks in wire.items():
        done = set()
        cur = None
        acc = {}
        for f, ln, n in chunks:
            if f < 0:
                return "send() offered bytes that are not the unsent rest of any queued buffer (fd %d)" % fd
            if f in done:
                return "bytes of buffer %d after a later buffer was started (not contiguous)" % f
            if cur is not None and f != cur:
                if acc.get(cur, 0) != fut_size.get(cur, -1):
                    return "buffer %d interleaved with buffer %d before it was complete" % (f, cur)
                done.add(cur)
            cur = f
            acc[f] = acc.get(f, 0) + n
            if acc[f] > fut_size.get(f, 1 << 60):
                return "more bytes of buffer %d on the wire than it holds" % f
    for f, st in reported.items():
        if st == 1 and f in fut_size:
            tot = sum(n for ch in wire.values() for (g, ln, n) in ch if g == f)
            if tot != fut_size.get(f):
                return "future %d has a value, %d of %d bytes reached the OS" % (f, tot, fut_size.get(f))
    # the driver went quiescent (blocked with nothing to do) or returned: no future of a live socket may still be pending
    end = [a for k, a in tr if k == 96]
    quiescent = end and end[-1][0] == 0
    run_over = any(k == 32 and a[0] == 1 and a[2] == 42 for k, a in tr)
    if quiescent and not run_over:
        for f in fut_sock:
            if f not in reported and fut_sock[f] not in destroyed:
                return "future %d stays pending although the driver is idle in poll and the peer reads (lost write-poll arm)" % f
    return None


def mon_pool(meta, tr):
    """C10 under concurrency: never more than N outstanding, distinct, no new buffer while an idle one exists"""
    w = mon_common(tr)
    if w:
        return w
    n = meta.get("n")
    if not n:
        return None
    held = set()
    names = set()
    for k, a in tr:
        if k == 20 and a[0] == 11:
            if a[1] == 1:
                name = a[2]
                if name in held:
                    return "Get handed out buffer %d that is still outstanding" % name
                if len(held) >= n:
                    return "more than N=%d buffers outstanding (Get returned %d while %s are held)" % (n, name, sorted(held))
                if name not in names and len(names) >= n:
                    return "the pool created buffer %d beyond its N=%d pre-allocated ones" % (name, n)
                if a[4] != 1:
                    return "buffer %d lacks the reserved capacity" % name
                names.add(name); held.add(name)
            elif len(held) < n:
                return "Get refused with only %d of N=%d outstanding" % (len(held), n)
        elif k == 32 and a[2] == 12:
            held.discard(a[3])
    return None


def mon_todo(meta, tr):
    """C06 under concurrency: never early, only when scheduled, one run per scheduling"""
    w = mon_common(tr)
    if w:
        return w
    pending = {}
    now = 0
    now_of = {}          # last clock reading per thread (a delay is relative to the caller's own reading)
    cur = {}             # thread currently inside a top-level op (handlers/tasks run on the driver thread 1)
    inflight, ran_inflight, anon, cancelling = {}, {}, {}, {}
    for k, a in tr:
        if k == 1:
            now = max(now, a[0])
            if len(a) > 1:
                now_of[a[1]] = a[0]
        elif k == 31:
            cur[a[0]] = True
            if a[2] in (50, 51):
                # the scheduling call has begun: the driver may run the task before the call returns
                if a[3] == -1:
                    anon[a[0]] = now
                else:
                    inflight[a[3]] = now
                    if a[3] in cancelling:
                        cancelling[a[3]] = True          # overlaps a Cancel of the same ToDo: either may take effect last
            elif a[2] == 52:
                cancelling[a[3]] = a[3] in inflight
        elif k == 32 and a[2] == 52:
            cancelling.pop(a[3], None)
        elif k == 32 and a[2] in (50, 51):
            if a[3] == -1:
                anon.pop(a[0], None)
            else:
                inflight.pop(a[3], None)
        elif k == 20 and a[0] in (50, 51) and a[1] == 1:
            tid_, kind, val = a[2], a[3], a[4]
            if tid_ in ran_inflight:
                start = ran_inflight.pop(tid_)
                due = val if kind == 1 else start[0] + val * MS
                if due > start[1]:
                    return "task of ToDo %d executed at %d, before its due time %d" % (tid_, start[1], due)
                continue
            if kind == 1:
                pending[tid_] = val
            elif kind == 2:
                # which thread? the one whose op this result closes: take the smallest base reading that any thread could have
                # used since its op began (conservative: the earliest reading still explains a legal execution)
                base = min(now_of.values()) if now_of else now
                pending[tid_] = base + val * MS
        elif k == 20 and a[0] == 52 and a[1] == 1:
            if not cancelling.get(a[2]):
                pending.pop(a[2], None)          # (a Cancel that overlapped a scheduling call of the same ToDo may have come first)
        elif k == 21 and a[0] == 5:
            tid_ = a[1]
            if tid_ in inflight and not (tid_ in pending and pending[tid_] <= now):
                # a (re)scheduling call is in progress and the previous schedule does not explain this run: judged when the call reports
                ran_inflight[tid_] = (inflight.pop(tid_), now)     # (time the call began, time the task ran)
                pending.pop(tid_, None)
                continue
            if tid_ not in pending and tid_ >= 1000 and anon:
                ran_inflight[tid_] = (min(anon.values()), now)     # an anonymous ToDo (id known only when its creation reports)
                continue
            if tid_ not in pending:
                return "task of ToDo %d executed although it is not scheduled (cancelled, superseded or already run)" % tid_
            if pending[tid_] > now:
                return "task of ToDo %d executed at %d, before its due time %d" % (tid_, now, pending[tid_])
            del pending[tid_]
    return None


def mon_udp(meta, tr):
    """C09 under concurrency: every queued datagram is handed to the OS once the driver is idle; futures resolve"""
    w = mon_common(tr)
    if w:
        return w
    futs, reported, destroyed = {}, {}, set()
    for k, a in tr:
        if k == 20 and a[0] == 62 and a[1] == 1 and len(a) > 4:
            futs[a[2]] = a[3]
        elif k == 22:
            reported[a[0]] = a[1]
        elif k == 20 and a[0] == 28 and a[1] == 1:
            destroyed.add(a[2])
    end = [a for k, a in tr if k == 96]
    quiescent = end and end[-1][0] == 0
    run_over = any(k == 32 and a[0] == 1 and a[2] == 42 for k, a in tr)
    if quiescent and not run_over:
        for f, key in futs.items():
            if f not in reported and key not in destroyed:
                return "future of datagram %d stays pending although the driver is idle in poll (lost write-poll arm)" % f
    sent = sum(1 for k, a in tr if k == 30 and a[1] == 10)
    return None


# ---------------------------------------------------------------------------------------------------------
# the checks
# ---------------------------------------------------------------------------------------------------------
SPECS = {
    "C04": ("Properties_C04", ["mutual_exclusion", "quiescent_during_management", "handlers_serial", "pause_exclusive"],
            ("destroy", "todo", "send", "handlersend", "create"), "san"),
    "C05": ("Properties_C05", ["no_deadlock", "bounded_yield", "wakeup_not_lost", "accepted_trace_is_model_run"],
            ("todo", "send", "destroy", "stop", "handlersend", "udpsend", "shift", "create"), "plain"),
    "C08": ("Properties_C08", ["stop_wakes_poll", "run_returns_iff_flag", "run_needs_stop", "stop_before_entry", "stop_request_visible"],
            ("stop", "todo"), "plain"),
}


def sequential_stop_stage(rep, tier, seed):
    """C08 on ONE thread (sim harness, model correspondence): Stop() issued before Run() — possibly with user-driven Steps in between,
    which drain the wake-up datagram — must end that Run at once; Stop() from a task inside Run ends it after that step."""
    import drivercases as dc
    from asyncchecks import project_async
    rnd = random.Random(seed * 13 + 5)
    n = {"quick": 60, "thorough": 600}.get(tier, 60)
    cases = []
    for i in range(n):
        ops = [(1, [7]), (43, []), (2, []), (40, [])]
        kind = i % 4
        if kind == 0:
            ops += [(43, [])] * rnd.choice([1, 2]) + [(42, [])]
        elif kind == 1:
            ops += [(43, [])] + [(41, [rnd.choice([0, 0, 3])])] * rnd.choice([1, 2, 3]) + [(42, [])]
        elif kind == 2:
            ops += [(50, [1, 2, rnd.choice([0, 2]), 7]), (42, [])]                   # a task that calls Stop()
        else:
            ops += [(43, []), (42, []), (50, [1, 2, 0, 7]), (42, [])]                # Run again: needs a new Stop (from the task)
        ops += [(44, [])]
        c = Case("seqstop%d" % i, ops, [], [], {"kind": "hand", "instant": True, "pipe_fd": 1001})
        cases.append(c)
    import c14
    dc.grow(cases, c14.benign, rnd)      # the pipe is readable exactly while a wake-up datagram is pending; polls time out otherwise
    exe = harness_exe("sim", "plain")
    ti, tm = run_exe(exe, cases), run_exe(model_exe(), cases)
    out = []
    ndiv = 0
    for c in cases:
        a, b = ti.get(c.id) or [], tm.get(c.id) or []
        runs_wanted = sum(1 for k, x in b if k == 20 and x[0] == 42 and x[1] == 1)      # what the model says
        runs_done = sum(1 for k, x in a if k == 20 and x[0] == 42 and x[1] == 1)
        if runs_done < runs_wanted:
            out.append(("seqstop", "# Run() did not return although a Stop() was pending (%d of %d Runs returned; the implementation went on polling)\n%s# --- implementation trace\n%s\n# --- model trace\n%s\n"
                        % (runs_done, runs_wanted, c.text(), fmt_trace(a), fmt_trace(b))))
        elif project_async(a) != project_async(b):
            ndiv += 1
    rep.cov["sequential_cases"] = len(cases)
    rep.cov["sequential_diverging"] = ndiv
    return out, ndiv


def run_check(pid, tier, seed, extra_monitor=None):
    module, theorems, kinds, flavour = SPECS[pid]
    rep = Report(pid, tier, seed)
    problems = proof_stage(rep, module, theorems)
    rnd = random.Random(seed)
    cases = generate(rnd, tier, kinds)
    try:
        traces = run_sched(cases, flavour)
    except RuntimeError as e:
        rep.violation("build", "the sched harness could not be built against /repo's current tree:\n%s\n" % e, no_input=True)
        rep.cov.setdefault("evaluations", 0); rep.cov.setdefault("distinct_nontrivial", 0)
        return rep.finish()
    verdicts = accept_all(cases, traces)
    diverging, failing = [], []
    nontrivial = set()
    contended = 0
    for txt, meta, progs, blocks in cases:
        tr = traces.get(meta["id"])
        if tr is None:
            diverging.append((txt, meta, "no trace"))
            continue
        v = verdicts.get(meta["id"])
        if v is None or v[0] != 0:
            evs = to_sync_events(tr)
            bad = evs[v[1]] if v and v[1] < len(evs) else None
            diverging.append((txt, meta, "the protocol model rejects synchronisation event #%s %s (reason %s): not an enabled transition" % (v[1] if v else "?", bad, v[0] if v else "?")))
        for mon in ([mon_c05, mon_c08] if pid in ("C05", "C08") else []) + ([lambda m, t: mon_c04(m, t, progs)] if pid == "C04" else []) + ([mon_c02, mon_udp, mon_todo] if pid in ("C04", "C05") else []):
            w = mon(meta, tr)
            if w:
                failing.append((txt, meta, w, tr))
                break
        fails = sum(1 for k, a in tr if k == 30 and a[1] == 2 and a[2] == 1 and a[3] == 0)
        if fails:
            contended += 1
        nontrivial.add(hashlib.sha1(fmt_trace([(k, a) for k, a in tr if k == 30]).encode()).hexdigest())
    rep.cov["evaluations"] = len(cases)
    rep.cov["distinct_nontrivial"] = len(nontrivial)
    rep.cov["traces_validated_against_impl"] = len(cases) - len(diverging)
    rep.cov["states"] = sum(len([1 for k, a in (traces.get(m["id"]) or []) if k == 30]) for _, m, _, _ in cases)
    rep.cov["rule"] = ("multi-threaded scenarios (1 driver thread in Run, 1-3 user threads: ToDo create/Shift/Cancel incl. anonymous ones, Stop from threads and from tasks, "
                       "Send from several producers and from handlers with partial kernel writes, peer data, socket destruction racing its handler, Stop before/while/after Run, "
                       "repeated Run) executed under a deterministic scheduler with a schedule point before every mutex operation, poll, pipe sendto/recvfrom and send/recv; "
                       "schedules: random, bursts, driver-heavy, users-first, then seeded random continuation. distinct = distinct synchronisation traces; "
                       "'contended' counts executions in which at least one try-lock of stepMtx failed (the hand-over path).")
    rep.cov["samples"] = [cases[0][0], cases[len(cases) // 2][0]]
    kindc = {}
    for _, m, _, _ in cases:
        kindc[m["kind"]] = kindc.get(m["kind"], 0) + 1
    rep.cov["input_distribution"] = {"kinds": kindc, "contended_executions": contended,
                                     "ended_quiescent": sum(1 for _, m, _, _ in cases if any(k == 96 and a[0] == 0 for k, a in (traces.get(m["id"]) or []))),
                                     "run_returned": sum(1 for _, m, _, _ in cases if any(k == 32 and a[0] == 1 and a[2] == 42 for k, a in (traces.get(m["id"]) or [])))}
    rep.cov["diverging_cases"] = len(diverging)
    rep.cov["monitor_failures"] = len(failing)
    rep.assumptions = ["one thread runs at a time (deterministic scheduler with virtual mutexes): data races below the granularity of lock operations and system calls are "
                       "not explored here (thorough tier adds a ThreadSanitizer/ASan build)", "OS mutex fairness for the clause 'the call returns'"]
    seq_fail = []
    if pid == "C08":
        seq_fail, seq_div = sequential_stop_stage(rep, tier, seed)
        rep.cov["evaluations"] += rep.cov.get("sequential_cases", 0)
        for k, (tag, text) in enumerate(seq_fail[:2]):
            rep.violation("%s%d" % (tag, k), text)
        if seq_div and not seq_fail:
            problems = problems + ["sequential Stop/Step/Run cases: model and implementation diverge on %d cases" % seq_div]
    for k, (txt, meta, w, tr) in enumerate(failing[:3]):
        rep.violation("fail%d" % k, "# %s\n%s# --- trace\n%s\n" % (w, txt, fmt_trace(tr)))
    if not failing and not seq_fail and (diverging or problems):
        t = ""
        if problems:
            t += "proof obligations that no longer check:\n" + "\n".join(problems) + "\n"
        if diverging:
            txt, meta, w = diverging[0]
            t += "correspondence no longer checks on %d of %d executions: %s\n%s# --- trace\n%s\n" % (len(diverging), len(cases), w, txt, fmt_trace(traces.get(meta["id"]) or []))
        rep.violation("diverge", t, no_input=True)
    return rep.finish()


def extra_stage(kinds, monitors, flavour="plain", n_quick=360):
    """a sched stage for checks that mainly run on the sim harness (C02, C06, C09, C10): returns a function for engine SPEC['extra']"""
    def run(rep, tier, seed):
        rnd = random.Random(seed * 31 + 7)
        n = {"quick": n_quick, "thorough": n_quick * 12, "search": n_quick * 3}.get(tier, n_quick)
        cases = []
        for i in range(n):
            kind = kinds[i % len(kinds)]
            g = {"todo": gen_todo_scn, "send": gen_send_scn, "destroy": gen_destroy_scn, "stop": gen_stop_scn, "handlersend": gen_handlersend_scn,
                 "udpsend": gen_udpsend_scn, "pool": gen_pool_scn, "shift": gen_shift_scn, "create": gen_create_scn}[kind]
            blocks, progs, meta = g(rnd, i)
            progs = fix_todo_ops(progs)
            nthreads = max(progs) + 1
            meta["id"] = "%s%d" % (kind, i)
            meta["nthreads"] = nthreads
            seed2 = rnd.randrange(1, 1 << 30) if rnd.random() < 0.7 else 0
            cases.append((sched_case(meta["id"], blocks, progs, rand_schedule(rnd, nthreads), seed2, meta.get("chunk", 0)), meta, progs, blocks))
        traces = run_sched(cases, flavour)
        out = []
        for txt, meta, progs, blocks in cases:
            tr = traces.get(meta["id"])
            if tr is None:
                continue
            for mon in monitors:
                w = mon(meta, tr)
                if w:
                    out.append(("sched", "# %s (multi-threaded execution under the deterministic scheduler)\n%s# --- trace\n%s\n" % (w, txt, fmt_trace(tr))))
                    break
        rep.cov["sched_executions"] = rep.cov.get("sched_executions", 0) + len(cases)
        rep.cov["evaluations"] = rep.cov.get("evaluations", 0) + len(cases)
        return out
    return run
