"""C14 — OS failures become exceptions and leak nothing.

A scenario set covering every public constructor and operation (hand-written scenarios + random driver walks, every
operation in its *lenient* form so that a scenario goes on after a constructor threw) is first run fault-free on the
model (oracle scripts grown by a benign kernel). Then EVERY position of its system-call trace is failed in turn:
  * set-up calls (socket, bind, listen, connect, fcntl, setsockopt, getsockopt, getsockname, getpeername, close) through
    the fault overlay  F <index> <errno>,
  * scripted calls (poll, send, recv, sendto, recvfrom, accept) by replacing the scripted answer,
with each errno the call can plausibly return; the rest of the script is re-grown behind the fault. Pairs of faults are
sampled. Model and implementation must agree on every case, and the monitor checks on the IMPLEMENTATION's trace:
failure reported (exception / disconnect handler / failed future / exception out of Step), descriptor ledger balanced,
no crash, no anomaly."""
from common import *
from engine import run_sim_check
import adaptive
import drivercases as dc
from asyncchecks import project_async
from simgen import EINTR, EAGAIN, EPIPE, ECONNRESET, ENOMEM, EMSGSIZE, ENOBUFS, EMFILE, ECONNABORTED, EBADF, POLLIN, POLLOUT, POLLERR, POLLHUP

THEOREMS = ["tcp_constructor_ledger", "udp_constructor_ledger", "acceptor_constructor_ledger", "accept_ledger", "driver_constructor_ledger",
            "first_failure_is_thrown", "silent_drop_refuted", "ledger_balanced_all_programs", "everything_destroyed_nothing_leaked"]

EACCES, EADDRINUSE, ECONNREFUSED, ENFILE, EINVAL, ENOTCONN, ETIMEDOUT, EIO, ENETUNREACH, EHOSTUNREACH = 13, 98, 111, 23, 22, 107, 110, 5, 101, 113

SETUP_NAMES = {1: "socket", 2: "bind", 3: "listen", 4: "connect", 5: "fcntl(F_GETFL)", 6: "fcntl(F_SETFL)", 7: "setsockopt", 8: "getsockopt",
               9: "getsockname", 10: "getpeername", 11: "close"}
SETUP_ERRNOS = {1: [EMFILE, ENFILE, ENOBUFS, EACCES], 2: [EADDRINUSE, EACCES, EINVAL], 3: [EADDRINUSE, EBADF], 4: [ECONNREFUSED, ETIMEDOUT, ENETUNREACH],
                5: [EBADF], 6: [EBADF, EINVAL], 7: [EBADF, EINVAL], 8: [EBADF, EINVAL], 9: [EBADF, ENOBUFS], 10: [ENOTCONN, EBADF], 11: [EIO, EINTR]}
CALL_ERRNOS = {2: [ENOMEM, EBADF, EINVAL], 3: [EPIPE, ECONNRESET, ENOBUFS, EAGAIN], 4: [ECONNRESET, ETIMEDOUT, ENOMEM, EAGAIN],
               5: [EMSGSIZE, ENOBUFS, EHOSTUNREACH, EAGAIN], 6: [ENOMEM, ECONNREFUSED, EAGAIN], 7: [EMFILE, ECONNABORTED, ENOBUFS, ENFILE]}
CALL_NAMES = {2: "poll", 3: "send", 4: "recv", 5: "sendto", 6: "recvfrom", 7: "accept"}
QUICK_ERRNOS = 2        # errnos per position in the quick tier (all of them in the thorough tier)


def L(code, *a):
    return (1000 + code, list(a))


def hand_scenarios():
    S = {}
    S["tcp_sync"] = [L(20, 1), L(23, 1, 10, -1), L(23, 1, 8, 5), L(23, 1, 3, 0), L(24, 1, 16, -1), L(24, 1, 4, 5), L(24, 1, 4, 0), L(28, 1)]
    S["tcp_buffered"] = [L(20, 1), L(30, 1, 2, 0), L(32, 1, -1), L(32, 1, 3), L(23, 1, 5, -1), (14, []), L(28, 1)]
    S["tcp_buffered_fixed"] = [L(20, 1), L(30, 1, 1, 32), L(32, 1, 0), (14, []), L(32, 1, -1), (14, []), L(28, 1)]
    S["udp_sync"] = [L(21, 1), L(25, 1, 9, 2, -1), L(25, 1, 9, 2, 4), L(25, 1, 1, 3, 0), L(26, 1, 32, -1), L(26, 1, 32, 5), L(28, 1)]
    S["udp_buffered"] = [L(21, 1), L(30, 1, 1, 64), L(33, 1, -1), L(25, 1, 4, 3, 0), (14, []), L(33, 1, 2), (14, []), L(28, 1)]
    S["udp_buffered_default"] = [L(21, 1), L(30, 1, 2, 0), L(33, 1, 5), (14, []), L(28, 1)]
    S["acceptor_sync"] = [L(22, 1), L(27, 1, -1, 2), L(23, 2, 4, -1), L(24, 2, 8, -1), L(27, 1, 5, 3), L(27, 1, 0, 4), L(28, 2), L(28, 3), L(28, 4), L(28, 1)]
    S["driver_todo"] = [(1, [1]), (2, []), L(40), L(50, 1, 2, 0, 1), L(50, 2, 2, 5, 1), L(41, 0), L(51, 2, 2, 0), L(41, 10), L(43), L(42),
                        L(52, 1), L(44)]
    # asynchronous TCP: send through the driver, receive into the handler, peer closes -> disconnect handler
    S["tcp_async"] = [(1, [1]), (2, []), (1, [2]), (2, []), L(40), (10, [9, 2, 0]), L(20, 1), L(30, 1, 2, 32), L(60, 1, 1, 2),
                      L(61, 1, 9, 12), L(41, -1), L(41, -1), L(61, 1, 9, 5), L(61, 1, 9, 6), L(41, 10), L(41, -1), L(41, -1), L(41, 0), (14, []),
                      L(28, 1), L(44)]
    S["tcp_async_driver_first"] = [(1, [1]), (2, []), (1, [2]), (2, []), L(40), (10, [9, 2, 0]), L(20, 1), L(30, 1, 2, 0), L(60, 1, 1, 2),
                                   L(61, 1, 9, 3), L(41, -1), L(61, 1, 9, 4), (14, []), L(44), L(28, 1)]
    S["udp_async"] = [(1, [1]), (2, []), L(40), (10, [9, 2, 0]), L(21, 1), L(30, 1, 2, 64), L(60, 1, 1, 0), L(62, 1, 9, 7, 2), L(41, -1), L(41, -1),
                      L(62, 1, 9, 3, 3), L(41, 5), L(41, 0), (14, []), L(28, 1), L(44)]
    # asynchronous acceptor: the connect handler adopts the socket as an async TCP socket; then traffic on it
    S["acceptor_async"] = [(1, [1]), (2, []), (1, [2]), (2, []), (1, [3]), (63, [2, 2, 16, 1, 2]), (2, []), L(40), (10, [9, 2, 0]), L(22, 1),
                           L(60, 1, 3, 0), L(41, -1), L(61, 2, 9, 4), L(41, -1), L(41, -1), L(41, -1), (14, []), L(28, 2), L(28, 1), L(44)]
    # asynchronous acceptor whose handler does not keep the socket
    S["acceptor_async_drop"] = [(1, [3]), (2, []), L(40), L(22, 1), L(60, 1, 3, 0), L(41, -1), L(41, 5), L(28, 1), L(44)]
    # a task that uses synchronous sockets from inside the driver
    S["task_sync_io"] = [(1, [1]), L(23, 1, 6, -1), L(24, 1, 8, 0), (2, []), L(40), L(20, 1), L(50, 1, 2, 0, 1), L(41, 0), L(28, 1), L(44)]
    out = []
    for name, ops in S.items():
        out.append(Case(name, ops, [], [], {"kind": "hand", "flavour": name, "instant": True}))
    return out


LENIENT = set([20, 21, 22, 23, 24, 25, 26, 27, 28, 30, 32, 33, 40, 41, 42, 43, 44, 50, 51, 52, 60, 61, 62])


def lenient_ops(ops):
    keys = []
    out = []
    for o, a in ops:
        if o in (20, 21, 22) and a[0] not in keys:
            keys.append(a[0])
        if o == 27 and a[2] not in keys:
            keys.append(a[2])
        if o == 63 and a[0] not in keys:
            keys.append(a[0])
        if o == 60:
            # usage rule "pools outlive their buffers": a socket moved into an async constructor dies with its receive pool if that
            # constructor throws, so the user gives the buffers received from it back first
            out.append((14, []))
        out.append((o + 1000, a) if o in LENIENT else (o, a))
    # orderly end: give every buffer back, destroy every socket, then the driver
    out.append((14, []))
    for k in keys:
        out.append((1028, [k]))
    out.append((1044, []))
    return out


def random_scenarios(rnd, n):
    out = []
    for i in range(n):
        c = dc.gen_async_case(rnd, i)
        c.ops = lenient_ops(c.ops)
        c.id = "walk%d" % i
        c.meta["kind"] = "walk"
        c.meta["profile"] = {"timeout": 0.2, "pipe": 0.05, "eintr": 0.0, "pollerr": 0.0, "senderr": 0.0, "recverr": 0.0, "sendtoerr": 0.0,
                             "recvfromerr": 0.0, "accepterr": 0.0, "hup": 0.03, "close": 0.08, "fail_after_partial": 0.0}
        out.append(c)
    return out


# ---------------------------------------------------------------------------------------------------------------
# the benign kernel of the hand-written scenarios
# ---------------------------------------------------------------------------------------------------------------
def pipe_of(tr):
    """(from, to) descriptors of the driver's signalling pipe if a driver was constructed"""
    socks = []
    for k, a in tr:
        if k == 8 and a[0] == 1 and a[2] == 0:
            socks.append(a[1])
        if k == 20 and a[0] == 40 and a[1] == 1 and len(socks) >= 2:
            return socks[-2], socks[-1]
    return None, None


def benign(c, kind, a, tr, rnd):
    if c.meta.get("kind") == "walk":
        return dc.chooser(c, kind, a, tr, rnd)
    if kind == 1:
        return [0]
    if kind == 2:
        timeout = a[0]
        fds = [(a[i], a[i + 1]) for i in range(3, len(a) - 1, 2)]
        n = len(fds)
        pf, pt = pipe_of(tr)
        rev = [0] * n
        if n and pt is not None and fds[0][0] == pt:
            pending = sum(1 for k, x in tr if k == 5 and x[0] == pf and x[3] > 0) - sum(1 for k, x in tr if k == 6 and x[0] == pt and x[2] >= 0)
            if pending > 0:
                rev[0] = POLLIN
                return [1, 0, 0] + rev
            cand = list(range(1, n))
        else:
            cand = list(range(n))
        npoll = sum(1 for k, x in tr if k == 2)
        tok = c.meta.get("plan", {}).get(npoll, "auto")
        pick = None
        for want in (POLLOUT, POLLIN):
            for i in cand:
                if fds[i][1] & want:
                    pick = (i, want)
                    break
            if pick:
                break
        if tok == "timeout" or pick is None:
            if timeout >= 0:
                return [0, 0, timeout * 1000000] + rev
            return None
        i, bit = pick
        rev[i] = {"auto": bit, "hup": POLLHUP, "err": POLLERR}.get(tok, bit)
        return [1, 0, 0] + rev
    if kind == 3:
        # short writes: the first send() of every Send with a LIMITED time-out takes all but one byte (so that a second round with its
        # own poll and send follows, where faults are injected too); otherwise every third send is short by one byte
        ln = a[1]
        # the trace holds the probe's answer and what followed it: look only at what happened BEFORE the pending call
        idx = sum(1 for k, _ in c.evs if k != 8)
        pos, seen = len(tr), 0
        for j, (k, x) in enumerate(tr):
            if 1 <= k <= 7:
                if seen == idx:
                    pos = j
                    break
                seen += 1
        before = tr[:pos]
        nret = sum(1 for k, x in before if k == 20)
        tops = top_ops(c)
        sends_in_op = 0
        for k, x in reversed(before):
            if k == 20:
                break
            if k == 3:
                sends_in_op += 1
        if nret < len(tops) and tops[nret][0] % 1000 == 23 and len(tops[nret][1]) > 2 and tops[nret][1][2] > 0 and sends_in_op == 0 and ln >= 2:
            return [ln - 1, 0]
        sends = sum(1 for k, x in tr if k == 3)
        return [ln if (sends % 3 != 1 or ln < 2) else ln - 1, 0]
    if kind == 4:
        recvs = sum(1 for k, x in tr if k == 4 and x[0] == a[0])
        if recvs >= 2:
            return [0, 0]                                                   # the peer closes after two chunks
        return [min(a[1], 6), 0]
    if kind == 5:
        return [a[1], 0]
    if kind == 6:
        return [min(a[1], 9), 0, 2]
    if kind == 7:
        return [0, 5]
    return None


# ---------------------------------------------------------------------------------------------------------------
# fault enumeration
# ---------------------------------------------------------------------------------------------------------------
def fail_event(kind, errno, nfds=0):
    if kind == 2:
        return (2, [-1, errno, 0] + [0] * nfds)
    if kind in (3, 4, 5):
        return (kind, [-1, errno])
    if kind == 6:
        return (6, [-1, errno, 0])
    return (7, [errno, 0])


def enumerate_faults(base, tr, rnd, tier, second=False):
    """all single-fault variants of case base whose fault-free (or single-fault) model trace is tr"""
    out = []
    nsys = 0
    nev = 0
    have = set(i for i, _ in base.faults)
    for k, a in tr:
        if k == 8:
            if nsys not in have and not (second and nsys <= max(have | {-1})):
                errs = SETUP_ERRNOS[a[0]]
                if tier != "thorough":
                    errs = errs[:QUICK_ERRNOS] if a[0] != 11 else errs[:1]
                for e in errs:
                    c = Case("%s/F%d.%s.%d" % (base.id, nsys, a[0], e), base.ops, list(base.evs[:nev]), list(base.faults) + [(nsys, e)], dict(base.meta))
                    c.meta["fault"] = ("setup", nsys, a[0], e)
                    out.append(c)
            nsys += 1
        elif 1 <= k <= 7:
            if k >= 2 and nev < len(base.evs) and not second:
                errs = CALL_ERRNOS[k]
                if tier != "thorough":
                    errs = errs[:QUICK_ERRNOS]
                nfds = (len(a) - 3) // 2 if k == 2 else 0
                for e in errs:
                    c = Case("%s/E%d.%d.%d" % (base.id, nev, k, e), base.ops, list(base.evs[:nev]) + [fail_event(k, e, nfds)], list(base.faults), dict(base.meta))
                    c.meta["fault"] = ("call", nev, k, e)
                    out.append(c)
            nev += 1
    return out


def generate(rnd, tier):
    n_walk = {"quick": 10, "thorough": 80, "search": 25}[tier]
    base = hand_scenarios() + random_scenarios(rnd, n_walk)
    for c in base:
        c.meta["pipe_fd"] = 1001
    adaptive.grow(base, benign, rnd)
    traces = run_exe(model_exe(), base)
    singles = []
    for c in base:
        tr = traces.get(c.id)
        if tr:
            singles += enumerate_faults(c, tr, rnd, tier)
    cap = {"quick": 2600, "search": 2600, "thorough": 12000}[tier]
    if len(singles) > cap:
        # every position of the hand-written scenarios is kept; the random walks' positions are sampled
        hand = [c for c in singles if c.meta.get("kind") == "hand"]
        walk = [c for c in singles if c.meta.get("kind") != "hand"]
        rnd.shuffle(walk)
        singles = hand + walk[:max(0, cap - len(hand))]
    for c in singles:
        c.meta.pop("blocked", None)
    adaptive.grow(singles, benign, rnd)
    # pairs of faults (sampled): a second set-up fault behind the first fault
    n_pairs = {"quick": 150, "thorough": 1500, "search": 300}[tier]
    sample = rnd.sample(singles, min(len(singles), n_pairs))
    tr1 = run_exe(model_exe(), sample)
    pairs = []
    for c in sample:
        tr = tr1.get(c.id)
        if not tr:
            continue
        cand = enumerate_faults(c, tr, rnd, "quick", second=True)
        if cand:
            p = rnd.choice(cand)
            p.meta["fault2"] = p.meta["fault"]
            p.meta["fault"] = c.meta["fault"]
            pairs.append(p)
    adaptive.grow(pairs, benign, rnd)
    return base + singles + pairs


# ---------------------------------------------------------------------------------------------------------------
# the monitor
# ---------------------------------------------------------------------------------------------------------------
def top_ops(c):
    top, inblk = [], False
    for o, a in c.ops:
        if not inblk:
            if o == 1:
                inblk = True
            else:
                top.append((o, a))
        elif o == 2:
            inblk = False
    return top


def segments(c, tr):
    """indices of the K_RET entry of every top-level operation, in order"""
    rets = []
    i = 0
    for o, a in top_ops(c):
        o %= 1000
        while i < len(tr):
            k, x = tr[i]
            i += 1
            if k == 20 and (x[0] in (41, 42) if o in (41, 42) else True):
                rets.append(i - 1)
                break
        else:
            break
    return rets


def faults_in_trace(c, tr):
    """(trace index, description, kind, which, errno) of every failing system call of the run"""
    out = []
    nev = 0
    for i, (k, a) in enumerate(tr):
        if k == 8 and a[2] != 0:
            out.append((i, "%s(%d) failing with errno %d" % (SETUP_NAMES.get(a[0], a[0]), a[1], a[2]), "setup", a[0], a[2]))
        elif 1 <= k <= 7:
            if nev < len(c.evs):
                ek, ea = c.evs[nev]
                if ek == k:
                    if k in (2, 3, 4, 5, 6) and ea[0] < 0:
                        out.append((i, "%s(%d) failing with errno %d" % (CALL_NAMES[k], a[0] if k != 2 else -1, ea[1]), "call", k, ea[1]))
                    elif k == 7 and ea[0] != 0:
                        out.append((i, "accept(%d) failing with errno %d" % (a[0], ea[0]), "call", 7, ea[0]))
            nev += 1
    return out


def ledger(tr):
    opened, closed = {}, {}
    order = []
    for i, (k, a) in enumerate(tr):
        if k == 8 and a[0] == 1 and a[2] == 0:
            order.append(("open", a[1]))
        elif k == 7 and a[1] >= 0:
            order.append(("open", a[1]))
        elif k == 8 and a[0] == 11:
            order.append(("close", a[1]))
    live = set()
    for what, fd in order:
        if what == "open":
            if fd in opened:
                return "descriptor %d handed out twice (harness)" % fd
            opened[fd] = True
            live.add(fd)
        else:
            if fd not in opened:
                return "close(%d): a descriptor the library never opened" % fd
            if fd not in live:
                return "descriptor %d closed twice" % fd
            live.discard(fd)
    return live


def monitor(c, tr):
    if not tr:
        return "no trace"
    for k, a in tr:
        if k == 98:
            n = a[0] if a else -1
            if n >= 1000:
                return "the process died with exit status %d (sanitizer report: memory error or undefined behaviour)" % (n - 1000)
            return "crashed / aborted / hung (signal %d%s)" % (n, ": watchdog, the case never ended" if n == 14 else "")
        if k == 97:
            return "trace garbled (process died)"
        if k == 90:
            return "anomaly %s" % a
        if k == 99 and a[0] == 2:
            return "undefined behaviour reached (model code %d)" % a[1]
    live = ledger(tr)
    if isinstance(live, str):
        return live
    end = tr[-1]
    if end[0] == 99 and end[1][0] == 0 and live:
        return "descriptor(s) %s leaked: every object was destroyed but they were never closed" % sorted(live)
    rets = segments(c, tr)
    prev = -1
    for r in rets:
        a = tr[r][1]
        if a[0] in (43, 1043) and a[1] == 1 and not any(k == 5 and x[-1] > 0 for k, x in tr[prev + 1:r]):
            return ("Stop() reported success without handing a wake-up datagram to the OS (an earlier failure left the driver believing one is "
                    "pending): a Run()/Step() blocked in poll is not woken, later failures of this call cannot even occur")
        prev = r
    known = None
    for (f, desc, kind, which, errno) in faults_in_trace(c, tr):
        if kind == "setup" and which == 11:
            continue                    # close(): result ignored by design
        if kind == "call" and which == 2 and errno == EINTR:
            continue                    # an interrupted wait is not a failure (C16)
        seg = next((r for r in rets if r >= f), None)
        if seg is None:
            continue                    # the script ended inside this operation
        first = next((i for i in range(f + 1, seg + 1) if tr[i][0] == 20), seg)
        ret = tr[first][1]
        top = tr[seg][1]
        if ret[1] == 0:
            if first == seg and top[0] not in (41, 42) and ret[2:4] != [1, errno]:
                return "%s is reported by the wrong exception %s (expected std::system_error carrying errno %d)" % (desc, ret[2:], errno)
            continue
        if first != seg or top[0] in (41, 42):
            # inside the driver: disconnect handler, failed future or exception out of Step/Run
            window = tr[f + 1:seg + 1]
            if any(k == 21 and a[0] == 2 for k, a in window):
                continue
            if tr[seg][1][1] == 0:
                continue
            j = seg + 1
            failed_future = False
            while j < len(tr) and tr[j][0] in (22, 23, 24, 25):
                if tr[j][0] == 22 and tr[j][1][1] == 2:
                    failed_future = True
                j += 1
            if failed_future:
                continue
            before = [k for k, a in tr[max(0, f - 3):f]]
            if (kind == "call" and which == 7) or (kind == "setup" and which in (3, 5, 6) and 7 in before + [tr[f][0]]):
                known = known or "silent-drop:AcceptorAsync.DriverConnect %s inside Step is reported nowhere" % desc
                continue
            if kind == "call" and which == 6:
                known = known or "silent-drop:SocketUdpAsync.DriverReceiveFrom %s inside Step is reported nowhere" % desc
                continue
            return "bogus success: %s inside the driver is reported neither by a disconnect handler, a failed future nor an exception out of Step/Run" % desc
        return "bogus success: operation %d returned normally although %s" % (top[0], desc)
    return known


def finding_key(c, ti, why):
    return why.split(" ")[0] if why.startswith("silent-drop:") else None


def nontrivial_key(c, tr):
    if not c.faults and not c.meta.get("fault"):
        return None
    if not tr or tr[-1][0] != 99 or tr[-1][1][0] != 0:
        return None
    return c.key()


def distribution(cases):
    d = {"cases": len(cases), "scenarios": {}, "single_faults": 0, "fault_pairs": 0, "fault_free": 0, "by_call": {}, "by_errno": {}, "truncated": 0}
    for c in cases:
        name = c.id.split("/")[0].split("-")[0]
        d["scenarios"][name if not name.startswith("walk") else "walk"] = d["scenarios"].get(name if not name.startswith("walk") else "walk", 0) + 1
        f = c.meta.get("fault")
        if not f:
            d["fault_free"] += 1
        else:
            d["fault_pairs" if c.meta.get("fault2") else "single_faults"] += 1
            n = SETUP_NAMES[f[2]] if f[0] == "setup" else CALL_NAMES[f[2]]
            d["by_call"][n] = d["by_call"].get(n, 0) + 1
            d["by_errno"][str(f[3])] = d["by_errno"].get(str(f[3]), 0) + 1
        d["truncated"] += 1 if c.meta.get("blocked") else 0
    return d


def project(tr):
    out = project_async(tr)
    out += [(c, a) for c, a in tr if c == 8]
    return out


SPEC = {
    "id": "C14", "module": "Properties_C14", "theorems": THEOREMS, "harness": "sim", "flavour": "san",
    "generate": generate, "project": project, "nontrivial_key": nontrivial_key, "monitor": monitor, "finding_key": finding_key,
    "distribution": distribution, "chooser": benign, "search_rounds": 2,
    "rule": "scenario set = hand-written scenarios for every public constructor and operation (TCP/UDP/acceptor, plain/buffered/async, driver, ToDo, "
            "adoption in a connect handler, synchronous I/O from a task) + random driver walks, each ending by destroying every object; every position of the "
            "fault-free system-call trace failed in turn (set-up calls via the overlay, scripted calls via the script) with each plausible errno "
            "(2 per position in the quick tier), script re-grown behind the fault; sampled pairs of faults. Run under ASan+UBSan with asserts. "
            "non-trivial: a case with >= 1 injected fault that runs to its end.",
    "assumptions": ["getaddrinfo/getnameinfo failures are covered by C12's check (address harness), not here",
                    "the descriptor ledger is kept over the virtual descriptors handed out by the interposed socket()/accept(); closing a real descriptor is an anomaly",
                    "close() failing is injected, but by design its result is ignored by the library: only the ledger is checked for it"],
}


def main(tier, seed, replay=None):
    return run_sim_check(SPEC, tier, seed, replay)
