"""simgen.py — builds (operations, oracle script) pairs for the sim harness. The builder plays the kernel:
it mirrors the *control flow* of the waits only as far as needed to know which kind of event is asked for next;
when it guesses wrong the case ends in 'script does not fit' on both sides (counted, harmless)."""
import random
from common import Case

NS = 1000000
INT_MAX = 2147483647
EINTR, EAGAIN, EPIPE, ECONNRESET, ENOMEM, EMSGSIZE, ENOBUFS, EMFILE, ECONNABORTED, EBADF = 4, 11, 32, 104, 12, 90, 105, 24, 103, 9
POLLIN, POLLOUT, POLLERR, POLLHUP = 1, 4, 8, 16


def to_msec(t):
    return INT_MAX if t > INT_MAX else (-1 if t < 0 else t)


class Builder:
    def __init__(self, rnd, honest=True, instant=None):
        self.rnd = rnd
        self.ops, self.evs, self.faults = [], [], []
        self.now = 0
        self.honest = honest
        # instant: clock reads take no time (needed for the crisp bounds); otherwise small random delays
        self.instant = rnd.random() < 0.7 if instant is None else instant
        self.tags = set()

    # ---- primitive events
    def ev_now(self):
        dt = 0 if self.instant else self.rnd.choice([0, 0, 1000, 250000, 1500000])
        self.now += dt
        self.evs.append((1, [dt]))
        return self.now

    def ev_poll(self, ret, err, dt, revents):
        self.now += dt
        self.evs.append((2, [ret, err, dt] + list(revents)))

    # ---- DoPoll(fds, T): plan = ('ready', after_ms, revents) | ('timeout',) | ('error', errno) | ('never',)
    def do_poll(self, T, nfds, plan, eintr=0, eintr_gap_ms=None):
        """returns 'ready' | 'timeout' | 'error'"""
        rnd = self.rnd
        kind = plan[0]

        def one(tmo_ms):
            # one poll call with time-out tmo_ms (already through to_msec); returns outcome or 'eintr'
            nonlocal eintr
            if eintr > 0:
                eintr -= 1
                gap = eintr_gap_ms if eintr_gap_ms is not None else rnd.choice([0, 1, 3, 10])
                if tmo_ms >= 0:
                    gap = min(gap, tmo_ms)
                self.ev_poll(-1, EINTR, gap * NS + (0 if tmo_ms >= 0 and gap == tmo_ms else rnd.choice([0, 0, 400000])), [0] * nfds)
                self.tags.add("eintr")
                return "eintr"
            if kind == "error":
                self.ev_poll(-1, plan[1], 0, [0] * nfds)
                return "error"
            if kind == "ready":
                after = plan[1] * NS + plan[3] if len(plan) > 3 else plan[1] * NS
                left = after - (self.now - self.t_start)
                if left < 0:
                    left = 0
                if tmo_ms < 0 or left <= tmo_ms * NS:
                    if tmo_ms >= 0 and left == tmo_ms * NS:
                        self.tags.add("event_at_deadline")
                    self.ev_poll(sum(1 for x in plan[2] if x), 0, left, plan[2])
                    return "ready"
            # timeout (or 'never')
            if tmo_ms < 0:
                # unlimited poll with nothing to report: the script ends here (both sides: does not fit)
                self.tags.add("blocked_forever")
                return "blocked"
            self.ev_poll(0, 0, tmo_ms * NS + (rnd.choice([0, 0, 0, 30000]) if not self.instant else 0), [0] * nfds)
            return "timeout"

        self.t_start = self.now
        if T <= 0:
            while True:
                o = one(to_msec(T))
                if o != "eintr":
                    return o
        else:
            t0 = self.ev_now()
            deadline = t0 + T * NS
            nowd = t0
            while True:
                rem = (deadline - nowd) // NS if deadline >= nowd else 0
                o = one(to_msec(rem))
                if o != "eintr":
                    return o
                nowd = self.ev_now()

    # ---- operations -------------------------------------------------------------------------------
    def plan_wait(self, T, events):
        """pick a plan for a wait with timeout T"""
        rnd = self.rnd
        r = rnd.random()
        bit = events
        if r < 0.55:
            if T > 0:
                after = rnd.choice([0, 0, 1, T // 2, max(0, T - 1), T, T])
                extra = rnd.choice([0, 0, -1, 1, 999999]) if after else 0
                return ("ready", after, [bit], max(extra, -after * NS))
            return ("ready", rnd.choice([0, 0, 5, 100]) if T < 0 else 0, [bit])
        if r < 0.65:
            return ("ready", 0, [rnd.choice([POLLHUP, POLLERR, POLLERR | POLLHUP | bit])])
        if r < 0.72:
            return ("error", rnd.choice([ENOMEM, EBADF]))
        return ("timeout",) if T >= 0 else ("ready", rnd.choice([0, 7]), [bit])

    def eintrs(self):
        r = self.rnd.random()
        return 0 if r < 0.75 else self.rnd.choice([1, 1, 2, 5])

    def tcp_send(self, s, size, T, short=None):
        rnd = self.rnd
        self.ops.append((23, [s, size, T]))
        remaining = size
        if T < 0:
            while True:
                o = self.do_poll(-1, 1, self.plan_wait(-1, POLLOUT), self.eintrs())
                if o != "ready":
                    return
                r = self.send_result(remaining)
                if r <= 0 and not (r == 0 and remaining == 0):
                    return
                remaining -= r
                if remaining == 0:
                    return
        elif T == 0:
            o = self.do_poll(0, 1, self.plan_wait(0, POLLOUT), self.eintrs())
            if o == "ready":
                self.send_result(remaining)
        else:
            t0 = self.ev_now()
            deadline = t0 + T * NS
            nowd = t0
            while True:
                rem = (deadline - nowd) // NS if deadline >= nowd else 0
                o = self.do_poll(rem, 1, self.plan_wait(rem, POLLOUT), self.eintrs())
                if o != "ready":
                    return
                nowd = self.ev_now()
                r = self.send_result(remaining)
                if r <= 0 and not (r == 0 and remaining == 0):
                    return
                remaining -= r
                if remaining == 0 or not (nowd < deadline):
                    return

    def send_result(self, remaining):
        rnd = self.rnd
        k = rnd.random()
        if k < 0.08:
            self.evs.append((3, [-1, rnd.choice([EAGAIN, EPIPE, ECONNRESET])]))
            self.tags.add("send_error")
            return -1
        if k < 0.11 and remaining > 0:
            self.evs.append((3, [0, 0]))
            return 0
        if remaining <= 1 or k < 0.45:
            r = remaining
        else:
            r = rnd.choice([1, remaining - 1, max(1, remaining // 2), rnd.randint(1, remaining)])
            if r < remaining:
                self.tags.add("short_write")
        self.evs.append((3, [r, 0]))
        return r

    def tcp_recv(self, s, size, T, opcode=24, args=None):
        rnd = self.rnd
        self.ops.append((opcode, args if args is not None else [s, size, T]))
        o = self.do_poll(T, 1, self.plan_wait(T, POLLIN), self.eintrs())
        if o == "ready":
            k = rnd.random()
            if k < 0.1:
                self.evs.append((4, [-1, rnd.choice([EAGAIN, ECONNRESET])]))
            elif k < 0.2:
                self.evs.append((4, [0, 0])); self.tags.add("peer_closed")
            else:
                self.evs.append((4, [rnd.choice([1, size, max(1, size - 1), max(1, size // 2)]), 0]))
        return o

    def udp_sendto(self, s, size, dst, T):
        rnd = self.rnd
        self.ops.append((25, [s, size, dst, T]))
        o = self.do_poll(T, 1, self.plan_wait(T, POLLOUT), self.eintrs())
        if o == "ready":
            k = rnd.random()
            if k < 0.12:
                self.evs.append((5, [-1, rnd.choice([EMSGSIZE, ENOBUFS, EAGAIN])]))
            elif k < 0.16 and size > 1:
                self.evs.append((5, [size - 1, 0])); self.tags.add("short_dgram")
            else:
                self.evs.append((5, [size, 0]))

    def udp_recvfrom(self, s, size, T, opcode=26, args=None):
        rnd = self.rnd
        self.ops.append((opcode, args if args is not None else [s, size, T]))
        o = self.do_poll(T, 1, self.plan_wait(T, POLLIN), self.eintrs())
        if o == "ready":
            k = rnd.random()
            if k < 0.1:
                self.evs.append((6, [-1, rnd.choice([EAGAIN, ENOMEM]), 0]))
            else:
                self.evs.append((6, [rnd.choice([0, 1, size, max(0, size - 1), size // 2]), 0, rnd.choice([1, 2, 3])]))
        return o

    def listen(self, s, T, news):
        rnd = self.rnd
        self.ops.append((27, [s, T, news]))
        o = self.do_poll(T, 1, self.plan_wait(T, POLLIN), self.eintrs())
        if o == "ready":
            if rnd.random() < 0.15:
                self.evs.append((7, [rnd.choice([EMFILE, ECONNABORTED]), 0]))
                return False
            self.evs.append((7, [0, rnd.choice([5, 6, 7])]))
            return True
        return False

    def case(self, cid, meta=None):
        m = dict(meta or {})
        m["tags"] = sorted(self.tags)
        m["instant"] = self.instant
        return Case(cid, self.ops, self.evs, self.faults, m)


TIMEOUTS = [-1, -1, -7, -2147483647, 0, 0, 1, 2, 5, 100, 999, 2147483647]


def pick_timeout(rnd):
    return rnd.choice(TIMEOUTS)
