"""addrcheck.py — checks C11, C12, C13 on the Address class against the real resolver / kernel (harness/addr.cpp)
and the Coq model of the dissector, to_string and the comparison operators (AddressModel.v)."""
import ipaddress, os, random, socket, subprocess
from common import *


def hx(b):
    return b.hex() if b else "-"


def unhx(h):
    return b"" if h == "-" else bytes.fromhex(h)


# ---------------------------------------------------------------------------------------------------------
# generators
# ---------------------------------------------------------------------------------------------------------
def rand_v4(rnd):
    return rnd.choice([b"\x7f\x00\x00\x01", b"\x00\x00\x00\x00", b"\xff\xff\xff\xff", bytes(rnd.randrange(256) for _ in range(4)),
                       bytes(rnd.randrange(256) for _ in range(4)), b"\x0a\x00\x00\x01", b"\x8a\x00\x00\x01"])


def rand_v6(rnd):
    r = rnd.random()
    if r < 0.15:
        return bytes(15) + b"\x01", 0
    if r < 0.25:
        return bytes(16), 0
    if r < 0.4:
        return bytes(10) + b"\xff\xff" + rand_v4(rnd), 0
    if r < 0.55:
        scope = rnd.choice(["lo", "eth0", "1", "1000097", "4294967295", "77"])
        if rnd.random() < 0.4:
            # nothing to compress: the longest possible text (39 characters + scope)
            return b"\xfe\x80" + bytes(rnd.randrange(16, 256) for _ in range(14)), scope
        return b"\xfe\x80" + bytes(6) + bytes(rnd.randrange(256) for _ in range(8)), scope
    return bytes(rnd.randrange(256) for _ in range(16)), 0


def text_v6(ip, scope):
    t = socket.inet_ntop(socket.AF_INET6, ip)
    return t + ("%" + scope if scope else "")


def canon_v6(ip, scope):
    """what getnameinfo prints: the interface name for a numeric scope that names an interface"""
    if scope and str(scope).isdigit():
        try:
            scope = socket.if_indextoname(int(scope))
        except OSError:
            pass
    return text_v6(ip, scope)


PORTS = [0, 1, 80, 443, 8080, 65535, 65534, 1024, 49152]
BAD_PORTS = ["65536", "99999", "65616", "4294967376", "18446744073709551696", "100000000000000000000000000080", "-1", "-65456",
             "-18446744073709551536", "000065536", "70000"]
PATHS = ["", "/", "/index.html", "/a/b?x=1&y=http://z/", "/" + "p" * 300, "/a\tb", "/%2e%2e", "//double", "/:80", "/[::1]:9"]
SCHEMES = ["http", "https", "ftp", "tcp", "udp", "x1", "_"]
WELL_KNOWN = {"http": 80, "https": 443, "ftp": 21, "ssh": 22, "domain": 53}


def gen_valid(rnd, i):
    """a documented spelling of literal h, port p -> (case line, expectation dict)"""
    v6 = rnd.random() < 0.5
    if v6:
        ip, scope = rand_v6(rnd)
        h = text_v6(ip, scope)
    else:
        ip, scope = rand_v4(rnd), 0
        h = socket.inet_ntop(socket.AF_INET, ip)
    p = rnd.choice(PORTS + [rnd.randrange(65536)])
    sp = rnd.choice(["plain", "scheme", "path", "scheme_path", "pair", "pair_blank", "scheme_service", "pair_service", "portscheme"])
    hb = ("[" + h + "]") if v6 else h
    exp = {"v6": v6, "ip": ip, "port": p, "host": canon_v6(ip, scope) if v6 else h, "spelling": sp, "valid": True}
    if sp == "plain":
        line = ("U", (hb + ":" + str(p)).encode())
    elif sp == "scheme":
        line = ("U", (rnd.choice(SCHEMES) + "://" + hb + ":" + str(p)).encode())
    elif sp == "path":
        line = ("U", (hb + ":" + str(p) + rnd.choice(PATHS[1:])).encode())
    elif sp == "scheme_path":
        line = ("U", (rnd.choice(SCHEMES) + "://" + hb + ":" + str(p) + rnd.choice(PATHS)).encode())
    elif sp == "pair":
        line = ("P", h.encode(), str(p).encode())
    elif sp == "pair_blank":
        line = ("P", h.encode(), (rnd.choice([" ", "\t", "+", " +", "00"]) + str(p)).encode())
    elif sp == "scheme_service":
        name = rnd.choice(list(WELL_KNOWN))
        exp["port"] = WELL_KNOWN[name]
        line = ("U", (name + "://" + (hb if v6 else h) + rnd.choice(PATHS)).encode())
        if v6:
            # "[h]" without port is not a documented spelling (brackets only with port): use the pair form instead
            line = ("P", h.encode(), name.encode())
    elif sp == "pair_service":
        name = rnd.choice(list(WELL_KNOWN))
        exp["port"] = WELL_KNOWN[name]
        line = ("P", h.encode(), name.encode())
    else:
        if v6:
            line = ("P", h.encode(), str(p).encode())
        else:
            line = ("U", (str(p) + "://" + h + rnd.choice(PATHS)).encode())
    return line, exp


def gen_out_of_range(rnd, i):
    v6 = rnd.random() < 0.4
    if v6:
        ip, scope = rand_v6(rnd)
        h = text_v6(ip, scope)
    else:
        h = socket.inet_ntop(socket.AF_INET, rand_v4(rnd))
    hb = ("[" + h + "]") if v6 else h
    bad = rnd.choice(BAD_PORTS)
    pos = rnd.choice(["colon", "colon_path", "pair", "pair_sign", "scheme"])
    if pos == "colon" or bad.startswith("-") and pos in ("colon_path", "scheme"):
        if bad.startswith("-"):
            line = ("P", h.encode(), bad.encode())
        else:
            line = ("U", (hb + ":" + bad).encode())
    elif pos == "colon_path":
        line = ("U", ("http://" + hb + ":" + bad + "/x").encode())
    elif pos == "pair":
        line = ("P", h.encode(), bad.encode())
    elif pos == "pair_sign":
        line = ("P", h.encode(), (rnd.choice([" ", "+", " +", "\t ", "\n"]) + bad).encode() if not bad.startswith("-") else (" " + bad).encode())
    else:
        line = ("U", (bad + "://" + h + "/p").encode()) if not v6 else ("P", h.encode(), bad.encode())
    return line, {"valid": False, "out_of_range": True}


HOSTILE = [b"", b"/", b":", b"://", b"[", b"]", b"[]", b"[]:", b"[]:1", b"::", b":::", b"a:", b":1", b"a:b", b"a:1:2", b"[::1]", b"[::1]:", b"[::1]:x",
           b"\x00", b"a\x00b:1", b"127.0.0.1\x00:80", b"127.0.0.1:80\x00", b"\xff\xfe", b"http://", b"http:///", b"http:///x", b"http://:80", b"://:",
           b"a\nb", b"a:1\n", b"h/\np", b"h:1/\n", b"\r", b"[[::1]]:80", b"[::1]]:80", b"http://http://x", b"a://b://c", b"1://2://3", b"0x50://127.0.0.1",
           b"[a\nb]:1", b"[::1]:80:90", b"a b:80", b" 127.0.0.1:80", b"127.0.0.1 :80", b"127.0.0.1: 80", b"127.0.0.1:+80", b"127.0.0.1:-80"]
ALPHA = [b"a", b"1", b":", b"/", b"[", b"]", b"\n", b"_", b"-", b".", b"7", b":", b"/", b"h", b"\r", b"\x00", b"\xc3", b" ", b"+", b"%"]


def gen_hostile(rnd, i):
    r = rnd.random()
    if r < 0.3:
        s = rnd.choice(HOSTILE)
    elif r < 0.75:
        s = b"".join(rnd.choice(ALPHA) for _ in range(rnd.randrange(1, 16)))
        if rnd.random() < 0.3:
            s = rnd.choice([b"http://", b"://", b"a://", b"1://", b"[", b"[::1]:", b"h:"]) + s
    else:
        n = rnd.choice([1000, 1094, 1095, 1096, 1100, 5000, 60000, 300000, 2000000])
        kind = rnd.choice(["path", "host", "scheme", "digits", "bracket", "colons", "query", "noslash", "digitscheme", "labels", "labels"])
        if kind == "path":
            s = b"127.0.0.1:80/" + b"a" * n
        elif kind == "host":
            s = b"h" * n + b":80"
        elif kind == "scheme":
            s = b"s" * n + b"://127.0.0.1"
        elif kind == "digits":
            s = b"127.0.0.1:" + b"1" * n
        elif kind == "bracket":
            s = b"[" + b":" * n + b"]:80"
        elif kind == "colons":
            s = b":" * n
        elif kind == "digitscheme":
            # a numeric scheme is a service: megabytes of digits in front of "://" (every part of the URI is caller-controlled text)
            s = b"7" * n + rnd.choice([b"://localhost", b"://[::1]/index.html", b"abc://localhost", b"://127.0.0.1:80"])
        elif kind == "labels":
            # host names that are ALMOST well-formed: long runs of label characters followed by something that is not — the shape on
            # which a backtracking matcher with nested repetition takes exponential time
            k = rnd.choice([24, 28, 32, 40, 48, 64, 200])
            run = rnd.choice([b"a" * k, b"a1_" * (k // 3), b"intranet-fileserver-building-7-floor-3-room-12-printer-queue"])
            tail = rnd.choice([b"!", b" ", b"\xc3\xa4", b"..example.com", b"-", b"!:8080/index.html"])
            s = rnd.choice([b"", b"http://"]) + run + tail
        elif kind == "query":
            s = b"http://127.0.0.1/?" + b"q=http://x/&" * (n // 12)
        else:
            s = b"a.b://" + b"c" * n
    if rnd.random() < 0.25:
        # the host argument has no length limit of its own (it is only handed to getaddrinfo): megabyte hosts of every shape
        hs = rnd.choice([b"127.0.0.1", b"::1", b"localhost", b"", b"h" * 2000, b"a" * 40 + b"!", b"a" * 64 + b" ", b"label-" * 8 + b".." + b"example.com", b"1" * 300000, b"[" + b"a" * 300000 + b"]", b"[" * 1000000,
                         b"[" + b":" * 200000, b"h" * 2000000, b"." * 500000, b"[::1]" + b" " * 400000, b"%" * 300000, b"a." * 200000])
        sv = rnd.choice([b"80", b"", b"http", b"1" * 33, b"1" * 200000, b" 80", b"+80", b"-80", b"80 ", b"0x50", b"8\x000", b"99999\x00x", s[:40]])
        return ("P", hs, sv), {"valid": None}
    return ("U", s), {"valid": None}


def case_lines(items):
    L = []
    for i, (line, exp) in enumerate(items):
        if line[0] == "U":
            L.append("U c%d %s" % (i, hx(line[1])))
        else:
            L.append("P c%d %s %s" % (i, hx(line[1]), hx(line[2])))
    return "\n".join(L) + "\n"


def parse_out(txt):
    out, cur, cid = {}, None, None
    for line in txt.split("\n"):
        t = line.split()
        if not t:
            continue
        if t[0] == "C":
            cid = t[1]; cur = []
        elif t[0] == "X":
            if cid is not None:
                out[cid] = cur
        elif cur is not None:
            cur.append(t)
    return out


def run_pair(items, timeout=900):
    """-> (impl dict, model dict) of parsed lines per case id"""
    import concurrent.futures as cf
    exe = harness_exe("addr", "plain")
    txt_all = [(i, it) for i, it in enumerate(items)]
    shards = [items[i:i + 150] for i in range(0, len(items), 150)]
    offs = list(range(0, len(items), 150))

    def one(k):
        sh_items = shards[k]
        L = []
        for j, (line, exp) in enumerate(sh_items):
            cid = "c%d" % (offs[k] + j)
            if line[0] == "U":
                L.append("U %s %s" % (cid, hx(line[1])))
            else:
                L.append("P %s %s %s" % (cid, hx(line[1]), hx(line[2])))
        txt = "\n".join(L) + "\n"
        a = subprocess.run([exe], input=txt, capture_output=True, text=True, timeout=timeout)
        # the extracted model recurses over megabyte-long lists: give it an unlimited stack
        b = subprocess.run(["sh", "-c", "ulimit -s unlimited 2>/dev/null || ulimit -s $(ulimit -H -s); exec %s addr" % model_exe()],
                           input=txt, capture_output=True, text=True, timeout=timeout)
        return parse_out(a.stdout), parse_out(b.stdout)
    impl, model = {}, {}
    with cf.ThreadPoolExecutor(max_workers=14) as ex:
        for a, b in ex.map(one, range(len(shards))):
            impl.update(a); model.update(b)
    return impl, model


def compare_dissect(li, lm):
    """None if the implementation handed to getaddrinfo what the model says (or threw what the model says)"""
    if li is None or lm is None:
        return "missing output"
    gi = [t for t in li if t[0] == "G"]
    ri = [t for t in li if t[0] == "R"]
    gm = [t for t in lm if t[0] == "G"]
    rm = [t for t in lm if t[0] == "R"]
    if ri and ri[0][1] in ("signal", "exit"):
        return "implementation died: %s" % " ".join(ri[0])
    if rm:
        if gi:
            return "model throws %s before resolving, implementation called getaddrinfo(%s, %s)" % (rm[0][2:], gi[0][1], gi[0][2])
        if not ri or ri[0][1] != "exn" or ri[0][2:4] != rm[0][2:4]:
            return "model throws %s, implementation: %s" % (rm[0][2:], " ".join(ri[0]) if ri else None)
        return None
    if gm:
        if not gi:
            return "model resolves (%s, %s), implementation did not call getaddrinfo: %s" % (gm[0][1], gm[0][2], " ".join(ri[0]) if ri else None)
        if gi[0][1:4] != gm[0][1:4]:
            return "getaddrinfo arguments differ: impl %s model %s" % (gi[0][1:4], gm[0][1:4])
        return None
    return "model produced nothing"


def to_string_cases(impl):
    """lines for the model's to_string: every successfully constructed address"""
    L = []
    for cid, li in impl.items():
        r = [t for t in li if t[0] == "R" and t[1] == "ok"]
        if r and "E" not in r[0]:
            t = r[0]
            L.append("S %s %s %s %s" % (cid, t[7], t[4], t[5]))
    return L


# ---------------------------------------------------------------------------------------------------------
# C12 monitor
# ---------------------------------------------------------------------------------------------------------
def monitor_c12(line, exp, li):
    r = [t for t in li if t[0] == "R"]
    if not r:
        return "no outcome"
    r = r[0]
    if r[1] in ("signal", "exit"):
        return "died: %s" % " ".join(r)
    if exp.get("out_of_range"):
        if r[1] == "ok":
            return "numeric port outside 0..65535 accepted and mapped to port %s" % r[6]
        return None
    if exp.get("valid"):
        if r[1] != "ok":
            return "documented spelling (%s) rejected: %s" % (exp["spelling"], " ".join(r))
        fam, raw, host, serv, port, v6, s, reparse = r[2], unhx(r[3]), unhx(r[4]), unhx(r[5]), int(r[6]), r[7] == "1", unhx(r[8]), r[9]
        if v6 != exp["v6"]:
            return "IsV6() = %s for %s" % (v6, exp["host"])
        if port != exp["port"]:
            return "Port() = %d, expected %d (%s)" % (port, exp["port"], exp["spelling"])
        if serv != str(exp["port"]).encode():
            return "Service() = %r, expected %d" % (serv, exp["port"])
        canon = exp["host"].encode()
        if host != canon:
            return "Host() = %r, expected %r" % (host, canon)
        want = (b"[" + canon + b"]:" if v6 else canon + b":") + str(exp["port"]).encode()
        if s != want:
            return "to_string() = %r, expected %r" % (s, want)
        if reparse != "1":
            return "to_string() does not parse back to an equal Address"
        # the address bytes
        ipb = raw[8:24] if v6 else raw[4:8]
        if ipb != exp["ip"]:
            return "address bytes %s, expected %s" % (ipb.hex(), exp["ip"].hex())
    else:
        # whatever was accepted: a numeric service handed to getaddrinfo never wraps
        g = [t for t in li if t[0] == "G"]
        if g and r[1] == "ok":
            serv = unhx(g[0][2])
            try:
                v = int(serv.decode("ascii").strip(" \t\n\v\f\r"))
                if not (0 <= v <= 65535):
                    return "numeric service %r accepted (port %s)" % (serv, r[6])
            except (ValueError, UnicodeDecodeError):
                pass
    return None


def run_c12(tier, seed):
    rep = Report("C12", tier, seed)
    problems = proof_stage(rep, "Properties_C12", ["no_silent_wrap_uri", "no_silent_wrap_pair", "pair_service_unchanged", "uri_host_port_is_pair", "uri_bracket_port_is_pair", "text_round_trip_v4", "text_round_trip_v6", "uri_scheme_host_is_pair", "port_of_encode4", "port_of_encode6"])
    rnd = random.Random(seed)
    n = {"quick": 1500, "thorough": 20000}.get(tier, 1500)
    items = []
    for i in range(n):
        r = i % 10
        items.append(gen_valid(rnd, i) if r < 6 else (gen_out_of_range(rnd, i) if r < 9 else gen_hostile(rnd, i)))
    impl, model = run_pair(items)
    diverging, failing = [], []
    for i, (line, exp) in enumerate(items):
        cid = "c%d" % i
        d = compare_dissect(impl.get(cid), model.get(cid))
        if d:
            diverging.append((cid, line, d))
        w = monitor_c12(line, exp, impl.get(cid) or [])
        if w:
            failing.append((cid, line, w))
    # to_string composition: model vs implementation
    sl = to_string_cases(impl)
    ts_div = []
    if sl:
        out = subprocess.run([model_exe(), "addr"], input="\n".join(sl) + "\n", capture_output=True, text=True, timeout=600)
        ms = parse_out(out.stdout)
        for cid, li in impl.items():
            r = [t for t in li if t[0] == "R" and t[1] == "ok"]
            if r and cid in ms and ms[cid] and ms[cid][0][0] == "S" and ms[cid][0][1] != r[0][8]:
                ts_div.append((cid, items[int(cid[1:])][0], "to_string: impl %s model %s" % (r[0][8], ms[cid][0][1])))
    diverging += ts_div
    finish_addr(rep, "C12", items, impl, diverging, failing, problems,
                "generated IPv4/IPv6 literals (unspecified, loopback, broadcast, mapped, scoped link-local %lo/%eth0/%1, random) x ports "
                "{0,1,80,443,1024,8080,49152,65534,65535,random} in every documented spelling (h:p, [h]:p, scheme prefix, path suffix, pair, pair with "
                "blank/sign/leading zeros, scheme or service names for well-known ports, numeric scheme); numeric services outside 0..65535 (65536, 99999, "
                "2^32+80, 2^64+80, huge, negative, -2^64+80) in every position (after the colon, pair argument with sign/blanks, scheme); hostile strings. "
                "Compared with the model: arguments handed to getaddrinfo / exception thrown before, to_string composition. "
                "non-trivial: a case that reached getaddrinfo or was rejected for its port.")
    return rep.finish()


def finish_addr(rep, pid, items, impl, diverging, failing, problems, rule):
    rep.cov["evaluations"] = len(items)
    keys = set()
    for i, (line, exp) in enumerate(items):
        li = impl.get("c%d" % i) or []
        if any(t[0] == "G" for t in li) or any(t[0] == "R" and t[1] == "exn" for t in li):
            keys.add(line)
    rep.cov["distinct_nontrivial"] = len(keys)
    rep.cov["traces_validated_against_impl"] = len(items) - len(diverging)
    rep.cov["rule"] = rule
    rep.cov["samples"] = [[x.decode("latin1")[:120] for x in items[i][0][1:]] for i in (0, 1, len(items) // 2, len(items) - 1)]
    kinds = {}
    for line, exp in items:
        k = exp.get("spelling") or ("out_of_range" if exp.get("out_of_range") else "hostile")
        kinds[k] = kinds.get(k, 0) + 1
    outcomes = {}
    for li in impl.values():
        r = [t for t in li if t[0] == "R"]
        o = " ".join(r[0][1:3]) if r else "none"
        if r and r[0][1] == "ok":
            o = "ok"
        outcomes[o] = outcomes.get(o, 0) + 1
    rep.cov["input_distribution"] = {"kinds": kinds, "outcomes": outcomes,
                                     "max_len": max(len(l[1]) for l, _ in items)}
    rep.cov["diverging_cases"] = len(diverging)
    rep.cov["monitor_failures"] = len(failing)
    for k, (cid, line, w) in enumerate(failing[:3]):
        rep.violation("fail%d" % k, "# %s\n# input (python bytes, first 300): %r (length %d)\n%s" % (w, tuple(x[:300] for x in line[1:]), len(line[1]), replay_line(cid, line)))
    if not failing and (diverging or problems):
        txt = ""
        if problems:
            txt += "proof obligations that no longer check:\n" + "\n".join(problems) + "\n"
        if diverging:
            cid, line, w = diverging[0]
            txt += "correspondence model<->implementation no longer checks (%d cases): %s\n# input (first 300 bytes): %r\n%s" % (len(diverging), w, tuple(x[:300] for x in line[1:]), replay_line(cid, line))
        rep.violation("diverge", txt, no_input=True)


def replay_line(cid, line):
    if line[0] == "U":
        return "U %s %s\n" % (cid, hx(line[1]))
    return "P %s %s %s\n" % (cid, hx(line[1]), hx(line[2]))


# ---------------------------------------------------------------------------------------------------------
# C11
# ---------------------------------------------------------------------------------------------------------
STACK_LIMIT = 400 * 1024


def run_c11(tier, seed):
    rep = Report("C11", tier, seed)
    problems = proof_stage(rep, "Properties_C11", ["ctor_outcome_total", "regex_input_bounded_uri", "regex_input_bounded_pair", "trim_path_is_prefix"])
    rnd = random.Random(seed)
    n = {"quick": 1500, "thorough": 20000}.get(tier, 1500)
    items = []
    for i in range(n):
        items.append(gen_hostile(rnd, i) if i % 4 else gen_valid(rnd, i))
    # hand-made boundary cases (corpus): the inputs that killed the unchanged library
    for s in [b"127.0.0.1:80/" + b"a" * 50000, b"127.0.0.1:" + b"1" * 200000, b"s" * 200000 + b"://127.0.0.1", b"[" + b":" * 200000 + b"]:80",
              b"h" * 200000]:
        items.append((("U", s), {"valid": None}))
    items.append((("P", b"127.0.0.1", b"1" * 200000), {"valid": None}))
    impl, model = run_pair(items)
    diverging, failing = [], []
    maxstack = 0
    for i, (line, exp) in enumerate(items):
        cid = "c%d" % i
        li = impl.get(cid) or []
        d = compare_dissect(li, model.get(cid))
        if d:
            diverging.append((cid, line, d))
        r = [t for t in li if t[0] == "R"]
        k = [t for t in li if t[0] == "K"]
        if not r:
            failing.append((cid, line, "no outcome (hang or crash)"))
        elif r[0][1] in ("signal", "exit"):
            failing.append((cid, line, "constructor killed the process: %s" % " ".join(r[0])))
        elif r[0][1] == "exn" and r[0][2] == "10":
            failing.append((cid, line, "exception not derived from std::exception"))
        if k:
            maxstack = max(maxstack, int(k[0][1]))
            if int(k[0][1]) > STACK_LIMIT:
                failing.append((cid, line, "stack use %s bytes of a 512 KiB stack (input length %d)" % (k[0][1], len(line[1]))))
        # the model's bound on what reaches the regex matcher
        b = [t for t in (model.get(cid) or []) if t[0] == "B"]
        if b and int(b[0][1]) > 1095:
            failing.append((cid, line, "model hands %s bytes to the regex matcher" % b[0][1]))
    rep.cov["max_stack_bytes"] = maxstack
    finish_addr(rep, "C11", items, impl, diverging, failing, problems,
                "byte strings: empty, NULs, non-ASCII, only separators, nested brackets/schemes/colons, line terminators, digit runs, random strings over a hostile "
                "alphabet, lengths 1000..2,000,000 with the bulk in the path, host, scheme, port digits, bracket content, query or service argument; plus valid spellings. "
                "Each constructor call runs in its own process on a thread with a painted 512 KiB stack; outcome (value / exception type / signal / exit) and stack "
                "high-water mark are recorded. non-trivial: reached getaddrinfo or threw.")
    return rep.finish()


# ---------------------------------------------------------------------------------------------------------
# C13
# ---------------------------------------------------------------------------------------------------------
def run_c13(tier, seed):
    rep = Report("C13", tier, seed)
    problems = proof_stage(rep, "Properties_C13", ["eq_equivalence", "lt_irrefl", "lt_trans", "lt_trichotomy", "hash_respects_eq",
                                                    "encode4_injective", "encode6_injective", "families_never_equal"])
    rnd = random.Random(seed)
    n = {"quick": 40, "thorough": 160}.get(tier, 40)
    lines = []
    truth = {}
    base4 = [rand_v4(rnd) for _ in range(6)]
    base6 = [rand_v6(rnd) for _ in range(6)]
    k = 0
    for _ in range(n):
        v6 = rnd.random() < 0.5
        p = rnd.choice([0, 1, 80, 65535, rnd.randrange(65536)])
        if v6:
            ip, scope = rnd.choice(base6)
            if rnd.random() < 0.3:      # single-bit neighbours
                b = bytearray(ip); b[rnd.randrange(16)] ^= 1 << rnd.randrange(8); ip = bytes(b)
                if scope and ip[:2] != b"\xfe\x80":
                    scope = 0
            h = text_v6(ip, scope)
        else:
            ip, scope = rnd.choice(base4), 0
            if rnd.random() < 0.3:
                b = bytearray(ip); b[rnd.randrange(4)] ^= 1 << rnd.randrange(8); ip = bytes(b)
            h = socket.inet_ntop(socket.AF_INET, ip)
        if rnd.random() < 0.2:
            p ^= 1 << rnd.randrange(16)
        hb = "[" + h + "]" if v6 else h
        for sp in rnd.sample(["plain", "scheme", "path", "pair", "pairblank"], 2):
            tag = "parsed%d" % k
            k += 1
            if sp == "plain":
                lines.append("%s %s" % (tag, hx((hb + ":" + str(p)).encode())))
            elif sp == "scheme":
                lines.append("%s %s" % (tag, hx(("tcp://" + hb + ":" + str(p)).encode())))
            elif sp == "path":
                lines.append("%s %s" % (tag, hx((hb + ":" + str(p) + "/x/y").encode())))
            elif sp == "pair":
                lines.append("%s %s %s" % (tag, hx(h.encode()), hx(str(p).encode())))
            else:
                lines.append("%s %s %s" % (tag, hx(h.encode()), hx((" +" + str(p)).encode())))
            truth[tag] = (10 if v6 else 2, ip, p, scope)
    # the same IPv4 endpoint in its IPv4-mapped IPv6 form (what a dual-stack listener reports) and in the deprecated IPv4-compatible
    # form: different families never compare equal, whatever the bytes say, and the order / hash stay lawful across them
    for j, ip4 in enumerate(base4[:4]):
        p = rnd.choice([80, 554, 65535, rnd.randrange(1, 65536)])
        h4 = socket.inet_ntop(socket.AF_INET, ip4)
        for form, prefix in (("mapped", b"\x00" * 10 + b"\xff\xff"), ("compat", b"\x00" * 12)):
            ip6 = prefix + ip4
            tag4, tag6 = "parsed%d" % k, "parsed%d" % (k + 1)
            k += 2
            lines.append("%s %s" % (tag4, hx((h4 + ":" + str(p)).encode())))
            lines.append("%s %s" % (tag6, hx(("[" + socket.inet_ntop(socket.AF_INET6, ip6) + "]:" + str(p)).encode())))
            truth[tag4] = (2, ip4, p, 0)
            truth[tag6] = (10, ip6, p, 0)
    # one link-local host and port reached through different interfaces: endpoints that differ in the scope id ONLY
    ll = b"\xfe\x80" + bytes(6) + bytes(rnd.randrange(256) for _ in range(8))
    pll = rnd.choice([554, 5060, rnd.randrange(1, 65536)])
    for scope in ("lo", "eth0", "77", "1000097"):
        tag = "parsed%d" % k
        k += 1
        lines.append("%s %s" % (tag, hx(("[" + text_v6(ll, scope) + "]:" + str(pll)).encode())))
        truth[tag] = (10, ll, pll, scope)
    for p in (0, 80, 8080, 65535):
        lines.append("port%d %s" % (p, hx(str(p).encode())))
        lines.append("parsedport%d %s" % (p, hx(("127.0.0.1:%d" % p).encode())))
        truth["port%d" % p] = (2, b"\x7f\x00\x00\x01", p, 0)
        truth["parsedport%d" % p] = (2, b"\x7f\x00\x00\x01", p, 0)
    exe = harness_exe("addr", "plain")
    out = subprocess.run([exe], input="POOL\n" + "\n".join(lines) + "\nEND\n", capture_output=True, text=True, timeout=600).stdout
    A, E, N, L, M = [], {}, {}, {}, None
    for line in out.split("\n"):
        t = line.split()
        if not t:
            continue
        if t[0] == "A":
            A.append({"i": int(t[1]), "tag": t[2], "raw": unhx(t[3]), "fam": int(t[4]), "host": unhx(t[5]), "port": int(t[6]), "hash": int(t[7])})
        elif t[0] == "E":
            E[int(t[1])] = t[2]
        elif t[0] == "N":
            N[int(t[1])] = t[2]
        elif t[0] == "L":
            L[int(t[1])] = t[2]
        elif t[0] == "M":
            M = (int(t[1]), int(t[2]))
    n = len(A)
    failing, diverging = [], []
    if n < 10 or len(E) != n or len(L) != n:
        failing.append("the pool harness did not produce the tables (%d addresses)" % n)
    else:
        # model: == and < from the raw bytes
        vl = ["V p%d_%d %s %s" % (i, j, hx(A[i]["raw"]), hx(A[j]["raw"])) for i in range(n) for j in range(n)]
        mo = subprocess.run([model_exe(), "addr"], input="\n".join(vl) + "\n", capture_output=True, text=True, timeout=600).stdout
        mv = parse_out(mo)
        for i in range(n):
            for j in range(n):
                m = mv.get("p%d_%d" % (i, j))
                if not m:
                    diverging.append("no model verdict for pair %d %d" % (i, j)); continue
                if m[0][1] != E[i][j] or m[0][2] != L[i][j]:
                    diverging.append("pair (%s, %s): impl == %s < %s, model == %s < %s" % (A[i]["tag"], A[j]["tag"], E[i][j], L[i][j], m[0][1], m[0][2]))
        # laws on the implementation's own answers
        for i in range(n):
            if E[i][i] != "1" or L[i][i] != "0":
                failing.append("%s: a == a is %s, a < a is %s" % (A[i]["tag"], E[i][i], L[i][i]))
            for j in range(n):
                if E[i][j] != E[j][i]:
                    failing.append("== not symmetric on (%s, %s)" % (A[i]["tag"], A[j]["tag"]))
                if (N[i][j] == "1") == (E[i][j] == "1"):
                    failing.append("!= disagrees with == on (%s, %s)" % (A[i]["tag"], A[j]["tag"]))
                tri = (L[i][j] == "1") + (E[i][j] == "1") + (L[j][i] == "1")
                if tri != 1:
                    failing.append("trichotomy fails on (%s, %s): < %s == %s > %s" % (A[i]["tag"], A[j]["tag"], L[i][j], E[i][j], L[j][i]))
                if E[i][j] == "1" and A[i]["hash"] != A[j]["hash"]:
                    failing.append("equal addresses hash differently: (%s, %s)" % (A[i]["tag"], A[j]["tag"]))
                for k2 in range(n):
                    if E[i][j] == "1" and E[j][k2] == "1" and E[i][k2] != "1":
                        failing.append("== not transitive on (%s, %s, %s)" % (A[i]["tag"], A[j]["tag"], A[k2]["tag"]))
                    if L[i][j] == "1" and L[j][k2] == "1" and L[i][k2] != "1":
                        failing.append("< not transitive on (%s, %s, %s)" % (A[i]["tag"], A[j]["tag"], A[k2]["tag"]))
            if len(failing) > 20:
                break
        # == holds exactly when family, host, port, scope agree (ground truth of the generator / of the sockets)
        def key(a):
            if a["tag"] in truth:
                fam, ip, p, scope = truth[a["tag"]]
                sc = 0
                if scope:
                    try:
                        sc = socket.if_nametoindex(scope) if not scope.isdigit() else int(scope)
                    except OSError:
                        sc = -1
                return (fam, ip, p, sc)
            raw = a["raw"]
            if a["fam"] == 2:
                return (2, raw[4:8], a["port"], 0)
            return (10, raw[8:24], a["port"], int.from_bytes(raw[24:28], "little"))
        for i in range(n):
            for j in range(n):
                same = key(A[i]) == key(A[j])
                if same != (E[i][j] == "1"):
                    failing.append("(%s, %s): family/host/port/scope %s but == is %s" % (A[i]["tag"], A[j]["tag"], "agree" if same else "differ", E[i][j]))
        distinct = len(set(key(a) for a in A))
        if M and (M[0] != distinct or M[1] != distinct):
            failing.append("std::map holds %d and std::unordered_map %d keys for %d distinct endpoints" % (M[0], M[1], distinct))
        # endpoints agree
        tags = {a["tag"]: a for a in A}
        for fam in ("v4", "v6"):
            pairs = [("tcp_client_local_", "tcp_accept_addr_"), ("tcp_client_local_", "tcp_server_peer_"), ("tcp_server_local_", "tcp_client_peer_"),
                     ("tcpbuf_client_local_", "tcp_client_local_"), ("tcpbuf_client_peer_", "tcp_client_peer_"), ("acceptor_local_", "tcp_client_peer_"),
                     ("udp1_local_", "udp_source_"), ("udp1_local_", "reparsed_udp1_"), ("udp1_local_", "pair_udp1_"), ("udp1_local_", "scheme_udp1_")]
            for x, y in pairs:
                a, b = tags.get(x + fam), tags.get(y + fam)
                if a and b and E[a["i"]][b["i"]] != "1":
                    failing.append("%s and %s differ: %s vs %s" % (x + fam, y + fam, a["raw"].hex(), b["raw"].hex()))
            for t in ("acceptor_local_", "udp1_local_", "udp2_local_", "tcp_client_local_"):
                a = tags.get(t + fam)
                if a and a["port"] == 0:
                    failing.append("%s bound to port 0 reports port 0" % (t + fam))
    rep.cov["evaluations"] = n * n
    rep.cov["distinct_nontrivial"] = len(set(a["raw"] for a in A))
    rep.cov["traces_validated_against_impl"] = n * n - len(diverging)
    rep.cov["rule"] = ("a pool of Addresses of mixed family and provenance: literals (special, random, single-bit neighbours in host and port) parsed in two random spellings each, "
                       "Address(port), and the addresses reported by real loopback sockets (acceptor, TCP client/server local and peer, accept address, buffered variants, UDP local and "
                       "datagram source, re-parsed to_string / pair / scheme forms), IPv4 and IPv6; all pairs and triples through ==, !=, <, std::hash, std::map, std::unordered_map; "
                       "raw sockaddr bytes compared with the model's view_eq / view_lt. distinct = distinct raw encodings.")
    rep.cov["samples"] = [{"tag": a["tag"], "raw": a["raw"].hex(), "port": a["port"]} for a in A[:3] + A[-3:]]
    rep.cov["input_distribution"] = {"addresses": n, "ipv6": sum(1 for a in A if a["fam"] == 10), "from_sockets": sum(1 for a in A if not a["tag"].startswith("p"))}
    rep.cov["diverging_cases"] = len(diverging)
    rep.cov["monitor_failures"] = len(failing)
    for k2, w in enumerate(failing[:3]):
        rep.violation("fail%d" % k2, "# %s\n# pool input:\nPOOL\n%s\nEND\n# harness output:\n%s" % (w, "\n".join(lines), out[:20000]))
    if not failing and (diverging or problems):
        txt = ""
        if problems:
            txt += "proof obligations that no longer check:\n" + "\n".join(problems) + "\n"
        if diverging:
            txt += "model and implementation disagree on %d pairs, first: %s\n" % (len(diverging), diverging[0])
        rep.violation("diverge", txt + "POOL\n" + "\n".join(lines) + "\nEND\n", no_input=True)
    return rep.finish()
