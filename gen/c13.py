import addrcheck


def main(tier, seed, replay=None):
    return addrcheck.run_c13(tier, seed)
