"""C06 — ToDo scheduling: never early, in due order, exactly once, cancellable, shiftable."""
from common import *
from engine import run_sim_check
import schedcheck
import drivercases as dc

THEOREMS = ["insert_sorted", "insert_stable", "remove_sorted", "move_single_entry", "cancel_prevents", "exactly_once", "todos_invariant_all_histories",
            "front_is_minimum", "never_early", "refines_pending"]


def generate(rnd, tier):
    return dc.generate_driver(rnd, tier, 300, what=("todo",))


def project(tr):
    # task executions with the clock readings around them, results of ToDo/Step operations, poll time-outs, the list itself
    out = []
    for c, a in tr:
        if c == 21 and a[0] == 5:
            out.append((c, a))
        elif c in (1, 25):
            out.append((c, a))
        elif c == 2:
            out.append((c, a[:1]))
        elif c == 20 and a[0] in (40, 41, 42, 43, 44, 50, 51, 52, 53):
            out.append((c, a[:3]))
        elif c in (90, 98):
            out.append((c, a))
        elif c == 99:
            out.append((c, a[:2]))
    return out


def nontrivial_key(c, tr):
    runs = sum(1 for k, a in tr if k == 21 and a[0] == 5)
    return c.key() if runs >= 1 else None


def distribution(cases):
    d = {"cases": len(cases), "ops": {}, "events": 0, "blocked_or_truncated": 0}
    names = {40: "driver_new", 41: "step", 42: "run", 43: "stop", 44: "driver_destroy", 50: "todo_new", 51: "shift", 52: "cancel",
             53: "drop_handle", 95: "throw", 1: "block_begin", 2: "block_end"}
    for c in cases:
        for o, a in c.ops:
            n = names.get(o, str(o))
            d["ops"][n] = d["ops"].get(n, 0) + 1
        d["events"] += len(c.evs)
        d["blocked_or_truncated"] += 1 if c.meta.get("blocked") else 0
    return d


SPEC = {
    "id": "C06", "extra": schedcheck.extra_stage(("shift", "todo"), [schedcheck.mon_todo]), "module": "Properties_C06", "theorems": THEOREMS, "harness": "sim",
    "generate": generate, "project": project, "nontrivial_key": nontrivial_key, "monitor": dc.monitor_todos,
    "distribution": distribution,
    "rule": "histories of ToDo construct(when|delay|unscheduled)/Shift/Cancel/drop-handle on 1-5 ToDos with equal, past and future due times "
            "(ties, +-1 ns around clock readings), issued from outside and from inside running tasks (incl. self-Shift/Cancel, tasks that throw, Stop from a task), "
            "interleaved with Step(T) for T in {-1,0,1,2,5,10,100,+-(2^31-1)} and Run, under a virtual clock whose readings are chosen by a model-guided "
            "adaptive script generator. non-trivial: at least one task executed; distinct by case text.",
    "assumptions": ["single driving thread (cross-thread Shift/Cancel are serialised by the step mutex: C04)", "virtual clock"],
}


def main(tier, seed, replay=None):
    return run_sim_check(SPEC, tier, seed, replay)
