"""C01 — TCP byte-stream integrity and exact send accounting (plain sockets; TLS variant: see c18)."""
from common import *
from engine import run_sim_check
from sockcases import *

THEOREMS = ["send_accounting", "send_unlimited_complete", "send_prefix_on_failure", "bytes_on_wire",
            "recv_bounds", "recv_zero_is_closed", "recv_nothing_only_limited"]


def generate(rnd, tier):
    k = {"quick": 1000, "thorough": 12000, "search": 3000}[tier]
    return [gen_tcp_case(rnd, i, tier) if i % 5 else gen_acc_case(rnd, i, tier) for i in range(k)]


def project(tr):
    # send()/recv() calls with arguments and results, API results of send/receive ops, anomalies, end marker
    out = []
    for c, a in tr:
        if c in (3, 4):
            out.append((c, a))
        elif c == 20 and a[0] in (23, 24, 32):
            out.append((c, a[:3] if a[1] == 0 else a))
        elif c in (90, 98):
            out.append((c, a))
        elif c == 99:
            out.append((c, a[:2]))
    return out


def nontrivial_key(c, tr):
    sends = [a for k, a in tr if k == 3]
    recvs = [a for k, a in tr if k == 4]
    if len(sends) + len(recvs) < 2:
        return None
    return c.key()


def monitor(c, tr):
    cr = crashed(tr)
    if cr:
        return cr
    segs, _ = split_by_op(c, tr)
    for (opc, oa), seg, ret in segs:
        for k, a in seg:
            if k == 90 and a[0] in (1, 10, 11):
                return "content check failed (%s): bytes offered to send() / handed to the caller are not the stream's next bytes" % a
        if opc == 23:
            size, T = oa[1], oa[2]
            sends = [a for k, a in seg if k == 3]
            acc = 0
            for fd, ln, flags, r in sends:
                if ln != size - acc:
                    return "send() offered %d bytes, but %d of %d are still unsent" % (ln, size - acc, size)
                if r > 0:
                    acc += r
            if ret[1] == 1:
                n = ret[2]
                if n != acc:
                    return "Send returned %d but the OS accepted %d bytes" % (n, acc)
                if not (0 <= n <= size):
                    return "Send returned %d for size %d" % (n, size)
                if T < 0 and n != size:
                    return "Send with unlimited timeout returned %d of %d" % (n, size)
            else:
                if acc > size:
                    return "more accepted than offered"
        elif opc in (24, 32):
            recvs = [a for k, a in seg if k == 4]
            T = oa[2] if opc == 24 else oa[1]
            if ret[1] == 1:
                n = ret[2] if opc == 24 else (ret[3] if ret[2] != -1 else -1)
                if opc == 24 and n == -1 or opc == 32 and ret[2] == -1:
                    if recvs:
                        return "Receive reported nothing although recv() was called"
                    polls = [a for k, a in seg if k == 2]
                    if T < 0 and not (polls and polls[-1][1] == 0):
                        return "Receive with unlimited timeout returned nothing"
                else:
                    if not recvs or recvs[-1][2] != n:
                        return "Receive reported %d bytes, recv() returned %s" % (n, recvs[-1][2] if recvs else None)
                    if n < 1 or n > recvs[-1][1]:
                        return "Receive reported %d bytes for a buffer of %d" % (n, recvs[-1][1])
            else:
                if recvs and recvs[-1][2] == 0 and ret[2] != 3:
                    return "recv()==0 not reported as connection closed"
                if recvs and recvs[-1][2] > 0:
                    return "Receive threw although recv() delivered %d bytes (data lost)" % recvs[-1][2]
    return None


SPEC = {
    "id": "C01", "module": "Properties_C01", "theorems": THEOREMS, "harness": "sim",
    "generate": generate, "project": project, "nontrivial_key": nontrivial_key, "monitor": monitor,
    "distribution": distribution,
    "rule": "histories of Send/Receive on basic, buffered and accepted TCP sockets under a scripted kernel: send sizes 0..300000, "
            "timeouts {-1,-7,-2^31+1,0,1,2,5,100,999,2^31-1}, short writes at random offsets (1, n-1, n/2), send()==0, EAGAIN/EPIPE/ECONNRESET, "
            "recv 1..size / 0 (peer closed) / error, readiness before/at/after the deadline, POLLHUP/POLLERR readiness, poll errors, 0-5 EINTRs per wait. "
            "Payload bytes are position-coded, the virtual kernel verifies every byte offered to send() and the scenario every byte received. "
            "non-trivial: >= 2 send()/recv() calls; distinct by case text.",
    "assumptions": ["kernel TCP is a reliable FIFO byte stream (trusted; the virtual kernel delivers position-coded bytes)",
                    "TLS record layer not covered by this check (C18)"],
}


def main(tier, seed, replay=None):
    return run_sim_check(SPEC, tier, seed, replay)
