"""C17 — every legal API history on driver, sockets and ToDos is memory-safe."""
from common import *
from engine import run_sim_check
import drivercases as dc
from asyncchecks import *

THEOREMS = ["want_send_on_unlisted_is_noop", "unregister_tolerates_absent", "remove_tolerates_absent", "pfds_aligned_invariant", "promises_resolved_at_most_once_guard"]


def generate(rnd, tier):
    return dc.generate_driver(rnd, tier, 500)


def nontrivial_key(c, tr):
    n = sum(1 for k, a in tr if k == 20)
    return c.key() if n >= 4 else None


def monitor(c, tr):
    w = dc.monitor_async(c, tr)
    if w:
        return w
    for k, a in tr:
        if k == 99 and a[0] == 2:
            return "undefined behaviour reached (model code %d)" % a[1]
    return None


SPEC = {
    "id": "C17", "module": "Properties_C17", "theorems": THEOREMS, "harness": "sim", "flavour": "san",
    "generate": generate, "project": project_async, "nontrivial_key": nontrivial_key, "monitor": monitor,
    "distribution": distribution,
    "rule": "state-aware random walk over create / send / step / peer-action / destroy / cancel / shift on one driver, 1-3 async sockets of every class, "
            "pools and ToDos: sending on a socket whose peer already disconnected, destroying a socket inside its disconnect handler or with sends pending, "
            "destroying the driver before or after its sockets and ToDos, cancelling/shifting finished ToDos, stepping an empty driver; run in an isolated "
            "process under AddressSanitizer+UBSan with _GLIBCXX_SANITIZE_VECTOR and the library's asserts enabled. non-trivial: >= 4 operations.",
    "assumptions": ["logic-level validity of lookups/indices/lifetimes is what the model tracks; memory safety of the compiled code is evidenced by the sanitizer runs, not proved",
                    "usage rules respected by the generator: pools outlive buffers, at most N receive buffers held, no self-destruction in the receive handler"],
}


def main(tier, seed, replay=None):
    return run_sim_check(SPEC, tier, seed, replay)
